"""C10 - conversions prove equations about the given term; normal forms are canonical.   DESIGN.md section 6/C10

 S  spec/C10_Laws.tla       PolyOf (canonical finite map monomial -> coefficient), MemberSet, truth tables, ConvOK: the laws, stated once
    spec/C10_Rearr.tla      the REARRANGEMENT MACHINE: TLC explores the orbits of small seeds under Comm / Assoc / Distrib / Factor /
                            AddZero / MulOne / FoldNum / SucPlus / SubNeg / NegMul / Pow(Un)fold / Dup / Dedup / DeMorgan / DNeg;
                            invariants: every action preserves the polynomial resp. the member set and the truth table;
                            the dump of the reachable states = the vectors (an orbit = the states of one class)
    spec/C10_Terms.tla      input space of the traversal / rewriting combinators: TLC-generated terms with binders (lib/HolGen.tla +
                            a size-indexed generator) and the shapes their case analysis depends on
 T  spec/C10_ConvTrace.tla  ConvOK (IsEquation, LhsIsInput, HypsFromConds), Checked, EvalSame, OwnError, ValuePreserved, Idempotent on
                            every call; Canonical on every orbit
 ->  harness/drivers/c10.py  nat.norm_full, integer.int_norm_conv, real.real_norm_conv, auto.auto_conv, proplogic.norm_full / nnf_conv /
                            sort_conj / sort_disj, logic.conj_norm / disj_norm on every orbit member; 53 combinator expressions of
                            logic/conv.py (top/bottom/top_sweep/abs/arg/binop/then/else/try/repeat ... over rewr_conv with plain,
                            symmetric and CONDITIONAL rules, beta, eta) on every generated term; seeded random larger expressions
"""
import copy
import json
import time
from concurrent.futures import ThreadPoolExecutor

from harness.core import (MachineryError, model_check, read_events, require, run_driver, seed, spec_mutant, validate_trace,
                          work_dir, write_events, tlc)

TSPEC = "C10_ConvTrace"
SELF_BASE = 10 ** 8
CLAUSES = ["OwnError", "IsEquation", "LhsIsInput", "HypsFromConds", "Checked", "EvalSame", "ValuePreserved", "Idempotent", "Canonical"]


def _eq_parts(c):
    """(equality constant applied to lhs, rhs) of an encoded equation ["comb", ["comb", eq, lhs], rhs]."""
    return c[1][1], c[1][2], c[2]


def _corrupted(evs):
    """Binding self-test: one recorded field of a real event is changed; returns [(event, clause the T spec must report)]."""
    res = []

    def pick(pred, n=2):
        out = []
        for e in evs:
            if pred(e):
                out.append(copy.deepcopy(e))
                if len(out) >= n:
                    break
        return out
    ok_norm = lambda e: e["kind"] == "norm" and e["pt"]["o"] == "ok" and e["pt"]["th"]["c"][0] == "comb"
    changed = lambda e: ok_norm(e) and e["pt"]["th"]["c"][2] != e["x"]
    # OwnError: the recorded outcome becomes a foreign exception
    for c in pick(ok_norm):
        c["pt"]["o"], c["pt"]["exc"] = "other", "AssertionError"
        res.append((c, "OwnError"))
    # LhsIsInput: the input is replaced by the (different) right-hand side
    for c in pick(changed):
        c["x"], c["ax"] = c["pt"]["th"]["c"][2], ["none"]
        res.append((c, "LhsIsInput"))
    # IsEquation: the proposition is replaced by its left-hand side
    for c in pick(ok_norm):
        c["pt"]["th"]["c"] = c["x"]
        res.append((c, "IsEquation"))
    # HypsFromConds: a conditional rewrite whose condition is no longer supplied
    for c in pick(lambda e: e["kind"] == "comb" and e["pt"]["o"] == "ok" and e["pt"]["th"]["h"]):
        c["conds"] = []
        res.append((c, "HypsFromConds"))
    # Checked: the checker's sequent differs / the checker refused
    for c in pick(changed):
        c["chk"]["th"]["c"] = [c["chk"]["th"]["c"][0], c["chk"]["th"]["c"][1], c["x"]]
        res.append((c, "Checked"))
    for c in pick(ok_norm, 1):
        c["chk"] = {"o": "other", "exc": "CheckProofException", "th": {"h": [], "c": ["none"]}}
        res.append((c, "Checked"))
    # EvalSame: the fast evaluation reports another right-hand side
    for c in pick(lambda e: changed(e) and e["ev"]["o"] == "ok" and e["ev"]["th"] == e["pt"]["th"]):
        c["ev"]["th"]["c"] = [c["ev"]["th"]["c"][0], c["ev"]["th"]["c"][1], c["x"]]
        res.append((c, "EvalSame"))
    # ValuePreserved: the right-hand side is replaced by the normal form of an input of ANOTHER class (distinct normal forms of a
    # canonical normaliser; the T spec decides: at least one of the group must be flagged)
    for ty, mode, cv in (("nat", "arith", "nat_norm_full"), ("real", "arith", "real_norm"), ("bool", "conj", "conj_norm")):
        first = {}
        for e in evs:
            if changed(e) and e["ty"] == ty and e["mode"] == mode and e["cv"] == cv and e["src"] == "replay" and e["pt"]["th"]["c"][2][0] != "const":
                first.setdefault(json.dumps(e["pt"]["th"]["c"][2]), e)
                if len(first) >= 4:
                    break
        reps = list(first.values())
        for i in range(len(reps) - 1):
            c = copy.deepcopy(reps[i])
            c["pt"]["th"]["c"] = [c["pt"]["th"]["c"][0], c["pt"]["th"]["c"][1], reps[i + 1]["pt"]["th"]["c"][2]]
            res.append((c, "ValuePreserved?"))
    # Idempotent: normalising the normal form gives something else
    for c in pick(lambda e: changed(e) and e["src"] == "replay" and e["cv"] in ("nat_norm_full", "real_norm", "conj_norm") and e["idem"]["o"] == "ok"):
        eqc, lhs, rhs = _eq_parts(c["idem"]["th"]["c"])
        c["idem"]["th"]["c"] = ["comb", ["comb", eqc, lhs], c["x"]]
        res.append((c, "Idempotent"))
    # Canonical: one member of an orbit gets its own input as normal form
    for c in pick(lambda e: e["kind"] == "orbit" and e["src"] == "replay" and e["cv"] in ("nat_norm_full", "real_norm", "conj_norm", "disj_norm") and len(e["ms"]) >= 3
                  and any(m["x"] != m["rhs"] for m in e["ms"][1:])):
        for m in c["ms"][1:]:
            if m["x"] != m["rhs"]:
                m["rhs"] = m["x"]
                break
        res.append((c, "Canonical?"))
    # Canonical inside a history: an orbit recorded in a theory state that has the binary-arithmetic theorems
    for c in pick(lambda e: e["kind"] == "orbit" and e["src"] == "hist" and e["thy"]["binary"] and any(m["x"] != m["rhs"] for m in e["ms"][1:])):
        for m in c["ms"][1:]:
            if m["x"] != m["rhs"]:
                m["rhs"] = m["x"]
                break
        res.append((c, "Canonical"))
    for n, (c, _) in enumerate(res):
        c["tid"] = SELF_BASE + n
    return res


def run(rep, tier):
    quick = tier == "quick"
    wd = work_dir("C10", "run", clean=True)
    sfx = "small" if quick else "deep"
    t0 = time.time()
    phases = rep.notes.setdefault("phase_wall_s", {})

    def phase(name):
        nonlocal t0
        phases[name] = round(time.time() - t0, 1)
        t0 = time.time()
    rep.rule = ("TLC explores the rearrangement machine (Comm, Assoc, Distrib, Factor, AddZero, MulOne, FoldNum/SplitNum, SucPlus, SubNeg, "
                "NegMul, NegNeg, NegAdd, PowFold/Unfold, Dup/Dedup, DeMorgan, DNeg at every position) from every +,* tree with <= 3 leaves over "
                "{x, y, 0, 1, 2} at nat and at the ring types, hand-picked seeds with - uminus ^ Suc, CANCELLING members (a monomial added and "
                "subtracted, moved to every position by the actions), powers with exponents 0, 1, 2 over bases that cancel to 0 or to a "
                "constant, and truncated subtraction as an opaque "
                "atom, one chain per member set of <= 3 members over {A, B, ~A, ~B, true, false} (thorough: also C, ~C, A-->B, A|C) for /\\ and \\/ "
                "plus 27 wide seeds of 3-4 members over three atoms and three APPLICATION atoms x < y, f x = y, P (f y) (complementary pair on "
                "the smallest / a middle / the largest atom, two pairs, with true / false / a compound / a duplicated member) of which EVERY "
                "order and bracketing is reached, and negated "
                "formulas, growing to %s. An orbit = the reachable states of one class (polynomial / member set). Every "
                "orbit is replayed (at most %d members of an orbit: the smallest and a seeded sample; ring orbits at real and %s at int) through "
                "every normaliser of its kind. TLC enumerates all well-typed closed terms with binders of size <= %d over {x, y, f, 0, +} plus "
                "rule redexes nested / under binders / conditional, beta-redexes contracting to abstractions, eta-expansions; a seeded 1/%d of "
                "them (all conditional, abstraction-producing and nested-binder-with-redex ones) is run with up to three binder namings (every "
                "binder named like a free variable / every binder the same fresh name / all different) through 53 (quick: 35) combinator expressions; "
                "theory histories: one theory object extended item by item through nat.json, nat.norm_full on members of every nat orbit "
                "after each extension around the binary-arithmetic theorems (thorough: items 18..89, then every 12th), canonicity judged "
                "per theory state that has them; plus %d seeded random orbits of 4-7 leaf expressions (incl. application atoms). Non-trivial = the conversion returned an equation and the contract, the "
                "checker replay and the exact value clause (polynomial / truth table) were evaluated, or an orbit with at least two members "
                "of one class was compared; distinct by full event content."
                % (("3 leaves / 3 members / size 9", 20, "a quarter of them", 6, 7, 40) if quick else ("4 leaves / 4 members / size 11", 100, "all", 7, 3, 1000)))
    rep.assumptions = ["formal polynomial identity over variable atoms = equality of the denoted functions on nat / int / real (infinite domains); "
                       "with opaque atoms (truncated subtraction) a difference is only a divergence",
                       "canonicity and idempotence are demanded of nat.norm_full, real.real_norm_conv, auto.auto_conv (reals), proplogic.norm_full / "
                       "sort_conj / sort_disj, logic.conj_norm / disj_norm: the property names naturals, reals, conjunctions, disjunctions; "
                       "integer.int_norm_conv gets them only on power-free inputs whose polynomial is linear (the linear-arithmetic use of the normaliser); "
                       "beyond that, and for nnf_conv, only the contract, the checker replay, eval = proof term and value preservation",
                       "checker acceptance is theory.check_proof on pt.export() (soundness of the checker itself is C01/C02)",
                       "TLC/SANY, structural codec harness/codec.py, the syntactic reader of TLC's state dump, CPython"]
    dump = wd / "rearr"
    vec = wd / "terms.ndjson"
    mut_cfg = "C10_Rearr_mut.cfg"
    mutants = [("distrib_drops_factor", [("C10_Rearr.tla", '{ <<"+", <<"*", a, b[2]>>, <<"*", a, b[3]>> >> }', '{ <<"+", <<"*", a, b[2]>>, b[3]>> }')],
                ["PolyPreserved"])]
    if not quick:
        mutants += [
            ("dedup_drops_a_member", [("C10_Rearr.tla", "(IF a = b THEN {a} ELSE {})", "{a}")], ["MembersPreserved", "TablePreserved"]),
            ("de_morgan_keeps_connective", [("C10_Rearr.tla", '{ <<"or", Not(t[2][2]), Not(t[2][3])>> }', '{ <<"and", Not(t[2][2]), Not(t[2][3])>> }')],
             ["TablePreserved"]),
            ("factor_without_common_factor", [("C10_Rearr.tla", 'a[1] = "*" /\\ b[1] = "*" /\\ a[2] = b[2] THEN', 'a[1] = "*" /\\ b[1] = "*" THEN')],
             ["PolyPreserved"]),
            ("polynomial_sum_ignores_sign", [("C10_Laws.tla", '[] e[1] = "-" -> PAdd(PolyOf(e[2]), PNeg(PolyOf(e[3])))', '[] e[1] = "-" -> PAdd(PolyOf(e[2]), PolyOf(e[3]))')],
             ["PolyPreserved"]),
        ]
    # ---- design level: three independent JVMs side by side (rearrangement machine, term universe, specification mutants)
    with ThreadPoolExecutor(max_workers=3) as ex:
        f1 = ex.submit(model_check, "C10_Rearr", "C10_Rearr_%s.cfg" % sfx, wd=wd / "mc", workers=2 if quick else 3, timeout=3000,
                       extra=("-dump", str(dump)))
        f2 = ex.submit(model_check, "C10_Terms", "C10_Terms_%s.cfg" % sfx, wd=wd / "mc2", workers=1, env={"VECTOR_FILE": vec}, timeout=3000)
        f3 = ex.submit(lambda: [spec_mutant(rep, n, "C10_Rearr", mut_cfg, ed, exp, wd=wd, workers=1) for n, ed, exp in mutants])
        r1, r2 = f1.result(), f2.result()
        f3.result()
    phase("tlc_design_level")
    rep.add_mc("C10_Rearr", r1, sfx)
    rep.add_mc("C10_Terms", r2, sfx)
    for nm, r in (("C10_Rearr", r1), ("C10_Terms", r2)):
        if r.violated:
            rep.design_violation(nm, r)
            return
    rep.exhaustive = True
    dump_file = wd / "rearr.dump"
    require(dump_file.exists() and vec.exists(), "C10: TLC wrote no state dump / no term vectors")
    nterms = sum(1 for _ in open(vec))
    rep.notes["vectors"] = {"rearrangement_states": r1.distinct, "terms_with_binders": nterms}
    if '<< "terms"' in r2.out:
        rep.notes["term_universe"] = " ".join(r2.out[r2.out.find('<< "terms"'):].split(">>")[0].replace("<<", "").split())
    # ---- spec -> code: one driver process (theories loaded once), forked workers
    allp = wd / "events.ndjson"
    arith_mod, int_mod, comb_mod, nrand, cap = (1, 4, 7, 40, 20) if quick else (1, 1, 3, 1000, 100)
    p, _ = run_driver("c10", ["all", dump_file, vec, allp, 3 if quick else 4, arith_mod, int_mod, comb_mod, nrand, seed(), cap, 0 if quick else 1], timeout=6000)
    rep.notes["driver"] = p.stdout.strip().splitlines()[-5:]
    phase("driver")
    # ---- code -> spec: the validation of the events (3 JVMs) runs while Python reads them; the corrupted copies (binding
    #      self-test) are validated by a fourth run
    with ThreadPoolExecutor(max_workers=2) as ex:
        fv = ex.submit(validate_trace, TSPEC, allp, wd=wd / "tv", nchunks=3 if quick else 16, timeout=6000)
        evs = read_events(allp)
        require(len(evs) < SELF_BASE, "C10: tid ranges overlap")
        # every state of the machine came back from the dump reader (binding of the dump reader)
        m_states = [ln for ln in p.stdout.splitlines() if ln.startswith("norm:")]
        require(m_states and int(m_states[0].split()[1]) == r1.distinct, "C10: the dump reader saw %s, TLC found %d distinct states" % (m_states, r1.distinct))
        bad = _corrupted(evs)
        need = {"OwnError", "LhsIsInput", "IsEquation", "HypsFromConds", "Checked", "EvalSame", "ValuePreserved?", "Idempotent", "Canonical?"}
        require(need <= {c for _, c in bad}, "C10: self-test events could not be built for %s" % sorted(need - {c for _, c in bad}))
        write_events(wd / "selftest.ndjson", [c for c, _ in bad])
        vs = validate_trace(TSPEC, wd / "selftest.ndjson", wd=wd / "tv_self", nchunks=1, timeout=3000)
        v = fv.result()
    phase("tlc_trace_validation")
    flagged = {f["tid"]: set(f["fail"]) for f in v["fails"] + vs["fails"]}
    if any("Binding" in s for s in flagged.values()):
        t = [t for t, s in flagged.items() if "Binding" in s][:3]
        raise MachineryError("C10: the driver built terms that are not the vectors (events %s)" % t)
    by_src = {}
    for e in evs:
        by_src.setdefault(e["src"], []).append(e)
    tids = {s: {e["tid"] for e in es} for s, es in by_src.items()}
    for s, es in sorted(by_src.items()):
        part = {"consumed": len(es), "states": v["states"] if s == "replay" else 0, "wall": v["wall"], "info": [],
                "fails": [f for f in v["fails"] if f["tid"] in tids[s]],
                "nontrivial": [t for t in v["nontrivial"] if t in tids[s]],
                "divergences": [t for t in v["divergences"] if t in tids[s]]}
        rep.add_trace_result(s, es, part)
    # binding self-test: every corrupted event must be rejected with the clause it was built for ("?": at least one of the group)
    missed, hit = [], set()
    for c, cl in bad:
        got = flagged.get(c["tid"], set())
        if cl.endswith("?"):
            if cl[:-1] in got:
                hit.add(cl)
        elif cl not in got:
            missed.append((c["tid"], cl, sorted(got)))
    missed += [(0, cl, []) for cl in {c for _, c in bad if c.endswith("?")} - hit]
    require(not missed, "self-test: %s accepted corrupted events %s" % (TSPEC, missed[:5]))
    rep.notes.setdefault("selftests", []).append({"spec": TSPEC, "corrupted_events": len(bad), "all_rejected_with": sorted({cl.rstrip("?") for _, cl in bad})})
    # ---- counts (Python only counts)
    oc = {}
    for e in evs:
        if e["kind"] != "orbit":
            k = "%s/%s/%s" % (e["src"], e["cv"] if e["kind"] == "norm" else "combinators", e["pt"]["o"] if e["pt"]["o"] != "other" else "other:" + e["pt"]["exc"])
            oc[k] = oc.get(k, 0) + 1
    rep.notes["outcomes"] = oc
    rep.notes["orbit_events"] = sum(1 for e in evs if e["kind"] == "orbit")
    tr = rep.notes["traces"]
    require(tr["replay"]["nontrivial"] >= (2500 if quick else 20000), "C10: too few examined normaliser calls (vacuity guard): %s" % tr["replay"])
    require(tr["comb"]["nontrivial"] >= (4000 if quick else 20000), "C10: too few examined combinator calls (vacuity guard): %s" % tr["comb"])
    require(tr["hist"]["nontrivial"] >= (600 if quick else 6000), "C10: too few examined calls in theory histories (vacuity guard): %s" % tr["hist"])
    hs = [e for e in by_src["hist"] if e["kind"] == "orbit" and e["tid"] in set(v["nontrivial"])]
    require(sum(1 for e in hs if e["thy"]["binary"]) >= 50 and sum(1 for e in hs if e["thy"]["mult_comm"] and not e["thy"]["binary"]) >= 50,
            "C10: the histories do not cover theory states before and after the binary-arithmetic theorems (vacuity guard)")
    require(tr["rand"]["nontrivial"] >= (150 if quick else 3000), "C10: too few examined random inputs (vacuity guard): %s" % tr["rand"])
    cvs = {e["cv"] for e in evs if e["kind"] == "orbit" and e["tid"] in set(v["nontrivial"])}
    require({"nat_norm_full", "real_norm", "real_auto", "prop_norm_full", "sort_conj", "sort_disj", "conj_norm", "disj_norm"} <= cvs,
            "C10: some normaliser has no compared orbit (vacuity guard): %s" % sorted(cvs))
    require(sum(1 for e in by_src["comb"] if e["pt"]["o"] == "ok" and e["pt"]["th"]["h"]) >= 20, "C10: no conditional rewrite succeeded (vacuity guard)")


def replay(path):
    obj = json.load(open(path))
    wd = work_dir("C10", "replay1", clean=True)
    if obj.get("kind") != "event":
        print(json.dumps(obj, indent=1)[:3000])
        return 1
    e = obj["event"]
    write_events(wd / "in.ndjson", [e])
    run_driver("c10", ["event", wd / "in.ndjson", wd / "ev.ndjson"])
    v = validate_trace(TSPEC, wd / "ev.ndjson", wd=wd / "tv", nchunks=1)
    out = read_events(wd / "ev.ndjson")
    for o in out[:3]:
        if o["kind"] == "orbit":
            print("orbit of", len(o["ms"]), "members; distinct right-hand sides:", len({json.dumps(m["rhs"]) for m in o["ms"]}))
        else:
            print("outcome:", o["pt"]["o"], o["pt"]["exc"], " eval:", o["ev"]["o"], o["ev"]["exc"], " checked:", o["chk"]["o"], o["chk"]["exc"])
    print("events:", v["consumed"], "fails:", v["fails"][:10])
    if v["fails"]:
        print("VIOLATION property=C10 replay=%s" % path)
        return 1
    print("not reproduced on the current tree")
    return 0
