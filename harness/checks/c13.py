"""C13 - proof editing preserves the goal and keeps the partial proof checkable.   DESIGN.md section 6/C13

 S/I spec/C13_Editor.tla        identifier arithmetic of kernel/proof.py and the line edits of ProofState (add / remove / cite /
                                replace_id), with ghost uids, one level of nesting; TLC explores all sequences of <= 3 (thorough 4)
                                editing actions; invariants Contiguous, CitationsTrackItems, NoDanglingUnlessRemoved,
                                ReplacedCitationsFollow
 S   spec/C13_LineEdit.tla      the same layer on blocks nested to any depth (C13_Lines.tla = the statements about one step);
                                every behaviour of <= 2 (thorough: <= 3, and simulated ones of 8) actions is EMITTED and
 ->  harness/drivers/c13.py       `lineedit`: performed on a real ProofState through add_line_before / remove_line / replace_id /
                                  set_line, each step live or on a copy;
                                  `edit`: recorded library proofs replayed step by step on real ProofState objects (live / on a
                                  copy), seeded random walks of up to 4 further operations, ProofCache, and GENERATED editing
                                  sessions on generated goals (sibling scopes binding one name at different types, several
                                  exists_elim in one scope on copies, a cut cited from a later subproof then merged away,
                                  exists_elim with 1-3 names on nested existentials / across subproof lines / after a later
                                  elimination, introduction of an antecedent that an earlier line already states, facts with a
                                  typed beta-redex, closed arithmetic goals at nat, walks)
 T   spec/C13_EditorTrace.tla   after EVERY completed operation: Contiguous, CitationsVisibleEarlier, LastLineIsGoal, RecheckSucceeds,
                                GapsAreExactlySorries, GoalPreserved, NoGapsAccepted, ExportImport, CopyIsolated; HistoryIntact;
                                line edits: Contiguous, CitationsTrackItems, NoDangling, CopyIsolated (divergence: code /= spec)
"""
import copy
import json
import random
import time
from concurrent.futures import ThreadPoolExecutor

from harness.core import (MachineryError, REPO, model_check, read_events, require, run_driver, seed, spec_mutant, tlc,
                          validate_trace, work_dir, write_events)

# theorems of logic_base itself are not used: while it is being built the theory does not yet contain the base logic
# (the recorded proof of `trivial` needs the theorem `trivial`); the property quantifies over theories that contain it
QUICK_THEORIES = ["logic", "set"]
MORE = ["nat", "function", "list", "int", "real", "expr", "hoare"]
SHAPES = ["sibling-binders", "exists-twice", "cut-merged", "exists-nested", "intro-known", "redex-fact", "closed-arith", "shadow"]
NGEN = 9        # generators of sessions in harness/drivers/c13.py (one of them: free walks)
LE_OFFSET = 10 ** 6


def keyf(e):
    tags = e.get("tags") or []
    if "same-name-variables-at-different-types" in tags:
        return "state-has-same-name-variables-at-different-types"
    return e.get("key")


def part(v, tids):
    """the part of a verdict that concerns the events with the given tids"""
    return {"consumed": len(tids), "fails": [f for f in v["fails"] if f["tid"] in tids],
            "nontrivial": [t for t in v["nontrivial"] if t in tids], "divergences": [t for t in v["divergences"] if t in tids],
            "states": 0, "wall": v.get("wall", 0)}


def run(rep, tier):
    quick = tier == "quick"
    wd = work_dir("C13", "run", clean=True)
    rnd = random.Random(seed())
    rep.rule = ("TLC: all sequences of <= %d editing actions (add/remove line, cite, replace_id) on a 3-line proof with a block; all "
                "behaviours of <= %d line edits on proofs with nested blocks, each one performed on a real ProofState (spec -> code). "
                "Real code: every recorded step of seeded library theorems replayed on ProofState (live or on a copy), seeded random "
                "walks of <= 4 operations, generated editing sessions, ProofCache insert_step; one event per completed operation, "
                "judged on 9 clauses (line edits: 4). Non-trivial = every edit/cache event and every line edit that completed; "
                "distinct by full projected state." % (3 if quick else 4, 2 if quick else 3))
    rep.assumptions = ["z3 steps are not re-run (check_z3 = False, as server/monitor.py)", "sequents are interned through the structural codec",
                       "operations that raise are not judged (the property is conditional on completion); the driver continues from the state before",
                       "line edits: lines carry a stated sequent, so the editing functions' check_proof(compute_only=True) only checks the "
                       "numbering; a citation left dangling by a plain remove_line of a cited line is not judged"]
    theories = list(QUICK_THEORIES)
    if quick:
        theories.append(rnd.choice(MORE[:5]))
        n_per, nsess, max_steps = 8, 72, 20        # quick: sampled theorems with at most 20 recorded steps
    else:
        theories += MORE
        n_per, nsess, max_steps = 60, 900, 0
    evp = wd / "edit.ndjson"
    # the library / session driver runs while TLC works on the line-edit layer
    pool = ThreadPoolExecutor(max_workers=1)
    fut = pool.submit(run_driver, "c13", ["edit", evp, seed(), n_per, ",".join(theories), nsess, max_steps], timeout=7200)
    t0 = time.time()
    timing = rep.notes.setdefault("timing_s", {})
    try:
        r = model_check("C13_Editor", "C13_Editor_small.cfg" if quick else "C13_Editor_deep.cfg", wd=wd / "mc", workers=2, timeout=3000)
        rep.add_mc("C13_Editor", r, "MaxOps=%d" % (3 if quick else 4))
        if r.violated:
            rep.design_violation("C13_Editor", r)
            return
        logs = []
        runs = [("C13_LineEdit_small.cfg", "all behaviours of <= 2 actions, 12 lines, blocks nested twice", None)]
        if not quick:
            runs.append(("C13_LineEdit_deep.cfg", "all behaviours of <= 3 actions, 6 lines", None))
            runs.append(("C13_LineEdit_inv.cfg", "invariants only, <= 4 actions, 12 lines", None))
            runs.append(("C13_LineEdit_sim.cfg", "simulated behaviours of 8 actions", "num=1200"))
        for cfg, what, sim in runs:
            if sim:
                rl = tlc("C13_LineEdit", cfg, wd=wd / "mc", simulate=sim, depth=12, seed_=seed() + 1, timeout=3000)
                require(rl.rc == 0 or rl.violated, "C13_LineEdit simulation failed: %s" % rl.error)
            else:
                rl = model_check("C13_LineEdit", cfg, wd=wd / "mc", workers=1, timeout=6000)
            rep.add_mc("C13_LineEdit(%s)" % what, rl, cfg)
            if rl.violated:
                rep.design_violation("C13_LineEdit", rl)
                return
            logs.append(rl.out)
        rep.exhaustive = True
        (wd / "lineedit_vectors.log").write_text("\n".join(logs))
        lep = wd / "lineedit.ndjson"
        timing["tlc_specs"] = round(time.time() - t0, 1)
        _, timing["driver_lineedit"] = run_driver("c13", ["lineedit", wd / "lineedit_vectors.log", lep, seed()], timeout=7200)
        t1 = time.time()
        spec_mutant(rep, "add_line_does_not_renumber_prevs", "C13_Editor", "C13_Editor_small.cfg",
                    [("C13_Editor.tla", "ELSE MapItem(prf[i-1], inc, inc, 1)]", "ELSE MapItem(prf[i-1], inc, LAMBDA x : x, 1)]")],
                    ["CitationsTrackItems", "NoDanglingUnlessRemoved", "Contiguous"], wd=wd, workers=2)
        spec_mutant(rep, "lineedit_replace_id_same_level_only", "C13_LineEdit", "C13_LineEdit_small.cfg",
                    [("C13_LineEdit.tla", "IF LPrevs(p[i])[k] = old THEN new", "IF LPrevs(p[i])[k] = old /\\ Len(LId(p[i])) = Len(old) THEN new")],
                    ["CitationsTrackItems", "NoDangling"], wd=wd, workers=1)
        if not quick:
            spec_mutant(rep, "replace_id_same_level_only", "C13_Editor", "C13_Editor_small.cfg",
                        [("C13_Editor.tla", "p1 == [i \\in 1..Len(prf) |-> MapItem(prf[i], same, re, 1)]",
                          "p1 == [i \\in 1..Len(prf) |-> MapItem(prf[i], same, re, 0)]")], ["ReplacedCitationsFollow"], wd=wd, workers=2)
        timing["spec_mutants"] = round(time.time() - t1, 1)
        timing["driver_edit (in parallel with the above)"] = round(fut.result()[1], 1)
    finally:
        pool.shutdown(wait=True)
    evs = read_events(evp)
    les = read_events(lep)
    for e in les:
        e["tid"] += LE_OFFSET
    allp = wd / "all.ndjson"
    write_events(allp, evs + les)
    v = validate_trace("C13_EditorTrace", allp, wd=wd / "tv", nchunks=1 if quick else 4)
    rep.states += v.get("states", 0)
    timing["trace_validation"] = round(v["wall"], 1)
    rep.add_trace_result("edit", evs, part(v, {e["tid"] for e in evs}), keyf=keyf, sample_n=1)
    rep.add_trace_result("lineedit", les, part(v, {e["tid"] for e in les}), sample_n=1)
    rep.samples = [{"trace": s["trace"], "event": {k: x for k, x in s["event"].items() if k not in ("expimp", "copy", "before", "after", "expect")}}
                   if isinstance(s.get("event"), dict) else s for s in rep.samples]
    rep.notes["theories"] = theories
    # ---- what was exercised (counts only)
    ne = sum(1 for e in evs if e["kind"] == "edit")
    nc = sum(1 for e in evs if e["kind"] == "cache")
    nle = sum(1 for e in les if not e["raised"])
    rep.notes["events_by_kind"] = {"edit": ne, "cache": nc, "lineedit": len(les), "lineedit_raised": len(les) - nle}
    rep.notes["lineedit_ops"] = {op: sum(1 for e in les if e["op"][0] == op) for op in ("add", "remove", "cite", "replace")}
    rep.notes["lineedit_on_copy"] = sum(1 for e in les if e["copy"][0])
    rep.notes["lineedit_max_depth"] = max([e["depth"] for e in les] or [0])
    sess = {}
    for e in evs:
        if e.get("session") and e.get("done"):
            d = sess.setdefault(e["shape"].split(":")[0], {"completed": 0, "shape_occurred": 0, "variants": {}})
            d["completed"] += 1
            d["shape_occurred"] += 1 if e.get("shape_ok") else 0
            d["variants"][e["shape"]] = d["variants"].get(e["shape"], 0) + 1
    rep.notes["generated_sessions"] = {"asked": nsess, "by_shape": sess,
                                       "events": sum(1 for e in evs if e.get("session")),
                                       "walk_events": sum(1 for e in evs if e["kind"] == "edit" and e["route"].startswith("walk"))}
    rep.notes["walk_depths"] = {str(d): sum(1 for e in evs if e["kind"] == "edit" and e["route"].startswith("walk") and e["route"].endswith(".%d" % d))
                                for d in (1, 2, 3, 4)}
    rep.notes["methods"] = {}
    for e in evs:
        if e["kind"] == "edit":
            rep.notes["methods"][e["method"]] = rep.notes["methods"].get(e["method"], 0) + 1
    rep.notes["copy_isolation_events"] = sum(1 for e in evs if e["kind"] == "edit" and e["copy"][0])
    # ---- binding self-tests (one TLC run): break the numbering / drop a reported gap / change a printed argument of the original
    # under a copy / redirect a citation after a line edit
    bad = []

    def corrupt(pred, change, clause):
        for e in evs + les:
            if pred(e):
                c = copy.deepcopy(e)
                change(c)
                c["tid"] = 2 * LE_OFFSET + len(bad)
                bad.append((c, clause))
                return
        raise MachineryError("C13 self-test: no event to corrupt for clause %s" % clause)

    def bump(c):
        c["lines"][2][0][-1] += 1

    def dropgap(c):
        c["recheck"][1] = c["recheck"][1][1:]

    def chgarg(c):
        c["copy"][2]["exp"][0][2] += " x"

    def recite(c):
        for ln in c["after"]:
            if ln[2]:
                ln[2][0] = [x for x in (l[0] for l in c["after"]) if x != ln[2][0]][0]
                return

    corrupt(lambda e: e["kind"] == "edit" and e["recheck"][0] and len(e["lines"]) >= 4, bump, "Contiguous")
    corrupt(lambda e: e["kind"] == "edit" and e["recheck"][0] and e["sorries"], dropgap, "GapsAreExactlySorries")
    corrupt(lambda e: e["kind"] == "edit" and e["copy"][0] and e["copy"][2]["exp"], chgarg, "CopyIsolated")
    corrupt(lambda e: e["kind"] == "lineedit" and not e["raised"] and e["op"][0] == "add" and any(ln[2] for ln in e["after"]), recite,
            "CitationsTrackItems")
    stp = wd / "selftest.ndjson"
    write_events(stp, [c for c, _ in bad])
    sv = validate_trace("C13_EditorTrace", stp, wd=wd / "selftest_tv", nchunks=1)
    got = {f["tid"]: set(f["fail"]) for f in sv["fails"]}
    for c, clause in bad:
        require(clause in got.get(c["tid"], set()), "self-test: C13_EditorTrace accepted an event corrupted for clause %s (got %s)" % (
            clause, sorted(got.get(c["tid"], []))))
    rep.notes["selftests"] = [{"spec": "C13_EditorTrace", "corrupted_field_for": clause, "rejected": True} for _, clause in bad]
    # ---- vacuity guards
    require(ne >= (150 if quick else 3000) and nc >= 1, "C13: too few events (vacuity guard): %d edit, %d cache" % (ne, nc))
    require(nle >= (3000 if quick else 30000), "C13: too few completed line edits (vacuity guard): %d of %d" % (nle, len(les)))
    require(all(rep.notes["lineedit_ops"][op] >= 100 for op in rep.notes["lineedit_ops"]), "C13: a line-edit action is hardly exercised: %s" % rep.notes["lineedit_ops"])
    done = sum(d["completed"] for d in sess.values())
    scripted = nsess * (NGEN - 1) // NGEN
    require(done >= scripted * 3 // 5, "C13: too few generated sessions completed: %d of %d scripted" % (done, scripted))
    for sh in SHAPES:
        require(sess.get(sh, {}).get("shape_occurred", 0) >= (3 if quick else 30),
                "C13: the session shape %s did not really occur often enough: %s" % (sh, sess.get(sh)))
    require(rep.notes["walk_depths"]["3"] + rep.notes["walk_depths"]["4"] >= (5 if quick else 100), "C13: random walks never got deeper than 2: %s" % rep.notes["walk_depths"])


def replay(path):
    obj = json.load(open(path))
    if obj.get("kind") != "event":
        print(json.dumps(obj, indent=1)[:3000])
        return 1
    e = obj["event"]
    print("event", e.get("key"), "clause", obj["clause"])
    print("re-validating the recorded event; `./check C13 quick` re-executes the edits against the current tree")
    wd = work_dir("C13", "replay1", clean=True)
    write_events(wd / "ev.ndjson", [e])
    v = validate_trace("C13_EditorTrace", wd / "ev.ndjson", wd=wd / "tv", nchunks=1)
    print("fails:", v["fails"])
    if v["fails"]:
        print("VIOLATION property=C13 replay=%s" % path)
        return 1
    return 0
