"""C13 - proof editing preserves the goal and keeps the partial proof checkable.   DESIGN.md section 6/C13

 S/I spec/C13_Editor.tla        identifier arithmetic of kernel/proof.py and the line edits of ProofState, with ghost uids;
                                TLC explores all sequences of <= 3 (thorough 4) editing actions; invariants Contiguous,
                                CitationsTrackItems, NoDanglingUnlessRemoved
 ->  harness/drivers/c13.py     recorded library proofs replayed step by step on real ProofState objects (live / on a copy), seeded
                                perturbations (other methods, goals, facts, cut/cases/new_var/introduction/revert_intro), ProofCache
 T   spec/C13_EditorTrace.tla   after EVERY completed operation: Contiguous, CitationsVisibleEarlier, LastLineIsGoal, RecheckSucceeds,
                                GapsAreExactlySorries, GoalPreserved, NoGapsAccepted, ExportImport, CopyIsolated; HistoryIntact
"""
import copy
import json
import random

from harness.core import (MachineryError, REPO, model_check, read_events, require, run_driver, seed, selftest_trace,
                          spec_mutant, validate_trace, work_dir)

# theorems of logic_base itself are not used: while it is being built the theory does not yet contain the base logic
# (the recorded proof of `trivial` needs the theorem `trivial`); the property quantifies over theories that contain it
QUICK_THEORIES = ["logic", "set"]
MORE = ["nat", "function", "list", "int", "real", "expr", "hoare"]


def keyf(e):
    tags = e.get("tags") or []
    if "same-name-variables-at-different-types" in tags:
        return "state-has-same-name-variables-at-different-types"
    return e.get("key")


def run(rep, tier):
    quick = tier == "quick"
    wd = work_dir("C13", clean=True)
    rnd = random.Random(seed())
    rep.rule = ("TLC: all sequences of <= %d editing actions (add/remove line, cite) on a 3-line proof with a block. Real code: every "
                "recorded step of seeded library theorems replayed on ProofState (live or on a copy), seeded perturbations, ProofCache "
                "insert_step; one event per completed operation, judged on 9 clauses. Non-trivial = every edit/cache event; distinct by "
                "full projected state." % (3 if quick else 4))
    rep.assumptions = ["z3 steps are not re-run (check_z3 = False, as server/monitor.py)", "sequents are interned through the structural codec",
                       "operations that raise are not judged (the property is conditional on completion); the driver continues from the state before"]
    r = model_check("C13_Editor", "C13_Editor_small.cfg" if quick else "C13_Editor_deep.cfg", wd=wd / "mc", workers=4, timeout=3000)
    rep.add_mc("C13_Editor", r, "MaxOps=%d" % (3 if quick else 4))
    if r.violated:
        rep.design_violation("C13_Editor", r)
        return
    rep.exhaustive = True
    spec_mutant(rep, "add_line_does_not_renumber_prevs", "C13_Editor", "C13_Editor_small.cfg",
                [("C13_Editor.tla", "ELSE MapItem(prf[i-1], inc, inc, 1)]", "ELSE MapItem(prf[i-1], inc, LAMBDA x : x, 1)]")],
                ["CitationsTrackItems", "NoDanglingUnlessRemoved", "Contiguous"], wd=wd, workers=4)
    theories = list(QUICK_THEORIES)
    if quick:
        theories.append(rnd.choice(MORE[:5]))
        n_per = 8
    else:
        theories += MORE
        n_per = 60
    evp = wd / "edit.ndjson"
    run_driver("c13", ["edit", evp, seed(), n_per, ",".join(theories)], timeout=7200)
    evs = read_events(evp)
    v = validate_trace("C13_EditorTrace", evp, wd=wd / "tv", nchunks=1 if quick else 3)
    rep.add_trace_result("edit", evs, v, keyf=keyf, sample_n=1)
    rep.samples = [{"trace": s["trace"], "event": {k: x for k, x in s["event"].items() if k not in ("expimp", "copy", "before", "after", "expect")}}
                   if isinstance(s.get("event"), dict) else s for s in rep.samples]
    rep.notes["theories"] = theories
    # binding self-tests: break the numbering / drop a reported gap / change the original under a copy
    bad = []
    for e in evs:
        if e["kind"] == "edit" and e["recheck"][0] and len(e["lines"]) >= 4 and len(bad) < 1:
            c = copy.deepcopy(e)
            c["lines"][2][0][-1] += 1
            c["tid"] = 10 ** 6
            bad.append(c)
    selftest_trace(rep, "C13_EditorTrace", bad, "Contiguous", wd=wd)
    bad = []
    for e in evs:
        if e["kind"] == "edit" and e["recheck"][0] and e["sorries"] and len(bad) < 1:
            c = copy.deepcopy(e)
            c["recheck"][1] = c["recheck"][1][1:]
            c["tid"] = 10 ** 6 + 1
            bad.append(c)
    selftest_trace(rep, "C13_EditorTrace", bad, "GapsAreExactlySorries", wd=wd)
    ne = sum(1 for e in evs if e["kind"] == "edit")
    nc = sum(1 for e in evs if e["kind"] == "cache")
    rep.notes["events_by_kind"] = {"edit": ne, "cache": nc}
    require(ne >= (100 if quick else 2000) and nc >= 1, "C13: too few events (vacuity guard): %d edit, %d cache" % (ne, nc))


def replay(path):
    obj = json.load(open(path))
    if obj.get("kind") != "event":
        print(json.dumps(obj, indent=1)[:3000])
        return 1
    e = obj["event"]
    print("event", e.get("key"), "clause", obj["clause"])
    print("re-validating the recorded event; `./check C13 quick` re-executes the edits against the current tree")
    from harness.core import write_events
    wd = work_dir("C13", "replay1", clean=True)
    write_events(wd / "ev.ndjson", [e])
    v = validate_trace("C13_EditorTrace", wd / "ev.ndjson", wd=wd / "tv", nchunks=1)
    print("fails:", v["fails"])
    if v["fails"]:
        print("VIOLATION property=C13 replay=%s" % path)
        return 1
    return 0
