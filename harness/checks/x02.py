"""X02 - exporting a proof term gives a checkable, faithfully numbered linear proof; proofs survive the JSON round trip;
ItemID arithmetic agrees with the tree of lines.                                        statement: extras/X02.md

 S   spec/X02_Export.tla   a proof term is built node by node (rules of lib/Kernel.tla, a theorem, stated gaps, atoms = lines of the
                           enclosing proof), exported below / beside the goal line of an enclosing proof (none, goal at <<2>>, goal at
                           <<1,1>> in a block), embedded the way the callers do; invariants = the clauses of spec/X02_Defs.tla
                           (Contiguous, CitationsEarlierVisible, LastLineIsSequent, LineProvesItsNode, SharedOnce, GapsAreSorries,
                           WholeContiguous, WholeCitations, GoalStillStated) + the reference checker on every line (WholeChecks)
 S   spec/X02_ItemId.tla   the tree of lines by position (pre-order depths) under Insert / Remove against the identifier arithmetic
 ->  harness/drivers/x02.py  every behaviour printed by the S specifications is performed on the real code (ProofTerm(...), export,
                           embed, theory.check_proof, ProofState.export_proof, json, server.parse_proof; ProofState.add_line_before /
                           remove_line, ItemID methods); seeded larger proof terms and hosts; the library macros' proof terms on
                           recorded proofs; seeded longer edit histories
 T   spec/X02_Trace.tla    every step of every behaviour judged with the SAME definitions (X02_Defs): the reference export is recomputed
                           from the DAG the real constructors produced; code /= reference without a failing clause is a divergence
"""
import copy
import json
import os
import random
import shutil
import time
from concurrent.futures import ThreadPoolExecutor

from harness.core import (MachineryError, model_check, read_events, require, run_driver, seed, spec_mutant, validate_trace,
                          work_dir, write_events)

TSPEC = "X02_Trace"
QUICK_THEORIES = ["logic", "set"]
MORE = ["nat", "function", "list", "int", "real", "expr", "hoare"]


def keyf(e):
    # one root cause, one key: the printed line that cannot be parsed back, by its rule
    ln = (e.get("rt") or {}).get("line") if e.get("kind") == "export" else None
    if ln:
        return "printed-line-not-parsable:%s" % ln["rule"]
    return e.get("key")


def corrupt(evs, rnd):
    """binding self-test: ONE recorded field of a real event is changed; returns [(event, clause that must reject it)]"""
    out = []

    def take(pred, n=2):
        c = [e for e in evs if pred(e)]
        rnd.shuffle(c)
        return [copy.deepcopy(e) for e in c[:n]]
    ok = lambda e: e["kind"] == "export" and e["built"] and e["exp"]["ok"] and e["chk"]["ok"]
    for e in take(lambda e: ok(e) and len(e["exp"]["lines"]) >= 2 and e["exp"]["lines"][-1]["prevs"]):
        e["exp"]["lines"][0]["prevs"] = [e["exp"]["lines"][-1]["id"]]                 # the first line cites the last one
        out.append((e, "CitationsEarlierVisible"))
    for e in take(lambda e: ok(e) and len(e["exp"]["lines"]) >= 2):
        e["exp"]["lines"][-1]["id"][-1] += 1                                           # a hole in the numbering
        out.append((e, "Contiguous"))
    for e in take(lambda e: ok(e) and len(e["exp"]["lines"]) >= 2 and e["exp"]["lines"][0]["th"] != e["exp"]["lines"][-1]["th"]):
        e["exp"]["lines"][-1]["th"] = e["exp"]["lines"][0]["th"]                       # the last line states another sequent
        out.append((e, "LastLineIsSequent"))
    fresh = lambda e: [x for x in e["exp"]["lines"][:-1] if x["rule"] == "assume" and x["th"] not in e.get("gaps", [])]
    for e in take(lambda e: ok(e) and len(e["exp"]["lines"]) >= 3 and fresh(e)):
        ln = fresh(e)[0]
        ln["rule"] = "sorry"                                                           # a derived line presented as a gap
        out.append((e, "GapsAreSorries"))
    for e in take(lambda e: ok(e) and e["rt"]["ok"] and len(e["rt"]["lines"]) >= 2 and e["rt"]["lines"][-1]["prevs"]):
        e["rt"]["lines"][-1]["prevs"] = e["rt"]["lines"][-1]["prevs"][:-1]             # a citation lost by the round trip
        out.append((e, "RoundTripSame"))
    for e in take(lambda e: ok(e) and e["rt"]["ok"]):
        e["chk"]["ok"] = False                                                         # the checker refused the exported proof
        out.append((e, "ExportedProofChecks"))
    for e in take(lambda e: ok(e) and e["emb"]["ok"] and e["host"] and not e["sub"] and len(e["exp"]["lines"]) >= 2):
        gi = e["pfx"]
        for ln in e["emb"]["lines"]:
            # the later line of the enclosing proof still cites the goal's OLD place
            if ln["prevs"] == [e["exp"]["lines"][-1]["id"]] and ln["id"] not in [x["id"] for x in e["exp"]["lines"]]:
                ln["prevs"] = [gi]
        out.append((e, "GoalStillStated"))
    ids = lambda e: e["kind"] == "ids" and not e["raised"]
    for e in take(lambda e: ids(e) and len(e["after"]) >= 3):
        e["after"][-1]["id"][-1] += 1
        out.append((e, "IdentifierIsPosition"))
    for e in take(lambda e: ids(e) and len(e["dep"]) >= 4):
        e["dep"][1][2] = not e["dep"][1][2]
        out.append((e, "DependsIsVisibility"))
    for e in take(lambda e: ids(e) and e["op"][0] == "ins"):
        e["arith"][-1][0] += 1
        out.append((e, "ArithmeticIsPosition"))
    for k, (e, _) in enumerate(out):
        e["tid"] = 10 ** 7 + k
    return out


def run(rep, tier):
    quick = tier == "quick"
    wd = work_dir("X02", "run_%d" % os.getpid(), clean=True)
    try:
        _run(rep, quick, wd)
    finally:
        if not os.environ.get("VERIF_KEEP"):          # failing events are kept under replays/X02; the scratch (TLC logs up to 100 MB) is not
            shutil.rmtree(wd, ignore_errors=True)


def _run(rep, quick, wd):
    rnd = random.Random(seed())
    maxn = 4 if quick else 6
    from harness.core import REPO, VERIF
    if str(REPO) == "/repo":
        shutil.rmtree(VERIF / "replays" / "X02", ignore_errors=True)       # replays of earlier runs are stale
    rep.rule = ("TLC: every proof-term DAG of <= %d nodes (premises = any earlier nodes, every node used, one numbering per DAG) over assume/sorry/"
                "reflexive/theorem leaves, atoms, implies_intr/symmetric/substitution, implies_elim/equal_elim/transitive, x 3 enclosing "
                "proofs x subproof flag, exported and embedded by the reference; every behaviour replayed on the real code%s. ItemID: all "
                "sequences of <= %d insert/remove steps on 3 nested shapes. Real code: seeded proof terms of up to ~30 nodes in random hosts, "
                "library macro proof terms on recorded proofs, seeded edit histories. One event per behaviour (export: build, export, "
                "embed, check, print+parse) / per edit step, judged on every clause. Non-trivial = export completed inside its domain / edit "
                "completed; distinct by full event." % (maxn, "" if quick else " (all of <= 5 nodes, a seeded sample of 5000 of the 6-node ones)",
                                                       2 if quick else 3))
    rep.assumptions = ["sequents and rule arguments are interned through the structural codec (equality = equality of de Bruijn encodings)",
                       "round trip is examined only when one context can declare all variables of the proof (no name at two types)",
                       "a gap of the proof term that is absorbed by an earlier derivation of the same sequent is reported as a divergence, "
                       "not as a violation (the exported proof then has fewer gaps than ProofTerm.gaps)",
                       "export(prefix of depth 0, subproof=False) is outside the domain (there is no sibling position to start from)",
                       "TLC/SANY, CPython, z3 steps of recorded proofs are not re-run"]
    timing = rep.notes.setdefault("timing_s", {})
    pool = ThreadPoolExecutor(max_workers=3)
    t0 = time.time()
    # ---- S specifications (in parallel with the library driver, which does not depend on them)
    theories = list(QUICK_THEORIES) + ([rnd.choice(MORE[:4])] if quick else MORE)
    lib_ev = wd / "lib.ndjson"
    f_lib = pool.submit(run_driver, "x02", ["library", lib_ev, seed(), 10 if quick else 80, ",".join(theories)], timeout=7200)
    f_ids = pool.submit(model_check, "X02_ItemId", "X02_ItemId_small.cfg" if quick else "X02_ItemId_deep.cfg", wd=wd / "mc_ids", workers=1,
                        timeout=7200)
    cfg = "X02_Export_deep.cfg" if quick else "X02_Export_deepest.cfg"
    r = model_check("X02_Export", cfg, wd=wd / "mc", workers=2 if quick else 4, timeout=7200)
    rep.add_mc("X02_Export", r, "%s (MaxNodes=%d)" % (cfg, maxn))
    if r.violated:
        rep.design_violation("X02_Export", r)
        return
    rep.exhaustive = True
    timing["mc_export"] = round(time.time() - t0, 1)
    # ---- spec -> code: the behaviours of X02_Export (the log of MaxNodes=n contains every behaviour of fewer nodes too)
    vec_p = wd / "vec.ndjson"
    p, _ = run_driver("x02", ["vectors", wd / "mc" / ("X02_Export.%s.tlc.log" % cfg[:-4]), vec_p] + ([] if quick else [5, 5000, seed()]))
    events = read_events(vec_p)
    rep.notes["vectors"] = {"driver": p.stdout.strip().splitlines()[-2:], "replayed": len(events)}
    # ---- code -> spec: seeded proof terms, library
    rnd_ev = wd / "rnd.ndjson"
    run_driver("x02", ["random", 400 if quick else 6000, rnd_ev, seed()])
    events += read_events(rnd_ev)
    f_lib.result()
    events += read_events(lib_ev)
    # ---- identifiers
    ri = f_ids.result()
    rep.add_mc("X02_ItemId", ri, "MaxOps=%d" % (2 if quick else 3))
    if ri.violated:
        rep.design_violation("X02_ItemId", ri)
        return
    ids_ev = wd / "ids.ndjson"
    run_driver("x02", ["idsvec", wd / "mc_ids" / ("X02_ItemId.%s.tlc.log" % ("X02_ItemId_small" if quick else "X02_ItemId_deep")), ids_ev])
    idr_ev = wd / "idsrnd.ndjson"
    run_driver("x02", ["idsrnd", 40 if quick else 600, idr_ev, seed()])
    events += read_events(ids_ev) + read_events(idr_ev)
    for k, e in enumerate(events):
        e["tid"] = k + 1
    timing["drivers"] = round(time.time() - t0, 1)
    # ---- binding self-test events ride in the same TLC run (tids >= 10^7), mutants run beside it
    bad = corrupt(events, rnd)
    allp = wd / "events.ndjson"
    write_events(allp, events + [e for e, _ in bad])
    f_tv = pool.submit(validate_trace, TSPEC, allp, wd=wd / "tv", nchunks=1 if quick else 3, timeout=7200)
    muts = [("export_without_sharing", "X02_Export", "X02_Export_small.cfg",
             [("X02_Defs.tla", "ELSE IF N[p].th \\in DOMAIN acc.map THEN", "ELSE IF FALSE THEN")], ["SharedOnce"]),
            ("citations_not_moved_with_siblings", "X02_Export", "X02_Export_small.cfg",
             [("X02_Defs.tla", "[H[gi + i] EXCEPT !.id = mv(@), !.prevs = [k \\in 1..Len(@) |-> mv(@[k])]]", "[H[gi + i] EXCEPT !.id = mv(@)]")],
             ["GoalStillStated", "WholeChecks", "WholeCitations"])]
    if not quick:
        muts += [("incr_id_after_strict", "X02_ItemId", "X02_ItemId_small.cfg",
                  [("X02_Defs.tla", "SubSeq(self, 1, k - 1) = SubSeq(start, 1, k - 1) /\\ self[k] >= start[k]",
                    "SubSeq(self, 1, k - 1) = SubSeq(start, 1, k - 1) /\\ self[k] > start[k]")], ["ArithmeticIsPosition", "NewLinesNumbered"]),
                 ("siblings_numbered_from_one", "X02_Export", "X02_Export_small.cfg",
                  [("X02_Defs.tla", "ELSE Append(XParent(pfx), pfx[Len(pfx)] + k)", "ELSE Append(XParent(pfx), pfx[Len(pfx)] + k + 1)")],
                  ["Contiguous", "WholeContiguous"])]
    for name, mod, cfg, edits, expect in muts:
        spec_mutant(rep, name, mod, cfg, edits, expect, wd=wd, workers=1)
    timing["mutants"] = round(time.time() - t0, 1)
    v = f_tv.result()
    timing["trace_validation"] = round(time.time() - t0, 1)
    # ---- self-test verdicts are taken out of the verdict before it is reported
    expect = {e["tid"]: c for e, c in bad}
    got = {f["tid"]: set(f["fail"]) for f in v["fails"] if f["tid"] in expect}
    missed = [(t, c) for t, c in expect.items() if c not in got.get(t, set())]
    rep.notes["selftests"] = [{"spec": TSPEC, "corrupted_events": len(bad), "rejected_with": sorted(set(expect.values()) - {c for _, c in missed}),
                               "accepted": missed[:5]}]
    v = {"consumed": v["consumed"] - len(bad), "fails": [f for f in v["fails"] if f["tid"] not in expect],
         "nontrivial": [t for t in v["nontrivial"] if t not in expect], "divergences": [t for t in v["divergences"] if t not in expect],
         "info": [i for i in v["info"] if i["tid"] not in expect], "states": v.get("states", 0), "wall": v.get("wall", 0)}
    # one replay file per failing event is kept for at most 3 events per (clause, key); the totals go to the evidence
    by_tid = {e["tid"]: e for e in events}
    counts, kept = {}, []
    for f in v["fails"]:
        ks = ["%s|%s" % (c, keyf(by_tid[f["tid"]])) for c in sorted(f["fail"])]
        if any(counts.get(k, 0) < 3 for k in ks):
            kept.append(f)
        for k in ks:
            counts[k] = counts.get(k, 0) + 1
    rep.notes["failing_events_by_key"] = dict(sorted(counts.items(), key=lambda kv: -kv[1])[:40])
    v["fails"] = kept
    rep.add_trace_result("behaviours", events, v, keyf=keyf)
    # ---- coverage of the sharing patterns / actions (vacuity guards)
    tags = {}
    fam_of = {e["tid"]: e.get("fam") for e in events}
    for i in v["info"]:
        for t in i["tags"]:
            k = "%s/%s" % (fam_of.get(i["tid"]), t)
            tags[k] = tags.get(k, 0) + 1
    rep.notes["patterns"] = dict(sorted(tags.items()))
    rules = {}
    for e in events:
        if e["kind"] == "export" and e["fam"] == "tlc":
            for n in e["nodes"]:
                rules[n["rule"]] = rules.get(n["rule"], 0) + 1
    rep.notes["rules_in_tlc_behaviours"] = rules
    fams = {}
    nt = set(v["nontrivial"])
    for e in events:
        k = "%s/%s" % (e["kind"], e.get("fam"))
        fams.setdefault(k, [0, 0])
        fams[k][0] += 1
        fams[k][1] += e["tid"] in nt
    rep.notes["families"] = {k: {"events": a, "nontrivial": b} for k, (a, b) in sorted(fams.items())}
    exc = {}
    for e in events:
        if e["kind"] == "export":
            for st in ("exp", "emb", "chk", "rt"):
                if e.get(st, {}).get("exc"):
                    k = "%s/%s: %s" % (e["fam"], st, e[st]["exc"][:70])
                    exc[k] = exc.get(k, 0) + 1
    rep.notes["exceptions"] = dict(sorted(exc.items(), key=lambda kv: -kv[1])[:12])
    if rep.violations:
        return                       # a witnessed violation is reported as such; the guards below are about runs that pass
    require(not missed, "X02 self-test: the trace specification accepted corrupted events %s" % missed[:5])
    require(len(set(expect.values())) >= 8, "X02: self-test could not corrupt enough kinds of events: %s" % sorted(set(expect.values())))
    for r in ("assume", "sorry", "reflexive", "theorem", "atom", "implies_intr", "symmetric", "substitution", "implies_elim", "equal_elim",
              "transitive"):
        require(rules.get(r, 0) >= 5, "X02: rule %s hardly occurs in the replayed behaviours (action never taken?)" % r)
    for t, m in (("tlc/cited-twice", 50), ("tlc/equal-sequent-other-derivation", 50), ("tlc/duplicate-node", 5), ("tlc/gap-repeated", 3),
                 ("tlc/gap-absorbed", 1), ("tlc/atoms", 50), ("tlc/siblings", 100), ("tlc/subproof", 100), ("tlc/round-trip", 500),
                 ("rnd/cited-twice", 30), ("rnd/duplicate-node", 10), ("rnd/atoms", 20), ("rnd/siblings", 30), ("rnd/round-trip", 150),
                 ("lib/round-trip", 50), ("lib/atoms", 20), ("lib/cited-twice", 3)):
        require(tags.get(t, 0) >= m, "X02: pattern %s exercised only %d times (< %d): vacuity guard" % (t, tags.get(t, 0), m))
    require(fams.get("ids/tlc", [0, 0])[1] >= 200 and fams.get("ids/rnd", [0, 0])[1] >= 100, "X02: too few identifier edits examined")
    ops = {}
    for e in events:
        if e["kind"] == "ids" and e["tid"] in nt:
            ops[e["op"][0]] = ops.get(e["op"][0], 0) + 1
    rep.notes["identifier_edits"] = ops
    require(ops.get("ins", 0) >= 100 and ops.get("rem", 0) >= 50, "X02: insert / remove steps hardly examined: %s" % ops)


def replay(path):
    """Re-run one recorded failing event against the current code and re-validate it (stored event when it cannot be regenerated)."""
    obj = json.load(open(path))
    if obj.get("kind") != "event":
        print(json.dumps(obj, indent=1)[:3000])
        return 1
    e = obj["event"]
    wd = work_dir("X02", "replay_%d" % os.getpid(), clean=True)
    evp = wd / "ev.ndjson"
    regenerated = False
    try:
        if e.get("kind") == "export" and e.get("fam") == "rnd":
            _, sd, it = e["key"].split(":")
            run_driver("x02", ["random", int(it) + 1, wd / "all.ndjson", int(sd)])
            evs = [x for x in read_events(wd / "all.ndjson") if x["key"] == e["key"]]
            if evs:
                write_events(evp, evs)
                regenerated = True
        elif e.get("kind") == "ids":
            (wd / "v.log").write_text('<<"X02I", %s>>\n' % json.dumps(json.dumps([{"op": e["op"], "before": e["D"], "after": []}])))
            run_driver("x02", ["idsvec", wd / "v.log", evp])
            regenerated = True
    except MachineryError as ex:
        print("could not regenerate:", str(ex)[:300])
    if not regenerated:
        print("event is re-validated as recorded (family %s is not regenerated one by one)" % e.get("fam"))
        write_events(evp, [e])
    v = validate_trace(TSPEC, evp, wd=wd / "tv", nchunks=1)
    print("events:", v["consumed"], "fails:", v["fails"])
    shutil.rmtree(wd, ignore_errors=True)
    if v["fails"]:
        print("VIOLATION property=X02 replay=%s" % path)
        return 1
    print("not reproduced on the current tree")
    return 0
