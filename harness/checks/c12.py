"""C12 - loading a theory depends only on the library files, not on process history.   DESIGN.md section 6/C12

 I  spec/C12_Loader.tla (PlusCal)  the loader of logic/basic.py with the global theory, cache, timestamps, sys.modules, module import
                                   side effects and injected parse failures; constants generated from the repository
                                   (spec/gen/C12_Graph.tla: import graph, lazy-import table, traced module bodies)
 ->  harness/drivers/c12.py        every history runs in a fresh subprocess (loads with limits, module imports, injected failures,
                                   file edits on a scratch copy of library/, a cyclic library), projecting theory.thy after each load
 T  spec/C12_LoaderTrace.tla       LoadSucceeds / MissingLimitIsError / CycleIsError / ReturnsExpected / SameAsFresh on every load event
"""
import json
import os
import random
import re
import shutil
import subprocess
from concurrent.futures import ThreadPoolExecutor

from harness.core import (MachineryError, REPO, SPEC, VERIF, JOBS, model_check, read_events, require, run_driver, seed,
                          selftest_trace, tlc, validate_trace, work_dir, write_events)

SIDE_EFFECT_RE = re.compile(r"^basic\.load_theory\(", re.M)


def q(s):
    return '"' + str(s).replace("\\", "\\\\").replace('"', '\\"') + '"'


def tla_seq(xs):
    return "<<" + ", ".join(xs) + ">>"


def discover_modules():
    """python modules of the repository with a module-level basic.load_theory(...)"""
    mods = []
    for root, dirs, files in os.walk(REPO):
        dirs[:] = [d for d in dirs if d not in (".git", "node_modules", "tests", "__pycache__", "library", "users")]
        for f in files:
            if f.endswith(".py"):
                p = os.path.join(root, f)
                try:
                    src = open(p, encoding="utf-8", errors="replace").read()
                except OSError:
                    continue
                if SIDE_EFFECT_RE.search(src):
                    rel = os.path.relpath(p, REPO)[:-3].replace(os.sep, ".")
                    mods.append(rel)
    return sorted(mods)


def trace_module(m, wd):
    out = wd / ("mt_%s.json" % m)
    run_driver("c12", ["modtrace", m, out], timeout=600)
    return json.load(open(out))


def body_of(trace, m):
    """direct children of the execution of module m: ('import', child) / ('load', theory) in order"""
    ev = trace["events"]
    body, depth, inside = [], 0, False
    for k, n in ev:
        if not inside:
            if k == "begin" and n == m:
                inside, depth = True, 0
            continue
        if k in ("begin", "load"):
            if depth == 0:
                body.append(["import" if k == "begin" else "load", n])
            depth += 1
        else:
            if depth == 0:
                break
            depth -= 1
    return body


def subtree_has_load(trace, m):
    ev = trace["events"]
    inside, depth = False, 0
    for k, n in ev:
        if not inside:
            if k == "begin" and n == m:
                inside, depth = True, 0
            continue
        if k == "load":
            return True
        if k == "begin":
            depth += 1
        elif k == "end":
            if depth == 0:
                return False
            depth -= 1
    return False


def gen_graph(wd):
    gp = wd / "graph.json"
    run_driver("c12", ["graph", gp])
    g = json.load(open(gp))
    lazy = dict(g["lazy"])
    seeds = sorted(set(discover_modules()) | set(lazy.values()))
    seeds = [m for m in seeds if not m.startswith(("app.", "paraverifier.", "geometry.", "holsmt.", "integral."))]
    bodies, todo, traces = {}, list(seeds), {}
    with ThreadPoolExecutor(max_workers=min(JOBS, 3)) as ex:
        for m, t in zip(todo, ex.map(lambda mm: trace_module(mm, wd), todo)):
            traces[m] = t
    while todo:
        m = todo.pop(0)
        if m in bodies:
            continue
        if m not in traces:
            traces[m] = trace_module(m, wd)
        t = traces[m]
        body = [c for c in body_of(t, m) if c[0] == "load" or subtree_has_load(t, c[1])]
        bodies[m] = body
        for k, c in body:
            if k == "import" and c not in bodies:
                todo.append(c)
    bodies = {m: b for m, b in bodies.items()}
    # modules whose body (after pruning) is empty have no effect: drop them and references to them
    changed = True
    while changed:
        changed = False
        for m in list(bodies):
            nb = [c for c in bodies[m] if c[0] == "load" or (c[1] in bodies and bodies[c[1]])]
            if nb != bodies[m]:
                bodies[m] = nb
                changed = True
    bodies = {m: b for m, b in bodies.items() if b}
    lib = g["library"]
    ths = sorted(lib)
    lines = ["------------------------------ MODULE C12_Graph ------------------------------",
             "(* GENERATED from the repository by harness/checks/c12.py: import graph of library/*.json, lazy-import table of *)",
             "(* logic/basic.py, and the theory loads performed by importing each side-effecting module (traced).          *)",
             "EXTENDS C12_Loader",
             "cTheories == {" + ", ".join(q(t) for t in ths) + "}",
             "cImports == " + " @@ ".join("(%s :> %s)" % (q(t), tla_seq(q(i) for i in lib[t]["imports"])) for t in ths),
             "cModules == {" + ", ".join(q(m) for m in sorted(bodies)) + "}",
             "cLazy == [t \\in cTheories |-> " + " ".join("IF t = %s THEN %s ELSE" % (q(t), q(m)) for t, m in sorted(lazy.items()) if m in bodies) + ' "none"]',
             "cBody == " + (" @@ ".join("(%s :> %s)" % (q(m), tla_seq(tla_seq([q(k), q(c)]) for k, c in bodies[m])) for m in sorted(bodies)) or "<<>>"),
             "============================================================================="]
    (SPEC / "gen").mkdir(exist_ok=True)
    (SPEC / "gen" / "C12_Graph.tla").write_text("\n".join(lines) + "\n")
    return g, bodies, lazy


def write_cfg(path, op_theories, op_modules, maxops, restore, tslast, fault=True, invariant=True):
    path.write_text("""SPECIFICATION Spec
CONSTANTS
  Theories <- cTheories
  Imports <- cImports
  Modules <- cModules
  LazyImport <- cLazy
  ModuleBody <- cBody
  OpTheories = {%s}
  OpModules = {%s}
  MaxOps = %d
  RestoreThy = %s
  TimestampLast = %s
  AllowFault = %s
  defaultInitValue = defaultInitValue
%sCHECK_DEADLOCK FALSE
""" % (", ".join(q(t) for t in op_theories), ", ".join(q(m) for m in op_modules), maxops, restore, tslast, "TRUE" if fault else "FALSE",
       "INVARIANT Good\n" if invariant else ""))


H_RE = re.compile(r'^<<"H", (<<.*>>), "(\w+)", "([^"]+)", "(\w+)", (TRUE|FALSE)>>$')


def parse_hist_lines(out):
    res = []
    for ln in out.splitlines():
        m = H_RE.match(ln.strip())
        if m:
            hist = re.findall(r'<<"(\w+)", "([^"]+)">>', m.group(1))
            res.append((hist, m.group(2), m.group(3), m.group(4), m.group(5) == "TRUE"))
    return res


def script_of(hid, ops, lib=None):
    return {"hid": hid, "lib": lib, "ops": ops}


def op_of(kind, target):
    if kind == "import":
        return {"op": "import", "module": target}
    return {"op": kind, "name": target}


def run_history(script, wd):
    sp = wd / ("h_%s.json" % script["hid"])
    op = wd / ("h_%s.ndjson" % script["hid"])
    json.dump(script, open(sp, "w"))
    p, _ = run_driver("c12", ["run", sp, op], timeout=900, check=False)
    evs = read_events(op) if op.exists() else []
    if len(evs) != len(script["ops"]):
        raise MachineryError("history %s: %d of %d operations logged; stderr: %s" % (script["hid"], len(evs), len(script["ops"]), p.stderr[-1500:]))
    return evs


def run(rep, tier):
    quick = tier == "quick"
    rnd = random.Random(seed())
    wd = work_dir("C12", clean=True)
    rep.rule = ("Histories of loader operations (load with/without limit, module import, load with injected parse failure, file edit, "
                "cyclic library), each executed in a fresh subprocess of the real code; sources: counterexample and sample histories of "
                "the TLC model on the real import graph, plus seeded families. Non-trivial = a load event judged by the trace "
                "specification; distinct by (history, operation, outcome, projection digest).")
    rep.assumptions = ["canonical reference = fresh process with all side-effecting modules imported first; the name-level Expected set is "
                       "computed by TLC from the library files' import graph and per-item extension names",
                       "file edits are made on a scratch copy of library/ (path helpers redirected); nothing under /repo is written"]
    # ---------------- design level: the loader model on the small diamond (all histories) and on the real graph
    r = model_check("C12_LoaderMC", "C12_LoaderMC_fixed.cfg", wd=wd / "mc", workers=4)
    rep.add_mc("C12_LoaderMC(fixed mechanism, 4-theory chain, all histories of <= 3 operations)", r, "MaxOps=3")
    if r.violated:
        rep.design_violation("C12_LoaderMC", r)
        return
    for variant in ("norestore", "tsfirst"):
        rv = tlc("C12_LoaderMC", "C12_LoaderMC_%s.cfg" % variant, wd=wd / "mc", workers=4)
        require("Good" in rv.violated, "C12 mutant model %s must violate Good" % variant)
        rep.notes.setdefault("spec_mutants", []).append({"mutant": "loader_" + variant, "caught_by": ["Good"]})
    g, bodies, lazy = gen_graph(wd)
    lib = g["library"]
    rep.notes["graph"] = {"theories": len(lib), "modules_with_loads": {m: b for m, b in bodies.items()}, "lazy": lazy}
    # theories reachable through module side effects / lazy imports are the interesting ones
    hot = sorted({c for b in bodies.values() for k, c in b if k == "load"} | set(lazy))
    hot = [t for t in hot if t in lib]
    dependents = sorted(t for t in lib if any(h in lib[t]["imports"] for h in hot))
    op_th = sorted(set(hot[:4] + dependents[:2])) if quick else sorted(set(hot + dependents[:6]))
    op_mod = sorted(bodies)[:3] if quick else sorted(bodies)
    cfgp = wd / "C12_Graph_fixed.cfg"
    write_cfg(cfgp, op_th, op_mod, 2, "TRUE", "TRUE")
    rg = model_check(str(SPEC / "gen" / "C12_Graph.tla"), str(cfgp), wd=wd / "mc", workers=4, timeout=3000)
    rep.add_mc("C12_Graph(real import graph, fixed mechanism)", rg, "ops over %s + %s, MaxOps=2" % (op_th, op_mod))
    if rg.violated:
        rep.design_violation("C12_Graph", rg)
        return
    rep.exhaustive = True
    # histories on which the as-coded variants misbehave in the model: the discriminating ones
    model_hists = []
    for variant, (rs, ts) in (("norestore", ("FALSE", "TRUE")), ("tsfirst", ("TRUE", "FALSE"))):
        cp = wd / ("C12_Graph_%s.cfg" % variant)
        write_cfg(cp, op_th, op_mod, 2, rs, ts, invariant=False)      # no invariant: every history end is printed
        rv = tlc(str(SPEC / "gen" / "C12_Graph.tla"), str(cp), wd=wd / "mc", workers=1, timeout=1200)
        require(rv.rc == 0, "C12 variant model %s failed: %s" % (variant, rv.error))
        bad = [h for h in parse_hist_lines(rv.out) if h[1] == "load" and (h[3] != "none" or not h[4])]
        rep.notes.setdefault("model_counterexample_histories", {})[variant] = len(bad)
        rnd.shuffle(bad)
        model_hists += [(variant, h) for h in bad[:(3 if quick else 40)]]
    good_lines = parse_hist_lines(rg.out)
    rnd.shuffle(good_lines)
    model_hists += [("sample", h) for h in good_lines[:(3 if quick else 60)]]
    # ---------------- histories to execute
    scripts = []
    all_modules = sorted(bodies)
    canon_ths = sorted(set(op_th) | {"logic_base", "nat"})
    hid = 0

    def add(ops, lib_=None, cyclic=False):
        nonlocal hid
        hid += 1
        s = script_of("h%03d" % hid, ops, lib_)
        s["cyclic"] = cyclic
        scripts.append(s)
    for variant, (hist, kind, target, exc, okf) in model_hists:
        add([op_of(k, t) for k, t in hist] + [op_of(kind, target)])
    seen_th = set()
    for s in scripts:
        for o in s["ops"]:
            if "name" in o:
                seen_th.add(o["name"])
    canon_ths = sorted(set(canon_ths) | seen_th)
    pick = lambda xs: rnd.choice(xs)
    # limits: valid (middle item), missing, start
    for th in ([pick(["nat"] + op_th)] if quick else ["nat", "logic_base"] + op_th):
        its = lib[th]["items"]
        named = [it for it in its if it[1]]
        if named:                      # a theory file may have no named item at all (only imports)
            mid = named[len(named) // 2]
            add([{"op": "load", "name": th, "limit": mid}])
        add([{"op": "load", "name": pick(canon_ths)}, {"op": "load", "name": th, "limit": ["thm", "verif_no_such_item"]}])
        add([{"op": "load", "name": th, "limit": "start"}, {"op": "load", "name": th}])
    # injected failure, then the same load again / a dependent load
    for th in ([pick(op_th)] if quick else op_th):
        add([{"op": "fault", "name": th}, {"op": "load", "name": th}])
        deps = lib[th]["imports"]
        if deps:
            add([{"op": "fault", "name": deps[-1]}, {"op": "load", "name": th}])
    # scratch copies of the library: edits and a cycle
    scratch = wd / "lib_edit"
    shutil.copytree(REPO / "library", scratch)
    th = "nat"
    add([{"op": "load", "name": th}, {"op": "touch", "name": th, "const": "verif_new_c1"}, {"op": "load", "name": th}], str(scratch))
    scratch2 = wd / "lib_edit2"
    shutil.copytree(REPO / "library", scratch2)
    add([{"op": "load", "name": "int"}, {"op": "touch", "name": "nat", "const": "verif_new_c2"}, {"op": "load", "name": "int"},
         {"op": "load", "name": "nat"}], str(scratch2))
    scratch3 = wd / "lib_edit3"
    shutil.copytree(REPO / "library", scratch3)
    add([{"op": "load", "name": "nat"}, {"op": "touch", "name": "nat", "const": "verif_new_c3", "mtime_delta": -10},
         {"op": "load", "name": "nat"}], str(scratch3))
    # a file is given another import list after it (or its new import) was loaded: the metadata must follow the files
    if "expr" in lib and "set" in lib and "set" not in lib["expr"]["imports"]:
        scratch4 = wd / "lib_edit4"
        shutil.copytree(REPO / "library", scratch4)
        more = lib["expr"]["imports"] + ["set"]
        add([{"op": "load", "name": "expr"}, {"op": "reimport", "name": "expr", "imports": more}, {"op": "load", "name": "expr"}], str(scratch4))
        if not quick:
            scratch5 = wd / "lib_edit5"
            shutil.copytree(REPO / "library", scratch5)
            add([{"op": "load", "name": "set"}, {"op": "reimport", "name": "expr", "imports": more}, {"op": "load", "name": "expr"},
                 {"op": "load", "name": "set"}], str(scratch5))
    cyc = wd / "lib_cycle"
    shutil.copytree(REPO / "library", cyc)
    d = json.load(open(cyc / "logic.json", encoding="utf-8"))
    d["imports"] = d["imports"] + ["nat"]          # nat imports logic: logic -> nat -> logic
    json.dump(d, open(cyc / "logic.json", "w", encoding="utf-8"))
    add([{"op": "load", "name": "nat"}], str(cyc), cyclic=True)
    add([{"op": "load", "name": "logic_base"}, {"op": "load", "name": "logic"}], str(cyc), cyclic=True)
    if not quick:
        for _ in range(60):
            n = rnd.randint(2, 4)
            ops = []
            for _ in range(n):
                c = rnd.random()
                if c < 0.55:
                    ops.append({"op": "load", "name": pick(canon_ths)})
                elif c < 0.8:
                    ops.append({"op": "import", "module": pick(all_modules)})
                else:
                    ops.append({"op": "fault", "name": pick(canon_ths)})
            ops.append({"op": "load", "name": pick(canon_ths)})
            add(ops)
    for s in scripts:
        for o in s["ops"]:
            if "name" in o and o["name"] in lib:
                canon_ths = sorted(set(canon_ths) | {o["name"]})
    # ---------------- canonical process: all side-effecting modules first, then every theory of interest
    canon_ops = [{"op": "import", "module": m} for m in all_modules]
    canon_ops += [{"op": "load", "name": "logic_base", "limit": "start"}]
    for th in canon_ths:
        canon_ops.append({"op": "load", "name": th})
    canon_ops.append({"op": "items", "names": sorted(lib)})
    cevs = run_history(script_of("canon", canon_ops), wd)
    canon = {}
    base = None
    items_tab = None
    for e in cevs:
        if e["op"] == "load" and e["outcome"] == "ok":
            if e["limit"] == ["start", "start"]:
                base = e["installed"]
            else:
                canon[e["name"]] = e["digest"]
        if e["op"] == "items":
            items_tab = e.get("items")
    rep.notes["canonical"] = {"loaded_ok": sorted(canon), "failed": [[e.get("name", e.get("module")), e["outcome"], e.get("message", "")[:80]]
                                                                    for e in cevs if e["outcome"] != "ok"]}
    if items_tab is None or base is None:
        # even the canonical history cannot load: fall back to item tables without extension names (ReturnsExpected unevaluable)
        items_tab = items_tab or {}
    lines = ["------------------------------ MODULE C12_Items ------------------------------",
             "(* GENERATED: import graph and item tables (kind, name, parsed?, extension names) of the library files *)",
             "EXTENDS Naturals, Sequences, TLC",
             "cImports == " + " @@ ".join("(%s :> %s)" % (q(t), tla_seq(q(i) for i in lib[t]["imports"])) for t in sorted(lib)),
             "cBase == {" + ", ".join("<<%d, %s>>" % (k, q(n)) for k, n in (base or [])) + "}",
             "cItems == " + (" @@ ".join("(%s :> %s)" % (q(t), tla_seq(
                 "<<%s, %s, %s, %s>>" % (q(ty), q(nm), "TRUE" if ok else "FALSE", tla_seq("<<%d, %s>>" % (k, q(n)) for k, n in exts))
                 for ty, nm, ok, exts in items_tab[t])) for t in sorted(items_tab)) or "<<>>"),
             "============================================================================="]
    (SPEC / "gen" / "C12_Items.tla").write_text("\n".join(lines) + "\n")
    # ---------------- execute the histories (fresh subprocess each)
    with ThreadPoolExecutor(max_workers=min(JOBS, 3)) as ex:
        results = list(ex.map(lambda s: run_history(s, wd), scripts))
    events = []
    tid = 0
    for s, evs in zip(scripts, results):
        for e in evs:
            tid += 1
            e["tid"] = tid
            e["cyclic"] = bool(s.get("cyclic"))
            e.setdefault("name", "")
            e.setdefault("limit", ["none", "none"])
            e["canon"] = "none"
            if e["op"] == "load" and not e["edits"] and not e.get("reimports") and not e["cyclic"] and e["limit"] == ["none", "none"]:
                e["canon"] = canon.get(e["name"], "none")
            e["key"] = "%s after %s" % (json.dumps([e["op"], e["name"], e["limit"]]), json.dumps(e["hist"]))
            e.pop("items", None)
            events.append(e)
    # the canonical loads themselves are events too (judged by the name-level Expected)
    for e in cevs:
        if e["op"] == "load":
            tid += 1
            e.update({"tid": tid, "cyclic": False, "canon": "none", "key": "canonical %s" % e["name"]})
            e.pop("items", None)
            events.append(e)
    evp = wd / "events.ndjson"
    write_events(evp, events)
    v = validate_trace("C12_LoaderTrace", evp, wd=wd / "tv", nchunks=1)
    rep.add_trace_result("histories", events, v, sample_n=2)
    rep.notes["histories_run"] = len(scripts) + 1
    for s in rep.samples:
        if isinstance(s.get("event"), dict):
            s["event"].pop("installed", None)
    # binding self-test: drop a theorem from the recorded projection / corrupt the digest
    bad = []
    for e in events:
        if e["op"] == "load" and e["outcome"] == "ok" and e["canon"] != "none" and len(bad) < 1:
            c = json.loads(json.dumps(e))
            c["installed"] = [x for x in c["installed"] if x[0] != 2][:-1] + [x for x in c["installed"] if x[0] == 2][:-1]
            c["tid"] = 10 ** 6 + len(bad)
            bad.append(c)
    if bad:
        selftest_trace(rep, "C12_LoaderTrace", bad, "ReturnsExpected", wd=wd)
    require(rep.notes["traces"]["histories"]["nontrivial"] >= (15 if quick else 100), "C12: too few load events judged")


def replay(path):
    obj = json.load(open(path))
    if obj.get("kind") != "event":
        print(json.dumps(obj, indent=1)[:3000])
        return 1
    e = obj["event"]
    print("history:", e["hist"], "then", e["op"], e.get("name"), e.get("limit"), "->", e["outcome"], e.get("message", ""))
    print("clause:", obj["clause"], "; re-run `./check C12 quick` to re-execute the histories against the current tree")
    wd = work_dir("C12", "replay1", clean=True)
    ops = [op_of(k, t) if k not in ("touch", "reimport") else None for k, t in e["hist"]]
    if None in ops or e.get("cyclic") or e.get("edits") or e.get("reimports"):
        return 1
    lim = e.get("limit")
    ops.append({"op": "load", "name": e["name"], "limit": None if lim == ["none", "none"] else ("start" if lim == ["start", "start"] else lim)})
    evs = run_history(script_of("replay", ops), wd)
    print("now:", [(x["op"], x.get("name"), x["outcome"], x.get("message", "")[:80]) for x in evs])
    if evs[-1]["outcome"] != "ok" or (e["canon"] != "none" and evs[-1]["digest"] != e["canon"]):
        print("VIOLATION property=C12 replay=%s" % path)
        return 1
    return 0
