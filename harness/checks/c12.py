"""C12 - loading a theory depends only on the library files, not on process history.   DESIGN.md section 6/C12

 I  spec/C12_Loader.tla (PlusCal)  the loader of logic/basic.py with the global theory, the cache (remembered imports, timestamps, parsed
                                   content), sys.modules, module import side effects, injected parse failures AND the library files
                                   themselves (created / removed / given other imports / items inserted and deleted at a position between
                                   loads); mechanism deviations (norestore, tsfirst, stalemeta, keepentry, limitpos, staledeps) are chosen in
                                   Init.  Instances: spec/C12_LoaderMC.tla (chain, edit, files: all short histories over 2-5 files) and the
                                   real import graph (generated C12_Graph.tla: lazy-import table, traced module bodies)
 ->  harness/drivers/c12.py        every history runs in a fresh subprocess (loads with limits, module imports, injected failures, file
                                   operations on a scratch copy of library/), projecting theory.thy after each load
 T  spec/C12_LoaderTrace.tla       LoadSucceeds / MissingLimitIsError / CycleIsError / MissingFileIsError / ReturnsExpected / SameAsFresh on
                                   every load event; the state of the library is computed in TLA+ from the log of file operations
 Histories: those on which a deviating mechanism goes wrong in the model (mapped to real theories), samples of the good mechanism,
 sibling histories from the import graph, files created / removed, position-aware edits with limits, seeded families.
 Generated modules and all scratch live in .work/C12/run_<pid>/ (concurrent runs do not collide).
"""
import json
import os
import random
import re
import resource
import shutil
import subprocess
import time
from concurrent.futures import ThreadPoolExecutor

from harness.core import (MachineryError, REPO, SPEC, VERIF, JOBS, model_check, read_events, require, run_driver, seed,
                          selftest_trace, tlc, validate_trace, work_dir, write_events)

SIDE_EFFECT_RE = re.compile(r"^basic\.load_theory\(", re.M)


def q(s):
    return '"' + str(s).replace("\\", "\\\\").replace('"', '\\"') + '"'


def tla_seq(xs):
    return "<<" + ", ".join(xs) + ">>"


def discover_modules():
    """python modules of the repository with a module-level basic.load_theory(...)"""
    mods = []
    for root, dirs, files in os.walk(REPO):
        dirs[:] = [d for d in dirs if d not in (".git", "node_modules", "tests", "__pycache__", "library", "users")]
        for f in files:
            if f.endswith(".py"):
                p = os.path.join(root, f)
                try:
                    src = open(p, encoding="utf-8", errors="replace").read()
                except OSError:
                    continue
                if SIDE_EFFECT_RE.search(src):
                    rel = os.path.relpath(p, REPO)[:-3].replace(os.sep, ".")
                    mods.append(rel)
    return sorted(mods)


def trace_module(m, wd):
    out = wd / ("mt_%s.json" % m)
    run_driver("c12", ["modtrace", m, out], timeout=600)
    return json.load(open(out))


def body_of(trace, m):
    """direct children of the execution of module m: ('import', child) / ('load', theory) in order"""
    ev = trace["events"]
    body, depth, inside = [], 0, False
    for k, n in ev:
        if not inside:
            if k == "begin" and n == m:
                inside, depth = True, 0
            continue
        if k in ("begin", "load"):
            if depth == 0:
                body.append(["import" if k == "begin" else "load", n])
            depth += 1
        else:
            if depth == 0:
                break
            depth -= 1
    return body


def subtree_has_load(trace, m):
    ev = trace["events"]
    inside, depth = False, 0
    for k, n in ev:
        if not inside:
            if k == "begin" and n == m:
                inside, depth = True, 0
            continue
        if k == "load":
            return True
        if k == "begin":
            depth += 1
        elif k == "end":
            if depth == 0:
                return False
            depth -= 1
    return False


def gen_graph(wd):
    gp = wd / "graph.json"
    run_driver("c12", ["graph", gp])
    g = json.load(open(gp))
    lazy = dict(g["lazy"])
    seeds = sorted(set(discover_modules()) | set(lazy.values()))
    seeds = [m for m in seeds if not m.startswith(("app.", "paraverifier.", "geometry.", "holsmt.", "integral."))]
    bodies, todo, traces = {}, list(seeds), {}
    with ThreadPoolExecutor(max_workers=min(JOBS, 3)) as ex:
        for m, t in zip(todo, ex.map(lambda mm: trace_module(mm, wd), todo)):
            traces[m] = t
    while todo:
        m = todo.pop(0)
        if m in bodies:
            continue
        if m not in traces:
            traces[m] = trace_module(m, wd)
        t = traces[m]
        body = [c for c in body_of(t, m) if c[0] == "load" or subtree_has_load(t, c[1])]
        bodies[m] = body
        for k, c in body:
            if k == "import" and c not in bodies:
                todo.append(c)
    bodies = {m: b for m, b in bodies.items()}
    # modules whose body (after pruning) is empty have no effect: drop them and references to them
    changed = True
    while changed:
        changed = False
        for m in list(bodies):
            nb = [c for c in bodies[m] if c[0] == "load" or (c[1] in bodies and bodies[c[1]])]
            if nb != bodies[m]:
                bodies[m] = nb
                changed = True
    bodies = {m: b for m, b in bodies.items() if b}
    lib = g["library"]
    ths = sorted(lib)
    lines = ["------------------------------ MODULE C12_Graph ------------------------------",
             "(* GENERATED from the repository by harness/checks/c12.py: import graph of library/*.json, lazy-import table of *)",
             "(* logic/basic.py, and the theory loads performed by importing each side-effecting module (traced).          *)",
             "EXTENDS C12_Loader",
             "cTheories == {" + ", ".join(q(t) for t in ths) + "}",
             "cImports == " + " @@ ".join("(%s :> %s)" % (q(t), tla_seq(q(i) for i in lib[t]["imports"])) for t in ths),
             "cModules == {" + ", ".join(q(m) for m in sorted(bodies)) + "}",
             "cLazy == [t \\in cTheories |-> " + " ".join("IF t = %s THEN %s ELSE" % (q(t), q(m)) for t, m in sorted(lazy.items()) if m in bodies) + ' "none"]',
             "cBody == " + (" @@ ".join("(%s :> %s)" % (q(m), tla_seq(tla_seq([q(k), q(c)]) for k, c in bodies[m])) for m in sorted(bodies)) or "<<>>"),
             "cItems0 == [t \\in cTheories |-> <<1>>]",
             "cOrigin == [t \\in cTheories |-> t]",
             "cLimits == [t \\in cTheories |-> {0}]",
             "gFixed == {{}}",
             "gAsCoded == {{}, {\"staledeps\"}}",
             "gVariants == {{}, {\"staledeps\"}, {\"staledeps\", \"norestore\"}, {\"staledeps\", \"tsfirst\"}}",
             "============================================================================="]
    (wd / "gen").mkdir(exist_ok=True)
    (wd / "gen" / "C12_Graph.tla").write_text("\n".join(lines) + "\n")
    return g, bodies, lazy


def write_cfg(path, op_theories, op_modules, maxops, fault=True):
    """the loader model on the real import graph: no file operations; {} and the as-coded walk must have the property"""
    path.write_text("""SPECIFICATION Spec
CONSTANTS
  Theories <- cTheories
  Imports <- cImports
  Modules <- cModules
  LazyImport <- cLazy
  ModuleBody <- cBody
  OpTheories = {%s}
  OpModules = {%s}
  Present0 <- cTheories
  Items0 <- cItems0
  Origin <- cOrigin
  LimitsOf <- cLimits
  FileOps = {}
  Variants <- gVariants
  GoodVariants <- gAsCoded
  PrintGood = TRUE
  MaxOps = %d
  MaxDepth = 300
  AllowFault = %s
  defaultInitValue = defaultInitValue
INVARIANT Good
CHECK_DEADLOCK FALSE
""" % (", ".join(q(t) for t in op_theories), ", ".join(q(m) for m in op_modules), maxops, "TRUE" if fault else "FALSE"))


def parse_tla(s, i=0):
    """value printed by TLC (tuples, sets, strings, integers, booleans) -> python lists / str / int / bool"""
    def ws(k):
        while k < len(s) and s[k] in " \n\t\r":
            k += 1
        return k
    i = ws(i)
    for opn, cls in (("<<", ">>"), ("{", "}")):
        if s.startswith(opn, i):
            i += len(opn)
            out = []
            while True:
                i = ws(i)
                if s.startswith(cls, i):
                    return out, i + len(cls)
                v, i = parse_tla(s, i)
                out.append(v)
                i = ws(i)
                if s[i] == ",":
                    i += 1
    if s[i] == '"':
        j = s.index('"', i + 1)
        return s[i + 1:j], j + 1
    m = re.compile(r"-?\d+|TRUE|FALSE").match(s, i)
    if not m:
        raise MachineryError("cannot parse TLC value at: %r" % s[i:i + 80])
    t = m.group(0)
    return ((t == "TRUE") if t in ("TRUE", "FALSE") else int(t)), m.end()


def parse_hist_lines(out):
    """the history ends printed by the model: dicts var (deviations, '+'-joined; '' = none), hist, op = [kind, target, limit/position, imports],
    exc, ok (did this operation end as the files say)"""
    res = []
    for m in re.finditer(r'<<\s*"H",', out):
        v, _ = parse_tla(out, m.start())
        res.append({"var": "+".join(sorted(v[1])), "hist": v[2], "op": v[3], "exc": v[4], "ok": v[5]})
    return res


def bad_by_variant(lines):
    """per variant the histories whose last operation is a load that does not end as the files say"""
    bad = {}
    for h in lines:
        if h["op"][0] == "load" and not h["ok"]:
            bad.setdefault(h["var"], []).append(h)
    return bad


def specific(bad, var):
    """bad histories of a variant that are not already bad without its last deviation (sorted: shortest first)"""
    base = "+".join(sorted(set(var.split("+")) & {"staledeps"})) if var != "staledeps" else ""
    known = {json.dumps([h["hist"], h["op"]]) for h in bad.get(base, [])} if base != var else set()
    out = [h for h in bad.get(var, []) if json.dumps([h["hist"], h["op"]]) not in known]
    return sorted(out, key=lambda h: (len(h["hist"]), json.dumps([h["hist"], h["op"]])))


def pick_model(rnd, hs, n):
    """n histories: the shortest ones first (ties broken by the seed)"""
    hs = list(hs)
    rnd.shuffle(hs)
    hs.sort(key=lambda h: len(h["hist"]))
    return hs[:n]


def real_edit_history(h, lib, tq):
    """history of the model scope `edit` (files P <- Q, Q = items 1 2 3) on the real theory tq and its last import: the three model
    items are the first / a middle / the last theorem of tq, positions are translated through item identity"""
    its = lib[tq]["items"]
    thm = [it for it in its if it[0] in THM_KINDS and it[1] and [x for x in its if x == it] == [it]]
    real = {1: thm[0], 2: thm[len(thm) // 2], 3: thm[-1]}
    names = {"Q": tq, "P": lib[tq]["imports"][-1]}
    cur = {"Q": [1, 2, 3], "P": [1]}
    ops = []
    for n, (kind, f, pos, _imps) in enumerate(h["hist"] + [h["op"]]):
        t = names[f]
        ident = lambda i: real[i] if i in real and f == "Q" else ["def.ax", "verif_c12m_%d" % i]
        if kind == "load":
            ops.append({"op": "load", "name": t, "limit": None if pos == 0 else ident(pos)})
        elif kind == "ins":
            o = {"op": "touch", "name": t, "const": "verif_c12m_%d" % (100 + n)}
            if pos == 0:
                o["at"] = 0
            elif pos < len(cur[f]):
                o["before"] = ident(cur[f][pos])
            ops.append(o)
            cur[f].insert(pos, 100 + n)
        elif kind == "del":
            if f == "P" and cur[f][pos] == 1:
                return None
            ops.append({"op": "touch", "name": t, "delete_item": ident(cur[f][pos])})
            del cur[f][pos]
        else:
            return None
    return ops


def real_files_history(h, lib, m):
    """history of the model scope `files` on real theories m = {P, X, B}; A is a new file, a copy of X; W is a new theory with one
    new constant and the import P (there from the start, as in the model)"""
    a, w = "zz_c12m_" + m["X"], "zz_c12m_w"
    names = dict(m, A=a, W=w)
    ops = new_theory(w, [m["P"]], "verif_c12m_w")
    for kind, f, _pos, imps in h["hist"] + [h["op"]]:
        if kind == "load":
            ops.append({"op": "load", "name": names[f]})
        elif kind == "create":
            ops.append({"op": "create", "name": a, "copy": m["X"]})
        elif kind == "remove":
            ops.append({"op": "remove", "name": names[f]})
        elif kind == "reimport" and f == "B":
            ops.append({"op": "reimport", "name": m["B"], "imports": [a if i == m["X"] else i for i in lib[m["B"]]["imports"]] if imps == ["A"]
                        else list(lib[m["B"]]["imports"])})
        elif kind == "reimport" and f == "X":
            ops.append({"op": "reimport", "name": m["X"], "imports": lib[m["X"]]["imports"] + ([w] if "W" in imps else [])})
        else:
            return None
    return ops


def files_mappings(lib, sizes):
    """real theories of the shape P <- X <- B of the model scope `files`"""
    out = []
    for x in sorted(lib):
        if len(lib[x]["imports"]) != 1:
            continue
        for b in sorted(lib):
            if lib[b]["imports"] == [x] and len(lib[b]["items"]) >= 5:
                out.append((load_cost(lib, sizes, [b]), {"P": lib[x]["imports"][0], "X": x, "B": b}))
    return sorted(out, key=lambda c: (c[0], sorted(c[1].items())))


def script_of(hid, ops, lib=None):
    return {"hid": hid, "lib": lib, "ops": ops}


def op_of(kind, target):
    if kind == "import":
        return {"op": "import", "module": target}
    return {"op": kind, "name": target}


def closure_of(lib, names):
    acc = []

    def dfs(n):
        if n in acc or n not in lib:
            return
        for i in lib[n]["imports"]:
            dfs(i)
        acc.append(n)
    for n in names:
        dfs(n)
    return acc


def load_cost(lib, sizes, names):
    """estimate of the work of loading the theories `names` in one process: bytes of the files in the union of their closures"""
    return sum(sizes.get(t, 0) for t in closure_of(lib, names))


def names_in(ops):
    out = []
    for o in ops:
        for k in ("name", "copy"):
            if k in o:
                out.append(o[k])
        out += list(o.get("imports") or [])
    return out


def needed_files(lib, names, lazy, bodies):
    """files a history over the theories `names` may read: their import closure; the whole library when the loader lazily imports a
    module that loads theories for one of them"""
    need = closure_of(lib, names)
    if any(t in lazy and lazy[t] in bodies for t in need):
        return sorted(lib)
    return need


def materialize(s, wd, lib, lazy, bodies):
    """scratch copy of library/ for a history with file operations: the files the history may read (the loader reads the metadata
    of every file of the directory; nothing under the repository is written)"""
    if not s.get("scratch"):
        return
    d = wd / ("lib_" + s["hid"])
    d.mkdir()
    for t in needed_files(lib, [n for n in names_in(s["ops"]) if n in lib] + ["logic_base"], lazy, bodies):
        shutil.copy2(REPO / "library" / (t + ".json"), d / (t + ".json"))
    s["lib"] = str(d)


def run_histories(scripts, wd, lib, lazy, bodies):
    """every history in a fresh process of its own, the expensive ones first; returns the event lists in the order of `scripts`"""
    def one(s):
        materialize(s, wd, lib, lazy, bodies)
        try:
            return run_history(s, wd)
        finally:
            if s.get("scratch") and s.get("lib"):
                shutil.rmtree(s["lib"], ignore_errors=True)
    order = sorted(range(len(scripts)), key=lambda k: -scripts[k].get("cost", 0))
    with ThreadPoolExecutor(max_workers=min(JOBS, 3)) as ex:
        done = list(ex.map(lambda k: one(scripts[k]), order))
    res = [None] * len(scripts)
    for k, evs in zip(order, done):
        res[k] = evs
    return res


def run_history(script, wd):
    sp = wd / ("h_%s.json" % script["hid"])
    op = wd / ("h_%s.ndjson" % script["hid"])
    json.dump(script, open(sp, "w"))
    p, _ = run_driver("c12", ["run", sp, op], timeout=900, check=False)
    evs = read_events(op) if op.exists() else []
    if len(evs) != len(script["ops"]):
        raise MachineryError("history %s: %d of %d operations logged; stderr: %s" % (script["hid"], len(evs), len(script["ops"]), p.stderr[-1500:]))
    return evs


def short_op(o):
    """compact, stable description of an operation for event keys"""
    k = o["op"]
    if k == "import":
        return [k, o["module"]]
    r = [k, o.get("name", "")]
    if k == "load" and o.get("limit") is not None:
        r.append(o["limit"])
    for f in ("const", "at", "before", "delete", "delete_item", "copy", "imports", "mtime_delta"):
        if f in o and o[f] is not None:
            r.append({f: o[f]})
    return r


def event_key(e):
    hist = [short_op(json.loads(h[2])) for h in e["hist"]]
    return "%s after %s" % (json.dumps([e["op"], e["name"], e["limit"]]), json.dumps(hist))


def cpu_children():
    ru = resource.getrusage(resource.RUSAGE_CHILDREN)
    return ru.ru_utime + ru.ru_stime


def clean_stale_runs():
    base = work_dir("C12")
    for d in list(base.glob("run_*")) + list(base.glob("replay_*")):
        try:
            pid = int(d.name.split("_")[1])
            os.kill(pid, 0)
        except (ValueError, ProcessLookupError):
            shutil.rmtree(d, ignore_errors=True)
        except PermissionError:
            pass


THM_KINDS = ("thm", "thm.ax")


def fam_siblings(lib, sizes, quick, rnd):
    """(1) for every theory A with imports [.., X, .., Y, ..]: [load A; load Y] and [load Y; load A; load Y].
    A pair is `fresh` when the import walk of A meets theories below Y for the first time under Y (they are not below an earlier
    import) and Y does not itself need everything the earlier imports need: what the walk of A collected before it came to those
    theories is not part of what the walk of Y alone collects.
    quick: both histories for the fresh pairs up to a load cost, [load A; load Y] for two more (seeded) pairs; thorough: all pairs, and
    for the fresh ones also [load A; load Z] for the theories Z first met under Y."""
    pairs, fresh = [], []
    for a in sorted(lib):
        imps = lib[a]["imports"]
        for k in range(1, len(imps)):
            y, before = imps[k], closure_of(lib, imps[:k])
            p = (load_cost(lib, sizes, [a]), a, y)
            pairs.append(p)
            if not set(closure_of(lib, lib[y]["imports"])) <= set(before) and not set(before) <= set(closure_of(lib, [y])):
                fresh.append(p + ([z for z in closure_of(lib, lib[y]["imports"]) if z not in before],))
    pairs.sort()
    fresh.sort()
    out = []
    both = lambda a, y, cost: [([{"op": "load", "name": a}, {"op": "load", "name": y}], cost),
                               ([{"op": "load", "name": y}, {"op": "load", "name": a}, {"op": "load", "name": y}], cost)]
    if quick:
        for cost, a, y, _zs in [p for p in fresh if p[0] <= 9_000_000] or fresh[:1]:
            out += both(a, y, cost)
        rest = [p for p in pairs if p[:3] not in [f[:3] for f in fresh] and p[0] <= 5_000_000]
        for cost, a, y in rnd.sample(rest, min(2, len(rest))):
            out.append(([{"op": "load", "name": a}, {"op": "load", "name": y}], cost))
    else:
        for cost, a, y in pairs:
            out += both(a, y, cost)
        for cost, a, y, zs in fresh:
            for z in zs[-4:]:
                out.append(([{"op": "load", "name": a}, {"op": "load", "name": z}], cost))
    return out


def fam_limits(lib, sizes, quick, rnd):
    """(2b) [load T limit L; edit T in front of L / delete L; load T limit L] with L the first / a middle / the last item"""
    cands = [t for t in sorted(lib) if load_cost(lib, sizes, [t]) <= 3_400_000
             and sum(1 for it in lib[t]["items"] if it[0] in THM_KINDS and it[1]) >= 3]
    if not cands:
        return []
    small = min(cands, key=lambda t: load_cost(lib, sizes, [t]))
    cands.sort(key=lambda t: (load_cost(lib, sizes, [t]), t))
    chosen = [(small, "all")] if quick else [(t, "all") for t in cands[:3] + rnd.sample(cands[3:], min(1, len(cands[3:])))]
    out = []
    n = 0
    for t, which in chosen:
        its = lib[t]["items"]
        thm = [k for k, it in enumerate(its) if it[0] in THM_KINDS and it[1] and [x for x in its if x == it] == [it]]
        named = [k for k, it in enumerate(its) if it[1] and [x for x in its if x == it] == [it]]
        if len(thm) < 3 or not named:
            continue
        spots = {"mid": thm[len(thm) // 2]}
        if which == "all":
            spots.update({"first": named[0], "last": thm[-1]})
            if not quick:
                spots.update({"firstthm": thm[0], "lastitem": named[-1]})
        cost = 2 * load_cost(lib, sizes, [t])
        for tag, k in sorted(spots.items()):
            L = its[k]
            ld = {"op": "load", "name": t, "limit": L}
            n += 1
            c = "verif_c12_%d" % n
            hs = [[ld, {"op": "touch", "name": t, "const": c, "before": L}, ld, {"op": "load", "name": t}]]
            more = [[{"op": "touch", "name": t, "const": c, "at": 0}, ld, {"op": "touch", "name": t, "delete": 0}, ld]]
            if k > 0:
                more.append([ld, {"op": "touch", "name": t, "const": c, "at": 0}, ld])
            before = [j for j in thm if j < k]
            if before:
                hs.append([ld, {"op": "touch", "name": t, "delete_item": its[before[-1]]}, ld])
            if k in thm:
                hs.append([ld, {"op": "touch", "name": t, "delete_item": L}, ld, {"op": "load", "name": t}])
            if not quick:
                hs += more
            elif tag == "mid":                  # quick: insertion, deletion, vanishing limit and one more (seeded) shape at the middle item,
                hs.append(rnd.choice(more))     # one shape at the first / last item
            else:
                hs = [hs[0] if tag == "first" else rnd.choice(hs[1:] + more)]
            out += [(h, cost) for h in hs]
    return out


def fam_files(lib, sizes, quick, rnd):
    """(2a) files created / removed between loads: a new theory A (alias of an existing file X) takes the place of X among the
    imports of B; with and without an earlier failed load of A; after A was removed; a dependency of a loaded theory changes."""
    triples = []
    for b in sorted(lib):
        for x in lib[b]["imports"]:
            others = [i for i in lib[b]["imports"] if i != x]
            if lib[x]["imports"] and x not in closure_of(lib, others) and len(lib[b]["items"]) >= 5:
                triples.append((load_cost(lib, sizes, [b]), x, b))
    triples.sort()
    if not triples:
        return []
    afford = [t for t in triples if t[0] <= 9_000_000]
    chosen = [(triples[0], True)] if quick else [(t, True) for t in afford[:6] + rnd.sample(afford[6:], min(2, len(afford[6:])))]
    out = []
    for (cost, x, b), full in chosen:
        a = "zz_c12_" + x
        b2 = [a if i == x else i for i in lib[b]["imports"]]
        mk = {"op": "create", "name": a, "copy": x}
        re_b = {"op": "reimport", "name": b, "imports": b2}
        la, lb = {"op": "load", "name": a}, {"op": "load", "name": b}
        x0 = lib[x]["imports"][0]
        out.append(([la, mk, re_b, lb, la], cost))
        out.append(([{"op": "create", "name": a, "copy": x0}, la, {"op": "remove", "name": a}, la, mk, re_b, lb, la], cost))
        out.append(([lb, {"op": "remove", "name": x}, lb, {"op": "load", "name": x}], cost))
        if not quick:
            out.append(([mk, re_b, lb, la], cost))
            out.append(([lb, mk, re_b, lb], 2 * cost))
    # a dependency U of a loaded theory T is given one more import W.  W is a new theory with one new constant: the items of U and T
    # parse in the enlarged context exactly as before (an existing theory as W could shadow a name they use)
    deps = sorted((load_cost(lib, sizes, [t]), t, u) for t in lib for u in lib[t]["imports"] if len(lib[t]["items"]) >= 3)
    for cost, t, u in ([] if quick else deps[:6] + rnd.sample(deps[6:60], min(6, len(deps[6:60])))):       # (quick: the model-derived histories of the deviation staledeps are of this shape)
        lt = {"op": "load", "name": t}
        out.append((new_theory("zz_c12_w", lib[u]["imports"][:1], "verif_c12_w") +
                    [lt, {"op": "reimport", "name": u, "imports": lib[u]["imports"] + ["zz_c12_w"]}, lt, lt], 2 * cost))
    return out


def new_theory(name, imports, const):
    return [{"op": "create", "name": name, "copy": None, "imports": list(imports)}, {"op": "touch", "name": name, "const": const}]


def run(rep, tier):
    quick = tier == "quick"
    rnd = random.Random(seed())
    clean_stale_runs()
    wd = work_dir("C12", "run_%d" % os.getpid(), clean=True)       # per-process scratch: concurrent runs do not collide
    gd = wd / "gen"
    gd.mkdir()
    t_start = [time.time(), cpu_children()]

    def phase(name):
        rep.notes.setdefault("phases_wall_cpu_s", []).append([name, round(time.time() - t_start[0], 1), round(cpu_children() - t_start[1], 1)])
        t_start[0], t_start[1] = time.time(), cpu_children()
    rep.rule = ("Histories of loader operations (load with/without limit, module import, load with injected parse failure, file created / "
                "removed / given other imports, item inserted / deleted at a position), each executed in a fresh subprocess of the real code; "
                "sources: the histories on which a deviating mechanism goes wrong in the TLC model (small scopes with file operations mapped to "
                "real theories, and the real import graph), samples of the good mechanism, sibling histories of the import graph, seeded "
                "families. Non-trivial = a load event judged by the trace specification; distinct by (history, operation, outcome, projection).")
    rep.assumptions = ["canonical reference = fresh process with all side-effecting modules imported first; the name-level Expected set is "
                       "computed by TLC from the library files' import graph, per-item extension names and the log of file operations",
                       "file operations are made on a scratch copy of library/ (path helpers redirected); nothing under /repo is written",
                       "the item tables say which items parse in the original context of their file: a load is examined only when every "
                       "file of its closure is parsed in a context with the original names plus constants the history inserted (aliases in "
                       "place of the file they copy, new theories with a new constant as additional imports, deleted theorems)",
                       "every version of a file has a modification time of its own"]
    # ---------------- design level: the loader model on small instances (all histories) and on the real import graph
    # small scopes (one JVM at a time, in the background while the repository is traced): chain = loads / faults / module imports,
    # edit = items inserted / deleted with limits, files = files created / removed / given other imports
    small = {}

    def small_runs():
        for scope, cfg in (("fixed", "C12_LoaderMC_fixed.cfg"), ("chain", "C12_LoaderMC_ascoded.cfg"),
                           ("edit", "C12_LoaderMC_edit.cfg" if quick else "C12_LoaderMC_edit4.cfg"),
                           ("files", "C12_LoaderMC_files.cfg" if quick else "C12_LoaderMC_files5.cfg")):
            small[scope] = tlc("C12_LoaderMC", cfg, wd=wd / "mc", workers=1)
    bg = ThreadPoolExecutor(max_workers=1)
    fut = bg.submit(small_runs)
    g, bodies, lazy = gen_graph(wd)
    lib = g["library"]
    sizes = {t: os.path.getsize(REPO / "library" / (t + ".json")) for t in lib}
    rep.notes["graph"] = {"theories": len(lib), "modules_with_loads": {m: b for m, b in bodies.items()}, "lazy": lazy}
    fut.result()
    bg.shutdown()
    phase("small models + repository tracing")
    model_hists = []          # (family, [operations])
    for scope, what in (("fixed", "4-theory chain, mechanism with the property, all histories of <= 3 operations"),
                        ("chain", "4-theory chain, 4 deviating mechanisms, all histories of <= 2 operations"),
                        ("edit", "P <- Q, item edits and limits, 2 mechanisms, all histories of <= %d operations" % (3 if quick else 4)),
                        ("files", "P <- X <- B, P <- W, new file A: create / remove / reimport, 4 mechanisms, all histories of <= %d operations"
                         % (4 if quick else 5))):
        r = small[scope]
        if r.error:
            raise MachineryError("TLC failed on C12_LoaderMC (%s): %s\n%s" % (scope, r.error, r.out[-2000:]))
        rep.add_mc("C12_LoaderMC(%s)" % what, r, scope)
        if r.violated:
            rep.design_violation("C12_LoaderMC_" + scope, r)
            return
    bads = {scope: bad_by_variant(parse_hist_lines(small[scope].out)) for scope in ("chain", "edit", "files")}
    rep.notes["model_counterexample_histories"] = {scope: {v or "none": len(hs) for v, hs in sorted(b.items())} for scope, b in bads.items()}
    # every deviation must be visible in some scope (the model distinguishes the mechanisms): specification mutants
    for scope, var in (("chain", "norestore+staledeps"), ("chain", "tsfirst"), ("edit", "limitpos"), ("files", "stalemeta"),
                       ("files", "staledeps"), ("files", "keepentry+staledeps")):
        require(specific(bads[scope], var), "C12 model: deviation %s must violate Good in scope %s" % (var, scope))
        rep.notes.setdefault("spec_mutants", []).append({"mutant": "loader_" + var, "scope": scope, "caught_by": ["Good"]})
    # the discriminating histories of the scopes with file operations, on real theories
    n_model = 1 if quick else 12
    cands = sorted((t for t in lib if lib[t]["imports"] and load_cost(lib, sizes, [t]) <= 3_400_000
                    and sum(1 for it in lib[t]["items"] if it[0] in THM_KINDS and it[1]) >= 3), key=lambda t: (load_cost(lib, sizes, [t]), t))
    maps = files_mappings(lib, sizes)
    seen_model = set()
    for scope in ("edit", "files"):
        # one group per deviation (with / without the as-coded walk): the same history is taken once
        by_dev = {}
        for var in sorted(bads[scope]):
            dev = "+".join(d for d in var.split("+") if d != "staledeps") or "staledeps"
            for h in specific(bads[scope], var):
                k = json.dumps([h["hist"], h["op"]])
                if k not in seen_model:
                    seen_model.add(k)
                    by_dev.setdefault(dev, []).append(h)
        for dev in sorted(by_dev):
            for h in pick_model(rnd, by_dev[dev], n_model):
                if scope == "edit":
                    ops = real_edit_history(h, lib, rnd.choice(cands[:8])) if cands else None
                else:
                    ops = real_files_history(h, lib, rnd.choice(maps[:6])[1]) if maps else None
                if ops:
                    model_hists.append(("model:%s:%s" % (scope, dev), ops))
    # the real import graph: theories reachable through module side effects / lazy imports are the interesting ones
    hot = sorted({c for b in bodies.values() for k, c in b if k == "load"} | set(lazy))
    hot = [t for t in hot if t in lib]
    dependents = sorted(t for t in lib if any(h in lib[t]["imports"] for h in hot))
    op_th = sorted(set(hot[:4] + dependents[:2])) if quick else sorted(set(hot + dependents[:6]))
    op_mod = sorted(bodies)[:3] if quick else sorted(bodies)
    cfgp = wd / "C12_Graph.cfg"
    write_cfg(cfgp, op_th, op_mod, 2)
    rg = model_check(str(gd / "C12_Graph.tla"), str(cfgp), wd=wd / "mc", workers=4, timeout=3000)
    rep.add_mc("C12_Graph(real import graph; the mechanism with the property and the walk as coded have it; + norestore, tsfirst)", rg,
               "ops over %s + %s, MaxOps=2" % (op_th, op_mod))
    if rg.violated:
        rep.design_violation("C12_Graph", rg)
        return
    rep.exhaustive = True
    glines = parse_hist_lines(rg.out)
    gbad = bad_by_variant(glines)
    rep.notes["model_counterexample_histories"]["graph"] = {v or "none": len(hs) for v, hs in sorted(gbad.items())}
    for var in sorted(gbad):
        hs = list(gbad[var])
        rnd.shuffle(hs)
        for h in hs[:(2 if quick else 25)]:
            model_hists.append(("model:" + var, [op_of(k, t) for k, t, _l, _a in h["hist"] + [h["op"]]]))
    good_lines = [h for h in glines if h["var"] == "staledeps" and h["op"][0] == "load"]
    rnd.shuffle(good_lines)
    for h in good_lines[:(2 if quick else 30)]:
        model_hists.append(("model:sample", [op_of(k, t) for k, t, _l, _a in h["hist"] + [h["op"]]]))
    phase("model on the real graph")
    # ---------------- histories to execute
    scripts = []
    all_modules = sorted(bodies)
    canon_ths = sorted(set(op_th) | {"logic_base", "nat"})
    hid = 0

    def add(ops, scratch=None, cost=None, fam="seeded"):
        nonlocal hid
        hid += 1
        s = script_of("h%03d" % hid, ops, None)
        s["scratch"] = any(o["op"] in ("touch", "reimport", "create", "remove") for o in ops) if scratch is None else scratch
        s["cost"] = cost if cost is not None else load_cost(lib, sizes, [o["name"] for o in ops if o.get("name") in lib]) + \
            (15_000_000 if any(o["op"] == "import" for o in ops) else 0)
        s["fam"] = fam
        scripts.append(s)
    for fam, ops in model_hists:
        add(ops, fam=fam)
    seen_th = set()
    for s in scripts:
        for o in s["ops"]:
            if o.get("name") in lib:
                seen_th.add(o["name"])
    canon_ths = sorted(set(canon_ths) | seen_th)
    pick = lambda xs: rnd.choice(xs)
    # limits: valid (middle item), missing, start
    for th in ([pick(["nat"] + op_th)] if quick else ["nat", "logic_base"] + op_th):
        its = lib[th]["items"]
        named = [it for it in its if it[1]]
        if named:                      # a theory file may have no named item at all (only imports)
            mid = named[len(named) // 2]
            add([{"op": "load", "name": th, "limit": mid}])
        add([{"op": "load", "name": pick(canon_ths)}, {"op": "load", "name": th, "limit": ["thm", "verif_no_such_item"]}])
        add([{"op": "load", "name": th, "limit": "start"}, {"op": "load", "name": th}])
    # injected failure, then the same load again / a dependent load
    for th in ([pick(op_th)] if quick else op_th):
        add([{"op": "fault", "name": th}, {"op": "load", "name": th}])
        deps = lib[th]["imports"]
        if deps:
            add([{"op": "fault", "name": deps[-1]}, {"op": "load", "name": th}])
    # edits of files between loads (scratch copies of the library)
    add([{"op": "load", "name": "nat"}, {"op": "touch", "name": "nat", "const": "verif_new_c1"}, {"op": "load", "name": "nat"}])
    add([{"op": "load", "name": "int"}, {"op": "touch", "name": "nat", "const": "verif_new_c2"}, {"op": "load", "name": "int"},
         {"op": "load", "name": "nat"}])
    add([{"op": "load", "name": "nat"}, {"op": "touch", "name": "nat", "const": "verif_new_c3", "mtime_delta": -10},
         {"op": "load", "name": "nat"}])
    # a file is given another import list after it (or its new import) was loaded: the metadata must follow the files
    # (the new import is a new theory with one new constant: the items of the file parse as before)
    if "expr" in lib:
        w = new_theory("zz_c12_v", lib["expr"]["imports"][:1], "verif_new_c4")
        more = lib["expr"]["imports"] + ["zz_c12_v"]
        add(w + [{"op": "load", "name": "expr"}, {"op": "reimport", "name": "expr", "imports": more}, {"op": "load", "name": "expr"}])
        if not quick:
            add(w + [{"op": "load", "name": "zz_c12_v"}, {"op": "reimport", "name": "expr", "imports": more}, {"op": "load", "name": "expr"},
                     {"op": "load", "name": "zz_c12_v"}])
    # an import cycle: nat imports logic; logic is given the import nat (before the first load / after a load)
    cyc = {"op": "reimport", "name": "logic", "imports": lib["logic"]["imports"] + ["nat"]}
    add([cyc, {"op": "load", "name": "nat"}])
    add([cyc, {"op": "load", "name": "logic_base"}, {"op": "load", "name": "logic"}])
    add([{"op": "load", "name": "nat"}, cyc, {"op": "load", "name": "nat"}, {"op": "load", "name": "logic"}])
    # (1) sibling histories, (2) files created / removed, edits at a position with limits by item identity
    for fam, gen in (("sibling", fam_siblings), ("files", fam_files), ("limits", fam_limits)):
        for ops, cost in gen(lib, sizes, quick, rnd):
            add(ops, cost=cost, fam=fam)
    if not quick:
        for _ in range(30):
            n = rnd.randint(2, 4)
            ops = []
            for _ in range(n):
                c = rnd.random()
                if c < 0.55:
                    ops.append({"op": "load", "name": pick(canon_ths)})
                elif c < 0.8:
                    ops.append({"op": "import", "module": pick(all_modules)})
                else:
                    ops.append({"op": "fault", "name": pick(canon_ths)})
            ops.append({"op": "load", "name": pick(canon_ths)})
            add(ops, fam="random")
    for s in scripts:
        for o in s["ops"]:
            if "name" in o and o["name"] in lib:
                canon_ths = sorted(set(canon_ths) | {o["name"]})
    rep.notes["families"] = {f: sum(1 for s in scripts if s["fam"] == f) for f in sorted({s["fam"] for s in scripts})}
    # ---------------- canonical process: all side-effecting modules first, then every theory of interest
    canon_ops = [{"op": "import", "module": m} for m in all_modules]
    canon_ops += [{"op": "load", "name": "logic_base", "limit": "start"}]
    for th in canon_ths:
        canon_ops.append({"op": "load", "name": th})
    canon_ops.append({"op": "items", "names": sorted(lib)})
    cs = script_of("canon", canon_ops)
    cs.update({"scratch": False, "cost": 10 ** 9, "fam": "canon"})
    phase("history generation")
    # ---------------- execute the histories (a process each)
    results = run_histories([cs] + scripts, wd, lib, lazy, bodies)
    cevs, results = results[0], results[1:]
    canon = {}
    base = None
    items_tab = None
    for e in cevs:
        if e["op"] == "load" and e["outcome"] == "ok":
            if e["limit"] == ["start", "start"]:
                base = e["installed"]
            else:
                canon[e["name"]] = e["digest"]
        if e["op"] == "items":
            items_tab = e.get("items")
    phase("histories executed")
    rep.notes["canonical"] = {"loaded_ok": sorted(canon), "failed": [[e.get("name", e.get("module")), e["outcome"], e.get("message", "")[:80]]
                                                                    for e in cevs if e["outcome"] != "ok"]}
    if items_tab is None or base is None:
        # even the canonical history cannot load: fall back to item tables without extension names (ReturnsExpected unevaluable)
        items_tab = items_tab or {}
    tspec = write_items_module(gd, lib, base, items_tab)
    events = []
    tid = 0
    for s, evs in zip(scripts, results):
        for e in evs:
            tid += 1
            e["tid"] = tid
            e["fam"] = s["fam"]
            e.setdefault("name", "")
            e.setdefault("limit", ["none", "none"])
            e["canon"] = "none"
            if e["op"] == "load" and not e["fs"] and e["limit"] == ["none", "none"]:
                e["canon"] = canon.get(e["name"], "none")
            e["key"] = event_key(e)
            e.pop("items", None)
            events.append(e)
    # the canonical loads themselves are events too (judged by the name-level Expected)
    for e in cevs:
        if e["op"] == "load":
            tid += 1
            e.update({"tid": tid, "fam": "canon", "canon": "none", "key": "canonical %s" % e["name"]})
            e.pop("items", None)
            events.append(e)
    evp = wd / "events.ndjson"
    write_events(evp, events)
    v = validate_trace(tspec, evp, wd=wd / "tv", nchunks=1)
    rep.add_trace_result("histories", events, v, sample_n=2)
    rep.notes["histories_run"] = len(scripts) + 1
    phase("trace validation")
    nts = set(v["nontrivial"])
    rep.notes["judged_by_family"] = {f: sum(1 for e in events if e["fam"] == f and e["tid"] in nts) for f in sorted({e["fam"] for e in events})}
    for s in rep.samples:
        if isinstance(s.get("event"), dict):
            s["event"].pop("installed", None)
    # binding self-tests: drop a theorem from the recorded projection; forget a recorded file operation
    bad = []
    for e in events:
        if e["op"] == "load" and e["outcome"] == "ok" and e["canon"] != "none" and len(bad) < 1:
            c = json.loads(json.dumps(e))
            c["installed"] = [x for x in c["installed"] if x[0] != 2][:-1] + [x for x in c["installed"] if x[0] == 2][:-1]
            c["tid"] = 10 ** 6 + len(bad)
            bad.append(c)
    for e in events:
        if e["op"] == "load" and e["outcome"] == "ok" and e["tid"] in nts and e["fs"] and all(x[0] == "ins" for x in e["fs"]) and len(bad) < 2 \
                and e["limit"] == ["none", "none"]:
            c = json.loads(json.dumps(e))
            c["fs"] = [x for x in c["fs"] if x[0] != "ins"]
            c["tid"] = 10 ** 6 + len(bad)
            bad.append(c)
    if bad:
        selftest_trace(rep, tspec, bad, "ReturnsExpected", wd=wd)
    require(rep.notes["traces"]["histories"]["nontrivial"] >= (15 if quick else 100), "C12: too few load events judged")
    jf = rep.notes["judged_by_family"]
    require(all(jf.get(f, 0) >= 3 for f in ("sibling", "files", "limits")), "C12: a history family is not judged: %s" % jf)


def write_items_module(gd, lib, base, items_tab):
    lines = ["------------------------------ MODULE C12_Items ------------------------------",
             "(* GENERATED: import graph and item tables (kind, name, parsed?, extension names) of the library files *)",
             "EXTENDS Naturals, Sequences, TLC",
             "cImports == " + " @@ ".join("(%s :> %s)" % (q(t), tla_seq(q(i) for i in lib[t]["imports"])) for t in sorted(lib)),
             "cBase == {" + ", ".join("<<%d, %s>>" % (k, q(n)) for k, n in (base or [])) + "}",
             "cItems == " + (" @@ ".join("(%s :> %s)" % (q(t), tla_seq(
                 "<<%s, %s, %s, %s>>" % (q(ty), q(nm), "TRUE" if ok else "FALSE", tla_seq("<<%d, %s>>" % (k, q(n)) for k, n in exts))
                 for ty, nm, ok, exts in items_tab[t])) for t in sorted(items_tab)) or "<<>>"),
             "============================================================================="]
    (gd / "C12_Items.tla").write_text("\n".join(lines) + "\n")
    for fn in ("C12_LoaderTrace.tla", "C12_LoaderTrace.cfg"):
        shutil.copy(SPEC / fn, gd / fn)
    return str(gd / "C12_LoaderTrace.tla")


def replay(path):
    """re-execute the recorded history against the current tree and judge its events with the trace specification again"""
    obj = json.load(open(path))
    if obj.get("kind") != "event":
        print(json.dumps(obj, indent=1)[:3000])
        return 1
    e = obj["event"]
    ops = [json.loads(h[2]) for h in e["hist"]]
    lim = e.get("limit")
    ops.append({"op": "load", "name": e["name"], "limit": None if lim == ["none", "none"] else ("start" if lim == ["start", "start"] else lim)})
    print("history:", [short_op(o) for o in ops[:-1]], "then", short_op(ops[-1]), "->", e["outcome"], e.get("message", ""))
    print("clause:", obj["clause"])
    wd = work_dir("C12", "replay_%d" % os.getpid(), clean=True)
    gd = wd / "gen"
    gd.mkdir()
    gp = wd / "graph.json"
    run_driver("c12", ["graph", gp])
    lib = json.load(open(gp))["library"]
    # item tables of the library theories the history touches, from a fresh process
    names = sorted(set(closure_of(lib, [n for n in names_in(ops) if n in lib] + ["logic_base"])))
    cevs = run_history(script_of("canon", [{"op": "load", "name": "logic_base", "limit": "start"}, {"op": "items", "names": names}]), wd)
    require(cevs[0]["outcome"] == "ok" and cevs[1].get("items"), "C12 replay: the reference process cannot load: %s" % cevs[1].get("message"))
    tspec = write_items_module(gd, lib, cevs[0]["installed"], cevs[1]["items"])
    s = script_of("replay", ops)
    if any(o["op"] in ("touch", "reimport", "create", "remove") for o in ops):
        d = wd / "lib_replay"
        shutil.copytree(REPO / "library", d)
        s["lib"] = str(d)
    evs = run_history(s, wd)
    for k, x in enumerate(evs):
        x.update({"tid": k + 1, "canon": "none", "key": "replay"})
        x.setdefault("name", "")
        x.setdefault("limit", ["none", "none"])
    print("now:", [(x["op"], x.get("name"), x["outcome"], x.get("message", "")[:80]) for x in evs])
    evp = wd / "events.ndjson"
    write_events(evp, evs)
    v = validate_trace(tspec, evp, wd=wd / "tv", nchunks=1)
    shutil.rmtree(wd / "lib_replay", ignore_errors=True)
    if v["fails"]:
        print("VIOLATION property=C12 replay=%s  # %s" % (path, json.dumps(v["fails"])))
        return 1
    print("no clause fails on the re-executed history (%d load events judged)" % len(v["nontrivial"]))
    return 0
