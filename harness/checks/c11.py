"""C11 - definitional theory items are conservative and survive save/load/edit.   DESIGN.md section 6/C11

 S  spec/C11_Def.tla          the two readings of "acceptable definition": SyntacticOK (the statement's literal conditions, with
                              type OVERLAP decided by unification) and Conservative (finite standard models, lib/HolSem), ExtOK
    spec/C11_Items.tla        a theory [types, consts, thms] extended by candidate definitions; TLC offers EVERY candidate of the
                              universe (rhs depth <= 2; self-referential, polymorphic rhs, repeated / non-variable / constant
                              arguments, extra free and schematic variables, overloaded and already-declared names) as an initial
                              state; invariants ConservativeIfOK, AddedWellTyped, OnlyOKAdded; emits all candidates with verdicts
 ->  harness/drivers/c11.py   prints each candidate with the repo printer, offers it to items.parse_item, installs the extension on
                              a copy of the theory; seeded random larger candidates in theory nat; generated datatypes / recursive
                              functions / inductive predicates; every item of the library files with both round trips
 T  spec/C11_ItemsTrace.tla   SyntacticOK of the PARSED definition for every accepted definition (violation clause), NewConst,
                              Conservative alongside (semantic witness; disagreement with SyntacticOK = machinery failure), ExtOK
                              for every installed item, RoundTrip_json / RoundTrip_edit
"""
import copy
import json
import random
from concurrent.futures import ThreadPoolExecutor

from harness.core import (REPO, MachineryError, model_check, read_events, require, run_driver, seed, spec_mutant,
                          validate_trace, work_dir, write_events)

TSPEC = "C11_ItemsTrace"
SPEC_CLAUSE = "SPEC_Conservative"
ALL_FILES = 43
# library files whose imports are light enough for the quick tier (the sample is seeded; real and logic_base are always included)
LIGHT = ("logic", "set", "nat", "function", "list", "int", "gcd", "lcm", "prime", "string", "hoare", "gcl", "expr", "class", "card",
         "iterate", "sums", "products", "misc", "sat", "smt", "verit")


def _split_lines(path, n, wd, stem):
    lines = [ln for ln in open(path) if ln.strip()]
    per = (len(lines) + n - 1) // n
    out = []
    for i in range(n):
        part = lines[i * per:(i + 1) * per]
        if part:
            p = wd / ("%s_%d.ndjson" % (stem, i))
            p.write_text("".join(part))
            out.append(p)
    return out


def _add(rep, name, evs, v):
    """Book-keeping of one validated trace.  A disagreement of the two readings of the specification is a machinery failure.
    Failing events are grouped into classes (clauses + failed conditions); a few representatives per class become violations."""
    by_tid = {e["tid"]: e for e in evs}
    spec_bad = [f for f in v["fails"] if SPEC_CLAUSE in f["fail"]]
    if spec_bad:
        e = by_tid.get(spec_bad[0]["tid"], {})
        raise MachineryError("C11: the specification's two readings disagree (SyntacticOK but not Conservative) on %s" % e.get("key"))
    info = {i["tid"]: i for i in v.get("info", [])}
    classes = {}
    for f in v["fails"]:
        i = info.get(f["tid"], {})
        e = by_tid.get(f["tid"], {})
        cls = "+".join(sorted(f["fail"])) + (":" + ",".join(sorted(i.get("conds", []))) if i.get("conds") else "")
        if e.get("src") == "gen":
            cls += "@" + e["key"].split(":")[1]          # the generator family of the input
        classes.setdefault(cls, []).append(f)
    kept = []
    summary = {}
    for cls, fs in sorted(classes.items()):
        fs.sort(key=lambda f: (by_tid[f["tid"]].get("src") != "named", len(by_tid[f["tid"]].get("key", "")), by_tid[f["tid"]].get("key", "")))
        named = [f for f in fs if by_tid[f["tid"]].get("src") == "named"]
        kept += named + [f for f in fs if f not in named][:1]
        wit = [info.get(f["tid"], {}).get("conservative") for f in fs]
        summary[cls] = {"events": len(fs), "not_conservative": wit.count("NO"), "conservative": wit.count("yes"),
                        "example": by_tid[fs[0]["tid"]].get("key", "")[:200]}
    if summary:
        rep.notes.setdefault("failing_classes", {})[name] = summary
    v2 = dict(v)
    v2["fails"] = kept
    rep.add_trace_result(name, evs, v2)
    rep.notes["traces"][name]["fails"] = len(v["fails"])


def _selftest_events(defs, lib, hist):
    """Binding self-test: real events with ONE recorded field corrupted; the trace specification must reject each with the clause named."""
    bad = []
    B = ["tc", "bool", []]
    n = 0
    for e in defs:
        if (e["kind"] == "item" and e["src"] == "vec" and e["installed"] and e.get("intended") and e["cand"]["sok"] and e["cand"]["newname"]
                and e["parsed"]["T"] == B and n < 3):
            c = copy.deepcopy(e)
            # the accepted right-hand side is replaced by the negation of the defined constant
            c["parsed"]["prop"][2] = ["comb", ["const", "neg", ["tc", "fun", [B, B]]], ["const", c["parsed"]["name"], B]]
            c["ext_thms"] = []
            bad.append((c, "SyntacticOK"))
            n += 1
    n = 0
    for e in hist:
        if (e["kind"] == "item" and e["installed"] and e["isdefn"] and e["declared_before"]["ov"] and not e["prior_insts"]
                and e["cand"]["step"] == 0 and n < 3):
            c = copy.deepcopy(e)
            c["prior_insts"] = [c["newconst"]["T"]]             # the same instance is recorded as introduced before
            bad.append((c, "NewConst"))
            n += 1
    n = 0
    for e in lib:
        if e["kind"] == "item" and e["installed"] and e["ext_thms"] and e["csig"] and n < 3:
            c = copy.deepcopy(e)
            c["csig"][0][1] = ["tc", "nosuchtype", []]          # the declared type of one constant is changed
            bad.append((c, "ExtOK"))
            n += 1
    n = 0
    for e in lib:
        if e["kind"] == "rt" and e["route"] == "edit" and e["ty"] == "def" and n < 3 and e["before"] == e["after"] and e["after"]["error"] == "":
            c = copy.deepcopy(e)
            c["after"]["prop"] = c["after"]["prop"][2]          # the re-parsed proposition loses its left-hand side
            bad.append((c, "RoundTrip_edit"))
            n += 1
    return bad


def run(rep, tier):
    quick = tier == "quick"
    wd = work_dir("C11", "run", clean=True)     # (.work/C11 itself keeps validated patches)
    nrand = 400 if quick else 6000
    rep.rule = ("TLC offers every candidate definition of the universe (constant types of arity <= 2 over bool/'a, lhs arguments = "
                "variables / repeated variables / constants / applications, partial application, rhs = every well-typed term of depth <= 2 "
                "over the arguments, extra free and schematic variables, logical constants, the defined constant itself, other instances of an "
                "overloaded name, closed polymorphic formulas; names new / overloaded / already declared) to the theory machine and emits all of "
                "them; each is printed, parsed by items.parse_item and installed; every HISTORY of two (thorough: three) definitions of one name at equal / "
                "more general / crossing / disjoint instance types is offered item by item to one growing theory. Plus %d seeded random larger candidates in theory nat, "
                "generated datatypes (<= 3 constructors; uniform and NON-uniform recursion: other instances, swapped / identified parameters, "
                "nested in fun / list / pair / itself; arity 0-2; constructor types disagreeing with the declared parameters) with functions / predicates "
                "over them, statements and rules of every type as axioms / theorems / introduction rules, histories of items about one name "
                "(overloaded instances, redefinition after a derived fact, different kinds of item), and every item of %s library files with "
                "export_json and get_display/parse_edit round trips. Non-trivial = item accepted and installed (clauses evaluated on the "
                "parsed object and its extensions) or a round trip compared; distinct by full event content."
                % (nrand, "7 sampled" if quick else "all 43"))
    rep.assumptions = ["finite standard models with |tyvar| <= 2 for the semantic reading (witness only; the violation clause is the literal reading)",
                       "TLC/SANY, the structural codec harness/codec.py, CPython",
                       "the repo printer is used only to generate input text; verdicts are on what the parser produced",
                       "library theories are loaded after importing data.integer/data.expr/imperative.imp in a fresh process (load-order independence is C12)"]
    s = seed()
    ev_gen, ev_rand, ev_lib = wd / "gen.ndjson", wd / "rand.ndjson", wd / "lib.ndjson"
    files = sorted(p.stem for p in (REPO / "library").glob("*.json"))
    require(len(files) >= ALL_FILES, "C11: expected %d library files, found %d" % (ALL_FILES, len(files)))
    if quick:
        rnd = random.Random(s)
        light = [f for f in files if f in LIGHT]
        sample = sorted(set(rnd.sample([f for f in light if f != "nat"], 4) + ["real", "logic_base", "nat"]))
    else:
        sample = files
    rep.notes["library_files"] = sample
    pool = ThreadPoolExecutor(max_workers=4)
    futs = [pool.submit(run_driver, "c11", ["library", ",".join(sample), ev_lib]),
            pool.submit(run_driver, "c11", ["gen", ev_gen, s]),
            pool.submit(run_driver, "c11", ["rand", nrand, ev_rand, s])]
    # ---- design level
    cfg = "C11_Items_small.cfg" if quick else "C11_Items_deep.cfg"
    vec = wd / "vectors.ndjson"
    hist, ev_hist = wd / "histories.ndjson", wd / "hist.ndjson"
    r = model_check("C11_Items", cfg, wd=wd / "mc", workers=1, env={"VECTOR_FILE": vec, "HIST_FILE": hist}, timeout=7200, xmx="6g")
    rep.add_mc("C11_Items", r, cfg)
    if r.violated:
        rep.design_violation("C11_Items", r)
        for f in futs:
            f.result()
        return
    require(vec.exists() and hist.exists(), "C11_Items did not emit vectors / histories")
    rep.exhaustive = True
    vs = read_events(vec)
    nv = len(vs)
    n_ok = sum(1 for v in vs if v["sok"] and v["newname"] and v["wf"])      # = number of Add transitions
    n_bad_cons = sum(1 for v in vs if not v["sok"] and v["exam"] and v["cons"])
    n_bad_noncons = sum(1 for v in vs if not v["sok"] and v["exam"] and not v["cons"])
    rep.notes["vectors"] = {"candidates": nv, "acceptable(Add taken)": n_ok, "refused": nv - n_ok, "not_ok_but_conservative": n_bad_cons,
                            "not_ok_and_not_conservative": n_bad_noncons, "names": sorted({v["name"] for v in vs})}
    require(nv >= 3000 and n_ok >= 100 and n_bad_cons >= 100 and n_bad_noncons >= 100 and r.distinct >= 2 * nv,
            "C11_Items: universe too small / one action never taken (vacuity guard): %s states=%d" % (rep.notes["vectors"], r.distinct))
    # ---- spec -> code (two shards), concurrently: oracle non-vacuity (weakened readings of the conditions must violate ConservativeIfOK)
    shards = _split_lines(vec, 2, wd, "vec")
    outs = [wd / ("defs_%d.ndjson" % i) for i in range(len(shards))]
    dfuts = [pool.submit(run_driver, "c11", ["defs", a, b] + (["named"] if k == 0 else [])) for k, (a, b) in enumerate(zip(shards, outs))]
    dfuts.append(pool.submit(run_driver, "c11", ["hist", hist, ev_hist]))
    hs = read_events(hist)
    rep.notes["histories"] = {"histories": len(hs), "steps": sum(len(h["steps"]) for h in hs),
                              "later_step_refused": sum(1 for h in hs if any(not st["accept"] for st in h["steps"][1:])),
                              "all_steps_accepted": sum(1 for h in hs if all(st["accept"] for st in h["steps"]))}
    require(len(hs) >= 150 and rep.notes["histories"]["later_step_refused"] >= 50 and rep.notes["histories"]["all_steps_accepted"] >= 30,
            "C11_Items: too few histories (vacuity guard): %s" % rep.notes["histories"])
    menv = {"VECTOR_FILE": wd / "mutant_vectors.ndjson", "HIST_FILE": wd / "mutant_histories.ndjson"}
    full = "SyntacticOK(d) == ArgsDistinctVars(d) /\\ NoExtraFree(d) /\\ NoExtraTVars(d) /\\ NoSelfOverlap(d)"
    spec_mutant(rep, "no_self_occurrence_condition", "C11_Items", "C11_Items_tiny.cfg",
                [("C11_Def.tla", full, full.replace(" /\\ NoSelfOverlap(d)", ""))], ["ConservativeIfOK"], wd=wd, workers=1, env=menv)
    if not quick:
        spec_mutant(rep, "no_type_variable_condition", "C11_Items", "C11_Items_tiny.cfg",
                    [("C11_Def.tla", full, full.replace(" /\\ NoExtraTVars(d)", ""))], ["ConservativeIfOK"], wd=wd, workers=1, env=menv)
        spec_mutant(rep, "schematic_variables_not_free", "C11_Items", "C11_Items_tiny.cfg",
                    [("C11_Def.tla", "FreeOf(t) == FreeVarsOf(t) \\cup SVarsOf(t)", "FreeOf(t) == FreeVarsOf(t)")], ["ConservativeIfOK"],
                    wd=wd, workers=1, env=menv)
        # (an occurrence at an overlapping but different type makes the semantic reading inapplicable: caught by AllExaminable)
        spec_mutant(rep, "overlap_means_equal_type", "C11_Items", "C11_Items_tiny_exam.cfg",
                    [("C11_Def.tla", "c[2] = d.name => ~Overlaps(c[3], d.T)", "c[2] = d.name => c[3] # d.T")],
                    ["AllExaminable"], wd=wd, workers=1, env=menv)
        spec_mutant(rep, "new_name_ignores_earlier_instances", "C11_Items", "C11_Items_tiny.cfg",
                    [("C11_Items.tla", "/\\ \\A p \\in dcl.insts : ~Overlaps(p, x.T)", "")], ["UniqueGround"], wd=wd, workers=1, env=menv)
        spec_mutant(rep, "extension_forgets_constant", "C11_Items", "C11_Items_tiny.cfg",
                    [("C11_Items.tla", "consts |-> ExtConsts(t, x), thms", "consts |-> t.consts, thms")], ["AddedWellTyped"],
                    wd=wd, workers=1, env=menv)
    for f in dfuts + futs:
        f.result()
    pool.shutdown()
    # ---- code -> spec: ONE trace (sources + self-test events), validated in parallel chunks; verdicts split back per source
    sources = [("defs", outs), ("hist", [ev_hist]), ("rand", [ev_rand]), ("gen", [ev_gen]), ("library", [ev_lib])]
    evs, tid = {}, 0
    for name, paths in sources:
        evs[name] = []
        for pth in paths:
            for e in read_events(pth):
                tid += 1
                e["tid"] = tid
                evs[name].append(e)
    st = _selftest_events(evs["defs"], evs["library"], evs["hist"])
    require(len(st) >= 10, "C11: could not build the binding self-test events")
    for k, (c, _) in enumerate(st):
        c["tid"] = 10 ** 7 + k
    allp = wd / "events.ndjson"
    write_events(allp, [e for name, _ in sources for e in evs[name]] + [c for c, _ in st])
    v = validate_trace(TSPEC, allp, wd=wd / "tv", nchunks=2 if quick else 4, timeout=7200)
    flagged = {f["tid"]: f["fail"] for f in v["fails"]}
    missed = [(c["tid"], cl) for c, cl in st if cl not in flagged.get(c["tid"], [])]
    require(not missed, "self-test: %s accepted corrupted events %s" % (TSPEC, missed))
    rep.notes["selftests"] = [{"spec": TSPEC, "corrupted_events": sum(1 for _, c2 in st if c2 == cl), "all_rejected_with": cl}
                              for cl in ("SyntacticOK", "NewConst", "ExtOK", "RoundTrip_edit")]
    for name, _ in sources:
        tids = {e["tid"] for e in evs[name]}
        vn = {"consumed": len(tids), "fails": [f for f in v["fails"] if f["tid"] in tids],
              "nontrivial": [t for t in v["nontrivial"] if t in tids], "divergences": [t for t in v["divergences"] if t in tids],
              "info": [i for i in v["info"] if i["tid"] in tids], "states": 0, "wall": v["wall"]}
        _add(rep, name, evs[name], vn)
    rep.states += v.get("states", 0)
    # ---- vacuity guards
    t = rep.notes["traces"]
    lib_items = [e for e in evs["library"] if e["kind"] == "item"]
    rep.notes["library"] = {"items": len(lib_items), "definitions": sum(1 for e in lib_items if e["isdef"]),
                            "round_trips": sum(1 for e in evs["library"] if e["kind"] == "rt")}
    rep.notes["defs"] = {"offered": len(evs["defs"]), "accepted_and_installed": sum(1 for e in evs["defs"] if e["kind"] == "item" and e["installed"]),
                         "parsed_as_intended": sum(1 for e in evs["defs"] if e.get("intended")),
                         "refused": sum(1 for e in evs["defs"] if e["kind"] == "item" and e["error"]),
                         "unprintable": sum(1 for e in evs["defs"] if e["kind"] == "skip")}
    require(rep.notes["defs"]["unprintable"] * 20 <= nv, "C11: too many candidates could not be printed")
    require(t["defs"]["nontrivial"] >= 100 and t["rand"]["nontrivial"] >= 50 and t["gen"]["nontrivial"] >= 150,
            "C11: too few accepted items examined (vacuity guard): %s" % t)
    require(rep.notes["library"]["definitions"] >= (5 if quick else 140) and rep.notes["library"]["round_trips"] >= (400 if quick else 7000),
            "C11: too few library items examined (vacuity guard): %s" % rep.notes["library"])
    gk = {}
    for e in evs["gen"]:
        if e["kind"] == "item":
            tag = e["key"].split(":")[1]
            gk[tag] = gk.get(tag, 0) + 1
    rep.notes["generated_items"] = gk
    require(t["hist"]["nontrivial"] >= 150 and gk.get("datatype_mm", 0) >= 10 and gk.get("stmt", 0) >= 30 and gk.get("rule", 0) >= 12
            and gk.get("hist_kk", 0) >= 100 and gk.get("hist_redef", 0) >= 15 and gk.get("hist_kinst", 0) >= 40,
            "C11: too few histories / statements / rules / mismatched datatypes examined (vacuity guard): %s %s" % (t["hist"], gk))
    n_nu = sum(1 for e in evs["gen"] if e["kind"] == "item" and e["key"].startswith("gen:datatype_nu:") and e["installed"])
    rep.notes["generated_datatypes"] = {"installed": sum(1 for e in evs["gen"] if e["kind"] == "item" and e["ty"] == "type.ind" and e["installed"]),
                                        "with_non_uniform_recursion_or_arity_2": n_nu}
    require(n_nu >= 40, "C11: too few datatypes with non-uniform recursion were accepted and examined (vacuity guard): %d" % n_nu)
    n_judged = sum(1 for i in v["info"] if i["conservative"] in ("yes", "NO"))
    rep.notes["semantic_witness_evaluated"] = n_judged
    require(n_judged >= 80, "C11: the semantic reading was evaluated on too few accepted definitions")


def replay(path):
    """Re-run one recorded failing event against the current code (same input, found again by its key) and re-validate it."""
    obj = json.load(open(path))
    wd = work_dir("C11", "replay1", clean=True)
    if obj.get("kind") != "event":
        print(json.dumps(obj, indent=1)[:3000])
        return 1
    e = obj["event"]
    out = wd / "out.ndjson"
    src = e.get("src", "")
    if src == "vec":
        c = e["cand"]
        write_events(wd / "vec.ndjson", [c])
        run_driver("c11", ["defs", wd / "vec.ndjson", out])
    elif src == "named":
        write_events(wd / "vec.ndjson", [])
        run_driver("c11", ["defs", wd / "vec.ndjson", out, "named"])
    elif src == "hist":
        write_events(wd / "hist.ndjson", [{"steps": e["cand"]["history"]}])
        run_driver("c11", ["hist", wd / "hist.ndjson", out])
    elif src == "rand":
        run_driver("c11", ["rand", e["cand"]["idx"] + 1, out, seed()])
    elif src == "gen":
        run_driver("c11", ["gen", out, seed()])
    elif src == "lib":
        run_driver("c11", ["library", e["key"].split(":")[1], out])
    else:
        print("unknown event source", src)
        return 2
    again = [x for x in read_events(out) if x.get("key") == e["key"]]
    if not again:
        print("the input no longer produces an event with key", e["key"])
        return 0
    ev = wd / "ev.ndjson"
    write_events(ev, again[-1:])
    v = validate_trace(TSPEC, ev, wd=wd / "tv", nchunks=1)
    print("event:", e["key"][:200])
    print("fails:", v["fails"], "info:", v.get("info"))
    if any(obj["clause"] in f["fail"] for f in v["fails"]):
        print("VIOLATION property=C11 replay=%s" % path)
        return 1
    print("not reproduced on the current tree")
    return 0
