"""C16 - Omega test and simplex agree with ground truth and return genuine witnesses.   DESIGN.md section 6/C16

 S  spec/C16_LinArith.tla (+ C16_LinCore.tla)   TLC explores every multiset of <= 2 (and a class of 3) factoids over two variables as a
                              state space and runs a REFERENCE elimination (Fourier-Motzkin, real shadow + GCD tightening, dark
                              shadow) over it in every variable order; invariants RealSound, ContrSound, DarkSound, ExactComplete,
                              FMExact (grid completeness), BoxStable are judged by brute force over boxes; emits every system
 ->  harness/drivers/c16.py   runs omega.solve_matrix / OmegaHOL / Simplex / SimplexMacro / branch_and_bound / simplex_strict on every
                              emitted system and on seeded random systems (<= 5 variables, <= 8 constraints, coefficients -5..5);
                              proofs are exported and run through theory.check_proof
 T  spec/C16_LinArithTrace.tla  TLC evaluates WitnessSatisfies / WitnessIntegral / UnsatSound / ProofAccepted / ProofConcludesFalse /
                              ProofHypsGiven / ProofHypsUnsat on every event
"""
import copy
import json
import time
from concurrent.futures import ThreadPoolExecutor
from pathlib import Path

from harness.core import (MachineryError, model_check, read_events, require, run_driver, seed, spec_mutant,
                          validate_trace, work_dir, write_events)

TSPEC = "C16_LinArithTrace"
SLIM = ("tid", "dom", "n", "sys", "verdict", "wit")
PSLIM = ("present", "accepted", "false", "hypsok", "hyps")
INVS = ["RealSound", "ContrSound", "DarkSound", "ExactComplete", "FMExact"]


def slim(evs, path):
    out = []
    for e in evs:
        s = {k: e[k] for k in SLIM}
        s["proof"] = {k: e["proof"][k] for k in PSLIM}
        out.append(s)
    write_events(path, out)


def _validate(name, path, wd, nchunks=None):
    evs = read_events(path)
    sp = Path(wd) / ("slim_" + name + ".ndjson")
    slim(evs, sp)
    v = validate_trace(TSPEC, sp, wd=Path(wd) / ("tv_" + name), nchunks=nchunks)
    return evs, v


def _cap(rep, name, evs, v, per_group=6):
    """Every failing event is counted in the evidence; replays / VIOLATION lines are written for the `per_group` smallest
    failing systems of each (procedure, clause) group only (one code defect typically fails thousands of events)."""
    by = {e["tid"]: e for e in evs}
    groups = {}
    for f in v["fails"]:
        e = by[f["tid"]]
        for cl in f["fail"]:
            groups.setdefault((e["proc"], cl), []).append(f["tid"])
    keep = {}
    for (proc, cl), tids in groups.items():
        tids.sort(key=lambda t: (len(by[t]["sys"]), by[t]["n"], sum(abs(x) for r in by[t]["sys"] for x in r), by[t]["key"]))
        rep.notes.setdefault("failing_events", {})["%s/%s/%s" % (name, proc, cl)] = len(tids)
        for t in tids[:per_group]:
            keep.setdefault(t, set()).add(cl)
    out = dict(v)
    out["fails"] = [{"tid": t, "fail": sorted(cls)} for t, cls in sorted(keep.items())]
    return out


def _selftest(rep, evs, wd):
    """Binding self-test: corrupt one recorded field of real events; T must reject each with the expected clause."""
    bad, expect = [], {}

    def add(e, clause):
        e["tid"] = 9 * 10 ** 7 + len(bad)
        bad.append(e)
        expect[e["tid"]] = clause
    cnt = {"w": 0, "u": 0, "i": 0, "h": 0, "f": 0, "a": 0}
    for e in evs:
        w, p = e["wit"], e["proof"]
        if e["verdict"] == "SAT" and w["ok"] and not any(w["miss"]) and max(abs(x) for x in w["nums"]) <= 20 * w["den"]:
            row = next((r for r in e["sys"] if r[0] != 0 and r[-2] in (1, 2)), None)
            if row is not None and cnt["w"] < 3:           # push x_1 far to the violating side of that row
                c = copy.deepcopy(e)
                sign = -1 if (row[0] > 0) == (row[-2] == 1) else 1
                c["wit"]["nums"][0] = sign * 100000 * w["den"]
                add(c, "WitnessSatisfies")
                cnt["w"] += 1
            if e["dom"] == "int" and w["den"] == 1 and e["n"] <= 2 and cnt["u"] < 3:   # a verified solution, verdict flipped
                c = copy.deepcopy(e)
                c["verdict"] = "UNSAT"
                add(c, "UnsatSound")
                cnt["u"] += 1
            if e["dom"] == "int" and w["den"] == 1 and cnt["i"] < 2:
                c = copy.deepcopy(e)
                c["wit"]["den"] = 2
                c["wit"]["nums"] = [2 * x for x in w["nums"]]
                c["wit"]["nums"][0] += 1
                add(c, "WitnessIntegral")
                cnt["i"] += 1
        if p["present"] and p["accepted"] and p["false"] and p["hypsok"] and p["hyps"]:
            if cnt["h"] < 2:
                c = copy.deepcopy(e)
                h = list(c["proof"]["hyps"][0])
                h[-1] += 7                                  # a hypothesis that is not one of the given constraints
                c["proof"]["hyps"][0] = h
                add(c, "ProofHypsGiven")
                cnt["h"] += 1
            if cnt["f"] < 2:
                c = copy.deepcopy(e)
                c["proof"]["false"] = False
                add(c, "ProofConcludesFalse")
                cnt["f"] += 1
            if cnt["a"] < 2:
                c = copy.deepcopy(e)
                c["proof"]["accepted"] = False
                add(c, "ProofAccepted")
                cnt["a"] += 1
    require(cnt["w"] and cnt["u"] and cnt["i"] and cnt["h"] and cnt["f"] and cnt["a"],
            "C16 self-test: could not build every kind of corrupted event %s" % cnt)
    p = Path(wd) / "selftest.ndjson"
    slim(bad, p)
    v = validate_trace(TSPEC, p, wd=Path(wd) / "selftest_tv", nchunks=1)
    got = {f["tid"]: f["fail"] for f in v["fails"]}
    missing = [(t, c) for t, c in expect.items() if c not in got.get(t, [])]
    if missing:
        raise MachineryError("C16 self-test: T accepted corrupted events %s" % missing[:5])
    rep.notes.setdefault("selftests", []).append({"spec": TSPEC, "corrupted_events": len(bad), "all_rejected_with": sorted(set(expect.values()))})


def run(rep, tier):
    quick = tier == "quick"
    wd = work_dir("C16", "run", clean=True)      # patches of validated repairs live in .work/C16/*.diff
    cfg = "C16_LinArith_small.cfg" if quick else "C16_LinArith_deep.cfg"
    cls = ("all multisets of 1..2 factoids 0 <= a*x1 + b*x2 + c, a,b in -2..2, c in %s; all multisets of 3 factoids with %s"
           % (("-2..2", "a in {-2,0,2}, b in {-1,1}, c in -1..1") if quick else ("-3..3", "a,b in -2..2, c in -1..1")))
    cls += ("; all 3-row multisets with a,b,c in -1..1 in which one linear form is bounded twice with different constants" if quick else "")
    cls += (" -- these repeated-form systems are also emitted as ORDERED systems (all 6 assertion orders: weak-then-tight, "
            "tight-then-weak, third row before/between/after; coefficients %s) and replayed in that order through Simplex, "
            "SimplexMacro and branch_and_bound" % ("-1..1" if quick else "-2..2"))
    rep.rule = ("TLC explores " + cls + " (every system a state; reference Fourier-Motzkin / real-shadow+GCD / dark-shadow "
                "elimination in every variable order, invariants judged by brute force over integer boxes and the rational grid "
                "k/d, d in {1,2,3,4,5,6,8}, |k| <= 12). Every system is replayed through omega.solve_matrix (both row orders) and "
                "Simplex (two input shapes); samples through OmegaHOL, SimplexMacro, branch_and_bound, IntegerSimplexMacro, "
                "simplex_strict; plus seeded random systems <= 5 variables / 8 constraints / coefficients -5..5. Non-trivial = a "
                "verdict UNSAT (box searched), SAT with an examinable witness (every row evaluated), or a produced proof; distinct "
                "by (procedure, input shape, system).")
    rep.assumptions = ["UNSAT verdicts are refuted only by an explicit point of the box (int: [-20,20]^2, [-6,6]^3, [-3,3]^4, [-2,2]^5; "
                       "rat: grid k/d) -- a solution outside the box is not seen (no false alarm, possible miss); the grid is "
                       "model-checked complete for the enumerated 2-variable class (FMExact), the integer box only shown stable (BoxStable)",
                       "simplex_strict SAT assignments are symbolic in delta and are not examined; witnesses with |num| or den > 10^6 are not examined",
                       "NOCONCL / exception / time-out of the code is 'no conclusion' (allowed by the property), counted as divergence",
                       "TLC/SANY, CPython, kernel term accessors (is_number/dest_number, raw fields) used to project hypotheses to linear forms"]
    vec, marker, rdone = wd / "vectors.ndjson", wd / "vectors.done", wd / "random.done"
    ev_vec, ev_rand = wd / "ev_vectors.ndjson", wd / "ev_random.ndjson"
    nrand = 300 if quick else 3000
    ecfg = cfg.replace(".cfg", "_emit.cfg")
    # 1. the input class as vectors (EmitSpec: same module and constants as the exploration below, ~4 s)
    r0 = model_check("C16_LinArith", ecfg, wd=wd / "emit", workers=1, env={"VECTOR_FILE": vec}, timeout=3600)
    require(r0.ok and vec.exists(), "C16_LinArith (EmitSpec) did not emit vectors")
    fams = [json.loads(ln).get("fam", "v") for ln in open(vec) if ln.strip()]
    rep.notes["vectors"] = fams.count("v")
    rep.notes["ordered_repeat_vectors"] = fams.count("p")
    marker.write_text("ok")
    ex = ThreadPoolExecutor(max_workers=3)
    # 2. the driver (one process: importing the int/real theories costs ~17 s; random systems, then the vectors) runs
    #    while TLC explores S over the same class
    fut = ex.submit(run_driver, "c16", ["all", vec, marker, ev_vec, ev_rand, nrand, seed(), tier, rdone], timeout=7200)
    def trace_random():
        t0 = time.time()
        while not rdone.exists():
            if fut.done():
                fut.result()
            require(time.time() - t0 < 7200, "C16: random driver did not finish")
            time.sleep(0.2)
        return _validate("random", ev_rand, wd, nchunks=1 if quick else 2)
    fr = ex.submit(trace_random)
    try:
        r = model_check("C16_LinArith", cfg, wd=wd / "mc", workers=3, timeout=7200)
    except BaseException:
        for f in (fut, fr):
            try:
                f.result()
            except Exception:
                pass
        raise
    rep.add_mc("C16_LinArith", r, cfg)
    if r.violated:
        rep.design_violation("C16_LinArith", r)
        fut.result()
        fr.result()
        return
    require(r.distinct >= 4 * rep.notes["vectors"], "C16_LinArith explored fewer states than the emitted class needs")
    rep.exhaustive = True

    def mutants():
        # oracle non-vacuity: a dark shadow without Pugh's correction term must violate DarkSound
        spec_mutant(rep, "dark_shadow_without_correction", "C16_LinArith", "C16_LinArith_mut.cfg",
                    [("C16_LinCore.tla", "b * L[k] + a * U[k] - (a - 1) * (b - 1)]", "b * L[k] + a * U[k]]")],
                    ["DarkSound"], wd=wd, workers=1)
        if not quick:
            spec_mutant(rep, "gcd_tightening_rounds_up", "C16_LinArith", "C16_LinArith_mut.cfg",
                        [("C16_LinCore.tla", "|-> f[k] \\div g] ELSE f", "|-> -((-f[k]) \\div g)] ELSE f")],
                        INVS, wd=wd, workers=1)
            spec_mutant(rep, "real_shadow_wrong_multiplier", "C16_LinArith", "C16_LinArith_mut.cfg",
                        [("C16_LinCore.tla", "(d \\div g) * L[k] + (c \\div g) * U[k]]", "(c \\div g) * L[k] + (d \\div g) * U[k]]")],
                        INVS + ["TypeOK"], wd=wd, workers=1)

    fm = ex.submit(mutants)
    fut.result()
    res = {"vectors": _validate("vectors", ev_vec, wd, nchunks=2 if quick else 3), "random": fr.result()}
    fm.result()
    ex.shutdown()
    all_evs = []
    for name in ("vectors", "random"):
        evs, v = res[name]
        rep.add_trace_result(name, evs, _cap(rep, name, evs, v))
        all_evs += evs
    _selftest(rep, all_evs, wd)
    tr = rep.notes["traces"]
    procs = {}
    for e in all_evs:
        d = procs.setdefault(e["proc"], {})
        d[e["verdict"]] = d.get(e["verdict"], 0) + 1
        if e["proof"]["present"]:
            d["proofs"] = d.get("proofs", 0) + 1
            if e["proof"]["accepted"]:
                d["proofs_accepted"] = d.get("proofs_accepted", 0) + 1
    rep.notes["verdicts_by_procedure"] = procs
    replayed = {json.dumps(e["sys"]) for e in res["vectors"][0] if e["proc"] == "omega" and e["tag"] == "v"}
    require(len(replayed) == rep.notes["vectors"] and tr["vectors"]["events"] >= 3.5 * rep.notes["vectors"],
            "C16: not every emitted system was replayed (%d of %d)" % (len(replayed), rep.notes["vectors"]))
    ordered = {json.dumps(e["sys"]) for e in res["vectors"][0] if e["proc"] == "simplex" and e["tag"] == "pnz"}
    require(len(ordered) == rep.notes["ordered_repeat_vectors"] and len(ordered) >= 3000,
            "C16: not every ordered repeated-form system was replayed (%d of %d)" % (len(ordered), rep.notes["ordered_repeat_vectors"]))
    require(tr["vectors"]["nontrivial"] >= 0.6 * tr["vectors"]["events"] and tr["random"]["nontrivial"] >= 0.5 * tr["random"]["events"],
            "C16: too few examined events (vacuity guard)")
    for proc, k, mn in (("omega", "UNSAT", 100), ("omega", "SAT", 1000), ("simplex", "UNSAT", 100), ("simplex", "SAT", 1000),
                        ("omegahol", "proofs_accepted", 20), ("simplexmacro", "proofs_accepted", 20), ("bnb", "SAT", 20)):
        require(procs.get(proc, {}).get(k, 0) >= mn, "C16: too few %s %s events (%s; vacuity guard)" % (proc, k, procs.get(proc)))


def replay(path):
    """Re-run one recorded failing event against the current code and re-validate it."""
    obj = json.load(open(path))
    wd = work_dir("C16", "replay1", clean=True)
    if obj.get("kind") != "event":
        print(json.dumps(obj, indent=1)[:3000])
        return 1
    e = obj["event"]
    (wd / "event.json").write_text(json.dumps(e))
    run_driver("c16", ["one", wd / "event.json", wd / "ev.ndjson"])
    evs, v = _validate("replay", wd / "ev.ndjson", wd, nchunks=1)
    for x in evs:
        print("event:", x["proc"], x["sys"], "->", x["verdict"], x["wit"], x["proof"], x["err"])
    print("fails:", v["fails"])
    if v["fails"]:
        print("VIOLATION property=C16 replay=%s" % path)
        return 1
    print("not reproduced on the current tree")
    return 0
