"""C17 - congruence closure decides exactly the equalities entailed by the merges.   DESIGN.md section 6/C17

 S  spec/C17_CongC.tla        the abstract machine "set of merged equations"; validates the oracle: Closure (least fixpoint of
                              reflexivity/symmetry/transitivity/congruence) is a congruence, is the least one (= what holds in every
                              compatible quotient), agrees with the fast formulation used on large traces, Explains is sound/complete
 I  spec/C17_CongCImpl.tla    Nieuwenhuis-Oliveras as coded in prover/congc.py (rep, class_list, use_list, lookup, proof forest with
                              path reversal, pending; actions Merge / PropagateOne / Test / Explain / Return); TLC explores ALL merge
                              sequences (3 constants x 3 merges quick; also 4 x 3 thorough; deeper by simulation); invariants
                              TestCorrect, ExplainCorrect, QueryCorrect + structural ones; every completed sequence is emitted
 -> harness/drivers/c17.py    replays the sequences on the real CongClosure (full record projection, test on all pairs, explain on
                              all equal pairs) and on CongClosureHOL (f(x,y) = F x y; theorem run through theory.check_proof), plus
                              seeded random curried-term scenarios (<= 8 constants, depth <= 3), queries after every prefix over
                              applications never merged or added (all pairs of F x y over the constants, swapped arguments, depth 2;
                              merges with and without proof terms, exported proofs checked with no_gaps when all carried one),
                              UnionFind union sequences, and the
                              systematic family "edges of one path through 6-7 constants merged in every order" (deep proof-forest
                              paths on both sides of a merge; exhaustive from TLC in thorough: C17_CongCImpl_chain.cfg)
 T  spec/C17_CongCTrace.tla   TLC evaluates test <=> Closure, Explains(used), theorem/hypotheses clauses on every event, and compares
                              the projected record with the I specification's run of the same sequence (divergence only)
"""
import copy
import json
import os
import time
from collections import Counter
from concurrent.futures import ThreadPoolExecutor

from harness.core import (model_check, read_events, require, run_driver, run_drivers_parallel, seed, selftest_trace,
                          spec_mutant, tlc, validate_trace, work_dir, write_events, MachineryError)

PID = "C17"
TSPEC = "C17_CongCTrace"
INVS = ["TestCorrect", "ExplainCorrect", "QueryCorrect", "AlwaysSound", "RepIdempotent", "ClassListsMatch",
        "ForestMatchesRep", "ForestLabelsMerged", "LookupComplete"]
MAX_REPLAYS_PER_CLAUSE = 3


def _mc(rep, module, cfg, wd, vec=None, **kw):
    env = {"VECTOR_FILE": vec if vec else wd / ("scratch_%s.csv" % cfg)}
    if vec and vec.exists():
        vec.unlink()
    r = model_check(module, cfg, wd=wd / "mc", env=env, **kw)
    rep.add_mc(module, r, cfg)
    if r.violated:
        rep.design_violation(module + ":" + cfg, r)
    return r


class _Phase:
    """Wall and CPU (children) seconds per phase, recorded in the evidence notes."""
    def __init__(self, rep, name):
        self.rep, self.name = rep, name

    def __enter__(self):
        t = os.times()
        self.t0 = (time.time(), t.children_user + t.children_system)
        return self

    def __exit__(self, *a):
        t = os.times()
        self.rep.notes.setdefault("phases_wall_cpu_s", {})[self.name] = [round(time.time() - self.t0[0], 1),
                                                                        round(t.children_user + t.children_system - self.t0[1], 1)]
        return False


def _nlines(p):
    return sum(1 for _ in open(p)) if p.exists() else 0


def run(rep, tier):
    quick = tier == "quick"
    wd = work_dir(PID, "run", clean=True)   # .work/C17/*.diff (validated repairs) must survive
    rep.rule = ("TLC explores every sequence of <= %s merges (constant equations a=b and f(a,b)=c, including trivial and repeated "
                "ones) of the implementation-level specification, one PropagateOne per pending equation, with test/explain "
                "queries between merges; one behaviour per orbit of constant renaming (SYMMETRY), replayed under a seeded renaming. "
                "Every completed sequence is an event of the real CongClosure (and, sampled, of CongClosureHOL); random curried-term "
                "scenarios, union sequences and path-shaped constant-equation families (all 120 orders of the 5 edges of a path through 6 "
                "constants, seeded orientations; 7 constants sampled) are added. Non-trivial = an event on which the real code answered test on all pairs / "
                "explained / proved and the Closure clause was evaluated; distinct by (kind, merge history or scenario step)."
                % ("3 over 3 constants" if quick else "3 over 3 constants and over 4 constants (plus simulation: 7 merges over 6 constants, 6 over 3)"))
    rep.assumptions = ["TLC/SANY and the CommunityModules (Json, CSV, IOUtils); CPython",
                       "vocabulary: constants and one binary symbol; HOL terms are flattened to it by naming subterms structurally "
                       "(application = the binary symbol), which is exactly the wrapper's own reduction",
                       "the fast class-map formulation of the closure used on large events is checked equal to the least-fixpoint "
                       "definition only on the small scope of C17_CongC (<= 3 equations over 3 constants, <= 2 over 4)",
                       "union-find non-termination is observed with a 20 ms CPU-time limit per call and reported only when TLC finds a cycle "
                       "in the recorded parent map"]
    scratch = {"VECTOR_FILE": wd / "mutant_vectors.csv"}
    vec = wd / "vectors.csv"
    pool = ThreadPoolExecutor(max_workers=3)
    # ------------------------------------------------------------------ S: the oracle's definition
    # ------------------------------------------------------------------ I: the algorithm as coded, all merge sequences (+ queries, coverage)
    with _Phase(rep, "model_checking"):
        futs = [pool.submit(_mc, rep, "C17_CongC", cfg, wd, None, workers=1)
                for cfg in (["C17_CongC_small.cfg"] if quick else ["C17_CongC_deep.cfg", "C17_CongC_wide.cfg"])]
        fi = pool.submit(_mc, rep, "C17_CongCImpl", "C17_CongCImpl_small.cfg" if quick else "C17_CongCImpl_full.cfg", wd, vec,
                         workers=2, timeout=3600)
        fq = pool.submit(_mc, rep, "C17_CongCImpl", "C17_CongCImpl_queries.cfg" if quick else "C17_CongCImpl_queries3.cfg", wd,
                         wd / "scratch_q.csv", workers=1, coverage=True)
        vec4 = wd / "vectors_c4.csv"
        ff = pool.submit(_mc, rep, "C17_CongCImpl", "C17_CongCImpl_forest.cfg", wd, vec4, workers=1)
        rs = [f.result() for f in futs] + [fi.result(), ff.result()]
        rq = fq.result()
    if any(r.violated for r in rs + [rq]):
        return
    require(_nlines(vec) >= (8000 if quick else 47000), "C17_CongCImpl emitted too few vectors: %d" % _nlines(vec))
    rep.exhaustive = True
    cov = rq.coverage()
    rep.notes["action_coverage"] = {k: list(v) for k, v in cov.items()}
    for act in ("Merge", "PropagateOne", "Test", "Explain", "Return"):
        require(cov.get(act, (0, 0))[1] > 0, "action %s of C17_CongCImpl never taken (coverage %s)" % (act, cov))
    require(_nlines(vec4) >= 150, "C17_CongCImpl_forest.cfg emitted too few vectors: %d" % _nlines(vec4))
    extra = [("c4", vec4, 0, 0)]   # (name, vector file, max, every)
    if not quick:
        with _Phase(rep, "model_checking_larger"):
            v2 = wd / "vectors_wide.csv"
            r = _mc(rep, "C17_CongCImpl", "C17_CongCImpl_wide.cfg", wd, vec=v2, workers=3, timeout=7200)
            if r.violated:
                return
            require(_nlines(v2) > 20000, "C17_CongCImpl_wide.cfg emitted too few vectors")
            extra.append(("wide", v2, 0, 0))
            v5 = wd / "vectors_chain.csv"
            r = _mc(rep, "C17_CongCImpl", "C17_CongCImpl_chain.cfg", wd, vec=v5, workers=3, timeout=7200)
            if r.violated:
                return
            require(_nlines(v5) == 3840, "C17_CongCImpl_chain.cfg: expected 5! * 2^5 vectors, got %d" % _nlines(v5))
            extra.append(("chain", v5, 0, 0))
            for name, cfg, num in (("sim", "C17_CongCImpl_sim.cfg", 2500), ("sim3", "C17_CongCImpl_sim3.cfg", 2500)):
                v3 = wd / ("vectors_%s.csv" % name)
                r = tlc("C17_CongCImpl", cfg, wd=wd / "mc", simulate="num=%d" % num, depth=100, seed_=seed(),
                        env={"VECTOR_FILE": v3}, timeout=3600)
                if r.error:
                    raise MachineryError("TLC simulation failed: %s\n%s" % (r.error, r.out[-2000:]))
                rep.add_mc("C17_CongCImpl(simulate)", r, "%s num=%d" % (cfg, num))
                if r.violated:
                    rep.design_violation("C17_CongCImpl:" + name, r)
                    return
                require(_nlines(v3) >= num - 10, "simulation %s emitted too few vectors" % cfg)
                extra.append((name, v3, 0, 1))
    # ------------------------------------------------------------------ non-vacuity of the specifications (in the background)
    mutants = [("closure_without_congruence", "C17_CongC", "C17_CongC_small.cfg",
                [("C17_Closure.tla", "/\\ <<e1[2], e2[2]>> \\in R /\\ <<e1[3], e2[3]>> \\in R }", "/\\ FALSE }")],
                ["ClosureIsLeast", "ClosureIsCongruence", "FastAgrees"]),
               ("lookup_hit_not_propagated", "C17_CongCImpl", "C17_CongCImpl_small.cfg",
                [("C17_CongCAlgo.tla", "UseFold(rep2, us, i+1, lk, ub, Append(np, LabF(e, lk[k])))", "UseFold(rep2, us, i+1, lk, ub, np)")],
                ["TestCorrect", "LookupComplete"])]
    if not quick:
        mutants += [("forest_path_not_reversed", "C17_CongCImpl", "C17_CongCImpl_forest.cfg",
                     [("C17_CongCAlgo.tla", "THEN LET i == CHOOSE i \\in 1..(Len(path) - 1) : path[i+1][1] = c IN <<path[i][1], path[i+1][2]>>",
                       "THEN pf[c]")], ["ExplainCorrect", "ForestMatchesRep"]),
                    ("merge_ignores_existing_lookup", "C17_CongCImpl", "C17_CongCImpl_small.cfg",
                     [("C17_CongCAlgo.tla", "IF st.lk[k] # NoEq THEN [st EXCEPT !.pend = Append(@, LabF(e, st.lk[k]))]",
                       "IF FALSE THEN st")], ["TestCorrect", "LookupComplete"]),
                    ("explanation_drops_argument_proofs", "C17_CongCImpl", "C17_CongCImpl_small.cfg",
                     [("C17_CongCAlgo.tla", "ELSE ExplainLabs(pf, lab[2][2], lab[3][2], fuel - 1) \\cup ExplainLabs(pf, lab[2][3], lab[3][3], fuel - 1)",
                       "ELSE ExplainLabs(pf, lab[2][2], lab[3][2], fuel - 1)")], ["ExplainCorrect"])]

    def run_mutants():
        for name, module, cfg, edits, expect in mutants:
            spec_mutant(rep, name, module, cfg, edits, expect, wd=wd, workers=1, env=scratch)
    fm = pool.submit(run_mutants)
    # ------------------------------------------------------------------ spec -> code: run the real code
    sd = seed()
    jobs = [("c17", ["core", vec, wd / "core.ndjson", sd, 0, 0, 1 if quick else 0], None),
            ("c17", ["hol", vec, wd / "hol.ndjson", sd, 300 if quick else 6000], None),
            ("c17", ["holrand", 100 if quick else 2500, wd / "holrand.ndjson", sd], None),
            ("c17", ["corerand", 200 if quick else 3000, wd / "corerand.ndjson", sd], None),
            # wrapper queries over applications never merged or added (all pairs of F x y over the constants) after every prefix
            ("c17", ["holq", 60 if quick else 800, wd / "holq.ndjson", sd], None),
            ("c17", ["uf", vec, 100 if quick else 0, 120 if quick else 3000, wd / "uf.ndjson", sd], None)]
    # systematic path-shaped constant-equation families (deep proof-forest paths: 6-7 constants, 5-6 merges), raw class and wrapper
    jobs.append(("c17", ["chains", wd / "chain_core.ndjson", wd / "chain_hol.ndjson", sd, 4, 150 if quick else 1500, 100 if quick else 400], None))
    # spanning trees of constant equations over 6-8 constants (sub-forests joined pairwise; every prefix) on both levels, and all
    # orders of diagonal-application sets f(x,x)=y with connecting constant equations on the raw class
    jobs.append(("c17", ["forests", wd / "forest_core.ndjson", wd / "forest_hol.ndjson", sd, 400 if quick else 6000, 8 if quick else 150,
                         60 if quick else 600], None))
    traces = ["core", "hol", "holrand", "holq", "corerand", "uf", "chain_core", "chain_hol", "forest_core", "forest_hol"]
    for name, vf, mx, every in extra:
        jobs.append(("c17", ["core", vf, wd / ("core_%s.ndjson" % name), sd, mx, every, 1 if name in ("wide", "c4", "chain") else 0], None))
        traces.append("core_" + name)
    if not quick:
        jobs.append(("c17", ["hol", wd / "vectors_wide.csv", wd / "hol_wide.ndjson", sd, 3000], None))
        jobs.append(("c17", ["hol", wd / "vectors_chain.csv", wd / "hol_chainx.ndjson", sd, 1200], None))
        traces += ["hol_wide", "hol_chainx"]
    with _Phase(rep, "drivers"):
        run_drivers_parallel(jobs, max_workers=2)
    # ------------------------------------------------------------------ code -> spec: every event judged by TLC
    # one event file (tids made unique per trace, events interleaved so that the chunks are balanced)
    events, allv = {}, []
    for k, name in enumerate(traces):
        evs = read_events(wd / (name + ".ndjson"))
        for e in evs:
            e["tid"] += k * 10 ** 7
        events[name] = evs
        allv += evs
    allv.sort(key=lambda e: (e["tid"] % 10 ** 7, e["tid"]))
    write_events(wd / "all.ndjson", allv)
    with _Phase(rep, "trace_validation"):
        v = validate_trace(TSPEC, wd / "all.ndjson", wd=wd / "tv", nchunks=3 if quick else 4)
    all_counts = {}
    for k, name in enumerate(traces):
        evs = events[name]
        mine = lambda t: t // 10 ** 7 == k
        by_tid = {e["tid"]: e for e in evs}
        fails = [f for f in v["fails"] if mine(f["tid"])]
        all_counts[name] = dict(Counter(c for f in fails for c in f["fail"]))
        # one VIOLATION line (and replay file) per clause for the few smallest failing events; the totals are in the evidence
        kept, per = [], Counter()
        for f in sorted(fails, key=lambda f: len(json.dumps(by_tid.get(f["tid"], {})))):
            cl = [c for c in sorted(f["fail"]) if per[c] < MAX_REPLAYS_PER_CLAUSE]
            if cl:
                for c in cl:
                    per[c] += 1
                kept.append({"tid": f["tid"], "fail": cl})
        vn = {"consumed": len(evs), "fails": kept, "nontrivial": [t for t in v["nontrivial"] if mine(t)],
              "divergences": [t for t in v["divergences"] if mine(t)], "states": len(evs) + 1,
              "wall": v["wall"] * len(evs) / max(1, len(allv))}
        rep.add_trace_result(name, evs, vn)
        rep.notes["traces"][name]["failing_events_total"] = len(fails)
    rep.notes["failing_clause_counts"] = all_counts
    # ------------------------------------------------------------------ vacuity guards (counts only)
    core = events["core"]
    hol_all = [e for n in traces if n.startswith("hol") for e in events[n]]
    n_f_expl = sum(1 for e in core if any(q[0] == "f" for x in e["explains"] for q in x[3]))
    n_lazy = sum(1 for e in core if not e["pre"])
    hol_ok = sum(1 for e in hol_all for x in e["explains"] if x["outcome"] == "ok")
    hol_hyp = sum(1 for e in hol_all for x in e["explains"] if x["outcome"] == "ok" and x["h"])
    hol_gap = sum(1 for e in hol_all for x in e["explains"] if x["outcome"] == "ok" and x["gaps"])
    big = sum(1 for e in events["holrand"] if len(e["U"]) >= 20)
    fresh_q = sum(len(e["tests"]) for e in hol_all if e["op"][0] == "probe")
    fresh_true = sum(1 for e in hol_all if e["op"][0] == "probe" for x in e["tests"] if x[3])
    allpt_ok = sum(1 for e in hol_all if e["cpt"] and all(e["cpt"]) for x in e["explains"] if x["outcome"] == "ok" and len(x["h"]) >= 2)
    deep = sum(1 for e in events["chain_core"] if any(len(x[3]) >= 4 for x in e["explains"]))
    deep_hol = sum(1 for e in events["chain_hol"] for x in e["explains"] if x["outcome"] == "ok" and len(x["h"]) + len(x["gaps"]) >= 4)
    rep.notes["counts"] = {"core_events": len(core), "core_explanations_using_f_equations": n_f_expl, "core_lazy_add_var": n_lazy,
                           "hol_theorems_checked": hol_ok, "with_hypotheses": hol_hyp, "with_gaps": hol_gap,
                           "holrand_events_with_20+_subterms": big, "uf_events": len(events["uf"]),
                           "wrapper_tests_on_fresh_terms": fresh_q, "of_which_true": fresh_true,
                           "theorems_checked_gap_free_from_2+_proof_terms": allpt_ok,
                           "chain_events_with_explanations_of_4+_equations": deep, "chain_hol_theorems_from_4+_equations": deep_hol}
    tr = rep.notes["traces"]
    if not rep.violations:
        # vacuity guards apply to a run that reports no violation (a run with violations exits 1 whatever was covered)
        require(tr["core"]["nontrivial"] >= (8000 if quick else 47000), "C17: too few core events examined")
        require(n_f_expl >= 500 and n_lazy >= 1000, "C17: explanations through congruence / lazy constants not exercised")
        require(hol_ok >= 300 and hol_hyp >= 50 and hol_gap >= 50 and big >= 20, "C17: too few HOL explanations examined %s" % rep.notes["counts"])
        require(tr["uf"]["nontrivial"] >= 50 and tr["core_c4"]["nontrivial"] >= 150, "C17: too few union-find / 4-constant events examined")
        require(fresh_q >= 20000 and fresh_true >= 1000 and allpt_ok >= 300,
                "C17: queries on never-added terms / proofs from proof terms not exercised %s" % rep.notes["counts"])
        diag = sum(1 for e in events["forest_core"] if sum(1 for q in e["hist"] if q[0] == "f" and q[1] == q[2]) >= 2)
        require(tr["forest_core"]["nontrivial"] >= 2000 and diag >= 900 and tr["forest_hol"]["nontrivial"] >= 500,
                "C17: forest / diagonal-application families not exercised")
        require(tr["chain_core"]["nontrivial"] >= 600 and deep >= 300 and deep_hol >= 300,
                "C17: deep proof-forest paths not exercised %s" % rep.notes["counts"])
    # ------------------------------------------------------------------ binding self-tests: corrupt one recorded field
    bad = {"TestComplete": [], "TestSound": [], "ExplainYields": [], "ExplainEntails": [], "ExplainMerged": [], "HolTest": [], "HolStates": [], "HolHyps": [],
           "HolGapFree": [], "UfPartition": []}
    tid = [9 * 10 ** 8]

    def corrupt(e, clause):
        c = copy.deepcopy(e)
        tid[0] += 1
        c["tid"] = tid[0]
        bad[clause].append(c)
        return c
    for e in core:
        ne = [p for p in e["teq"] if p[0] != p[1]]
        if ne and len(bad["TestComplete"]) < 3:
            c = corrupt(e, "TestComplete")
            c["teq"].remove(ne[0])
            c["explains"] = []
        missing = [[s, t] for s in e["seen"] for t in e["seen"] if [s, t] not in e["teq"]]
        if missing and len(bad["TestSound"]) < 3:
            corrupt(e, "TestSound")["teq"].append(missing[0])
        one = [x for x in e["explains"] if x[2] == "ok" and len(x[3]) == 1]
        if one and len(bad["ExplainYields"]) < 3:
            corrupt(e, "ExplainYields")["explains"] = [[one[0][0], one[0][1], "raised:AssertionError", []]]
        if one and len(bad["ExplainEntails"]) < 3:
            corrupt(e, "ExplainEntails")["explains"] = [[one[0][0], one[0][1], "ok", []]]
            foreign = [["f", x, y, z] for x in e["consts"] for y in e["consts"] for z in e["consts"] if ["f", x, y, z] not in e["hist"]]
            corrupt(e, "ExplainMerged")["explains"] = [[one[0][0], one[0][1], "ok", one[0][3] + [foreign[0]]]]
    for e in hol_all:
        if e["tests"] and e["tests"][0][2] == "ok" and len(bad["HolTest"]) < 3:
            c = corrupt(e, "HolTest")
            c["tests"][0][3] = not c["tests"][0][3]
        ok = [x for x in e["explains"] if x["outcome"] == "ok" and x["s"] != x["t"]]
        if ok and len(bad["HolStates"]) < 3:
            x = copy.deepcopy(ok[0])
            x["c"] = [x["t"], x["s"]]
            corrupt(e, "HolStates")["explains"] = [x]
            x = copy.deepcopy(ok[0])
            x["h"] = x["h"] + [[x["s"], "n1" if x["s"] != "n1" else "n2"]]
            c = corrupt(e, "HolHyps")
            c["explains"] = [x]
            c["ceqs"] = []
            c["cpt"] = []
        gp = [x for x in e["explains"] if x["outcome"] == "ok" and x["gaps"]]
        if gp and len(bad["HolGapFree"]) < 3:
            c = corrupt(e, "HolGapFree")     # the same gaps, but every merge is recorded as having carried a proof term
            c["explains"] = [copy.deepcopy(gp[0])]
            c["cpt"] = [True] * len(c["cpt"])
    for e in events["uf"]:
        if e["exc"] == "" and len(e["items"]) >= 2 and len(bad["UfPartition"]) < 3:
            c = corrupt(e, "UfPartition")
            r0 = c["find"][0][1]
            c["find"] = [[x, r0] for x, _ in c["find"]] if len({r for _, r in c["find"]}) > 1 else \
                [[x, x] for x, _ in c["find"]]
            if c["find"] == e["find"]:
                bad["UfPartition"].pop()
    with _Phase(rep, "selftest"):
        flat = [c for evs in bad.values() for c in evs]
        for clause, evs in bad.items():
            require(evs, "self-test: no event to corrupt for clause %s" % clause)
        write_events(wd / "selftest.ndjson", flat)
        sv = validate_trace(TSPEC, wd / "selftest.ndjson", wd=wd / "selftest_tv", nchunks=1)
        got = {f["tid"]: f["fail"] for f in sv["fails"]}
        for clause, evs in bad.items():
            miss = [c["tid"] for c in evs if clause not in got.get(c["tid"], [])]
            require(not miss, "self-test: %s accepted corrupted events %s (expected clause %s)" % (TSPEC, miss, clause))
            rep.notes.setdefault("selftests", []).append({"spec": TSPEC, "corrupted_events": len(evs), "all_rejected_with": clause})
    with _Phase(rep, "spec_mutants_wait"):
        fm.result()
    pool.shutdown()


def replay(path):
    """Re-run the scenario of one recorded failing event against the current code and re-validate it."""
    obj = json.load(open(path))
    wd = work_dir(PID, "replay1", clean=True)
    if obj.get("kind") != "event":
        print(json.dumps(obj, indent=1)[:3000])
        return 1
    e = obj["event"]
    (wd / "event.json").write_text(json.dumps(e))
    run_driver("c17", ["replay", wd / "event.json", wd / "ev.ndjson"])
    evs = [x for x in read_events(wd / "ev.ndjson") if x["key"] == e["key"]]
    if not evs:
        print("the scenario no longer produces an event with key", e["key"])
        return 0
    write_events(wd / "one.ndjson", evs)
    v = validate_trace(TSPEC, wd / "one.ndjson", wd=wd / "tv", nchunks=1)
    print("events:", v["consumed"], "fails:", v["fails"])
    if any(obj["clause"] in f["fail"] for f in v["fails"]):
        print("VIOLATION property=%s replay=%s" % (PID, path))
        return 1
    print("not reproduced on the current tree")
    return 0
