"""C05 - trusted arithmetic evaluation steps only assert true arithmetic facts.   DESIGN.md section 6/C05

 S  spec/C05_HolArith.tla     the HOL meaning of arithmetic statements with EXACT arithmetic (lib/Rat.tla): truncated subtraction only at
                              nat, x / 0 = 0, DIV/MOD by 0, powers, of_nat / of_int; statements with free variables judged on a grid
    spec/C05_Arith.tla        machine over the input space of the trusted steps: every goal l REL r of depth <= 2 (+ casts, + one level
                              below a subtraction) at each numeric type handed to each step model (type discipline + the step's type-blind
                              evaluator); invariants ValTotal, Laws (library equations), EvAgrees, Sound; emits the goals as vectors
    spec/C05_Surd.tla         exact comparison of irrational constants q + c * sqrt r (sign analysis and squaring over limb rationals;
                              holpy's sqrt x = sgn x * sqrt |x|); its laws are model-checked in spec/C05_SurdLaws.tla against an independent
                              numerical enclosure (integer square roots with native integers) on a rational grid + multi-limb cases
 T  spec/C05_ArithTrace.tla   True_<step>: every sequent accepted by theory.check_proof for a one-step proof with a level-0 arithmetic
                              macro is true under the meaning (exact arithmetic; one false grid point refutes an identity)
 ->  harness/drivers/c05.py   each vector x each level-0 macro found in kernel.theory.global_macros; seeded larger inputs
"""
import copy
import json
from collections import Counter
from concurrent.futures import ThreadPoolExecutor

from harness.core import (MachineryError, model_check, read_events, require, run_driver, seed, selftest_trace,
                          spec_mutant, validate_trace, work_dir, write_events)

TSPEC = "C05_ArithTrace"
RAND_BASE, SELF_BASE = 10 ** 6, 10 ** 7
KNOWN_STEPS = {"nat_eval", "int_eval", "real_eval", "int_const_ineq", "real_const_ineq", "real_const_eq", "real_compare",
               "const_inequality", "real_norm", "real_eq_comparison"}


def _not(c):
    return ["neg", ["bool", "bool"], [c], 0]


def _corrupted(evs, verdict):
    """Binding self-test: the recorded conclusion of an accepted, examined, passing run is replaced by its negation."""
    failing = {f["tid"] for f in verdict["fails"]}
    nontrivial = set(verdict["nontrivial"])
    out, per = [], Counter()
    for e in evs:
        if e["tid"] in failing or e["tid"] not in nontrivial or len(e["acc"]) != 1 or e["acc"][0]["h"]:
            continue
        m = e["acc"][0]["m"]
        if per[m] >= 2 or e["acc"][0]["c"][0] == "neg":
            continue
        c = copy.deepcopy(e)
        c["acc"][0]["c"] = _not(c["acc"][0]["c"])
        c["tid"] = SELF_BASE + len(out)
        per[m] += 1
        out.append((c, "True_" + m))
    return out


def _stats(evs):
    acc, raised, src = Counter(), Counter(), Counter()
    for e in evs:
        src[e["src"]] += 1
        for r in e["acc"]:
            acc[r["m"]] += 1
        for r in e["raised"]:
            raised["%s:%s" % (r[0], r[1])] += 1
    return {"events_by_source": dict(src), "accepted_by_step": dict(acc), "foreign_exceptions": dict(raised)}


def run(rep, tier):
    quick = tier == "quick"
    wd = work_dir("C05", "run", clean=True)
    sfx = "small" if quick else "deep"
    rep.rule = ("TLC enumerates every goal l REL r (REL in = < <= > >=, and negations) with l of depth <= 2 over numerals %s and operators "
                "+ - * / ^ DIV MOD uminus Suc real_inverse of_nat of_int at EACH of nat/int/real, casts of compound terms, terms one level "
                "below a subtraction, real powers with a nested-subtraction nat exponent, right-hand sides simple numerals/fractions and %s; each goal is handed to each model of a trusted "
                "step (state = goal x step) and, as a vector, to EVERY level-0 arithmetic macro of the real checker as a one-step proof "
                "through theory.check_proof at the default trust level (so int-/real-typed goals reach nat_eval and vice versa). Plus seeded "
                "larger inputs: deeper mixed-type terms with right-hand sides computed by the code's own evaluators across types, near-equal "
                "rationals, decimal sums forcing const_inequality's float path, real powers with compound nat exponents (nested truncated "
                "subtraction, closed and with free nat variables), polynomial identities with free variables (the code's own "
                "normal forms, textbook identities, perturbations), equivalences of comparisons, constants around and beyond 2^31 / 2^53 / 2^62 "
                "(exact and non-exact quotients (a*b)/b, sums, differences and products crossing the boundaries, negative ones, at nat/int/real); "
                "near-equal IRRATIONAL constants q + c*sqrt r for n = 10^1 .. 10^60 (sqrt n ? sqrt (n+1), sqrt (n^2+-1) ? n, 1 + sqrt (n^2+1) ? sqrt ((n+1)^2+1), "
                "sqrt 2 * n ? sqrt (2n^2+1), negated / inverted / scaled roots, roots of near-equal fractions, scaled differences of near-equal numbers), "
                "each with all relations and as a disequality, decided exactly by squaring in limb arithmetic (C05_Surd); the same shapes over the leaves are "
                "part of the TLC-enumerated universe. Non-trivial = some step "
                "ACCEPTED the goal and the truth of the asserted sequent was decided by TLC with exact arithmetic; distinct by full event content."
                % ("{0,2,3}" if quick else "{0,1,2,3,7}", "compound terms that some evaluator model equates" if quick else "compound terms (sums, differences, and all that some evaluator model equates)"))
    rep.assumptions = ["meaning of numerals/operators read off library/nat.json, int.json, real.json, transcendentals.json (see spec/C05_HolArith.tla); "
                       "int ^ nat taken as the standard power",
                       "irrational constants: only comparisons both of whose sides have the form q + c*sqrt r (q, c, r rational; sqrt of a rational, "
                       "uminus, abs, +/- a rational, */ a rational, inverse of a pure root) are judged - exactly, by squaring; holpy's sqrt of a negative "
                       "number is -sqrt |x| (library/real.json: sqrt x = (SOME y. real_sgn y = real_sgn x & y^2 = abs x))",
                       "NOT examined (never judged): other irrational constants and functions (pi, exp, log, sin, ..., sums / products / roots / powers "
                       "of irrational surds), non-integer exponents, constants at types where the library gives them no meaning (uminus/real_divide at nat, ...)",
                       "magnitudes: statements within 2^30 are decided with TLC's native integers; CLOSED statements beyond that are decided with "
                       "arbitrary-precision limb arithmetic (spec/lib/BigInt.tla, itself model-checked against native integers and the ring laws "
                       "in spec/C05_BigIntLaws.tla; C05_Arith checks that both evaluators agree on the whole universe). Beyond 2^30 still not "
                       "examined: statements with free variables, DIV/MOD, exponents above 64 or not literally integral, results longer "
                       "than ~1600 digits",
                       "identities with free variables: a false grid point is a refutation; agreement on the grid is only 'not refuted'",
                       "TLC/SANY, the structural projection in harness/drivers/c05.py (raw fields only), CPython"]
    vec, ev_vec, ev_rand, allp = wd / "vectors.ndjson", wd / "vec.ndjson", wd / "rand.ndjson", wd / "all.ndjson"
    nrand = 150 if quick else 6000
    mutants = [("steps_without_type_discipline", [("C05_Arith_tiny.cfg", "Guarded = TRUE", "Guarded = FALSE")], ["Sound"])]
    if not quick:
        mutants += [("nat_subtraction_not_truncated",
                     [("C05_HolArith.tla", "(IF T = \"nat\" THEN Mk(T, NatMinus(Q(a1), Q(a2))) ELSE Mk(T, RSub(Q(a1), Q(a2))))", "Mk(T, RSub(Q(a1), Q(a2)))")],
                     ["Laws", "ValTotal", "EvAgrees"]),
                    ("division_by_zero_is_one",
                     [("lib/Rat.tla", "IF x[1] = 0 THEN <<0, 1>>\n           ELSE IF x[1] < 0", "IF x[1] = 0 THEN <<1, 1>>\n           ELSE IF x[1] < 0")],
                     ["Laws", "EvAgrees", "Sound"]),
                    ("int_step_evaluates_nat_terms",
                     [("C05_HolArith.tla", "[] s = \"int_eval\" -> g[1] = \"equals\" /\\ IsRel(g) /\\ ArgT(g) = \"int\"",
                       "[] s = \"int_eval\" -> g[1] = \"equals\" /\\ IsRel(g) /\\ ArgT(g) \\in {\"int\", \"nat\"}")], ["Sound"])]
    # big-integer module: its laws are model-checked, and mutants of it must be caught
    bcfg = "C05_BigIntLaws.cfg" if quick else "C05_BigIntLaws_wide.cfg"
    blaws = ["NativeAgrees", "RingLaws", "RatLaws"]
    bmutants = [("bigint_carry_dropped", [("lib/BigInt.tla", "<<s % BBase>> \\o MAddC(ta, tb, s \\div BBase)", "<<s % BBase>> \\o MAddC(ta, tb, 0)")], blaws)]
    if not quick:
        bmutants += [("bigint_borrow_dropped", [("lib/BigInt.tla", "<<d + BBase>> \\o MSubB(Tail(a), tb, 1)", "<<d + BBase>> \\o MSubB(Tail(a), tb, 0)")], blaws),
                     ("bigint_product_carry_dropped", [("lib/BigInt.tla", "<<s % BBase>> \\o MMulLimb(Tail(a), d, s \\div BBase)", "<<s % BBase>> \\o MMulLimb(Tail(a), d, 0)")], blaws),
                     ("bigrat_compare_ignores_denominators",
                      [("lib/BigInt.tla", "ELSE BCmp(BMul(x[1], y[2]), BMul(y[1], x[2]))", "ELSE BCmp(x[1], y[1])")], blaws)]
        mutants += [("big_evaluator_truncates_everywhere",
                     [("C05_HolArith.tla", "THEN (IF T = \"nat\" THEN BMkV(T, BNatMinus(QB(a1), QB(a2))) ELSE BMkV(T, QSub(QB(a1), QB(a2)))) ELSE NAb",
                       "THEN BMkV(T, BNatMinus(QB(a1), QB(a2))) ELSE NAb")], ["BigAgrees"])]

    # surd module: its laws are model-checked, and mutants of it must be caught
    scfg = "C05_SurdLaws.cfg" if quick else "C05_SurdLaws_wide.cfg"
    slaws = ["Numeric", "Order", "Squares", "BigCases"]
    smutants = [("surd_sign_case_swapped", [("C05_Surd.tla", "ELSE IF sg > 0 THEN CmpQS(QSub(s1, base), cross)", "ELSE IF sg < 0 THEN CmpQS(QSub(s1, base), cross)")], slaws)]
    if not quick:
        smutants += [("surd_square_unsigned", [("C05_Surd.tla", "SSq(d) == QMul(d, QAbs(d))", "SSq(d) == QMul(d, d)")], slaws),
                     ("surd_cross_term_halved", [("C05_Surd.tla", "SFour == QInt(<<1, <<4>>>>)", "SFour == QInt(<<1, <<2>>>>)")], slaws),
                     ("surd_radicand_sign_lost", [("C05_Surd.tla", "base == QAdd(QMul(d, d), QAbs(s2))", "base == QAdd(QMul(d, d), s2)")], slaws),
                     ("surd_scaling_linear_in_radicand", [("C05_Surd.tla", "SMulQ(a, k) == <<QMul(a[1], k), QMul(a[2], SSq(k))>>",
                                                           "SMulQ(a, k) == <<QMul(a[1], k), QMul(a[2], k)>>")], slaws),
                     ("sqrt_of_negative_taken_positive", [("C05_Surd.tla", "SRoot(q) == <<QZero, q>>", "SRoot(q) == <<QZero, QAbs(q)>>")], slaws)]
        mutants += [("surd_comparison_reversed",
                     [("C05_HolArith.tla", "ELSE IF srel\n         THEN LET c == SCmp(SOf(s1), SOf(s2)) IN", "ELSE IF srel\n         THEN LET c == SCmp(SOf(s2), SOf(s1)) IN")],
                     ["BigAgrees"])]

    def side():
        for n, ed, exp in mutants:
            spec_mutant(rep, n, "C05_Arith", "C05_Arith_tiny.cfg", ed, exp, wd=wd, workers=1)
        rb = model_check("C05_BigIntLaws", bcfg, wd=wd / "mcb", workers=1, timeout=7200)
        for n, ed, exp in bmutants:
            spec_mutant(rep, n, "C05_BigIntLaws", "C05_BigIntLaws.cfg", ed, exp, wd=wd, workers=1)
        rs = model_check("C05_SurdLaws", scfg, wd=wd / "mcs", workers=1, timeout=7200)
        for n, ed, exp in smutants:
            spec_mutant(rep, n, "C05_SurdLaws", "C05_SurdLaws.cfg", ed, exp, wd=wd, workers=1)
        return rb, rs
    # ---- design level (S) + oracle non-vacuity (mutants on a tiny universe) + the big-integer laws, side by side
    with ThreadPoolExecutor(max_workers=2) as ex:
        f1 = ex.submit(model_check, "C05_Arith", "C05_Arith_%s.cfg" % sfx, wd=wd / "mc", workers=1 if quick else 4,
                       env={"VECTOR_FILE": vec}, timeout=7200)
        f3 = ex.submit(side)
        r = f1.result()
        rb, rs = f3.result()
    rep.add_mc("C05_BigIntLaws", rb, bcfg)
    if rb.violated:
        rep.design_violation("C05_BigIntLaws", rb)
        return
    rep.add_mc("C05_SurdLaws", rs, scfg)
    if rs.violated:
        rep.design_violation("C05_SurdLaws", rs)
        return
    rep.add_mc("C05_Arith", r, sfx)
    if r.violated:
        rep.design_violation("C05_Arith", r)
        return
    rep.exhaustive = True
    require(vec.exists(), "C05_Arith wrote no vectors")
    rep.notes["vectors"] = sum(1 for _ in open(vec))
    # ---- spec -> code
    p, _ = run_driver("c05", ["all", vec, ev_vec, ev_rand, nrand, seed()])
    info = json.loads(p.stdout.strip().splitlines()[-1])
    rep.notes["trusted_steps"] = info["macros"]
    require(set(info["macros"]) >= {"nat_eval", "int_eval", "real_eval"}, "C05: the numeral evaluation steps are not level-0 macros any more")
    new = sorted(set(info["macros"]) - KNOWN_STEPS)
    if new:
        rep.notes["steps_without_domain_model"] = new      # still judged by True_<step>; only the divergence classification is missing
    evs, evs2 = read_events(ev_vec), read_events(ev_rand)
    require(len(evs) < RAND_BASE and len(evs2) < SELF_BASE - RAND_BASE, "C05: tid ranges overlap")
    for e in evs2:
        e["tid"] += RAND_BASE
    nch = 2 if quick else 4
    allv = evs + evs2
    write_events(allp, [e for j in range(nch) for e in allv[j::nch]])     # interleaved: the contiguous chunks get the same mix of events
    v = validate_trace(TSPEC, allp, wd=wd / "tv", nchunks=nch)

    def part(lo, hi, n):
        d = {"consumed": n, "states": 0, "wall": v["wall"], "info": []}
        d["fails"] = [f for f in v["fails"] if lo <= f["tid"] < hi]
        for k in ("nontrivial", "divergences"):
            d[k] = [t for t in v[k] if lo <= t < hi]
        return d
    v1, v2 = part(0, RAND_BASE, len(evs)), part(RAND_BASE, SELF_BASE, len(evs2))
    v1["states"] = v["states"]
    rep.add_trace_result("vectors", evs, v1, keyf=_key)
    rep.add_trace_result("seeded", evs2, v2, keyf=_key)
    rep.notes["vectors_detail"] = _stats(evs)
    rep.notes["seeded_detail"] = _stats(evs2)
    # irrational constants: what the exact comparison of surds examined
    nts, failing = set(v2["nontrivial"]), {f["tid"] for f in v2["fails"]}
    surd = [e for e in evs2 if e["src"] == "surd"]
    sacc = [e for e in surd if any(r["m"] == "const_inequality" for r in e["acc"])]
    vsurd = [e for e in evs if '"sqrt"' in json.dumps(e["goal"])]
    vnt = set(v1["nontrivial"])
    rep.notes["surd_detail"] = {"seeded_events": len(surd), "accepted_by_const_inequality": len(sacc),
                                "accepted_and_judged": sum(1 for e in sacc if e["tid"] in nts),
                                "accepted_and_judged_true": sum(1 for e in sacc if e["tid"] in nts and e["tid"] not in failing),
                                "accepted_and_judged_false": sum(1 for e in sacc if e["tid"] in failing),
                                "accepted_not_examined": sum(1 for e in sacc if e["tid"] not in nts),
                                "vector_events_with_sqrt": len(vsurd),
                                "vector_events_with_sqrt_accepted_and_judged": sum(1 for e in vsurd if e["acc"] and e["tid"] in vnt)}
    fails = Counter(c for f in v["fails"] for c in f["fail"])
    if fails:
        rep.notes["failing_clauses"] = dict(fails)
    # ---- binding self-test: corrupted conclusions must be rejected
    bad = _corrupted(evs, v1) + _corrupted(evs2, v2)
    for n, (c, _) in enumerate(bad):
        c["tid"] = SELF_BASE + n
    require(len(bad) >= 6, "C05: self-test events could not be built")
    _selftest(rep, bad, wd)
    tr = rep.notes["traces"]
    require(tr["vectors"]["nontrivial"] >= (3000 if quick else 30000) and tr["seeded"]["nontrivial"] >= (500 if quick else 12000),
            "C05: too few examined accepted steps (vacuity guard)")
    sd = rep.notes["surd_detail"]
    require(sd["accepted_and_judged_true"] >= (60 if quick else 1500) and sd["vector_events_with_sqrt_accepted_and_judged"] >= (200 if quick else 1000),
            "C05: too few accepted comparisons of irrational constants were judged (vacuity guard)")
    acc = Counter(rep.notes["vectors_detail"]["accepted_by_step"]) + Counter(rep.notes["seeded_detail"]["accepted_by_step"])
    for m in info["macros"]:
        require(acc[m] >= (3 if m == "real_eq_comparison" else 100), "C05: step %s accepted too few goals (vacuity guard)" % m)


SURD_CLASS = "goal-with-sqrt:irrational-constants-compared-through-floats"


def _key(e):
    # goals that contain sqrt form ONE class per clause (known_findings.txt identifies the open finding about const_inequality's
    # float fallback by this call-site class; a failure of any other clause on such a goal has another key and is reported)
    if '"sqrt"' in json.dumps(e.get("goal")):
        return SURD_CLASS
    return e.get("key")


def _selftest(rep, bad, wd):
    """one TLC run; every corrupted event must fail with the clause of the step whose conclusion was negated"""
    p = wd / "selftest.ndjson"
    write_events(p, [c for c, _ in bad])
    v = validate_trace(TSPEC, p, wd=wd / "selftest_tv", nchunks=1)
    got = {f["tid"]: set(f["fail"]) for f in v["fails"]}
    missing = [c["tid"] for c, clause in bad if clause not in got.get(c["tid"], set())]
    if missing:
        raise MachineryError("self-test: %s accepted corrupted events %s" % (TSPEC, missing[:5]))
    rep.notes.setdefault("selftests", []).append({"spec": TSPEC, "corrupted_events": len(bad),
                                                  "all_rejected_with": sorted({c for _, c in bad})})


def replay(path):
    obj = json.load(open(path))
    wd = work_dir("C05", "replay1", clean=True)
    if obj.get("kind") != "event":
        print(json.dumps(obj, indent=1)[:3000])
        return 1
    e = obj["event"]
    write_events(wd / "vec.ndjson", [{"g": e["goal"]}])
    p, _ = run_driver("c05", ["vec", wd / "vec.ndjson", wd / "ev.ndjson"], check=False)
    if p.returncode != 0:
        print("the goal cannot be rebuilt from its projection; re-validating the recorded event")
        write_events(wd / "ev.ndjson", [e])
    v = validate_trace(TSPEC, wd / "ev.ndjson", wd=wd / "tv", nchunks=1)
    for ev in read_events(wd / "ev.ndjson"):
        print("goal:", json.dumps(ev["goal"]))
        print("accepted by:", [r["m"] for r in ev["acc"]])
    print("events:", v["consumed"], "fails:", v["fails"])
    if any(obj["clause"] in f["fail"] for f in v["fails"]):
        print("VIOLATION property=C05 replay=%s" % path)
        return 1
    print("not reproduced on the current tree")
    return 0
