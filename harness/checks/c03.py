"""C03 - term equality is alpha-equivalence; substitution is capture-free.   DESIGN.md section 6/C03

 S  spec/C03_Laws.tla + C03_TermAlgebra.tla   semantic laws of the term operations over finite standard models; TLC checks that the
                                              reference algebra (lib/HolTerms.tla) satisfies them on every operation vector of the universe
    spec/C03_TermEmit.tla                     emits the vectors (spec -> code)
 I  spec/C03_Heap.tla                         identity tokens on a heap with address reuse, as coded (constant CopyReowns probed from the code)
 S/I spec/C03_Share.tla                       heap of term NODES with sharing, hash memo and in-place type instantiation: reference ("ref"),
                                              as coded ("coded": one instantiation per visit, memo of visited nodes only) and "once";
                                              invariants InstOnce / WellTypedInv / HashFresh; emits the explored histories as vectors
 T  spec/C03_ShareTrace.tla                   the histories performed on real Term objects with the same sharing (clauses InstOnce,
                                              TypePreserved, HashFresh, EqIsStructural)
 T  spec/C03_TermTrace.tla                    the SAME laws evaluated on results of kernel/term.py; ==/hash/fast_compare clauses
    spec/C03_HeapTrace.tla                    recorded histories of creation / Term(t) / garbage collection / address reuse; EqCorrect at every ==
"""
import copy
import json
from concurrent.futures import ThreadPoolExecutor

from harness.core import (MachineryError, model_check, read_events, require, run_driver, seed, selftest_trace,
                          spec_mutant, validate_trace, work_dir, tlc)


def run(rep, tier):
    quick = tier == "quick"
    wd = work_dir("C03", clean=True)
    sfx = "small" if quick else "deep"
    rep.rule = ("TLC enumerates all well-typed terms of depth <= %d over a signature with variables, schematic variables (one sharing its "
                "name with a variable), polymorphic constants and binders, and every operation vector (beta_norm, subst_bound incl. "
                "loose-bound arguments, abstract_over, subst_type, subst/subst_norm with type and term instantiations); each is performed on "
                "real terms built with fresh and with shared sub-objects. Non-trivial = the operation returned and its denotation law was "
                "evaluated in all finite models (|tyvar|<=2), or an ==/hash/order event was judged; distinct by full event content. "
                "Heap: seeded histories with directed address reuse. Sharing: every history of C03_Share (<= 5 node objects built over "
                "existing objects, <= 1 hash, one in-place type instantiation incl. non-idempotent and variable-swapping ones) on real objects." % (2 if quick else 3))
    rep.assumptions = ["finite standard models with |tyvar| <= 2", "TLC/SANY, structural codec, CPython allocator behaviour only for *realising* address reuse (never for a verdict)"]
    # ---- design level: the reference algebra satisfies the laws on every vector
    r = model_check("C03_TermAlgebra", "C03_TermAlgebra_%s.cfg" % sfx, wd=wd / "mc", workers=4, timeout=7200)
    rep.add_mc("C03_TermAlgebra", r, sfx)
    if r.violated:
        rep.design_violation("C03_TermAlgebra", r)
        return
    rep.exhaustive = True
    vec = wd / "vectors.ndjson"
    r2 = model_check("C03_TermEmit", "C03_TermEmit_%s.cfg" % sfx, wd=wd / "mc", workers=1, env={"VECTOR_FILE": vec}, timeout=3600)
    require(vec.exists(), "C03_TermEmit wrote no vectors")
    rep.notes["vectors"] = sum(1 for _ in open(vec))
    # ---- oracle non-vacuity
    spec_mutant(rep, "subst_bound_no_shift", "C03_TermAlgebra", "C03_TermAlgebra_small.cfg",
                [("lib/HolTerms.tla", "IF s[2] = n THEN IncrBound(u, 0, n)", "IF s[2] = n THEN u")], ["RefLawful"], wd=wd, workers=4)
    if not quick:
        spec_mutant(rep, "abstract_over_wrong_index", "C03_TermAlgebra", "C03_TermAlgebra_small.cfg",
                    [("lib/HolTerms.tla", "(IF s[3] = v[3] THEN <<\"bound\", n>> ELSE Err)", "(IF s[3] = v[3] THEN <<\"bound\", 0>> ELSE Err)")],
                    ["RefLawful"], wd=wd, workers=4)
        spec_mutant(rep, "subst_type_skips_binder", "C03_TermAlgebra", "C03_TermAlgebra_small.cfg",
                    [("lib/HolTerms.tla", "[] t[1] = \"abs\" -> <<\"abs\", TSubst(t[2], ti), STypeTerm(t[3], ti)>>",
                      "[] t[1] = \"abs\" -> <<\"abs\", t[2], STypeTerm(t[3], ti)>>")], ["RefLawful"], wd=wd, workers=4)
    # ---- heap I-spec with the constant probed from the code
    p, _ = run_driver("c03", ["probe"])
    probe = json.loads(p.stdout.strip().splitlines()[-1])
    rep.notes["token_probe"] = probe
    heap_design_bad = False
    if probe["has_token"]:
        cfg = "C03_Heap_reown.cfg" if probe["copy_reowns"] else "C03_Heap_copytok.cfg"
        rh = model_check("C03_Heap", cfg, wd=wd / "mc", workers=4)
        rep.add_mc("C03_Heap", rh, cfg)
        heap_design_bad = bool(rh.violated)
        rep.notes["heap_model"] = {"cfg": cfg, "violated": rh.violated}
        rm = tlc("C03_Heap", "C03_Heap_copytok.cfg", wd=wd / "mc2", workers=4)
        require("EqCorrect" in rm.violated, "C03_Heap: the copy-keeps-token model must violate EqCorrect (oracle non-vacuity)")
        rep.notes.setdefault("spec_mutants", []).append({"mutant": "heap_copy_keeps_token", "caught_by": ["EqCorrect"]})
    # ---- sharing: heap of term nodes, hash memo, in-place type instantiation
    share(rep, wd, probe)
    # ---- spec -> code, code -> spec
    ops, eq, heap = wd / "ops.ndjson", wd / "eq.ndjson", wd / "heap.ndjson"
    run_driver("c03", ["ops", vec, ops])
    run_driver("c03", ["eq", vec, eq, 150 if quick else 2000, seed()])
    run_driver("c03", ["heap", heap, 300 if quick else 4000, seed()])
    evs = read_events(ops)
    v = validate_trace("C03_TermTrace", ops, wd=wd / "tv_ops", cfg="C03_TermTrace_%s.cfg" % sfx, nchunks=2 if quick else 4)
    rep.add_trace_result("ops", evs, v)
    # binding self-test: corrupt recorded results (swap the result for the unreduced operand / a different variable)
    bad = []
    for e in evs:
        if e["kind"] == "op" and e["outcome"] == "ok" and e["call"] == "subst" and e["r"] != e["t"] and len(bad) < 3:
            c = copy.deepcopy(e)
            c["r"] = c["t"]
            c["tid"] = 10 ** 7 + len(bad)
            bad.append(c)
    selftest_trace(rep, "C03_TermTrace", bad, None, wd=wd, cfg="C03_TermTrace_%s.cfg" % sfx)
    evs = read_events(eq)
    v = validate_trace("C03_TermTrace", eq, wd=wd / "tv_eq", cfg="C03_TermTrace_%s.cfg" % sfx, nchunks=1)
    rep.add_trace_result("eq", evs, v)
    bad = []
    for e in evs:
        if e["kind"] == "eq" and e.get("how") == "mutated" and e["outcome"] == "ok" and len(bad) < 3:
            c = copy.deepcopy(e)
            c["eq"] = not c["eq"]
            c["tid"] = 10 ** 7 + 10 + len(bad)
            bad.append(c)
    selftest_trace(rep, "C03_TermTrace", bad, "EqIsAlpha", wd=wd, cfg="C03_TermTrace_%s.cfg" % sfx)
    evs = read_events(heap)
    v = validate_trace("C03_HeapTrace", heap, wd=wd / "tv_heap", nchunks=1)
    rep.add_trace_result("heap", evs, v, keyf=lambda e: "heap:eq:%s:%s" % (json.dumps(e.get("ea"))[:60], json.dumps(e.get("eb"))[:60]))
    if heap_design_bad and not v["fails"]:
        rep.notes["suspect"] = "C03_Heap (constants from the code) violates EqCorrect but no real history exhibited it in this run"
    tr = rep.notes["traces"]
    require(tr["ops"]["nontrivial"] >= 5000 and tr["eq"]["nontrivial"] >= 1000 and tr["heap"]["nontrivial"] >= 200,
            "C03: too few examined events (vacuity guard)")


def share(rep, wd, probe):
    """C03_Share: the reference machine must satisfy InstOnce / WellTypedInv / HashFresh; the as-coded machines must violate them
    (oracle non-vacuity); the machine the code IS (probed) is recorded; then every emitted history is performed on real objects."""
    with ThreadPoolExecutor(max_workers=3) as ex:
        fr = ex.submit(model_check, "C03_Share", "C03_Share_ref.cfg", wd=wd / "mc_share_ref", workers=2)
        fc = ex.submit(tlc, "C03_Share", "C03_Share_coded.cfg", wd=wd / "mc_share_coded", workers=1)
        fo = ex.submit(tlc, "C03_Share", "C03_Share_once.cfg", wd=wd / "mc_share_once", workers=1)
        r, rc, ro = fr.result(), fc.result(), fo.result()
    rep.add_mc("C03_Share", r, "ref: MaxObj=4 MaxHash=1 MaxInplace=1 NLeaves=3")
    if r.violated:
        rep.design_violation("C03_Share", r)
        return
    require("InstOnce" in rc.violated, "C03_Share: the visit-per-path machine must violate InstOnce (oracle non-vacuity); TLC said %s %s" % (rc.violated, rc.error))
    require("HashFresh" in ro.violated, "C03_Share: the machine that deletes only the memos of visited nodes must violate HashFresh; TLC said %s %s" % (ro.violated, ro.error))
    rep.notes.setdefault("spec_mutants", []).append({"mutant": "share_instantiate_per_visit", "caught_by": ["InstOnce"]})
    rep.notes.setdefault("spec_mutants", []).append({"mutant": "share_memo_of_visited_only", "caught_by": ["HashFresh"]})
    mode = "coded" if not probe.get("inst_once") else ("once" if not probe.get("parents_invalidated") else "ref")
    rep.notes["share_model"] = {"machine_of_the_code": mode, "violated": {"ref": r.violated, "coded": rc.violated, "once": ro.violated}[mode]}
    svec, sev = wd / "share_vectors.ndjson", wd / "share.ndjson"
    re_ = model_check("C03_Share", "C03_Share_emit.cfg", wd=wd / "mc_share_emit", workers=1, env={"VECTOR_FILE": svec})
    rep.add_mc("C03_Share(emit)", re_, "MaxObj=5 MaxHash=1 MaxInplace=1 NLeaves=4, canonical order, hist in the state")
    require(svec.exists(), "C03_Share wrote no vectors")
    rep.notes["share_vectors"] = sum(1 for _ in open(svec))
    run_driver("c03", ["share", svec, sev])
    evs = read_events(sev)
    v = validate_trace("C03_ShareTrace", sev, wd=wd / "tv_share", nchunks=1)
    rep.add_trace_result("share", evs, v)
    require(len(v["nontrivial"]) >= 3000, "C03 share: too few examined events (vacuity guard)")
    # binding self-tests: an object left un-instantiated / a hash comparison flipped must be rejected
    bad = []
    for e in evs:
        if e["kind"] == "sact" and e["outcome"] == "ok" and len(bad) < 2:
            root = e["hist"][-1]["o"] - 1
            if e["post"][root] != e["pre"][root]:
                c = copy.deepcopy(e)
                c["post"][root] = c["pre"][root]
                c["tid"] = 10 ** 7 + 20 + len(bad)
                bad.append(c)
    selftest_trace(rep, "C03_ShareTrace", bad, "InstOnce", wd=wd)
    bad = []
    for e in evs:
        if e["kind"] == "sobs" and e["outcome"] == "ok" and e["group"] == "own" and all(e["eq"]) and all(e["heq"]) and len(bad) < 2:
            c = copy.deepcopy(e)
            c["heq"][-1] = False
            c["tid"] = 10 ** 7 + 30 + len(bad)
            bad.append(c)
    selftest_trace(rep, "C03_ShareTrace", bad, "HashFresh", wd=wd)


def replay(path):
    from harness.core import write_events
    obj = json.load(open(path))
    wd = work_dir("C03", "replay1", clean=True)
    if obj.get("kind") != "event":
        print(json.dumps(obj, indent=1)[:3000])
        return 1
    e = obj["event"]
    if e.get("kind") == "op":
        vec = {k: e[k] for k in ("op", "t", "env", "v", "u", "ty", "sv")}
        if vec["op"] == "subst_norm":
            vec["op"] = "subst"
        write_events(wd / "vec.ndjson", [vec])
        run_driver("c03", ["ops", wd / "vec.ndjson", wd / "ev.ndjson"])
        v = validate_trace("C03_TermTrace", wd / "ev.ndjson", wd=wd / "tv", cfg="C03_TermTrace_small.cfg", nchunks=1)
    elif e.get("kind") in ("sact", "sobs"):
        write_events(wd / "vec.ndjson", [{"hist": e["hist"], "nobj": e["nobj"], "foreign": e["foreign"]}])
        run_driver("c03", ["share", wd / "vec.ndjson", wd / "ev.ndjson"])
        v = validate_trace("C03_ShareTrace", wd / "ev.ndjson", wd=wd / "tv", nchunks=1)
    elif e.get("kind") == "heap":
        run_driver("c03", ["heap", wd / "ev.ndjson", 300, seed()])
        v = validate_trace("C03_HeapTrace", wd / "ev.ndjson", wd=wd / "tv", nchunks=1)
    else:
        write_events(wd / "ev.ndjson", [e])
        print("re-validating the recorded event (inputs of ==/hash events are regenerated by `./check C03 quick`)")
        v = validate_trace("C03_TermTrace", wd / "ev.ndjson", wd=wd / "tv", cfg="C03_TermTrace_small.cfg", nchunks=1)
    print("events:", v["consumed"], "fails:", v["fails"][:10])
    if v["fails"]:
        print("VIOLATION property=C03 replay=%s" % path)
        return 1
    print("not reproduced on the current tree")
    return 0
