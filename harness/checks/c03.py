"""C03 - term equality is alpha-equivalence; substitution is capture-free.   DESIGN.md section 6/C03

 S  spec/C03_Laws.tla + C03_TermAlgebra.tla   semantic laws of the term operations over finite standard models; TLC checks that the
                                              reference algebra (lib/HolTerms.tla) satisfies them on every operation vector of the universe
    spec/C03_TermEmit.tla                     emits the vectors (spec -> code)
 I  spec/C03_Heap.tla                         identity tokens on a heap with address reuse, as coded (constant CopyReowns probed from the code)
 T  spec/C03_TermTrace.tla                    the SAME laws evaluated on results of kernel/term.py; ==/hash/fast_compare clauses
    spec/C03_HeapTrace.tla                    recorded histories of creation / Term(t) / garbage collection / address reuse; EqCorrect at every ==
"""
import copy
import json

from harness.core import (MachineryError, model_check, read_events, require, run_driver, seed, selftest_trace,
                          spec_mutant, validate_trace, work_dir, tlc)


def run(rep, tier):
    quick = tier == "quick"
    wd = work_dir("C03", clean=True)
    sfx = "small" if quick else "deep"
    rep.rule = ("TLC enumerates all well-typed terms of depth <= %d over a signature with variables, schematic variables (one sharing its "
                "name with a variable), polymorphic constants and binders, and every operation vector (beta_norm, subst_bound incl. "
                "loose-bound arguments, abstract_over, subst_type, subst/subst_norm with type and term instantiations); each is performed on "
                "real terms built with fresh and with shared sub-objects. Non-trivial = the operation returned and its denotation law was "
                "evaluated in all finite models (|tyvar|<=2), or an ==/hash/order event was judged; distinct by full event content. "
                "Heap: seeded histories with directed address reuse." % (2 if quick else 3))
    rep.assumptions = ["finite standard models with |tyvar| <= 2", "TLC/SANY, structural codec, CPython allocator behaviour only for *realising* address reuse (never for a verdict)"]
    # ---- design level: the reference algebra satisfies the laws on every vector
    r = model_check("C03_TermAlgebra", "C03_TermAlgebra_%s.cfg" % sfx, wd=wd / "mc", workers=4, timeout=7200)
    rep.add_mc("C03_TermAlgebra", r, sfx)
    if r.violated:
        rep.design_violation("C03_TermAlgebra", r)
        return
    rep.exhaustive = True
    vec = wd / "vectors.ndjson"
    r2 = model_check("C03_TermEmit", "C03_TermEmit_%s.cfg" % sfx, wd=wd / "mc", workers=1, env={"VECTOR_FILE": vec}, timeout=3600)
    require(vec.exists(), "C03_TermEmit wrote no vectors")
    rep.notes["vectors"] = sum(1 for _ in open(vec))
    # ---- oracle non-vacuity
    spec_mutant(rep, "subst_bound_no_shift", "C03_TermAlgebra", "C03_TermAlgebra_small.cfg",
                [("lib/HolTerms.tla", "IF s[2] = n THEN IncrBound(u, 0, n)", "IF s[2] = n THEN u")], ["RefLawful"], wd=wd, workers=4)
    if not quick:
        spec_mutant(rep, "abstract_over_wrong_index", "C03_TermAlgebra", "C03_TermAlgebra_small.cfg",
                    [("lib/HolTerms.tla", "(IF s[3] = v[3] THEN <<\"bound\", n>> ELSE Err)", "(IF s[3] = v[3] THEN <<\"bound\", 0>> ELSE Err)")],
                    ["RefLawful"], wd=wd, workers=4)
        spec_mutant(rep, "subst_type_skips_binder", "C03_TermAlgebra", "C03_TermAlgebra_small.cfg",
                    [("lib/HolTerms.tla", "[] t[1] = \"abs\" -> <<\"abs\", TSubst(t[2], ti), STypeTerm(t[3], ti)>>",
                      "[] t[1] = \"abs\" -> <<\"abs\", t[2], STypeTerm(t[3], ti)>>")], ["RefLawful"], wd=wd, workers=4)
    # ---- heap I-spec with the constant probed from the code
    p, _ = run_driver("c03", ["probe"])
    probe = json.loads(p.stdout.strip().splitlines()[-1])
    rep.notes["token_probe"] = probe
    heap_design_bad = False
    if probe["has_token"]:
        cfg = "C03_Heap_reown.cfg" if probe["copy_reowns"] else "C03_Heap_copytok.cfg"
        rh = model_check("C03_Heap", cfg, wd=wd / "mc", workers=4)
        rep.add_mc("C03_Heap", rh, cfg)
        heap_design_bad = bool(rh.violated)
        rep.notes["heap_model"] = {"cfg": cfg, "violated": rh.violated}
        rm = tlc("C03_Heap", "C03_Heap_copytok.cfg", wd=wd / "mc2", workers=4)
        require("EqCorrect" in rm.violated, "C03_Heap: the copy-keeps-token model must violate EqCorrect (oracle non-vacuity)")
        rep.notes.setdefault("spec_mutants", []).append({"mutant": "heap_copy_keeps_token", "caught_by": ["EqCorrect"]})
    # ---- spec -> code, code -> spec
    ops, eq, heap = wd / "ops.ndjson", wd / "eq.ndjson", wd / "heap.ndjson"
    run_driver("c03", ["ops", vec, ops])
    run_driver("c03", ["eq", vec, eq, 150 if quick else 2000, seed()])
    run_driver("c03", ["heap", heap, 300 if quick else 4000, seed()])
    evs = read_events(ops)
    v = validate_trace("C03_TermTrace", ops, wd=wd / "tv_ops", cfg="C03_TermTrace_%s.cfg" % sfx, nchunks=2 if quick else 4)
    rep.add_trace_result("ops", evs, v)
    # binding self-test: corrupt recorded results (swap the result for the unreduced operand / a different variable)
    bad = []
    for e in evs:
        if e["kind"] == "op" and e["outcome"] == "ok" and e["call"] == "subst" and e["r"] != e["t"] and len(bad) < 3:
            c = copy.deepcopy(e)
            c["r"] = c["t"]
            c["tid"] = 10 ** 7 + len(bad)
            bad.append(c)
    selftest_trace(rep, "C03_TermTrace", bad, None, wd=wd, cfg="C03_TermTrace_%s.cfg" % sfx)
    evs = read_events(eq)
    v = validate_trace("C03_TermTrace", eq, wd=wd / "tv_eq", cfg="C03_TermTrace_%s.cfg" % sfx, nchunks=1)
    rep.add_trace_result("eq", evs, v)
    bad = []
    for e in evs:
        if e["kind"] == "eq" and e.get("how") == "mutated" and e["outcome"] == "ok" and len(bad) < 3:
            c = copy.deepcopy(e)
            c["eq"] = not c["eq"]
            c["tid"] = 10 ** 7 + 10 + len(bad)
            bad.append(c)
    selftest_trace(rep, "C03_TermTrace", bad, "EqIsAlpha", wd=wd, cfg="C03_TermTrace_%s.cfg" % sfx)
    evs = read_events(heap)
    v = validate_trace("C03_HeapTrace", heap, wd=wd / "tv_heap", nchunks=1)
    rep.add_trace_result("heap", evs, v, keyf=lambda e: "heap:eq:%s:%s" % (json.dumps(e.get("ea"))[:60], json.dumps(e.get("eb"))[:60]))
    if heap_design_bad and not v["fails"]:
        rep.notes["suspect"] = "C03_Heap (constants from the code) violates EqCorrect but no real history exhibited it in this run"
    tr = rep.notes["traces"]
    require(tr["ops"]["nontrivial"] >= 5000 and tr["eq"]["nontrivial"] >= 1000 and tr["heap"]["nontrivial"] >= 200,
            "C03: too few examined events (vacuity guard)")


def replay(path):
    from harness.core import write_events
    obj = json.load(open(path))
    wd = work_dir("C03", "replay1", clean=True)
    if obj.get("kind") != "event":
        print(json.dumps(obj, indent=1)[:3000])
        return 1
    e = obj["event"]
    if e.get("kind") == "op":
        vec = {k: e[k] for k in ("op", "t", "env", "v", "u", "ty", "sv")}
        if vec["op"] == "subst_norm":
            vec["op"] = "subst"
        write_events(wd / "vec.ndjson", [vec])
        run_driver("c03", ["ops", wd / "vec.ndjson", wd / "ev.ndjson"])
        v = validate_trace("C03_TermTrace", wd / "ev.ndjson", wd=wd / "tv", cfg="C03_TermTrace_small.cfg", nchunks=1)
    elif e.get("kind") == "heap":
        run_driver("c03", ["heap", wd / "ev.ndjson", 300, seed()])
        v = validate_trace("C03_HeapTrace", wd / "ev.ndjson", wd=wd / "tv", nchunks=1)
    else:
        write_events(wd / "ev.ndjson", [e])
        print("re-validating the recorded event (inputs of ==/hash events are regenerated by `./check C03 quick`)")
        v = validate_trace("C03_TermTrace", wd / "ev.ndjson", wd=wd / "tv", cfg="C03_TermTrace_small.cfg", nchunks=1)
    print("events:", v["consumed"], "fails:", v["fails"][:10])
    if v["fails"]:
        print("VIOLATION property=C03 replay=%s" % path)
        return 1
    print("not reproduced on the current tree")
    return 0
