"""C08 - type inference returns only well-typed, fully determined terms.   DESIGN.md section 6/C08

 I  spec/C08_InferImpl.tla    the unify/union machine of syntax/infertype.py as coded (uf, reach), all call sequences;
                              AcyclicOrRejected, SubstTerminates, SubstIsResolve, UnifierOK
 S  spec/C08_Infer.tla        the input space as a transition system (well-typed terms over holpy's signature and their
    spec/C08_Contract.tla     erasures; constraint conjunctions = cycles / clashes in every unification order), the contract
    spec/C08_InferAlgo.tla    GoodResult + erasure clause, and the check that the algorithm model meets the contract
 ->  harness/drivers/c08.py   every TLC-generated case through the REAL type_infer (+ seeded random, + library corpus)
 T  spec/C08_InferTrace.tla   TLC judges every real outcome (GoodResult, ErasureRecovers, OwnError, Terminates)

The two model parameters ExactOccursCheck / AnnotVarCheck make the algorithm model mirror the code that is present.  They are
set from a BEHAVIOURAL probe (two skeletons through the real type_infer: "own error" => TRUE), not by reading the source:
the model-level verdict (design violation) is then confirmed or refuted on the real code by the events, which TLC judges
independently of ExactOccursCheck (the Terminates clause uses the AS-FOUND model, cached reach sets, as the explanation).
"""
import copy
import json
import shutil
from concurrent.futures import ThreadPoolExecutor

from harness.core import (REPO, SPEC, MachineryError, digest, model_check, read_events, require, run_driver, seed, spec_mutant,
                          validate_trace, work_dir, write_events)

PID = "C08"
_T0 = [0.0]


def _log(msg):
    import sys, time
    if not _T0[0]:
        _T0[0] = time.time()
    sys.stderr.write("[c08 %6.1fs] %s\n" % (time.time() - _T0[0], msg))
TSPEC = "C08_InferTrace"
NONE = ["none"]
NOCTX = {"vars": [], "svars": []}


# ---------------------------------------------------------------------------------- probe skeletons (inputs only)
def _xv(i, T=None):
    return ["var", "x%d" % i, T if T is not None else NONE]


def _c0(n):
    return ["const", n, NONE]


def _conj(a, b):
    return ["comb", ["comb", _c0("conj"), a], b]


NAT = ["tc", "nat", []]
BOOL = ["tc", "bool", []]
# (x0 x1) & (x1 x2) & (x2 x0) & x0 = x2: the three-call cycle that TLC finds on the I specification, followed by a
# unification that walks through it (a check of the final binding alone would come too late for this one)
PROBE_CYCLE = _conj(["comb", _xv(0), _xv(1)], _conj(["comb", _xv(1), _xv(2)], _conj(["comb", _xv(2), _xv(0)],
                    ["comb", ["comb", _c0("equals"), _xv(0)], _xv(2)])))
# x0 & (x0::nat) = 0: one variable used at two types, one occurrence annotated
PROBE_ANNOT = _conj(_xv(0), ["comb", ["comb", _c0("equals"), _xv(0, NAT)], _c0("zero")])


def probe_vectors():
    return [{"fam": "probe", "keep": "cycle", "declared": False, "skel": PROBE_CYCLE, "ctx": NOCTX, "orig": NONE},
            {"fam": "probe", "keep": "annot", "declared": False, "skel": PROBE_ANNOT, "ctx": NOCTX, "orig": NONE}]


def _cfg_with(src, dst, repl):
    s = (SPEC / src).read_text()
    for a, b in repl:
        require(a in s, "%s: %r not found" % (src, a))
        s = s.replace(a, b)
    dst.write_text(s)
    return dst


def _params(eoc, avc):
    return [("ExactOccursCheck = TRUE", "ExactOccursCheck = %s" % ("TRUE" if eoc else "FALSE")),
            ("AnnotVarCheck = TRUE", "AnnotVarCheck = %s" % ("TRUE" if avc else "FALSE"))]


def _model_runs(cfg, wd, eoc, avc, workers):
    """Model-check the algorithm model (parameters mirroring the code) against the contract.  TLC stops at the first
    violated invariant, so the run is repeated without the invariants already seen violated."""
    invs = ["ModelTerminates", "ModelGoodResult", "ModelErasure"]
    wd.mkdir(parents=True, exist_ok=True)
    violated, last = [], None
    for rnd in range(len(invs)):
        todo = [i for i in invs if i not in violated]
        c = wd / ("model_%d.cfg" % rnd)
        s = (SPEC / cfg).read_text()
        for i in violated:
            s = s.replace("INVARIANT %s\n" % i, "")
        for a, b in _params(eoc, avc):
            s = s.replace(a, b)
        c.write_text(s)
        r = model_check("C08_Infer", c, wd=wd / ("mc_model_%d" % rnd), workers=workers, timeout=7200)
        new = [i for i in r.violated if i in todo]
        if not new:
            last = last or r
            break
        # keep the counterexamples (TLC output without the parser chatter) of every violating run
        cex = "\n".join(ln for ln in r.out.splitlines() if not ln.startswith(("Parsing ", "Semantic ", "Linting ")))
        if last is None:
            last = r
            last.out = cex
        else:
            last.out += "\n" + cex
        violated += new
    return last, violated


def _guard(rep, cond, msg):
    """Vacuity guard.  A witnessed violation takes priority: once one is recorded, a failing guard (the broken
    implementation may well empty an outcome class) is only noted in the evidence."""
    if cond:
        return
    if rep.violations:
        rep.notes.setdefault("guards_not_met_after_violation", []).append(msg)
    else:
        raise MachineryError(msg)


def run(rep, tier):
    quick = tier == "quick"
    # one scratch directory per repository under test: concurrent runs against different worktrees must not share it
    sub = "run" if str(REPO) == "/repo" else "run_" + digest(str(REPO))
    wd = work_dir(PID, sub, clean=True)
    try:
        _run(rep, quick, wd)
    finally:
        if sub != "run":
            shutil.rmtree(wd, ignore_errors=True)


def _run(rep, quick, wd):
    sizes = ["small"] if quick else ["deep", "cyc"]
    rep.rule = ("TLC explores (a) all sequences of unify calls (%s) over internal type variables and {bool, fun, list} on the "
                "as-coded union-find machine, (b) all well-typed terms within %s growth steps (size <= %s) over a 20-constant "
                "signature (overloaded arithmetic, polymorphic constants, higher-order and schematic variables, nested binders), "
                "each erased under {none, vars, consts+binders, all} with variables declared / undeclared, and all constraint "
                "conjunctions of <= %s atoms over x0..x%s in canonical variable order (cycles of every length through fun and "
                "list in every unification order, one variable at two types, annotated occurrences); every case goes through the "
                "real type_infer, plus seeded random deeper terms with per-occurrence erasure masks, long random conjunctions and a "
                "seeded HISTORY in one process (the current theory switched all the time between three scratch theories declaring "
                "the same constant names at different types; each event judged against the signature current at its call)%s. "
                "Non-trivial = a returned term judged clause by clause, or an erasure of a well-typed term, or an "
                "error/rejection that the algorithm model accounts for; distinct by (skeleton, context, outcome)."
                % (("<= 3 calls, 3 variables", "2", "7", "3", "2", "") if quick else
                   ("<= 4 calls with 3 variables, <= 3 calls with 4 variables", "3", "8", "4", "3",
                    ", plus the erased statements of the theorems of the library theory real")))
    rep.assumptions = ["TLC/SANY, the structural codec (harness/codec.py + the None-tolerant variant in the driver), CPython",
                       "constants are looked up in the loaded theory 'real' (logic_base .. real); context.ctxt.defs is exercised only "
                       "by the seeded random family (free variables turned into constants under definition)",
                       "forbid_internal=True (the default used by the parser); infer_printed_type is not examined",
                       "histories: theory.thy is switched by assignment between copies of the loaded theory extended with "
                       "unchecked_extend; the event's signature is read from the theory current at the call",
                       "a call is given 5 s (median < 1 ms); RecursionError/MemoryError/timeout count as a violation only when the "
                       "as-found algorithm model accepts a cyclic binding for the same skeleton (DESIGN section 4 rule 5)"]

    _log("start")
    ex = ThreadPoolExecutor(max_workers=4)
    # ---- 1. S: the input space (vectors) -- in the background; meanwhile the probe
    f_gen = [(z, ex.submit(model_check, "C08_Infer", "C08_Infer_%s_gen.cfg" % z, wd=wd / ("mc_gen_" + z), workers=1,
                           env={"VECTOR_FILE": wd / ("vectors_%s.ndjson" % z)}, timeout=7200, xmx="6g")) for z in sizes]
    pv = wd / "probe_vectors.ndjson"
    write_events(pv, probe_vectors())
    run_driver("c08", ["replay", pv, wd / "probe.ndjson"])
    probe = {e["keep"]: e for e in read_events(wd / "probe.ndjson")}
    eoc = probe["cycle"]["outcome"] == "own"
    avc = probe["annot"]["outcome"] == "own"
    rep.notes["probe"] = {"ExactOccursCheck": eoc, "AnnotVarCheck": avc,
                          "cycle_outcome": probe["cycle"]["outcome"] + ":" + (probe["cycle"]["cls"] or probe["cycle"]["err"]),
                          "annot_outcome": probe["annot"]["outcome"] + ":" + (probe["annot"]["cls"] or probe["annot"]["err"])}
    tenv = {"C08_EOC": "TRUE" if eoc else "FALSE", "C08_AVC": "TRUE" if avc else "FALSE"}
    _log("probe done: %s" % rep.notes["probe"])

    # ---- 2. I: the unify machine as coded, parameter mirroring the code
    icfgs = ["C08_InferImpl_small.cfg"] if quick else ["C08_InferImpl_list.cfg", "C08_InferImpl_deep.cfg", "C08_InferImpl_wide.cfg"]
    f_impl = []
    for c in icfgs:
        dst = _cfg_with(c, wd / c, _params(eoc, avc)[:1])
        f_impl.append((c, ex.submit(model_check, "C08_InferImpl", dst, wd=wd / ("mc_" + c[:-4]), workers=2, timeout=7200)))

    allvec = wd / "all_vectors.ndjson"
    nvec = 0
    with open(allvec, "w") as f:
        f.write(pv.read_text())
        for z, fut in f_gen:
            r = fut.result()
            rep.add_mc("C08_Infer(gen)", r, "C08_Infer_%s_gen.cfg" % z)
            if r.violated:
                rep.design_violation("C08_Infer", r)
                return
            vec = wd / ("vectors_%s.ndjson" % z)
            require(vec.exists() and vec.stat().st_size > 0, "C08_Infer (%s) did not emit vectors" % z)
            txt = vec.read_text()
            nvec += txt.count("\n")
            f.write(txt)
    rep.exhaustive = True
    require(nvec >= (15000 if quick else 100000), "C08: too few vectors (%d) (vacuity guard)" % nvec)
    _log("vectors: %d" % nvec)
    rep.notes["vectors"] = nvec

    # ---- 3. S+model: the algorithm model against the contract (in the background), spec -> code replay meanwhile
    f_model = [(z, ex.submit(_model_runs, "C08_Infer_%s_model.cfg" % z, wd / ("model_" + z), eoc, avc, 2)) for z in sizes]
    ev_replay, ev_rand, ev_corpus = wd / "replay.ndjson", wd / "random.ndjson", wd / "corpus.ndjson"
    jobs = [ex.submit(run_driver, "c08", ["replay", allvec, ev_replay]),
            ex.submit(run_driver, "c08", ["random", 1500 if quick else 40000, ev_rand, seed()])]
    if not quick:
        jobs.append(ex.submit(run_driver, "c08", ["corpus", ev_corpus, 100000, seed()]))
    for j in jobs:
        j.result()
    _log("drivers done")

    for c, f in f_impl:
        ri = f.result()
        rep.add_mc("C08_InferImpl", ri, "%s ExactOccursCheck=%s" % (c, eoc))
        if ri.violated:
            ri.out = "\n".join(ln for ln in ri.out.splitlines() if not ln.startswith(("Parsing ", "Semantic ", "Linting ")))
            rep.design_violation("C08_InferImpl", ri)
    _log("I done")
    for z, f in f_model:
        rm, violated = f.result()
        _log("model %s done: violated=%s" % (z, violated))
        rep.add_mc("C08_Infer(model)", rm, "C08_Infer_%s_model.cfg ExactOccursCheck=%s AnnotVarCheck=%s" % (z, eoc, avc))
        if violated:
            rm.violated = violated
            rep.design_violation("C08_Infer", rm)

    # ---- 4. T: every real outcome judged by TLC
    traces = [("replay", ev_replay), ("random", ev_rand)] + ([] if quick else [("corpus", ev_corpus)])
    for name, path in traces:
        evs = read_events(path)
        v = validate_trace(TSPEC, path, wd=wd / ("tv_" + name), nchunks=2 if quick else 12, env=tenv)
        rep.add_trace_result(name, evs, v)
        if name == "replay":
            _selftests(rep, evs, wd, tenv)
        _log("trace %s validated" % name)
    tr = rep.notes["traces"]
    _guard(rep, tr["replay"]["nontrivial"] >= 0.95 * tr["replay"]["events"] and tr["replay"]["events"] >= nvec,
           "C08: too few examined replay events (vacuity guard)")
    _guard(rep, tr["random"]["nontrivial"] >= 0.8 * tr["random"]["events"], "C08: too few examined random events (vacuity guard)")
    if not quick:
        _guard(rep, tr["corpus"]["nontrivial"] >= 2000, "C08: too few examined corpus events (vacuity guard)")
    _outcome_counts(rep, [p for _, p in traces])

    # ---- 5. specification mutants (the oracle is not vacuous)
    _log("mutants")
    spec_mutant(rep, "unify_second_representative_forgotten", "C08_Infer", "C08_Infer_small_model.cfg",
                [("C08_InferAlgo.tla", "LET T1 == Rep(s, A1)  T2 == Rep(s, A2) IN", "LET T1 == Rep(s, A1)  T2 == A2 IN")],
                ["ModelGoodResult"], wd=wd, workers=2)
    if not quick:
        spec_mutant(rep, "occurs_check_on_cached_reach_sets", "C08_InferImpl", "C08_InferImpl_small.cfg",
                    [("C08_InferImpl_small.cfg", "ExactOccursCheck = TRUE", "ExactOccursCheck = FALSE")],
                    ["AcyclicOrRejected"], wd=wd, workers=2)
        spec_mutant(rep, "union_without_occurs_test", "C08_InferImpl", "C08_InferImpl_small.cfg",
                    [("C08_InferAlgo.tla", "IN IF \\E k \\in hit : (k - 1) \\in use THEN Fail(s, \"loop\")",
                      "IN IF FALSE THEN Fail(s, \"loop\")")],
                    ["AcyclicOrRejected"], wd=wd, workers=2)
        spec_mutant(rep, "declared_type_ignored", "C08_Infer", "C08_Infer_small_model.cfg",
                    [("C08_InferAlgo.tla", "isdecl == ~given /\\ t[2] \\in Keys(decl)", "isdecl == FALSE")],
                    ["ModelGoodResult", "ModelErasure"], wd=wd, workers=2)
        spec_mutant(rep, "annotated_occurrences_not_tied", "C08_Infer", "C08_Infer_small_model.cfg",
                    [("C08_Infer_small_model.cfg", "AnnotVarCheck = TRUE", "AnnotVarCheck = FALSE")],
                    ["ModelGoodResult"], wd=wd, workers=2)
    ex.shutdown()
    _log("end")


def _outcome_counts(rep, paths):
    c = {}
    for p in paths:
        for e in read_events(p):
            k = "%s/%s%s" % (e["fam"], e["outcome"], (":" + (e["cls"] if e["outcome"] == "other" else e["err"])) if e["outcome"] in ("own", "other") else "")
            c[k] = c.get(k, 0) + 1
    rep.notes["outcomes"] = dict(sorted(c.items()))
    got = lambda pre: sum(v for k, v in c.items() if k.startswith(pre))
    _guard(rep, got("typed/term") > 500 and got("typed/own:unspecified") > 100 and got("cs/term") > 100
           and got("cs/own:unify") > 100 and got("cs/own:loop") + got("cs/other") > 100,
           "C08: an outcome class is (almost) absent from the replay: %s" % c)
    _guard(rep, got("hist/term") > 150 and got("hist/own:unspecified") > 40 and got("histx/own") > 60,
           "C08: the theory-switching history family is (almost) absent: %s" % c)


def _first_leaf_path(t, kinds):
    if t[0] in kinds:
        return []
    if t[0] == "comb":
        for i in (1, 2):
            p = _first_leaf_path(t[i], kinds)
            if p is not None:
                return [i] + p
    if t[0] == "abs":
        p = _first_leaf_path(t[2], kinds)
        if p is not None:
            return [2] + p
    return None


def _selftests(rep, evs, wd, tenv):
    """Binding self-test: one recorded field of real events is corrupted, the trace specification must reject."""
    bad_type, bad_err, n = [], [], 0
    for e in evs:
        if e["fam"] != "typed" or not e["declared"]:
            continue
        if e["outcome"] == "term" and len(bad_type) < 4:
            p = _first_leaf_path(e["result"], ("var", "const"))
            if p is not None and len(p) >= 1:
                c = copy.deepcopy(e)
                x = c["result"]
                for i in p:
                    x = x[i]
                x[2] = NAT if x[2] != NAT else BOOL          # one leaf type of the returned term changed
                c["tid"] = 10 ** 7 + n
                n += 1
                bad_type.append(c)
        if e["outcome"] == "term" and e["keep"] == "cb" and len(bad_err) < 3:
            c = copy.deepcopy(e)
            c.update(outcome="own", cls="TypeInferenceException", err="unspecified", result=NONE, tid=10 ** 7 + n)
            n += 1
            bad_err.append(c)                                 # "under-determined" although constants and binders were kept
    base = {"fam": "probe", "declared": False, "ctx": NOCTX, "orig": NONE,
            "sig": [e for e in evs if e["fam"] == "probe" and e["keep"] == "annot"][0]["sig"]}
    cyc = dict(base, tid=10 ** 7 + n, key="selftest:cycle", keep="cycle", skel=PROBE_CYCLE, outcome="other", cls="RecursionError",
               err="", result=NONE)
    two = _conj(_xv(0, BOOL), ["comb", ["comb", ["const", "equals", ["tc", "fun", [NAT, ["tc", "fun", [NAT, BOOL]]]]], _xv(0, NAT)],
                               ["const", "zero", NAT]])
    two[1][1][2] = ["tc", "fun", [BOOL, ["tc", "fun", [BOOL, BOOL]]]]
    ann = dict(base, tid=10 ** 7 + n + 1, key="selftest:annot", keep="annot", skel=PROBE_ANNOT, outcome="term", cls="", err="", result=two)
    foreign = dict(base, tid=10 ** 7 + n + 2, key="selftest:foreign", keep="annot", skel=PROBE_ANNOT, outcome="other", cls="KeyError",
                   err="", result=NONE)
    _guard(rep, len(bad_type) >= 3 and len(bad_err) >= 2, "C08 self-test: no events to corrupt")
    expect = [(c, "ErasureRecovers") for c in bad_type + bad_err] + [(cyc, "Terminates"), (ann, "OneType"), (foreign, "OwnError")]
    # one TLC run for all corrupted events (same rule as core.selftest_trace: every one must be rejected with its clause)
    p = wd / "selftest.ndjson"
    write_events(p, [c for c, _ in expect])
    v = validate_trace(TSPEC, p, wd=wd / "selftest_tv", nchunks=1, env=tenv)
    got = {f["tid"]: set(f["fail"]) for f in v["fails"]}
    missing = [(c["tid"], cl) for c, cl in expect if cl not in got.get(c["tid"], set())]
    if missing:
        raise MachineryError("self-test: %s accepted corrupted events %s" % (TSPEC, missing[:5]))
    rep.notes.setdefault("selftests", []).append({"spec": TSPEC, "corrupted_events": len(expect),
                                                  "all_rejected_with": sorted({cl for _, cl in expect})})


def replay(path):
    """Re-run one recorded failing event against the current code and re-validate it."""
    obj = json.load(open(path))
    wd = work_dir(PID, "replay1", clean=True)
    if obj.get("kind") != "event":
        print(json.dumps(obj, indent=1)[:3000])
        print("design-level finding: re-run ./check C08 quick")
        return 1
    e = obj["event"]
    if e["fam"] in ("hist", "histx"):
        # an event of a theory-switching history: re-run the whole seeded history, judge the event with the same key
        g = e["gen"]
        run_driver("c08", [g["mode"], g["n"], wd / "hist_all.ndjson", g["seed"]])
        same = [x for x in read_events(wd / "hist_all.ndjson") if x["key"] == e["key"]]
        require(same, "C08 replay: the history no longer contains the event %s" % e["key"])
        write_events(wd / "pv.ndjson", probe_vectors())
        run_driver("c08", ["replay", wd / "pv.ndjson", wd / "probe.ndjson"])
        probe = {x["keep"]: x for x in read_events(wd / "probe.ndjson")}
        tenv = {"C08_EOC": "TRUE" if probe["cycle"]["outcome"] == "own" else "FALSE",
                "C08_AVC": "TRUE" if probe["annot"]["outcome"] == "own" else "FALSE"}
        write_events(wd / "ev.ndjson", same)
        print("outcome now:", same[0]["outcome"], same[0]["cls"] or same[0]["err"])
        v = validate_trace(TSPEC, wd / "ev.ndjson", wd=wd / "tv", nchunks=1, env=tenv)
        print("events:", v["consumed"], "fails:", v["fails"])
        if v["fails"]:
            print("VIOLATION property=C08 replay=%s" % path)
            return 1
        print("not reproduced on the current tree")
        return 0
    write_events(wd / "vec.ndjson", probe_vectors() + [{k: e[k] for k in ("fam", "keep", "declared", "skel", "ctx", "orig")}])
    run_driver("c08", ["replay", wd / "vec.ndjson", wd / "ev_all.ndjson"])
    evs = read_events(wd / "ev_all.ndjson")
    probe = {x["keep"]: x for x in evs[:2]}
    tenv = {"C08_EOC": "TRUE" if probe["cycle"]["outcome"] == "own" else "FALSE",
            "C08_AVC": "TRUE" if probe["annot"]["outcome"] == "own" else "FALSE"}
    write_events(wd / "ev.ndjson", evs[2:])
    print("outcome now:", evs[2]["outcome"], evs[2]["cls"] or evs[2]["err"])
    v = validate_trace(TSPEC, wd / "ev.ndjson", wd=wd / "tv", nchunks=1, env=tenv)
    print("events:", v["consumed"], "fails:", v["fails"])
    if v["fails"]:
        print("VIOLATION property=C08 replay=%s" % path)
        return 1
    print("not reproduced on the current tree")
    return 0
