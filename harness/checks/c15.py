"""C15 - SAT solving and CNF encoding give correct verdicts with valid certificates.   DESIGN.md section 6/C15

 S  spec/C15_Sat.tla          every CNF of a small universe is an initial state; reference refutation procedure
                              (saturation by resolution); invariants ResolutionSound, RefutationComplete,
                              CertificateAccepted, CertificateOnlyIfUnsat, ReplayFaithful; emits every CNF as a vector
 S  spec/C15_Tseitin.tla      every formula of a small universe + the family Repeats (X op X in every 0-2 connective context);
                              reference Tseitin encoding; RefTheoremValid, RefEquisat, RefDefinitional; emits every formula
 I  spec/C15_SatImpl.tla      solve_cnf AS CODED (C15_SatAlgo.tla) from every emitted CNF: VerdictCorrect,
                              CertificateValid, Terminates, Progress, TrailConsistent, ReasonsAreUnit, LearnedEntailed;
                              Dedup (is the duplicate-literal repair present?) comes from a behavioural probe of the code;
                              result-level conformance: every (verdict, certificate) the code returned is a result of the
                              model, every time-out a loop of the model
 -> harness/drivers/c15.py    sat.solve_cnf on all vectors + seeded random CNFs (<= 12 vars / 60 clauses) under an alarm;
                              tseitin.encode + checker + convert_cnf (+ proofrec.solve_cnf end to end) on all / sampled /
                              random formulas
 T  spec/C15_SatTrace.tla, spec/C15_TseitinTrace.tla   every verdict
"""
import copy
import json
from concurrent.futures import ThreadPoolExecutor

from harness.core import (MachineryError, model_check, read_events, require, run_driver, run_drivers_parallel, seed, selftest_trace,
                          spec_mutant, validate_trace, work_dir, write_events)

PID = "C15"
MAX_REPORTED = 5      # failing events reported per trace and clause (the totals are in the evidence)
SELF = 10 ** 7        # tids >= SELF are deliberately corrupted copies of real events (binding self-test)

# (name, cfg of C15_Sat, text)
UNIVERSES_QUICK = [
    ("small", "C15_Sat_quick.cfg", "2 vars: literal sequences of length <= 2, <= 3 clauses (9 724); 3 vars: all sets of <= 3 clauses "
                                   "of <= 3 distinct literals up to renaming of the variables; 2 vars: all sets of <= 6 clauses of <= 2 literals (1 486)"),
]
UNIVERSES_THOROUGH = [
    ("seq2x", "C15_Sat_seq2x.cfg", "2 vars, literal sequences of length <= 2, <= 4 clauses, one representative per renaming of the variables (of 204 205 CNFs)"),
    ("set3x", "C15_Sat_set3x.cfg", "3 vars, all sets of <= 4 clauses of <= 3 distinct literals, one representative per renaming of the variables"),
    ("seq3", "C15_Sat_seq3.cfg", "3 vars, literal sequences of length <= 2, <= 3 clauses (81 400 CNFs) + 2 vars, all sets of <= 6 clauses (1 486)"),
]


def _truncate(v, evs):
    """Keep the MAX_REPORTED smallest failing events per clause; return (verdict', totals per clause)."""
    by_tid = {e["tid"]: e for e in evs}

    def size(f):
        e = by_tid.get(f["tid"], {})
        return (len(json.dumps(e.get("cnf", e.get("formula", "")))), f["tid"])
    totals, kept, per = {}, [], {}
    for f in sorted(v["fails"], key=size):
        keep = []
        for c in f["fail"]:
            totals[c] = totals.get(c, 0) + 1
            if per.get(c, 0) < MAX_REPORTED:
                per[c] = per.get(c, 0) + 1
                keep.append(c)
        if keep:
            kept.append({"tid": f["tid"], "fail": keep})
    v2 = dict(v)
    v2["fails"] = kept
    return v2, totals


def _add_trace(rep, name, evs, v):
    v2, totals = _truncate(v, evs)
    rep.add_trace_result(name, evs, v2)
    if totals:
        rep.notes.setdefault("failing_events_per_clause", {})[name] = totals
        rep.notes["traces"][name]["fails"] = len(v["fails"])


def _merge(paths, out):
    """Concatenate event files, renumbering tids (one JVM per trace specification instead of one per file)."""
    evs = []
    for p in paths:
        evs += read_events(p)
    for i, e in enumerate(evs):
        e["tid"] = i + 1
    write_events(out, evs)
    return evs


def _validate_with_selftest(rep, tspec, evs, corrupted, path, wd, nchunks):
    """Validate the real events and, in the same TLC run(s), deliberately corrupted copies (tid >= SELF, each with the
    clause that must reject it).  Returns the verdict of the real events only."""
    require(corrupted, "self-test for %s has no events" % tspec)
    write_events(path, evs + [c for c, _ in corrupted])
    v = validate_trace(tspec, path, wd=wd, nchunks=nchunks)
    flagged = {f["tid"]: f["fail"] for f in v["fails"]}
    missing = [(c["tid"], cl) for c, cl in corrupted if cl not in flagged.get(c["tid"], [])]
    if missing:
        raise MachineryError("self-test: %s accepted corrupted events %s" % (tspec, missing[:5]))
    rep.notes.setdefault("selftests", []).append({"spec": tspec, "corrupted_events": len(corrupted),
                                                  "all_rejected_with": sorted({cl for _, cl in corrupted})})
    v = dict(v)
    v["consumed"] -= len(corrupted)
    for k in ("nontrivial", "divergences"):
        v[k] = [t for t in v[k] if t < SELF]
    v["fails"] = [f for f in v["fails"] if f["tid"] < SELF]
    return v


def _corrupt_solve(evs):
    bad = []
    n1 = n2 = n3 = 0
    for e in evs:
        if e["verdict"] == "sat" and e["cnf"] and n1 < 4:
            c = copy.deepcopy(e)
            c["assignment"] = []                               # the recorded assignment is lost: no clause is satisfied
            c["tid"] = SELF + len(bad)
            bad.append((c, "Satisfies"))
            n1 += 1
        if e["verdict"] == "unsat" and n2 < 4 and e["proofs"]:
            steps = e["proofs"][-1][1]
            if len(steps) >= 2 and steps[0] < len(e["cnf"]) and e["cnf"][steps[0]]:
                c = copy.deepcopy(e)
                c["proofs"][-1][1] = steps[:1]                 # resolution steps dropped: the last clause is not empty
                c["tid"] = SELF + len(bad)
                bad.append((c, "Refutation"))
                n2 += 1
        if e["verdict"] == "sat" and e["cnf"] and n3 < 3:
            c = copy.deepcopy(e)
            c["verdict"], c["assignment"], c["proofs"] = "unsat", [], [[len(e["cnf"]), [0]]]   # verdict flipped
            c["tid"] = SELF + len(bad)
            bad.append((c, "Agrees"))
            n3 += 1
    return bad


def _corrupt_tseitin(evs):
    bad = []
    for e in evs:
        if e["kind"] == "tseitin" and e["outcome"] == "ok" and e["formula"][0] == "atom" and len(bad) < 3:
            c = copy.deepcopy(e)
            c["concl"] = ["not", c["concl"]]                   # x1 <-> a, a |- ~x1
            c["tid"] = SELF + len(bad)
            bad.append((c, "Valid"))
    for e in evs:
        if e["kind"] == "tseitin" and e["outcome"] == "ok" and len(e["cnf"]) >= 3 and len(bad) < 6:
            c = copy.deepcopy(e)
            c["cnf"] = c["cnf"][1:]                             # the unit clause of the top variable is lost
            c["tid"] = SELF + len(bad)
            bad.append((c, "CnfOfTheorem"))
    return bad


def sat_pipeline(rep_notes, name, cfg, text, wd, env, dedup, quick, extra_events):
    """S (enumerate + reference) -> code -> I (as coded, with conformance) || T.  Returns a dict of results."""
    out = {"name": name, "text": text}
    vec = wd / ("vec_%s.ndjson" % name)
    out["S"] = model_check("C15_Sat", cfg, wd=wd / ("mcS_" + name), workers=2 if quick else 1, env={"VECTOR_FILE": vec}, timeout=5000)
    if out["S"].violated:
        return out
    require(vec.exists(), "C15_Sat did not emit vectors for " + name)
    out["nvec"] = sum(1 for _ in open(vec))
    ev = wd / ("ev_%s.ndjson" % name)
    run_driver("c15", ["solve", vec, ev, name], env=env, timeout=5000)
    out["events"] = ev
    conf = wd / ("conf_%s.json" % name)
    ienv = {"VECTOR_FILE": vec, "EVENT_FILE": ev, "CONF_FILE": conf}
    icfg = "C15_SatImpl_dedup.cfg" if dedup else "C15_SatImpl_asis.cfg"
    out["I_cfg"] = icfg

    def impl():
        # I: the algorithm as coded, constant from the probe, initial states = the vectors, conformance with the events
        out["I"] = model_check("C15_SatImpl", icfg, wd=wd / ("mcI_" + name), workers=1, env=ienv, timeout=5000)
        if out["I"].violated and not dedup:
            # the model of the code that is present loops: still establish that it IS the code's behaviour (pruned run)
            out["I2"] = model_check("C15_SatImpl", "C15_SatImpl_asis_conf.cfg", wd=wd / ("mcI2_" + name), workers=1, env=ienv, timeout=5000)
        if conf.exists():
            out["conf"] = json.load(open(conf))

    def trace():
        evs = _merge([ev] + [p() for p in extra_events], wd / ("all_%s.ndjson" % name))
        out["evs"] = evs
        out["T"] = _validate_with_selftest(out["rep"], "C15_SatTrace", evs, _corrupt_solve(evs), wd / ("allst_%s.ndjson" % name),
                                           wd / ("tv_" + name), 1 if quick else 2)
    out["rep"] = rep_notes
    if quick:
        with ThreadPoolExecutor(max_workers=2) as ex:
            fs = [ex.submit(impl), ex.submit(trace)]
            for f in fs:
                f.result()
    else:               # thorough: several pipelines run side by side; keep each one sequential (<= 2 JVMs at a time)
        impl()
        trace()
    return out


def run(rep, tier):
    quick = tier == "quick"
    work_dir(PID)                                 # .work/C15 itself keeps validated patches (fix_*.diff)
    wd = work_dir(PID, "run", clean=True)
    rep.rule = ("TLC enumerates every CNF of the small universes (clauses as literal sequences incl. duplicated / complementary "
                "literals, empty clause, empty CNF; and all clause sets over 3 variables) as initial states of the reference "
                "(S) and of the algorithm as coded (I); every one is replayed through sat.solve_cnf, plus seeded random CNFs "
                "up to 12 variables / 60 clauses (35% near the satisfiability threshold). TLC enumerates every formula up to "
                "the connective bound and the family of formulas with a repeated sub-formula (X op X for every connective, X an atom / "
                "negation / compound, in every context of 0-2 connectives: the inputs whose Tseitin clauses have repeated or "
                "complementary literals); all small ones, the whole family, a seeded sample of the larger ones plus random ones go through "
                "tseitin.encode, the checker, convert_cnf and proofrec.solve_cnf. Non-trivial = the call returned a verdict "
                "whose certificate was replayed in TLA+ (assignment against every clause / resolution trace step by step / "
                "truth tables), or a time-out explained by a loop of the I-model; distinct by input and recorded result.")
    rep.assumptions = ["TLC/SANY and the CommunityModules; CPython; the 40-line structural projection of HOL terms to propositional structure in harness/drivers/c15.py (reads raw fields only)",
                       "exhaustive-search cross-check of the verdict only up to 12 variables (unsat) / 6 variables (sat); beyond that the verdict is justified by the replayed certificate (S: ResolutionSound, CertificateOnlyIfUnsat)",
                       "truth tables only up to 12 atoms (larger theorems are not examined)",
                       "a time-out is a violation only when the I-model (Dedup from a behavioural probe) loops from the same CNF; other time-outs are re-run with a 6 s alarm and reported as SUSPECT",
                       "sat/zchaff.py drives an external Windows binary (zchaff.exe): only the tseitin.encode part it shares is exercised"]
    # ---- which code is present?  (constant of the I specification)
    probe = wd / "probe.json"
    run_driver("c15", ["probe", probe])
    pr = json.load(open(probe))
    dedup = bool(pr["dup_returns"])
    rep.notes["probe"] = pr
    env = {"C15_DEDUP": "1" if dedup else "0"}
    universes = UNIVERSES_QUICK if quick else UNIVERSES_THOROUGH

    def random_events():
        ev = wd / "ev_rand.ndjson"
        run_driver("c15", ["random", 2000 if quick else 20000, ev, seed()], env=env, timeout=5000)
        return ev

    def shuffled_events(name, k):
        def f():
            ev = wd / ("ev_%s_shuf%d.ndjson" % (name, k))
            run_driver("c15", ["solve", wd / ("vec_%s.ndjson" % name), ev, name + "~", seed() * 1000 + k + 1], env=env, timeout=5000)
            return ev
        return f

    def tseitin_pipeline():
        out = {}
        vec = wd / "vec_formulas.ndjson"
        cfg = "C15_Tseitin_small.cfg" if quick else "C15_Tseitin_deep.cfg"
        out["S"] = model_check("C15_Tseitin", cfg, wd=wd / "mcS_tseitin", workers=1 if quick else 2, env={"VECTOR_FILE": vec}, timeout=5000)
        out["cfg"] = cfg
        if out["S"].violated:
            return out
        out["nvec"] = sum(1 for _ in open(vec))
        ev, sev = wd / "ev_tseitin.ndjson", wd / "ev_tseitin_solve.ndjson"
        rev, rsev = wd / "ev_rformulas.ndjson", wd / "ev_rformulas_solve.ndjson"
        pev, psev = wd / "ev_repeats.ndjson", wd / "ev_repeats_solve.ndjson"
        cev, csev = wd / "ev_clash.ndjson", wd / "ev_clash_solve.ndjson"
        rcev, rcsev = wd / "ev_rclash.ndjson", wd / "ev_rclash_solve.ndjson"
        if quick:
            # all formulas with <= 1 connective, a seeded sample of 110 of the 2-connective ones, 30 random larger ones, and
            # EVERY formula of the repeated-sub-formula family (X op X in every 0-2 connective context: 516; their proofs are
            # checked with the macros of level 1 trusted, as the repository's own test does; thorough expands every macro)
            jobs = [("c15", ["tseitin", vec, ev, sev, seed(), 1, 110, "prove"], env),
                    ("c15", ["rformulas", 30, rev, rsev, seed(), "prove"], env),
                    ("c15", ["repeats", vec, pev, psev, 1], env),
                    # name-space family (atoms named like the encoder's fresh variables): all with <= 1 connective, 150 sampled
                    ("c15", ["family", vec, cev, csev, "clash", seed(), 1, 150, 1], env)]
            extra = [cev]
            extra_s = [csev]
        else:
            jobs = [("c15", ["tseitin", vec, ev, sev, seed(), 2, 1200, "prove"], env),
                    ("c15", ["rformulas", 600, rev, rsev, seed(), "prove"], env),
                    ("c15", ["repeats", vec, pev, psev, 0], env),
                    ("c15", ["family", vec, cev, csev, "clash", seed(), 2, 100000, 0], env),
                    ("c15", ["rclash", 400, rcev, rcsev, seed(), "prove"], env)]
            extra = [cev, rcev]
            extra_s = [csev, rcsev]
        run_drivers_parallel(jobs, timeout=6000, max_workers=3)
        evs = _merge([ev, rev, pev] + extra, wd / "all_tseitin.ndjson")
        out["evs"] = evs
        out["T"] = _validate_with_selftest(rep, "C15_TseitinTrace", evs, _corrupt_tseitin(evs), wd / "allst_tseitin.ndjson",
                                           wd / "tv_tseitin", 1 if quick else 2)
        sevs = _merge([sev, rsev, psev] + extra_s, wd / "all_tseitin_cnf.ndjson")
        out["sevs"] = sevs
        out["Ts"] = validate_trace("C15_SatTrace", wd / "all_tseitin_cnf.ndjson", wd=wd / "tv_tseitin_cnf", nchunks=1)
        return out

    def mutants():
        # resolution as sat.py::resolution does it (drop EVERY literal on the pivot name) is unsound on tautological
        # clauses ({x | ~x, x} would be refuted): the reference must notice
        spec_mutant(rep, "resolution_drops_every_literal_on_pivot", "C15_Sat", "C15_Sat_quick.cfg",
                    [("C15_SatCore.tla", "Resolve(C, D, l) == (C \\ {l}) \\cup (D \\ {Neg(l)})",
                      "Resolve(C, D, l) == { k \\in C \\cup D : k[1] # l[1] }")],
                    ["ResolutionSound", "RefutationComplete", "CertificateOnlyIfUnsat"], wd=wd, workers=1,
                    env={"VECTOR_FILE": wd / "mutant_vectors.ndjson"})
        if not quick:
            # the reference that names its variables x1, x2, ... WITHOUT looking at the atoms of the input: on an input whose
            # atoms carry such names the definitions are not fresh and the clauses are not equisatisfiable (a & ~x1)
            spec_mutant(rep, "reference_names_ignore_the_atoms", "C15_Tseitin", "C15_Tseitin_clash.cfg",
                        [("C15_Prop.tla", "RefNames(f, n) == FreshNames(n, AtomsOf(f))", "RefNames(f, n) == FreshNames(n, {})")],
                        ["RefEquisat"], wd=wd, workers=1, env={"VECTOR_FILE": wd / "mutant_vectors3.ndjson"})
            # the reference encoding of a conjunction without  ~x | z : a & ~a would become satisfiable
            spec_mutant(rep, "tseitin_and_without_second_clause", "C15_Tseitin", "C15_Tseitin_small.cfg",
                        [("C15_Prop.tla", "[] g[1] = \"and\" -> << << <<x, FALSE>>, <<N(g[2]), TRUE>> >>, << <<x, FALSE>>, <<N(g[3]), TRUE>> >>,",
                          "[] g[1] = \"and\" -> << << <<x, FALSE>>, <<N(g[2]), TRUE>> >>, << <<x, FALSE>>, <<N(g[2]), TRUE>> >>,")],
                        ["RefEquisat"], wd=wd, workers=1, env={"VECTOR_FILE": wd / "mutant_vectors2.ndjson"})

    with ThreadPoolExecutor(max_workers=4 if quick else 3) as ex:
        f_ts = ex.submit(tseitin_pipeline)
        f_sat = []
        for i, (n, c, t) in enumerate(universes):
            extra = [random_events] if i == 0 else []
            if not quick:
                extra.append(shuffled_events(n, 0))
            f_sat.append(ex.submit(sat_pipeline, rep, n, c, t, wd, env, dedup, quick, extra))
        f_mut = ex.submit(mutants)
        sat_res = [f.result() for f in f_sat]
        ts_res = f_ts.result()
        f_mut.result()

    # ---- bookkeeping
    design_reported = False
    conf_notes = {}
    for r in sat_res:
        rep.add_mc("C15_Sat[%s]" % r["name"], r["S"], r["text"])
        if r["S"].violated:
            rep.design_violation("C15_Sat", r["S"])
            continue
        rep.add_mc("C15_SatImpl[%s]" % r["name"], r["I"], "%s; Dedup=%s (probe); initial states = the %d vectors of C15_Sat[%s]" % (
            r["I_cfg"], dedup, r["nvec"], r["name"]))
        if r["I"].violated:
            if not design_reported:
                rep.design_violation("C15_SatImpl", r["I"])
                design_reported = True
            if "I2" in r:
                rep.add_mc("C15_SatImpl[%s,pruned]" % r["name"], r["I2"], "C15_SatImpl_asis_conf.cfg (conformance of the looping model)")
                if r["I2"].violated:
                    rep.design_violation("C15_SatImpl_pruned", r["I2"])
        c = r.get("conf")
        if c is not None:
            require(c["aligned"], "C15: events and vectors of %s are not aligned" % r["name"])
            conf_notes[r["name"]] = {"events": c["events"], "results_matched_by_model": c["matched"],
                                     "cnfs_where_model_loops": len(c["looping"]), "unexplained_by_model": len(c["unexplained"]),
                                     "unexplained_sample": c["unexplained"][:10]}
            rep.divergences += len(c["unexplained"])
        _add_trace(rep, "solve_" + r["name"], r["evs"], r["T"])
    rep.notes["impl_conformance"] = conf_notes
    rep.add_mc("C15_Tseitin", ts_res["S"], ts_res["cfg"])
    if ts_res["S"].violated:
        rep.design_violation("C15_Tseitin", ts_res["S"])
    else:
        _add_trace(rep, "tseitin", ts_res["evs"], ts_res["T"])
        _add_trace(rep, "solve_tseitin_cnf", ts_res["sevs"], ts_res["Ts"])
    rep.exhaustive = True

    # ---- unexplained time-outs: re-run with the long alarm, report what remains as SUSPECT (never a violation)
    suspects = []
    for evs, v in [(r["evs"], r["T"]) for r in sat_res if "T" in r] + ([(ts_res["sevs"], ts_res["Ts"])] if "Ts" in ts_res else []):
        dv = set(v["divergences"])
        suspects += [e for e in evs if e["tid"] in dv]
    if suspects:
        sp, sp2 = wd / "suspects.ndjson", wd / "suspects_rerun.ndjson"
        write_events(sp, suspects[:40])
        run_driver("c15", ["replay_solve", sp, sp2], env=env, timeout=3000)
        still = [e for e in read_events(sp2) if e["verdict"] == "timeout"]
        rep.notes["suspect_timeouts"] = {"first_pass": len(suspects), "rerun": min(len(suspects), 40), "still_timeout": [e["key"] for e in still]}
        for e in still:
            print("SUSPECT property=C15 time-out not explained by the model: %s %s" % (e["key"], json.dumps(e["cnf"])[:200]))

    # ---- vacuity guards (counting only)
    tr = rep.notes["traces"]
    allsolve = [e for r in sat_res for e in r.get("evs", [])]
    enum = [e for e in allsolve if e["src"] != "rand"]
    rnd = [e for e in allsolve if e["src"] == "rand"]
    n_unsat = sum(1 for e in enum if e["verdict"] == "unsat")
    n_sat = sum(1 for e in enum if e["verdict"] == "sat")
    n_multi = sum(1 for e in rnd if e["verdict"] == "unsat" and len(e["proofs"]) >= 3)
    n_dup = sum(1 for e in enum if any(len({tuple(l) for l in c}) < len(c) for c in e["cnf"]))
    rep.notes["counts"] = {"enumerated_sat": n_sat, "enumerated_unsat": n_unsat, "enumerated_with_duplicated_literal": n_dup,
                           "enumerated_timeout": sum(1 for e in enum if e["verdict"] == "timeout"),
                           "random": len(rnd), "random_unsat_with_3+_learned_clauses": n_multi,
                           "random_timeout": sum(1 for e in rnd if e["verdict"] == "timeout"),
                           "random_max_conflicts": max([e["conflicts"] for e in rnd if e["verdict"] != "timeout"] + [0])}
    if all("T" in r for r in sat_res):
        require(n_sat >= 5000 and n_unsat >= 1500 and n_dup >= 1000, "C15: too few enumerated sat/unsat/duplicate-literal CNFs (vacuity guard)")
        require(n_multi >= (30 if quick else 1000), "C15: random CNFs do not exercise multi-conflict refutations (vacuity guard)")
        require(sum(tr[k]["nontrivial"] for k in tr if k.startswith("solve_")) >= 0.85 * sum(tr[k]["events"] for k in tr if k.startswith("solve_")),
                "C15: too few solve events examined (vacuity guard)")
    if not ts_res["S"].violated:
        require(tr["tseitin"]["nontrivial"] >= (600 if quick else 5000), "C15: too few examined Tseitin theorems (vacuity guard)")
        n_rep = sum(1 for e in ts_res["evs"] if e["src"] == "rep" and e["kind"] == "tseitin")
        n_replit = sum(1 for e in ts_res["evs"] if e["kind"] == "tseitin" and any(len({l[0] for l in c}) < len(c) for c in e["cnf"]))
        rep.notes["counts"]["tseitin_repeated_subformula_family"] = n_rep
        rep.notes["counts"]["tseitin_cnfs_with_repeated_or_complementary_literal"] = n_replit
        # (guard on the INPUTS only: how many CNFs keep a repeated literal depends on the code under test)
        require(n_rep >= (500 if quick else 3000), "C15: the repeated-sub-formula family was not replayed (vacuity guard)")
        n_clash = sum(1 for e in ts_res["evs"] if e["src"] in ("clash", "rclash") and e["kind"] == "tseitin")
        rep.notes["counts"]["tseitin_name_space_family"] = n_clash
        require(n_clash >= (150 if quick else 1000), "C15: the name-space family (atoms named x1, x2, ...) was not replayed (vacuity guard)")

    # ---- second specification mutant: the algorithm with a back-jump to the HIGHEST level of the learned clause keeps the
    # trail and must not terminate (run on the model of the repaired code; on a tree without the repair only in thorough)
    cands = [r for r in sat_res if r.get("events")]
    first = next((r for r in cands if r["name"] in ("small", "set3x")), cands[0] if cands else None)   # needs 3 variables
    if first and (dedup or not quick):
        spec_mutant(rep, "backjump_to_highest_level", "C15_SatImpl", "C15_SatImpl_dedup.cfg",
                    [("C15_SatAlgo.tla", "IN lv[Len(lv) - 1]", "IN lv[Len(lv)]")], ["Progress", "Terminates"], wd=wd, workers=1,
                    env={"VECTOR_FILE": wd / ("vec_%s.ndjson" % first["name"]), "EVENT_FILE": first["events"], "CONF_FILE": wd / "mutant_conf.json"})


def replay(path):
    """Re-run one recorded failing event against the current code and re-validate it."""
    obj = json.load(open(path))
    wd = work_dir(PID, "replay1", clean=True)
    if obj.get("kind") != "event":
        print(json.dumps(obj, indent=1)[:4000])
        print("design-level finding (an invariant of the specification with code-derived constants): re-run ./check C15 quick")
        return 1
    e = obj["event"]
    write_events(wd / "in.ndjson", [e])
    fails = []
    if e["kind"] == "solve":
        run_driver("c15", ["replay_solve", wd / "in.ndjson", wd / "ev.ndjson"])
        v = validate_trace("C15_SatTrace", wd / "ev.ndjson", wd=wd / "tv", nchunks=1)
        fails += v["fails"]
        print(json.dumps(read_events(wd / "ev.ndjson")[0])[:1500])
    else:
        run_driver("c15", ["replay_formula", wd / "in.ndjson", wd / "ev.ndjson", wd / "sev.ndjson"])
        v = validate_trace("C15_TseitinTrace", wd / "ev.ndjson", wd=wd / "tv", nchunks=1)
        fails += v["fails"]
        if read_events(wd / "sev.ndjson"):
            fails += validate_trace("C15_SatTrace", wd / "sev.ndjson", wd=wd / "tv2", nchunks=1)["fails"]
        print(json.dumps(read_events(wd / "ev.ndjson")[0])[:1500])
    print("fails:", fails)
    if fails:
        print("VIOLATION property=C15 replay=%s" % path)
        return 1
    print("not reproduced on the current tree")
    return 0
