"""C06 - goals discharged through Z3 / SymPy are valid HOL statements.   DESIGN.md section 6/C06

 S  spec/C06_Sem.tla          the HOL meaning of the translatable fragment (exact arithmetic, truncated nat minus, x / 0 = 0,
                              three-valued truth, binders decided over bounded domains with an argued witness bound) and
                              Refuted(goal | prems)
    spec/C06_Bridge.tla       machine over the input space of the bridge: Negate / Quantify / Combine build every goal with
                              <= 3 (quick) / 4 (thorough) connectives at nat, int and nat-through-of_nat; invariants = sanity of
                              the oracle (witness bound B vs 2B, monotone in N, the intended nat->int translation is faithful,
                              anchors); the universe is emitted as vectors
 T  spec/C06_BridgeTrace.tla  accepted => ~Refuted(goal | prems) on every event of the real bridge
 ->  harness/drivers/c06.py   z3wrapper.solve / Z3Macro.eval / proof checker on every vector, on deterministic families and seeded
                              random goals; sympywrapper.solve_goal / solve_with_interval / SymPyMacro on polynomial (in)equalities
"""
import copy
import json
import re
from concurrent.futures import ThreadPoolExecutor

from harness.core import (MachineryError, model_check, read_events, require, run_driver, seed, spec_mutant, validate_trace,
                          work_dir, write_events)

TSPEC = "C06_BridgeTrace"
SELF_BASE = 10 ** 9

MUTANTS = [
    # the translation AS CODED in z3wrapper.convert: no guard 0 <= x for a nat binder under Exists
    ("translation_as_coded_exists",
     [("C06_Bridge.tla", 'QEx(t[2], "int", Conj(Guard(Bd(0, "int")), c1))', 'QEx(t[2], "int", c1)')]),
    # natural subtraction that does not truncate (absolute difference instead)
    ("nat_minus_not_truncated",
     [("C06_Sem.tla", "IF RIsOvf(d) THEN NAV ELSE IF d[1] < 0 THEN <<0, 1>> ELSE d", "IF RIsOvf(d) THEN NAV ELSE IF d[1] < 0 THEN RNeg(d) ELSE d")]),
    # a witness interval that is too small
    ("witness_bound_too_small",
     [("C06_Sem.tla", "tq == tq0 * P.w", "tq == P.w - 1")]),
    # natural-number variables ranging over negative integers
    ("nat_domain_with_negatives",
     [("C06_Sem.tla", 'CASE T = "nat" -> { <<i, 1>> : i \\in 0..P.n }', 'CASE T = "nat" -> { <<i, 1>> : i \\in (-P.n)..P.n }')]),
]


def _find(evs, pred, n=1):
    out = []
    for e in evs:
        if pred(e):
            out.append(copy.deepcopy(e))
            if len(out) >= n:
                break
    return out


def _is_q(j, kind, T):
    return j[0] == kind and j[2] == T


def _corrupted(z3evs, syevs):
    """Binding self-test: one recorded field of real events is changed; T must reject each with the named clause."""
    res = []
    # a correctly DECLINED false goal (!x::int. 0 <= x) reported as accepted
    for c in _find(z3evs, lambda e: e["solver"] == "z3.solve" and e["acc"] == "no" and _is_q(e["goal"], "all", "int")
                   and e["goal"][4][0][1] == "less_eq" and e["goal"][4][0][4][0][0] == "num" and e["goal"][4][0][4][1][0] == "bound", 2):
        c["acc"] = "yes"
        res.append((c, "Z3Sound"))
    # an accepted true goal (!x::nat. 0 <= x) whose recorded binder type is changed to int
    for c in _find(z3evs, lambda e: e["solver"] == "z3.solve" and e["acc"] == "yes" and _is_q(e["goal"], "all", "nat")
                   and e["goal"][4][0][1] == "less_eq" and e["goal"][4][0][4][0][0] == "num" and e["goal"][4][0][4][1][0] == "bound", 2):
        c["goal"][2] = "int"
        c["goal"][4][0][4][0][2] = "int"
        c["goal"][4][0][4][1][2] = "int"
        res.append((c, "Z3Sound"))
    # an accepted event recorded with the solver switched off
    for c in _find(z3evs, lambda e: e["acc"] == "yes" and e["solver"] == "z3.macro", 2):
        c["flag"] = False
        res.append((c, "SolverConsulted"))
    # a declined false equation (1 = 2 at real) reported as accepted
    for c in _find(syevs, lambda e: e["solver"] == "sympy.goal" and e["acc"] == "no" and e["goal"][1] == "equals"
                   and e["goal"][4][0][0] == "num" and e["goal"][4][1][0] == "num" and e["goal"][4][0][3] != e["goal"][4][1][3], 2):
        c["acc"] = "yes"
        res.append((c, "SymPySound"))
    # an accepted interval goal (1 - x * x > 0 on some interval inside [-1, 1]) whose recorded interval is replaced by [-2, 3]
    for c in _find(syevs, lambda e: e["solver"] == "sympy.interval" and e["acc"] == "yes"
                   and "|- (((uminus (x * x)) + (1::real)) > (0::real)) [" in e["key"], 2):
        c["prems"][0][4][1] = ["op", "real_closed_interval", "(real set)", 0,
                               [["op", "uminus", "real", 0, [["num", "", "real", 2, []]]], ["num", "", "real", 3, []]]]
        res.append((c, "SymPySound"))
    for n, (c, _) in enumerate(res):
        c["tid"] = SELF_BASE + n
    return res


def run(rep, tier):
    quick = tier == "quick"
    wd = work_dir("C06", "run", clean=True)
    sfx = "small" if quick else "deep"
    nparts = 3 if quick else 4
    rep.rule = ("TLC explores every goal with <= %d connectives (<= 1 binary) over 2 variables built by Negate / Quantify(all, exists) / "
                "Combine(conj, disj, implies-left, implies-right, iff) from the atom shapes (x < 0, 0 <= x, x < y + 1, x - 1 < x, "
                "(x - y) + y = x, ...) at nat, at int and at nat seen through of_nat::nat=>real, i.e. with binders in positive and negative "
                "positions; every goal is replayed through z3wrapper.solve, implications also through Z3Macro.eval with premises, every 7th "
                "through the proof checker, every 3rd goal with a free variable also with its binders NAMED like that free variable; plus "
                "deterministic families (truncated minus, every order relation, abs/min/max/if, of_nat, real division, predicates/sets "
                "over 'a, bool, true/false, xor, intervals, EQUALITY AT FUNCTION TYPES between function variables / lambda terms / partial "
                "applications as premise and conclusion, positive and negated) under every single binder and negation, the repository's "
                "own test goals, quotients of numeral expressions, pairs of quantifiers with a nested quantifier sharing the atom of the outer "
                "variable, seeded random closed goals; a sample of all goals is also tried under a Z3 resource limit that makes Z3 give up "
                "(an 'unknown' answer proves nothing); HISTORY: goals whose conclusion cannot be translated are tried with premises, "
                "and every step that raises is followed in the same process by its premises as goals of their own; SymPy (every interval "
                "goal asked on the open and on the closed interval with the same end points one after the other, in both orders; a second "
                "variable in cancelling denominators; numeral subtraction at nat/int/real; sqrt / exp / log goals judged through exact "
                "squares and signs): polynomial identities and off-by-one non-identities as = and ~=, rational functions, inequalities, "
                "interval premises with grid end points, seeded random rewritings. Non-trivial = the step ACCEPTED the goal and the "
                "TLA+ meaning decided it (T or F) under at least one assignment; distinct by (solver, goal, premises)." % (3 if quick else 4))
    rep.assumptions = [
        "refutation only: free variables and universally-effective binders range over nat 0..2, int -2..2, 9 rational grid points, "
        "carriers of size 1 and 2 for 'a; a goal valid on these sub-domains but invalid in HOL is not detected",
        "existentially-effective integer binders are decided only for difference-logic bodies, over the witness interval argued in "
        "C06_Sem.tla and checked by TLC (B vs 2B) on the whole universe; other such binders make the goal 'not examined'",
        "function variables over number types range over the 4 tables on {0, 1} with values {0, 1} extended by 0 (a sub-family of the "
        "functions: sound for refutation); equality of lambda terms over number types is only refuted, never confirmed",
        "exp / log / non-square sqrt have no exact value: atoms about them are judged only when the possible SIGNS of both sides decide "
        "them (exp > 0, sqrt sign-preserving, squares >= 0); sin, cos, pi, real powers with non-natural exponents, functions of two "
        "arguments, more than 4 free variables, goals beyond the evaluation budget: recorded, never judged",
        "real variables range over 9 rational grid points and the values of the closed real sub-terms named in the goal",
        "Z3 is interrupted by the driver after 2.5 s per goal (z3wrapper.solve has no time limit); such goals are recorded as "
        "divergences (acc = timeout), never as accepted",
        "TLC/SANY, lib/Rat.tla exact rationals within 31 bits, the structural projection in harness/drivers/c06.py, CPython",
    ]
    vec = wd / "vectors.ndjson"
    ev_rand, ev_sym = wd / "z3rand.ndjson", wd / "sympy.ndjson"
    nrand, nsym, stride = (200, 150, 2) if quick else (6000, 2500, 1)

    def mutants():
        ms = MUTANTS[:1] if quick else MUTANTS
        for name, edits in ms:
            spec_mutant(rep, name, "C06_Bridge", "C06_Bridge_tiny.cfg", edits, ["OracleOK"], wd=wd, workers=1,
                        env={"VECTOR_FILE": wd / ("mutant_%s.ndjson" % name)})

    # ---- design level (oracle sanity on the whole universe, vectors) side by side with the input-independent drivers
    with ThreadPoolExecutor(max_workers=4) as ex:
        f_mc = ex.submit(model_check, "C06_Bridge", "C06_Bridge_%s.cfg" % sfx, wd=wd / "mc", workers=2, env={"VECTOR_FILE": vec},
                         timeout=7200)
        f_rand = ex.submit(run_driver, "c06", ["mixed", ev_rand, ev_sym, nrand, nsym, seed(), stride], timeout=7200)
        f_mut = ex.submit(mutants)
        r = f_mc.result()
        rep.add_mc("C06_Bridge", r, sfx)
        if r.violated:
            rep.design_violation("C06_Bridge", r)
            return
        require(vec.exists(), "C06_Bridge wrote no vectors")
        nvec = sum(1 for _ in open(vec))
        require(nvec == r.distinct, "C06: the emitted universe (%d) is not the explored state space (%d)" % (nvec, r.distinct))
        rep.exhaustive = True
        rep.notes["vectors"] = nvec
        m = re.search(r'<<\s*"vectors"[^>]*>>', r.out)
        require(m is not None, "C06_Bridge did not print the universe statistics")
        stat = [x.strip().strip('"') for x in m.group(0).replace("<<", "").replace(">>", "").split(",")]
        rep.notes["universe"] = dict(zip(stat[0::2], [int(x) for x in stat[1::2]]))
        u = rep.notes["universe"]
        # no vacuous oracle invariant / no untaken action: binders decided over witness intervals, binders in negative positions
        require(u["anchors_in_universe"] >= 8 and u["with_a_binder_decided_over_a_witness_interval"] >= nvec // 4
                and u["with_a_binder_under_negation_or_left_of_implies"] >= nvec // 8, "C06: universe too poor (vacuity guard): %s" % u)
        tops = {}
        for ln in open(vec):
            j = json.loads(ln)["f"]
            k = j[0] if j[0] != "op" else j[1]
            tops[k] = tops.get(k, 0) + 1
        rep.notes["universe_top_connectives"] = tops
        require(all(tops.get(k, 0) > 0 for k in ("neg", "all", "exists", "conj", "disj", "implies", "equals")),
                "C06: an action of C06_Bridge was never taken: %s" % tops)
        # ---- spec -> code
        parts = [wd / ("z3vec_%d.ndjson" % k) for k in range(nparts)]
        fs = [ex.submit(run_driver, "c06", ["z3vec", vec, parts[k], k, nparts], timeout=7200) for k in range(nparts)]
        for f in fs:
            f.result()
        p_rand, _ = f_rand.result()
        f_mut.result()
    rep.notes["check_z3_at_start"] = "check_z3=True" in p_rand.stderr      # logged; judged by clause SolverConsulted
    ev_vec = []
    for p in parts:
        ev_vec += read_events(p)
    evr, evs = read_events(ev_rand), read_events(ev_sym)
    for e in evr:
        e["tid"] += 10 ** 8
    for e in evs:
        e["tid"] += 2 * 10 ** 8
    bad = _corrupted(ev_vec + evr, evs)
    require(len(bad) >= 6 and len({c for _, c in bad}) == 3, "C06: self-test events could not be built (%d)" % len(bad))
    allp = wd / "all.ndjson"
    nch = 2 if quick else 4
    allev = ev_vec + evr + evs + [c for c, _ in bad]
    write_events(allp, [e for k in range(nch) for e in allev[k::nch]])      # chunks of equal weight
    v = validate_trace(TSPEC, allp, wd=wd / "tv", nchunks=nch)

    def part(lo, hi, n):
        d = {"consumed": n, "states": 0, "wall": v["wall"], "info": []}
        d["fails"] = [f for f in v["fails"] if lo <= f["tid"] < hi]
        for k in ("nontrivial", "divergences"):
            d[k] = [t for t in v[k] if lo <= t < hi]
        return d
    v1, v2, v3 = part(0, 10 ** 8, len(ev_vec)), part(10 ** 8, 2 * 10 ** 8, len(evr)), part(2 * 10 ** 8, SELF_BASE, len(evs))
    v1["states"] = v["states"]
    rep.add_trace_result("z3_universe", ev_vec, v1)
    rep.add_trace_result("z3_families_random", evr, v2)
    rep.add_trace_result("sympy", evs, v3)
    flagged = {f["tid"]: set(f["fail"]) for f in v["fails"] if f["tid"] >= SELF_BASE}
    missed = [(c["tid"], cl) for c, cl in bad if cl not in flagged.get(c["tid"], set())]
    require(not missed, "self-test: %s accepted corrupted events %s" % (TSPEC, missed[:5]))
    rep.notes.setdefault("selftests", []).append({"spec": TSPEC, "corrupted_events": len(bad),
                                                  "all_rejected_with": sorted({cl for _, cl in bad})})
    # ---- counts (Python only counts)
    oc = {}
    for e in ev_vec + evr + evs:
        k = "%s/%s" % (e["solver"], e["acc"])
        oc[k] = oc.get(k, 0) + 1
    rep.notes["outcomes"] = oc
    rep.notes["z3_interrupted_by_watchdog"] = sum(1 for e in ev_vec + evr if e["acc"] == "timeout")
    rep.notes["z3_giveup_route"] = {a: sum(1 for e in ev_vec + evr if e.get("route") == "giveup" and e["acc"] == a)
                                    for a in ("yes", "no", "exc", "timeout")}
    rep.notes["not_judged_transcendental"] = sum(1 for e in evs if e["src"].startswith("transcendental"))
    tr = rep.notes["traces"]
    require(tr["z3_universe"]["nontrivial"] >= (500 if quick else 2000), "C06: too few examined accepted Z3 goals of the universe (vacuity guard)")
    require(tr["z3_families_random"]["nontrivial"] >= (150 if quick else 800), "C06: too few examined accepted family/random Z3 goals (vacuity guard)")
    require(tr["sympy"]["nontrivial"] >= (200 if quick else 500), "C06: too few examined accepted SymPy goals (vacuity guard)")
    require(oc.get("z3.solve/yes", 0) >= 300 and oc.get("z3.solve/no", 0) >= 300 and oc.get("z3.macro/yes", 0) >= 20
            and oc.get("z3.proof/yes", 0) >= 20 and oc.get("sympy.goal/yes", 0) >= 50 and oc.get("sympy.interval/yes", 0) >= 50
            and oc.get("sympy.macro/yes", 0) >= 10, "C06: outcomes not spread over the routes (vacuity guard): %s" % oc)


def replay(path):
    obj = json.load(open(path))
    wd = work_dir("C06", "replay1", clean=True)
    if obj.get("kind") != "event":
        print(json.dumps(obj, indent=1)[:3000])
        return 1
    e = obj["event"]
    write_events(wd / "in.ndjson", [e])
    run_driver("c06", ["event", wd / "in.ndjson", wd / "ev.ndjson"])
    out = read_events(wd / "ev.ndjson")
    v = validate_trace(TSPEC, wd / "ev.ndjson", wd=wd / "tv", nchunks=1)
    for o in out:
        print("%s -> %s %s" % (o["key"], o["acc"], o["exc"]))
    print("events:", v["consumed"], "fails:", v["fails"][:10])
    if v["fails"]:
        print("VIOLATION property=C06 replay=%s" % path)
        return 1
    print("not reproduced on the current tree")
    return 0
