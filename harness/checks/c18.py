"""C18 - each accepted veriT (Alethe) proof step is a logical consequence of its premises.   DESIGN.md section 6/C18

 S  spec/C18_Rules.tla        reference rule schemas (sets of intended instances of ~70 Alethe rules over small pools), explicit
                              near misses, generic one-point mutations (literal dropped/added/negated/swapped, premise dropped/added,
                              one connective/atom/negation/comparison/numeral changed, coefficients / instantiations / sizes perturbed,
                              hypotheses attached)
    spec/C18_Alethe.tla       machine over the space of candidate steps (one initial state per candidate); invariants: the reference
                              schemas are sound in the semantics, explicit near misses are refuted; emits the candidates as vectors
    spec/C18_Sem.tla          consequence between sequents: finite standard models (tier E, HolSem + xor/IF) and exact rational
                              arithmetic at grid points (tier A)
 ->  harness/drivers/c18.py   every candidate through theory.get_macro(rule).eval(args, prevs) on real HOL terms; synthetic proofs
                              through ProofReconstruction.validate_step (evaluation mode)
 T  spec/C18_AletheTrace.tla  accepted => Entailed /\\ HypsSubset; accepted proof ending in the empty clause => assumptions unsatisfiable
"""
import collections
import copy
import json
import os
import shutil
from concurrent.futures import ThreadPoolExecutor

from harness.core import (MachineryError, model_check, read_events, require, run_driver, run_drivers_parallel, seed,
                          spec_mutant, validate_trace, work_dir, write_events)

TSPEC = "C18_AletheTrace"
SELF_BASE = 10 ** 7
MAX_REPLAYS_PER_KEY = 2


def _prune(verdict, evs):
    """Keep at most MAX_REPLAYS_PER_KEY failing events per (clause, key): one finding = one key, not hundreds of replay files."""
    by_tid = {e["tid"]: e for e in evs}
    seen = collections.Counter()
    kept, counts = [], collections.Counter()
    for f in verdict["fails"]:
        k = by_tid[f["tid"]]["key"]
        for c in f["fail"]:
            counts["%s|%s" % (c, k)] += 1
        tag = (tuple(sorted(f["fail"])), k)
        if seen[tag] < MAX_REPLAYS_PER_KEY:
            seen[tag] += 1
            kept.append(f)
    v = dict(verdict)
    v["fails"] = kept
    return v, dict(counts)


def _corrupted(evs):
    """Binding self-test: corrupt one recorded field of real accepted events; the T spec must reject each."""
    out = []

    def take(pred, n=2):
        r = []
        for e in evs:
            if e["outcome"] == "accepted" and pred(e):
                r.append(copy.deepcopy(e))
                if len(r) >= n:
                    break
        return r
    # a binary clause loses its second literal: |- l1 | l2   becomes   |- l1
    for c in take(lambda e: e["mut"] == "correct" and e["rule"] in ("verit_implies", "verit_equiv1", "verit_not_equiv1", "verit_ite1")
                  and e["result"]["c"][0] == "comb" and e["result"]["c"][1][0] == "comb" and e["result"]["c"][1][1][1] == "disj"):
        c["result"]["c"] = c["result"]["c"][1][2]
        out.append((c, "Entailed"))
    # an arithmetic tautology loses a literal
    for c in take(lambda e: e["mut"] == "correct" and e["rule"] == "verit_la_generic" and len(e["cl"]) == 2, 1):
        c["result"]["c"] = c["result"]["c"][1][2]
        out.append((c, "Entailed"))
    # the premise is forgotten
    for c in take(lambda e: e["mut"] == "correct" and e["rule"] in ("verit_and", "verit_not_or")):
        c["prems"] = []
        out.append((c, "Entailed"))
    # the result acquires a hypothesis no premise has
    for c in take(lambda e: e["mut"] == "correct" and e["rule"] in ("verit_or", "verit_not_and")):
        c["result"]["h"] = [["var", "zz", ["tc", "bool", []]]]
        out.append((c, "HypsSubset"))
    for n, (c, _) in enumerate(out):
        c["tid"] = SELF_BASE + n
    return out


def _corrupted_proofs(pevs):
    """Self-test for whole proofs: an accepted refutation loses one of its assumed formulas (the rest is satisfiable)."""
    out = []
    for e in pevs:
        if e["outcome"] == "accepted" and e["mut"] in ("verit_and/correct", "verit_not_or/correct", "verit_implies/correct") and len(e["assumed"]) >= 2:
            for drop in range(len(e["assumed"])):
                c = copy.deepcopy(e)
                del c["assumed"][drop]
                c["result"]["h"] = []
                c["tid"] = SELF_BASE + 1000 + len(out)
                out.append((c, "Refutation"))
            if len(out) >= 4:
                break
    return out


def _slim(e):
    """What the T spec reads of an event: a refused step has no result to judge (its verdict is the empty set)."""
    keep = ("tid", "key", "rule", "mut", "outcome") if e["outcome"] != "accepted" else \
           ("tid", "key", "rule", "mut", "outcome", "prems", "result", "assumed")
    return {k: e[k] for k in keep if k in e}


def _validate(name, path, wd, nchunks, corrupted=()):
    """One pass of the T spec over an event file plus corrupted copies of its events (binding self-test). Pure."""
    evs = read_events(path)
    allp = wd / (name + "_all.ndjson")
    write_events(allp, [_slim(e) for e in evs] + [_slim(c) for c, _ in corrupted])
    return evs, validate_trace(TSPEC, allp, wd=wd / ("tv_" + name), nchunks=nchunks), list(corrupted)


def _record(rep, name, evs, v, corrupted):
    if corrupted:
        flagged = {f["tid"]: set(f["fail"]) for f in v["fails"]}
        missing = [c["tid"] for c, clause in corrupted if clause not in flagged.get(c["tid"], ())]
        require(not missing, "self-test: %s accepted corrupted events %s" % (TSPEC, missing[:5]))
        rep.notes.setdefault("selftests", []).append({"spec": TSPEC, "trace": name, "corrupted_events": len(corrupted),
                                                      "all_rejected_with": sorted({c for _, c in corrupted})})
        self_tids = {c["tid"] for c, _ in corrupted}
        v = dict(v, fails=[f for f in v["fails"] if f["tid"] not in self_tids],
                 nontrivial=[t for t in v["nontrivial"] if t not in self_tids],
                 divergences=[t for t in v["divergences"] if t not in self_tids], consumed=v["consumed"] - len(corrupted))
    pruned, counts = _prune(v, evs)
    rep.add_trace_result(name, evs, pruned)
    rep.notes.setdefault("failing_events_per_key", {}).update(counts)
    return v


def _private_dir(kind):
    """Scratch directory of THIS process (.work/C18/<kind>_<pid>): several runs of the check (e.g. against different trees) may
    be in flight at once and must not wipe each other's files.  Directories left by processes that no longer exist are removed."""
    base = work_dir("C18")
    for d in base.iterdir():
        m = d.name.rsplit("_", 1)
        if d.is_dir() and len(m) == 2 and m[0] in ("run", "replay1") and m[1].isdigit() and not os.path.exists("/proc/" + m[1]):
            shutil.rmtree(d, ignore_errors=True)
    for old in ("run", "replay1"):
        if (base / old).is_dir():
            shutil.rmtree(base / old, ignore_errors=True)
    return work_dir("C18", "%s_%d" % (kind, os.getpid()), clean=True)


def run(rep, tier):
    quick = tier == "quick"
    wd = _private_dir("run")
    sfx = "tiny" if quick else "deep"
    rep.rule = ("TLC enumerates, for each of ~70 veriT/Alethe step rules (clausification and tautology rules, and/or/implies/equiv/ite/xor "
                "eliminations, th_resolution (incl. compound pivots - disjunction, conjunction, negated disjunction, implication - at every position), contraction, eq_reflexive/transitive/congruent(_pred), trans, cong, subproof, the *_simplify "
                "families, connective_def, ac_simp, la_generic/la_disequality/la_rw_eq, comp/sum/prod/minus/unary_minus/div simplify, "
                "forall_inst, qnt_*), the intended instances of the reference schema over seed pools of level %d and every one-point near "
                "miss of them to term depth %d (literal dropped/added/negated/swapped; premise dropped/added/swapped; a connective, atom, "
                "negation, comparison, arithmetic operator or numeral changed; coefficient / instantiation / clause size perturbed; "
                "hypotheses attached); each candidate is evaluated by the real macro.eval; the candidates that need no extra argument are "
                "also closed into whole refutation proofs (assume premises, step, assume complements, resolution) run through "
                "ProofReconstruction.validate_step, together with proofs with anchors (a local assumption cited from outside its subproof; NESTED "
                "quantifier renamings whose inner bind step depends on the outer context equation and is cited later); plus seeded random larger candidates (random formulas substituted for the atoms). Non-trivial = the code ACCEPTED the step and "
                "consequence was evaluated in finite models (|'a| <= 2) or on the arithmetic grid; distinct by full event content."
                % (1 if quick else 3, 1 if quick else 3))
    rep.assumptions = ["consequence is refuted only by an explicit counter-interpretation: finite standard models with |'a| <= 2 (tier E) or "
                       "integer/half-integer grid points in [-2,2] with exact rational arithmetic (tier A); steps outside both vocabularies "
                       "are not examined",
                       "context rules refl, bind, sko_ex, sko_forall are recorded but not judged; onepoint (closed conclusion, no premise consulted) is judged as "
                       "it stands; let is judged with the universal closure of the variables whose equations it discharges",
                       "premises are sequents: the result sequent must hold wherever all premise sequents hold",
                       "TLC/SANY, the structural codec harness/codec.py, CPython"]
    vec, prf = wd / "vectors.ndjson", wd / "proofs.ndjson"
    menv = {"VECTOR_FILE": wd / "mutant_vectors.ndjson", "PROOF_FILE": wd / "mutant_proofs.ndjson"}
    # oracle non-vacuity: (1) a not_and schema that forgets a literal is unsound, (2) strict < read as <=, (3) hypotheses ignored
    mutants = [("not_and_drops_a_literal",
                [("C18_Rules.tla", 'I("verit_not_and", <<PS(Neg(AndN(fs)))>>, Neg1(fs))', 'I("verit_not_and", <<PS(Neg(AndN(fs)))>>, Tail(Neg1(fs)))')],
                ["RefSound", "DbSound"])]
    if not quick:
        mutants += [("strict_less_read_as_less_eq",
                     [("C18_Sem.tla", 'ELSE IF IsApp2(t, "less") THEN RLt(', 'ELSE IF IsApp2(t, "less") THEN RLe(')],
                     ["RefSound", "DbSound", "NearMissRefuted"]),
                    ("hypotheses_ignored",
                     [("C18_Sem.tla", "SeqHolds(sq, va, ta) == (\\A k \\in 1..Len(sq.h) : EvalX(sq.h[k], va, <<>>, ta)) => EvalX(sq.c, va, <<>>, ta)",
                       "SeqHolds(sq, va, ta) == EvalX(sq.c, va, <<>>, ta)")],
                     ["NearMissRefuted", "RefSound"]),
                    ("let_without_its_binding_equation",
                     [("C18_Rules.tla", 'I("verit_let", <<PS(Eqa(ca, cb)), PH(<<Eqa(w0, cb)>>, Iff(F1(pP, w0), F1(pP, cb)))>>,',
                       'I("verit_let", <<PH(<<Eqa(w0, cb)>>, Iff(F1(pP, w0), F1(pP, cb)))>>,')],
                     ["RefSound", "DbSound"])]
    with ThreadPoolExecutor(max_workers=2) as ex:
        f1 = ex.submit(model_check, "C18_Alethe", "C18_Alethe_%s.cfg" % sfx, wd=wd / "mc", workers=1 if quick else 2,
                       env={"VECTOR_FILE": vec, "PROOF_FILE": prf}, timeout=7200)
        f2 = ex.submit(lambda: [spec_mutant(rep, n, "C18_Alethe", "C18_Alethe_tiny.cfg", ed, exp, wd=wd, workers=1, env=menv)
                                for n, ed, exp in mutants])
        r = f1.result()
        f2.result()
    rep.add_mc("C18_Alethe", r, sfx)
    if r.violated:
        rep.design_violation("C18_Alethe", r)
        return
    require(vec.exists() and prf.exists(), "C18_Alethe did not emit vectors")
    rep.exhaustive = True
    rep.notes["vectors"] = sum(1 for _ in open(vec))
    rep.notes["proof_vectors"] = sum(1 for _ in open(prf))
    # spec -> code -> spec
    ev1, ev2, ev3 = wd / "replay.ndjson", wd / "proofs_ev.ndjson", wd / "rand.ndjson"
    run_drivers_parallel([("c18", ["replay", vec, ev1], None), ("c18", ["proofs", prf, ev2], None),
                          ("c18", ["rand", vec, ev3, 1500 if quick else 20000, seed()], None)])
    bad = _corrupted(read_events(ev1))
    require(len(bad) >= 5 and {c for _, c in bad} == {"Entailed", "HypsSubset"}, "C18: self-test events could not be built")
    with ThreadPoolExecutor(max_workers=3) as ex:
        f1 = ex.submit(_validate, "replay", ev1, wd, 1 if quick else 2, bad)
        f2 = ex.submit(_validate, "proofs", ev2, wd, 1, _corrupted_proofs(read_events(ev2)))
        f3 = ex.submit(_validate, "rand", ev3, wd, 1)
        evs, v, _ = f1.result()
        pevs, pv, pbad = f2.result()
        revs, rv, _ = f3.result()
    v = _record(rep, "replay", evs, v, bad)
    pv = _record(rep, "proofs", pevs, pv, pbad)
    rv = _record(rep, "rand", revs, rv, [])
    rep.notes["accepted_proofs_ending_in_empty_clause"] = sum(1 for e in pevs if e["outcome"] == "accepted")
    acc = collections.Counter(e["rule"] for e in evs if e["outcome"] == "accepted")
    rep.notes["rules_with_accepted_steps"] = len(acc)
    rep.notes["accepted_near_misses"] = sum(1 for e in evs if e["outcome"] == "accepted" and e["mut"] != "correct")
    rep.notes["refused_intended"] = sorted({e["key"] for e in evs if e["outcome"] != "accepted" and e["mut"] == "correct"})
    if rep.violations:
        return          # a witnessed violation is reported as such; the vacuity guards below concern runs that found nothing
    require(len(pbad) >= 4, "C18: proof self-test events could not be built")
    require(len(acc) >= 55, "C18: fewer than 55 rules accepted any step (vacuity guard): %d" % len(acc))
    tr = rep.notes["traces"]
    require(tr["replay"]["nontrivial"] >= (500 if quick else 3000), "C18: too few examined accepted steps (vacuity guard)")
    require(tr["proofs"]["nontrivial"] >= (100 if quick else 300), "C18: too few whole proofs examined (vacuity guard)")
    require(tr["rand"]["nontrivial"] >= (100 if quick else 1000), "C18: too few random larger steps examined (vacuity guard)")


def replay(path):
    """Re-run one recorded failing event against the current code and re-validate it."""
    obj = json.load(open(path))
    wd = _private_dir("replay1")
    if obj.get("kind") != "event":
        print(json.dumps(obj, indent=1)[:3000])
        return 1
    e = obj["event"]
    if e["rule"] == "proof":
        write_events(wd / "vec.ndjson", [{"kind": e["mut"], "cmds": e["cmds"]}])
        run_driver("c18", ["proofs", wd / "vec.ndjson", wd / "ev.ndjson"])
    else:
        vec = {"rule": e["rule"], "mut": e["mut"], "prems": e["prems"], "cl": e["cl"], "sizes": e["sizes"], "coeffs": e["coeffs"],
               "inst": e["inst"], "ctx": e["ctx"], "names": e.get("names", [])}
        write_events(wd / "vec.ndjson", [vec])
        run_driver("c18", ["replay", wd / "vec.ndjson", wd / "ev.ndjson"])
    evs = read_events(wd / "ev.ndjson")
    write_events(wd / "ev_slim.ndjson", [_slim(x) for x in evs])
    v = validate_trace(TSPEC, wd / "ev_slim.ndjson", wd=wd / "tv", nchunks=1)
    print("outcome:", evs[0]["outcome"], "events:", v["consumed"], "fails:", v["fails"])
    if v["fails"]:
        print("VIOLATION property=C18 replay=%s" % path)
        return 1
    print("not reproduced on the current tree")
    return 0
