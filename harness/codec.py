"""Structural codec: holpy objects -> JSON arrays in the encoding of spec/lib/HolTerms.tla.

It reads the raw fields (ty, name, T, fun, arg, var_T, body, n) and never calls Term.__eq__,
__hash__, the printer or the parser: those are under test.
   types : ["tv",a] ["stv",a] ["tc",name,[args]]
   terms : ["svar",n,T] ["var",n,T] ["const",n,T] ["comb",f,a] ["abs",T,body] ["bound",k]
"""
from kernel.type import Type
from kernel.term import Term


def encT(T):
    if T.ty == Type.TVAR:
        return ["tv", T.name]
    if T.ty == Type.STVAR:
        return ["stv", T.name]
    return ["tc", T.name, [encT(a) for a in T.args]]


def enc(t):
    ty = t.ty
    if ty == Term.SVAR:
        return ["svar", t.name, encT(t.T)]
    if ty == Term.VAR:
        return ["var", t.name, encT(t.T)]
    if ty == Term.CONST:
        return ["const", t.name, encT(t.T)]
    if ty == Term.COMB:
        return ["comb", enc(t.fun), enc(t.arg)]
    if ty == Term.ABS:
        return ["abs", encT(t.var_T), enc(t.body)]
    if ty == Term.BOUND:
        return ["bound", t.n]
    raise TypeError("codec.enc: not a term: %r" % (t,))


def enc_named(t):
    """Like enc but keeps the bound-variable name of abstractions: ["abs",name,T,body]."""
    ty = t.ty
    if ty == Term.COMB:
        return ["comb", enc_named(t.fun), enc_named(t.arg)]
    if ty == Term.ABS:
        return ["abs", t.var_name, encT(t.var_T), enc_named(t.body)]
    return enc(t)


def encS(th):
    """Sequent: hypotheses in the order the Thm stores them."""
    return {"h": [enc(h) for h in th.hyps], "c": enc(th.prop)}


NONE_S = {"h": [], "c": ["none"]}


def encInst(inst):
    return {"ty": [[k, encT(v)] for k, v in inst.tyinst.items()],
            "sv": [[k, enc(v)] for k, v in inst.items()],
            "v": [[k, enc(v)] for k, v in inst.var_inst.items()] if hasattr(inst, "var_inst") else []}


def encTyInst(tyinst):
    return [[k, encT(v)] for k, v in tyinst.items()]


# ---- decoding (used by replayers: spec -> code) ----
def decT(j):
    from kernel.type import TVar, STVar, TConst
    if j[0] == "tv":
        return TVar(j[1])
    if j[0] == "stv":
        return STVar(j[1])
    return TConst(j[1], *[decT(a) for a in j[2]])


def dec(j):
    from kernel.term import SVar, Var, Const, Comb, Abs, Bound
    k = j[0]
    if k == "svar":
        return SVar(j[1], decT(j[2]))
    if k == "var":
        return Var(j[1], decT(j[2]))
    if k == "const":
        return Const(j[1], decT(j[2]))
    if k == "comb":
        return Comb(dec(j[1]), dec(j[2]))
    if k == "abs":
        if len(j) == 4:
            return Abs(j[1], decT(j[2]), dec(j[3]))
        return Abs("x", decT(j[1]), dec(j[2]))
    if k == "bound":
        return Bound(j[1])
    raise ValueError("codec.dec: %r" % (j,))
