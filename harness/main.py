"""Entry point:  ./check <ID> <quick|thorough>   |   ./check <ID> --replay <file>"""
import importlib
import json
import os
import sys
import traceback

from harness.core import MachineryError, Report, VERIF


def main(argv):
    if len(argv) < 2:
        print("usage: check <ID> <quick|thorough> | check <ID> --replay <file>")
        return 2
    pid = argv[0].upper()
    try:
        mod = importlib.import_module("harness.checks." + pid.lower())
    except ModuleNotFoundError:
        print("no check for property", pid)
        return 2
    try:
        if argv[1] == "--replay":
            return mod.replay(argv[2])
        tier = argv[1]
        if tier not in ("quick", "thorough"):
            tier = os.environ.get("VERIF_TIER", "quick")
        rep = Report(pid, tier)
        try:
            mod.run(rep, tier)
        except MachineryError as e:
            # a witnessed violation takes priority over vacuity guards and later machinery problems
            if rep.violations:
                print("NOTE property=%s: the run also hit a machinery/vacuity guard after violations were found: %s" % (pid, str(e)[:300]))
                rep.notes["machinery_note"] = str(e)[:500]
                return rep.finish()
            raise
        return rep.finish()
    except MachineryError as e:
        print("MACHINERY-ERROR property=%s: %s" % (pid, e))
        return 2
    except Exception:
        traceback.print_exc()
        print("MACHINERY-ERROR property=%s: unexpected exception" % pid)
        return 2


if __name__ == "__main__":
    sys.exit(main(sys.argv[1:]))
