"""Core plumbing of the /verif machinery: TLC runner, trace validation, findings, evidence.

Nothing in this file judges a property.  Verdicts come from TLC evaluating a TLA+
specification (spec/*.tla); Python only generates inputs, runs the real holpy code,
projects objects to JSON and does the bookkeeping.
"""
import hashlib
import json
import os
import re
import shutil
import subprocess
import sys
import time
from concurrent.futures import ThreadPoolExecutor
from pathlib import Path

VERIF = Path(__file__).resolve().parent.parent
REPO = Path(os.environ.get("VERIF_REPO", "/repo"))
PY = "/venv/bin/python"
SPEC = VERIF / "spec"
LIB = SPEC / "lib"
TLA_JAR = "/opt/veriftools/tla/tla2tools.jar:/opt/veriftools/tla/CommunityModules-deps.jar"
GUARD = "HOLPY_VERIF"
NCPU = os.cpu_count() or 4
# measured in this sandbox: 16 vCPUs give the throughput of about two; more than ~4 parallel JVMs is slower than one
JOBS = int(os.environ.get("VERIF_JOBS", "4"))


class MachineryError(Exception):
    """Something in the verification machinery itself failed (exit code 2)."""


def seed():
    try:
        return int(os.environ.get("VERIF_SEED", "0"))
    except ValueError:
        return 0


def work_dir(pid, sub=None, clean=False):
    # a run against another tree (VERIF_REPO: seeded-change evaluation, candidate repairs) works in a directory of its own,
    # so that it cannot collide with a concurrent run against /repo
    d = VERIF / ".work" / (pid if str(REPO) == "/repo" else "%s@%s" % (pid, hashlib.sha1(str(REPO).encode()).hexdigest()[:8]))
    if sub:
        d = d / sub
    if clean and d.exists():
        shutil.rmtree(d, ignore_errors=True)
    d.mkdir(parents=True, exist_ok=True)
    return d


# --------------------------------------------------------------------------------------
# TLC
# --------------------------------------------------------------------------------------

class TlcResult:
    def __init__(self, rc, out, wall):
        self.rc = rc
        self.out = out
        self.wall = wall
        self.generated = 0
        self.distinct = 0
        self.depth = 0
        m = None
        for m in re.finditer(r"(\d+) states generated, (\d+) distinct states found", out):
            pass
        if m:
            self.generated, self.distinct = int(m.group(1)), int(m.group(2))
        m = re.search(r"The depth of the complete state graph search is (\d+)", out)
        if m:
            self.depth = int(m.group(1))
        self.violated = re.findall(r"Error: Invariant (\S+) is violated", out)
        self.violated += re.findall(r"Error: Action property (\S+) is violated", out)
        if "Error: Temporal properties were violated" in out:
            self.violated.append("<temporal>")
        if "Error: Deadlock reached" in out:
            self.violated.append("<deadlock>")
        self.finished = ("Model checking completed" in out) or ("Finished in" in out) or ("Progress:" in out and rc == 0)
        self.error = None
        if rc != 0 and not self.violated:
            errs = re.findall(r"Error: .*", out)
            self.error = "\n".join(errs[:6]) or ("TLC exit code %d" % rc)

    @property
    def ok(self):
        return self.rc == 0 and not self.violated

    def printed(self):
        """Values printed with PrintT (one per line, TLC value syntax)."""
        return [ln for ln in self.out.splitlines() if ln.startswith("<<") or ln.startswith("[") or ln.startswith('"')]

    def coverage(self):
        """Per-action counts from -coverage output: {action: (distinct, total)}"""
        cov = {}
        for m in re.finditer(r"<(\w+) line \d+, col \d+ to line \d+, col \d+ of module (\w+)>: (\d+):(\d+)", self.out):
            cov[m.group(1)] = (int(m.group(3)), int(m.group(4)))
        return cov


def tlc(module, cfg=None, *, wd, workers=None, simulate=None, depth=None, env=None, timeout=3600,
        coverage=False, extra=(), seed_=None, deadlock=False, xss="256m", xmx="8g"):
    """Run TLC on spec/<module>.tla (or an absolute path) with config cfg (default <module>.cfg)."""
    mpath = Path(module)
    if not mpath.is_absolute():
        mpath = SPEC / (module if module.endswith(".tla") else module + ".tla")
    cpath = Path(cfg) if cfg else mpath.with_suffix(".cfg")
    if not cpath.is_absolute():
        cpath = SPEC / cpath
    wd = Path(wd)
    wd.mkdir(parents=True, exist_ok=True)
    meta = wd / ("meta_%s_%d" % (mpath.stem, int(time.time() * 1000) % 10 ** 9))
    libs = os.pathsep.join([str(LIB), str(SPEC), str(SPEC / "gen")])
    nw = int(workers) if workers else (1 if simulate else min(JOBS, 16))
    gc = ["-XX:+UseSerialGC"] if nw == 1 else ["-XX:+UseParallelGC"]
    if nw == 1 and xmx == "8g":
        xmx = "3g"
    cmd = ["java"] + gc + ["-Xss" + xss, "-Xmx" + xmx, "-DTLA-Library=" + libs,
           "-cp", TLA_JAR, "tlc2.TLC", "-config", str(cpath), "-metadir", str(meta), "-noGenerateSpecTE"]
    if simulate:
        cmd += ["-simulate", simulate]
        if depth:
            cmd += ["-depth", str(depth)]
    cmd += ["-workers", str(nw)]
    if seed_ is not None:
        cmd += ["-seed", str(seed_)]
    if coverage:
        cmd += ["-coverage", "1"]
    if not deadlock:
        cmd += ["-deadlock"]
    cmd += list(extra)
    cmd.append(str(mpath))
    e = dict(os.environ)
    e.pop("JAVA_TOOL_OPTIONS", None)
    if env:
        e.update({k: str(v) for k, v in env.items()})
    t0 = time.time()
    try:
        p = subprocess.run(cmd, cwd=str(mpath.parent), env=e, stdout=subprocess.PIPE, stderr=subprocess.STDOUT,
                           timeout=timeout, text=True, errors="replace")
        out, rc = p.stdout, p.returncode
    except subprocess.TimeoutExpired as ex:
        out = (ex.stdout or b"").decode("utf8", "replace") if isinstance(ex.stdout, bytes) else (ex.stdout or "")
        out += "\nError: TLC timed out after %ds" % timeout
        rc = 124
    finally:
        shutil.rmtree(meta, ignore_errors=True)
    res = TlcResult(rc, out, time.time() - t0)
    (wd / (mpath.stem + "." + cpath.stem + ".tlc.log")).write_text(out)
    return res


def model_check(module, cfg=None, *, wd, expect_ok=True, **kw):
    """Model-check an S/I specification; a violated invariant here is a *design-level* failure
    (the specification, possibly with code-derived constants, does not have the property)."""
    r = tlc(module, cfg, wd=wd, **kw)
    if r.error:
        raise MachineryError("TLC failed on %s: %s\n%s" % (module, r.error, r.out[-2000:]))
    return r


# --------------------------------------------------------------------------------------
# Trace validation (code -> spec)
# --------------------------------------------------------------------------------------

def _split(events_path, nchunks, wd):
    lines = Path(events_path).read_text().splitlines()
    lines = [ln for ln in lines if ln.strip()]
    n = len(lines)
    if n == 0:
        return [], 0
    nchunks = max(1, min(nchunks, (n + 999) // 1000))
    per = (n + nchunks - 1) // nchunks
    paths = []
    for i in range(nchunks):
        part = lines[i * per:(i + 1) * per]
        if not part:
            continue
        p = Path(wd) / ("chunk_%03d.ndjson" % i)
        p.write_text("\n".join(part) + "\n")
        paths.append(p)
    return paths, n


def validate_trace(tspec, events_path, *, wd, cfg=None, nchunks=None, timeout=3600, env=None):
    """Run the trace specification `tspec` over an ndjson event file.  Returns a dict
    {consumed, fails: [{tid, fail:[clause,...]}], nontrivial: [tid...], divergences: [tid...], wall}.
    Every event gets a total verdict; TLC does not stop at the first failure."""
    wd = Path(wd)
    wd.mkdir(parents=True, exist_ok=True)
    chunks, n = _split(events_path, nchunks or JOBS, wd)
    if n == 0:
        raise MachineryError("no events to validate in %s" % events_path)
    t0 = time.time()

    def one(cp):
        vp = cp.with_suffix(".verdict.json")
        if vp.exists():
            vp.unlink()
        e = {"TRACE_FILE": str(cp), "VERDICT_FILE": str(vp)}
        if env:
            e.update(env)
        r = tlc(tspec, cfg, wd=wd / ("tlc_" + cp.stem), workers=1, env=e, timeout=timeout)
        if not vp.exists() or r.rc != 0:
            raise MachineryError("trace validation with %s failed on %s (rc=%s): %s\n%s" % (
                tspec, cp, r.rc, r.error, r.out[-3000:]))
        v = json.loads(vp.read_text())
        nlines = sum(1 for _ in open(cp))
        if v.get("consumed") != nlines:
            raise MachineryError("trace spec %s consumed %s of %d events in %s" % (tspec, v.get("consumed"), nlines, cp))
        return v, r

    with ThreadPoolExecutor(max_workers=JOBS) as ex:
        results = list(ex.map(one, chunks))
    out = {"consumed": 0, "fails": [], "nontrivial": [], "divergences": [], "states": 0, "info": []}
    for v, r in results:
        out["consumed"] += v["consumed"]
        out["fails"] += list(v.get("fails", []))
        out["nontrivial"] += list(v.get("nontrivial", []))
        out["divergences"] += list(v.get("divergences", []))
        out["info"] += list(v.get("info", []))
        out["states"] += r.distinct
    out["wall"] = time.time() - t0
    return out


# --------------------------------------------------------------------------------------
# Drivers (run the real holpy code in a subprocess of /venv/bin/python)
# --------------------------------------------------------------------------------------

def run_driver(module, args, *, timeout=3600, env=None, check=True):
    """Run `python -m harness.drivers.<module> args...` with /repo importable and hooks on."""
    e = dict(os.environ)
    e["PYTHONPATH"] = os.pathsep.join([str(REPO), str(VERIF)])
    e["PYTHONHASHSEED"] = "0"
    e[GUARD] = "1"
    e.setdefault("VERIF_SEED", str(seed()))
    if env:
        e.update({k: str(v) for k, v in env.items()})
    cmd = [PY, "-m", "harness.drivers." + module] + [str(a) for a in args]
    t0 = time.time()
    p = subprocess.run(cmd, cwd=str(REPO), env=e, stdout=subprocess.PIPE, stderr=subprocess.PIPE, text=True,
                       timeout=timeout, errors="replace")
    if check and p.returncode != 0:
        raise MachineryError("driver %s failed (rc=%d):\n%s\n%s" % (module, p.returncode, p.stdout[-2000:], p.stderr[-4000:]))
    return p, time.time() - t0


def run_drivers_parallel(jobs, *, timeout=3600, max_workers=None):
    """jobs: list of (module, args, env).  Returns list of (CompletedProcess, wall)."""
    with ThreadPoolExecutor(max_workers=max_workers or JOBS) as ex:
        futs = [ex.submit(run_driver, m, a, env=e, timeout=timeout) for (m, a, e) in jobs]
        return [f.result() for f in futs]


def read_events(path):
    evs = []
    with open(path) as f:
        for ln in f:
            ln = ln.strip()
            if ln:
                evs.append(json.loads(ln))
    return evs


def write_events(path, evs):
    with open(path, "w") as f:
        for e in evs:
            f.write(json.dumps(e, separators=(",", ":")) + "\n")


def digest(obj):
    return hashlib.sha1(json.dumps(obj, sort_keys=True, separators=(",", ":")).encode()).hexdigest()[:16]


# --------------------------------------------------------------------------------------
# Known findings
# --------------------------------------------------------------------------------------

FINDINGS_FILE = VERIF / "known_findings.txt"


def load_findings(pid):
    """known_findings.txt lines:
         open: property=<id> key=<key> :: <what fails>
         fixed: property=<id> <commit> <what failed>
       Only `open` entries suppress a violation, and only the one whose key matches exactly."""
    known = {}
    if FINDINGS_FILE.exists():
        for ln in FINDINGS_FILE.read_text().splitlines():
            m = re.match(r"open: property=(\S+) key=(.*?) :: (.*)$", ln)
            if m and m.group(1) == pid:
                known[m.group(2).strip()] = m.group(3)
    return known


# --------------------------------------------------------------------------------------
# Result of one check
# --------------------------------------------------------------------------------------

class Report:
    def __init__(self, pid, tier):
        self.pid = pid
        self.tier = tier
        self.t0 = time.time()
        self.states = 0
        self.transitions = 0
        self.traces = 0
        self.evaluations = 0
        self.nontrivial_digests = set()
        self.samples = []
        self.violations = []      # (key, clause, description, replay_path)
        self.known_hits = {}      # key -> description
        self.divergences = 0
        self.notes = {}
        self.assumptions = []
        self.exhaustive = False
        self.rule = ""
        self.tlc_runs = []
        self.known = load_findings(pid)

    # ---- model checking bookkeeping
    def add_mc(self, name, r, constants=""):
        self.states += r.distinct
        self.transitions += r.generated
        self.tlc_runs.append({"spec": name, "constants": constants, "distinct_states": r.distinct,
                              "states_generated": r.generated, "depth": r.depth, "wall_s": round(r.wall, 1),
                              "violated": r.violated})

    def design_violation(self, name, r):
        """An S/I specification (with constants derived from the code) violates its invariant."""
        p = self.save_replay("design_" + name, {"kind": "design", "spec": name, "violated": r.violated,
                                                  "tlc_tail": r.out[-6000:]})
        self.violations.append(("design:" + name + ":" + ",".join(r.violated), "design", "specification %s violates %s" % (name, r.violated), p))

    # ---- trace bookkeeping
    def add_trace_result(self, name, events, verdict, *, keyf=None, sample_n=3):
        """events: list of event dicts (with 'tid'); verdict: from validate_trace."""
        by_tid = {e["tid"]: e for e in events}
        self.traces += verdict["consumed"]
        self.evaluations += verdict["consumed"]
        self.states += verdict.get("states", 0)
        self.transitions += verdict["consumed"]
        for tid in verdict["nontrivial"]:
            e = by_tid.get(tid)
            if e is not None:
                self.nontrivial_digests.add(digest({k: v for k, v in e.items() if k != "tid"}))
        self.divergences += len(verdict["divergences"])
        for f in verdict["fails"]:
            e = by_tid.get(f["tid"], {})
            key = (keyf(e) if keyf else e.get("key")) or digest(e)
            for clause in sorted(f["fail"]):
                k = "%s|%s" % (clause, key)
                if k in self.known:
                    self.known_hits[k] = self.known[k]
                else:
                    p = self.save_replay("%s_%s" % (name, digest(e)), {"kind": "event", "trace": name, "clause": clause, "event": e})
                    self.violations.append((k, clause, "clause %s fails on %s" % (clause, key), p))
        for e in events[:sample_n]:
            if len(self.samples) < 12:
                self.samples.append({"trace": name, "event": _shorten(e)})
        self.notes.setdefault("traces", {})[name] = {
            "events": verdict["consumed"], "fails": len(verdict["fails"]), "nontrivial": len(verdict["nontrivial"]),
            "divergences": len(verdict["divergences"]), "wall_s": round(verdict.get("wall", 0), 1)}

    def save_replay(self, name, obj):
        d = VERIF / "replays" / self.pid
        d.mkdir(parents=True, exist_ok=True)
        p = d / (re.sub(r"[^A-Za-z0-9_.-]", "_", name)[:80] + ".json")
        p.write_text(json.dumps(obj, indent=1))
        return p

    # ---- finish
    def finish(self, level="model_checking"):
        wall = time.time() - self.t0
        cov = {
            "states": max(self.states, 0),
            "transitions": max(self.transitions, 0),
            "traces_validated_against_impl": self.traces,
            "samples": self.samples or [{"note": "no sample recorded"}],
            "evaluations": self.evaluations,
            "distinct_nontrivial": len(self.nontrivial_digests),
            "rule": self.rule,
            "exhaustive": self.exhaustive,
            "tlc_runs": self.tlc_runs,
            "divergences": self.divergences,
            "known_findings": sorted(self.known_hits),
        }
        cov.update(self.notes)
        ev = {"property_id": self.pid, "tier": self.tier, "seed": seed(), "level": level, "coverage": cov,
              "assumptions": self.assumptions, "wall_s": round(wall, 2), "violations": len(self.violations)}
        # evidence/ describes runs against /repo itself; a run against another tree (VERIF_REPO, seeded-change evaluation) is kept apart
        evdir = VERIF / "evidence" if str(REPO) == "/repo" else VERIF / ".work" / "evidence_other_tree"
        evdir.mkdir(parents=True, exist_ok=True)
        (evdir / (self.pid + ".json")).write_text(json.dumps(ev, indent=1, default=str))
        for k, d in sorted(self.known_hits.items()):
            print("KNOWN-FINDING: property=%s %s :: %s" % (self.pid, k, d))
        seen = set()
        for k, clause, desc, p in self.violations:
            if k in seen:
                continue
            seen.add(k)
            print("VIOLATION property=%s replay=%s  # %s" % (self.pid, p, desc))
        print("%s %s: states=%d transitions=%d events=%d nontrivial=%d divergences=%d known=%d violations=%d wall=%.1fs" % (
            self.pid, self.tier, self.states, self.transitions, self.traces, len(self.nontrivial_digests),
            self.divergences, len(self.known_hits), len(seen), wall))
        return 1 if self.violations else 0


def _shorten(e, limit=1500):
    s = json.dumps(e, separators=(",", ":"))
    if len(s) <= limit:
        return e
    return {"truncated": s[:limit] + "..."}


def require(cond, msg):
    if not cond:
        raise MachineryError(msg)


# --------------------------------------------------------------------------------------
# Self-test of the binding and specification mutants (non-vacuity of the oracle)
# --------------------------------------------------------------------------------------

def selftest_trace(rep, tspec, corrupted_events, expect_clause, *, wd, cfg=None, env=None):
    """The trace specification must reject deliberately corrupted events (one recorded field changed).
    A check whose self-test is accepted is broken: MachineryError."""
    require(corrupted_events, "self-test for %s has no events" % tspec)
    p = Path(wd) / "selftest.ndjson"
    write_events(p, corrupted_events)
    v = validate_trace(tspec, p, wd=Path(wd) / "selftest_tv", cfg=cfg, nchunks=1, env=env)
    flagged = {f["tid"] for f in v["fails"] if expect_clause is None or expect_clause in f["fail"]}
    missing = [e["tid"] for e in corrupted_events if e["tid"] not in flagged]
    if missing:
        raise MachineryError("self-test: %s accepted corrupted events %s (expected clause %s)" % (tspec, missing[:5], expect_clause))
    rep.notes.setdefault("selftests", []).append({"spec": tspec, "corrupted_events": len(corrupted_events),
                                                  "all_rejected_with": expect_clause or "any"})


def spec_mutant(rep, name, module, cfg, edits, expect, *, wd, env=None, workers=None, timeout=1800):
    """Copy spec/ to a scratch directory, apply textual edits [(file, old, new)], run TLC and require that
    one of the invariants in `expect` is reported violated.  Demonstrates that the oracle is not vacuous."""
    d = Path(wd) / ("mutant_" + name)
    if d.exists():
        shutil.rmtree(d)
    shutil.copytree(SPEC, d, ignore=shutil.ignore_patterns("gen"))
    if (SPEC / "gen").exists():
        shutil.copytree(SPEC / "gen", d / "gen")
    for fn, old, new in edits:
        fp = d / fn
        s = fp.read_text()
        require(old in s, "mutant %s: text to replace not found in %s" % (name, fn))
        fp.write_text(s.replace(old, new, 1))
    libs = os.pathsep.join([str(d / "lib"), str(d), str(d / "gen")])
    r = _tlc_at(d, module, cfg, libs, wd=d / "run", env=env, workers=workers, timeout=timeout)
    hit = [x for x in r.violated if x in expect]
    if not hit:
        raise MachineryError("specification mutant %s was NOT caught (expected one of %s; TLC said %s %s)" % (
            name, expect, r.violated, r.error))
    rep.notes.setdefault("spec_mutants", []).append({"mutant": name, "caught_by": hit})
    shutil.rmtree(d, ignore_errors=True)
    return r


def _tlc_at(specdir, module, cfg, libs, *, wd, env=None, workers=None, timeout=1800):
    wd = Path(wd)
    wd.mkdir(parents=True, exist_ok=True)
    nw = int(workers) if workers else min(JOBS, 16)
    cmd = ["java", "-XX:+UseSerialGC" if nw == 1 else "-XX:+UseParallelGC", "-Xss256m", "-Xmx4g", "-DTLA-Library=" + libs,
           "-cp", TLA_JAR, "tlc2.TLC", "-config", str(Path(specdir) / cfg), "-metadir", str(wd / "meta"),
           "-noGenerateSpecTE", "-workers", str(nw), "-deadlock", str(Path(specdir) / (module + ".tla"))]
    e = dict(os.environ)
    e.pop("JAVA_TOOL_OPTIONS", None)
    if env:
        e.update({k: str(v) for k, v in env.items()})
    t0 = time.time()
    try:
        p = subprocess.run(cmd, cwd=str(specdir), env=e, stdout=subprocess.PIPE, stderr=subprocess.STDOUT, timeout=timeout,
                           text=True, errors="replace")
        out, rc = p.stdout, p.returncode
    except subprocess.TimeoutExpired:
        out, rc = "Error: TLC timed out", 124
    return TlcResult(rc, out, time.time() - t0)
