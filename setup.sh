#!/bin/sh
# MANIFEST.setup_cmd: offline; checks tools, syntax-checks every specification, byte-compiles the harness.
cd "$(dirname "$0")" || exit 1
command -v java >/dev/null || { echo "java missing"; exit 1; }
[ -f /opt/veriftools/tla/tla2tools.jar ] || { echo "tla2tools.jar missing"; exit 1; }
[ -x /venv/bin/python ] || { echo "/venv/bin/python missing"; exit 1; }
mkdir -p .work evidence replays spec/gen
/venv/bin/python -m compileall -q harness tools >/dev/null || exit 1
# generated modules are rebuilt by the checks; stubs let SANY parse the specifications that EXTEND them
[ -f spec/gen/C12_Items.tla ] || cat > spec/gen/C12_Items.tla <<'EOT'
------------------------------ MODULE C12_Items ------------------------------
EXTENDS Naturals, Sequences, TLC
cImports == <<>>
cBase == {}
cItems == <<>>
=============================================================================
EOT
[ -f spec/gen/C07_Tables.tla ] || cat > spec/gen/C07_Tables.tla <<'EOT'
------------------------------ MODULE C07_Tables ------------------------------
EXTENDS TLC
Tab == ("conj" :> <<35, "R">>) @@ ("neg" :> <<40, "U">>)
Sym == ("conj" :> "&") @@ ("neg" :> "~")
Unary == {"neg"}
Ladder == << <<"R", {"conj"}>>, <<"P", {"neg"}>> >>
Typable == {}
=============================================================================
EOT
rc=0
# only the specifications of properties claimed in MANIFEST.json are required to parse (others may be work in progress)
claimed=$(/venv/bin/python -c "import json; print(' '.join(c['property_id'] for c in json.load(open('MANIFEST.json'))['checks']))")
sany() { (cd "$1" && shift && java -Xss64m -DTLA-Library=/verif/spec/lib:/verif/spec:/verif/spec/gen -cp /opt/veriftools/tla/tla2tools.jar:/opt/veriftools/tla/CommunityModules-deps.jar tla2sany.SANY "$@" 2>&1); }
bad() { grep -qE "Semantic errors|\*\*\* Errors|Parse Error|Could not|Fatal errors"; }
# one JVM for all files of a directory; only if that reports an error, file by file to attribute it
for dir in spec/lib spec; do
  files=$(cd $dir && ls *.tla)
  if sany $dir $files | bad; then
    for f in $files; do
      out=$(sany $dir $f)
      if echo "$out" | bad; then
        pid=$(echo "$f" | cut -c1-3)
        if [ "$dir" = "spec/lib" ] || echo " $claimed " | grep -q " $pid "; then echo "SANY failed on $dir/$f"; echo "$out" | tail -15; rc=1
        else echo "note: $dir/$f does not parse (property $pid is not claimed yet)"; fi
      fi
    done
  fi
done
[ $rc -eq 0 ] && echo "setup ok"
exit $rc
