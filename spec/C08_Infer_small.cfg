SPECIFICATION Spec
CONSTANTS MaxSize = 7
 MaxSteps = 2
 NV = 3
 MaxAtoms = 3
 AtomKinds = {"A", "E", "L", "F", "P", "N", "B", "M"}
 FinalOccursCheck = TRUE
 AnnotVarCheck = TRUE
INVARIANT TypedOK
INVARIANT ContractSane
INVARIANT ModelMeetsContract
INVARIANT Record
POSTCONDITION Post
CHECK_DEADLOCK FALSE
