------------------------------ MODULE C07_Syntax ------------------------------
(* S-specification for C07: the printer's bracket-insertion rules (syntax/pprint.py, driven by the   *)
(* operator table of syntax/operator.py) against the parser's grammar (the chain of rules of         *)
(* syntax/parser.py).  Both tables are GENERATED from the code (spec/gen/C07_Tables.tla):              *)
(*   Tab      op |-> <<priority, assoc>>         Sym   op |-> ascii symbol      Unary  prefix operators *)
(*   Ladder   << <<kind, {ops}>> ... >>  loosest rule first; kind L / R / N (same rule on both sides;   *)
(*            LALR resolves it by shifting = right-nested) / P (prefix)                                 *)
(*   Typable  the (outer, side, inner) nestings that have a well-typed instance over the library        *)
(* TLC explores every depth-2 nesting of operators / application as a state; invariant RoundTrip:        *)
(* printing with the table's brackets and parsing with the ladder gives the term back, for every         *)
(* nesting that has a well-typed instance.                                                              *)
EXTENDS C07_Tables, Naturals, Sequences, FiniteSets, TLC
Ops == DOMAIN Tab
NR == Len(Ladder)
Binary == Ops \ Unary
\* terms: <<"atom", n>>, <<"bin", op, l, r>>, <<"un", op, x>>, <<"app", f, x>>
Pri(t) == CASE t[1] = "atom" -> 100 [] t[1] = "app" -> 95 [] OTHER -> Tab[t[2]][1]
Kind(t) == t[1]
RECURSIVE Pr(_)
Br(s) == <<"(">> \o s \o <<")">>
Pr(t) ==
  CASE t[1] = "atom" -> <<t[2]>>
    [] t[1] = "bin" ->
         LET p == Tab[t[2]][1] a == Tab[t[2]][2]
             l == IF (a = "L" /\ Pri(t[3]) < p) \/ (a = "R" /\ Pri(t[3]) <= p) THEN Br(Pr(t[3])) ELSE Pr(t[3])
             r == IF (a = "L" /\ Pri(t[4]) <= p) \/ (a = "R" /\ Pri(t[4]) < p) THEN Br(Pr(t[4])) ELSE Pr(t[4])
         IN l \o <<Sym[t[2]]>> \o r
    [] t[1] = "un" ->      \* pprint: FUN_APPL, or priority < 95 unless a prefix operator of the same or a tighter rule
         LET p == Tab[t[2]][1]
             x == IF Kind(t[3]) = "app" \/ (Pri(t[3]) < 95 /\ ~(Kind(t[3]) = "un" /\ Pri(t[3]) >= p)) THEN Br(Pr(t[3])) ELSE Pr(t[3])
         IN <<Sym[t[2]]>> \o x
    [] t[1] = "app" ->
         LET f == IF Pri(t[2]) < 95 \/ Kind(t[2]) = "un" THEN Br(Pr(t[2])) ELSE Pr(t[2])
             x == IF Pri(t[3]) <= 95 THEN Br(Pr(t[3])) ELSE Pr(t[3])
         IN f \o x
\* ---------- parser: recursive descent over the ladder ----------
OpOfSym(k, s) == IF \E o \in Ladder[k][2] : Sym[o] = s THEN CHOOSE o \in Ladder[k][2] : Sym[o] = s ELSE "none"
IsAtomTok(s) == s \in {"a","b","c","("}
Tok(ts, i) == IF i <= Len(ts) THEN ts[i] ELSE "$"
RECURSIVE PL(_,_,_), LeftLoop(_,_,_,_), AppLoop(_,_,_), PAtom(_,_)
PAtom(ts, i) == IF Tok(ts,i) = "(" THEN LET r == PL(ts, 1, i+1) IN IF Tok(ts, r[2]) = ")" THEN <<r[1], r[2]+1>> ELSE <<<<"err">>, r[2]>>
                ELSE IF Tok(ts,i) \in {"a","b","c"} THEN << <<"atom", ts[i]>>, i+1 >> ELSE << <<"err">>, i >>
AppLoop(ts, acc, i) == IF IsAtomTok(Tok(ts,i)) THEN LET r == PAtom(ts, i) IN AppLoop(ts, <<"app", acc, r[1]>>, r[2]) ELSE <<acc, i>>
LeftLoop(ts, k, acc, i) == LET o == OpOfSym(k, Tok(ts,i)) IN
     IF o = "none" THEN <<acc, i>> ELSE LET r == PL(ts, k+1, i+1) IN LeftLoop(ts, k, <<"bin", o, acc, r[1]>>, r[2])
PL(ts, k, i) ==
  IF k > NR THEN LET h == PAtom(ts, i) IN AppLoop(ts, h[1], h[2])
  ELSE LET kind == Ladder[k][1] IN
    IF kind = "P" THEN LET o == OpOfSym(k, Tok(ts,i)) IN
         IF o # "none" THEN LET r == PL(ts, k, i+1) IN << <<"un", o, r[1]>>, r[2] >> ELSE PL(ts, k+1, i)
    ELSE LET l == PL(ts, k+1, i) IN
      IF kind = "L" THEN LeftLoop(ts, k, l[1], l[2])
      ELSE LET o == OpOfSym(k, Tok(ts, l[2])) IN   \* "R" and "N": right operand at the same rule
         IF o = "none" THEN l ELSE LET r == PL(ts, k, l[2]+1) IN << <<"bin", o, l[1], r[1]>>, r[2] >>
Parse(ts) == LET r == PL(ts, 1, 1) IN IF r[2] = Len(ts) + 1 THEN r[1] ELSE <<"err">>
\* ---------- universe: all depth-2 nestings ----------
A == <<"atom","a">>  B == <<"atom","b">>  C == <<"atom","c">>
Inner == { <<"bin", o, A, B>> : o \in Binary } \cup { <<"un", o, A>> : o \in Unary } \cup { <<"app", A, B>> }
Outer == { <<"bin", o, x, C>> : o \in Binary, x \in Inner } \cup { <<"bin", o, C, x>> : o \in Binary, x \in Inner }
         \cup { <<"un", o, x>> : o \in Unary, x \in Inner } \cup { <<"app", x, C>> : x \in Inner } \cup { <<"app", C, x>> : x \in Inner }
InnerName(x) == IF x[1] = "app" THEN "app" ELSE x[2]
Label(t) == CASE t[1] = "bin" -> IF t[3][1] = "atom" THEN <<t[2], "R", InnerName(t[4])>> ELSE <<t[2], "L", InnerName(t[3])>>
              [] t[1] = "un" -> <<t[2], "U", InnerName(t[3])>>
              [] t[1] = "app" -> IF t[2][1] = "atom" THEN <<"app", "arg", InnerName(t[3])>> ELSE <<"app", "fun", InnerName(t[2])>>
VARIABLES t, phase
Init == t \in Outer /\ phase = "print"
Next == phase = "print" /\ phase' = "parsed" /\ UNCHANGED t
Spec == Init /\ [][Next]_<<t, phase>>
RoundTrip == Label(t) \in Typable => Parse(Pr(t)) = t
\* informational: nestings without a well-typed instance on which table and ladder disagree
Disagree == { Label(x) : x \in { y \in Outer : Parse(Pr(y)) # y } }
=============================================================================
