SPECIFICATION Spec
CONSTANTS MaxOps = 4
 MaxItems = 2
 MaxSteps = 2
 AsCoded = FALSE
 Record = TRUE
 EmitAll = TRUE
INVARIANT TreeShape
INVARIANT EditExact
CHECK_DEADLOCK FALSE
