------------------------------ MODULE X02_Trace ------------------------------
(* T-specification of X02.  Events come from the real code (harness/drivers/x02.py); every verdict is computed here,  *)
(* with the definitions of X02_Defs that are also the invariants of the S specifications X02_Export / X02_ItemId.     *)
(*                                                                                                                    *)
(* kind "export": ONE behaviour  build the proof term node by node -> export -> embed -> check -> print -> parse.      *)
(*   nodes  the DAG as built on real ProofTerm objects (th = the sequent the real constructor computed, interned;       *)
(*          xth, when present = the sequents the S specification computed for the same nodes), root, gaps = pt.gaps     *)
(*   pfx, sub   arguments of ProofTerm.export;  exp = [ok, lines]  the exported Proof, lines [id, rule, arg, prevs, th] *)
(*   host   the enclosing proof before (goal line = a gap stating the proof term's sequent), emb = [ok, lines] after    *)
(*          embedding, chk = [ok, lines] after theory.check_proof (gaps allowed), rt = [ok, lines] after                *)
(*          ProofState.export_proof -> JSON -> server.parse_proof (which checks again)                                  *)
(* kind "ids": ONE step of a behaviour of X02_ItemId performed on a real nested Proof through add_line_before /         *)
(*   remove_line, and the ItemID methods called directly:  D = shape before, op, after = [id, pos, from] per line (id     *)
(*   stored in the item, pos = where the item really is, from = its position before), arith = the arithmetic applied    *)
(*   to the old identifiers, dep / eq = can_depend_on / == on all pairs of old identifiers, found = find_item           *)
EXTENDS X02_Defs, TraceLib

\* ------------------------------------------------------------------ export events
Applicable(e) == XApplicable(e.pfx, e.sub)
Ref(e) == XRefExport(e.nodes, e.root, e.pfx, e.sub)
GapsField(e) == XSetOf(e.gaps) = XGaps(e.nodes, e.root)
ExportClauses(e) ==
  IF ~e.built THEN {}
  ELSE IF ~Applicable(e) THEN {}
  ELSE IF ~e.exp.ok THEN {"ExportCompletes"}
  ELSE IF Len(e.exp.lines) = 0 THEN {"Contiguous"}
  ELSE LET L == e.exp.lines IN
       XExportClauses(L, e.nodes, e.root, e.pfx, e.sub)
       \cup (IF "xth" \in DOMAIN e /\ [i \in 1..Len(e.nodes) |-> e.nodes[i].th] # e.xth THEN {"NodeSequent"} ELSE {})
       \cup (IF "gaps" \in DOMAIN e /\ ~GapsField(e) THEN {"GapsOfTerm"} ELSE {})
       \cup (IF "na" \in DOMAIN e.emb /\ e.emb.na THEN {} ELSE IF ~e.emb.ok THEN {"EmbedCompletes"}
             ELSE LET W == e.emb.lines IN
                  (IF XWholeContiguous(W) THEN {} ELSE {"WholeContiguous"})
                  \cup (IF XWholeCitations(W) THEN {} ELSE {"WholeCitations"})
                  \cup (IF XGoalStillStated(e.host, e.pfx, W, L, e.sub) THEN {} ELSE {"GoalStillStated"})
                  \cup (IF ~e.chk.ok THEN {"ExportedProofChecks"}
                        ELSE IF ~e.rt.examined THEN {}
                        ELSE IF ~e.rt.ok THEN {"RoundTripParsesAndChecks"}
                        ELSE IF e.rt.lines # e.chk.lines THEN {"RoundTripSame"} ELSE {}))
ExportNontrivial(e) == e.built /\ Applicable(e) /\ e.exp.ok
\* the code differs from the reference without violating the statement: another (legal) export, another embedding, a gap of the
\* proof term that is absorbed by an earlier derivation of the same sequent, or export refused / accepted outside its domain
ExportDiverges(e) ==
  e.built /\ (IF ~Applicable(e) THEN TRUE
              ELSE e.exp.ok /\ Len(e.exp.lines) > 0 /\ ( \/ e.exp.lines # Ref(e)
                                 \/ XAbsorbed(e.exp.lines, e.nodes, e.root) # {}
                                 \/ (e.emb.ok /\ e.emb.lines # XEmbed(e.host, e.pfx, e.exp.lines, e.sub)) ))
\* which sharing patterns the event exercises (counted by the harness: vacuity guards)
Reach(e) == XReach(e.nodes, e.root)
Deriv(e, n) == <<e.nodes[n].rule, e.nodes[n].arg, e.nodes[n].prems>>
Tags(e) ==
  IF ~ExportNontrivial(e) THEN {}
  ELSE LET N == e.nodes R == Reach(e) L == e.exp.lines IN
     (IF XCitedTwice(L) THEN {"cited-twice"} ELSE {})
     \cup (IF \E n \in R : \E m \in R : n < m /\ N[n].th = N[m].th /\ N[n].rule # "atom" /\ N[m].rule # "atom" /\ Deriv(e, n) # Deriv(e, m)
           THEN {"equal-sequent-other-derivation"} ELSE {})
     \cup (IF \E n \in R : \E m \in R : n < m /\ Deriv(e, n) = Deriv(e, m) /\ N[n].th = N[m].th /\ N[n].rule \notin {"atom", "sorry"}
           THEN {"duplicate-node"} ELSE {})
     \cup (IF \E n \in R : \E m \in R : n < m /\ N[n].rule = "sorry" /\ N[m].rule = "sorry" /\ N[n].th = N[m].th THEN {"gap-repeated"} ELSE {})
     \cup (IF XAbsorbed(L, N, e.root) # {} THEN {"gap-absorbed"} ELSE {})
     \cup (IF \E i \in 1..Len(L) : \E j \in 1..Len(L) : i < j /\ L[i].th = L[j].th THEN {"sequent-stated-twice"} ELSE {})
     \cup (IF XAtomIds(N) # {} THEN {"atoms"} ELSE {})
     \cup (IF e.sub THEN {"subproof"} ELSE {"siblings"})
     \cup (IF e.chk.ok /\ e.rt.examined /\ e.rt.ok THEN {"round-trip"} ELSE {})

\* ------------------------------------------------------------------ identifier events
IdsClauses(e) ==
  IF e.raised THEN {"EditCompletes"}
  ELSE
  LET D == e.D
      i == e.op[2]
      n == e.op[3]
      ins == e.op[1] = "ins"
      D2 == IF ins THEN XInsert(D, i, n) ELSE XRemove(D, i)
      pp == XPaths(D)
      pd == XPaths(D2)
      aft(j) == IF ins THEN XPosAfterInsert(i, n, j) ELSE XPosAfterRemove(D, i, j)
      vis == XVisPairs(D)
  IN (IF Len(e.after) = Len(D2) /\ \A k \in 1..Len(D2) : e.after[k].pos = pd[k] THEN {} ELSE {"TreeAfterEdit"})
     \cup (IF \A k \in 1..Len(e.after) : e.after[k].id = e.after[k].pos THEN {} ELSE {"IdentifierIsPosition"})
     \cup (IF Len(e.after) = Len(D2) /\ \A k \in 1..Len(D2) : e.after[k].from = 0 \/ aft(e.after[k].from) = k THEN {} ELSE {"LinesKeepTheirOrder"})
     \cup (IF Len(e.arith) = Len(D) /\ \A j \in 1..Len(D) : aft(j) = 0 \/ e.arith[j] = pd[aft(j)] THEN {} ELSE {"ArithmeticIsPosition"})
     \cup (IF \A x \in XSetOf(e.dep) : x[3] <=> (<<x[1], x[2]>> \in vis) THEN {} ELSE {"DependsIsVisibility"})
     \cup (IF \A x \in XSetOf(e.dep) : x[3] <=> LCanDependOn(pp[x[1]], pp[x[2]]) THEN {} ELSE {"DependsAsDocumented"})
     \cup (IF \A x \in XSetOf(e.eq) : x[3] <=> (x[1] = x[2]) THEN {} ELSE {"EqualIsSameLine"})
     \cup (IF \A k \in 1..Len(e.found) : e.found[k] = k THEN {} ELSE {"FindItemByPosition"})
     \cup (IF \A k \in 1..Len(e.misc) : LET m == e.misc[k] p == pp[m.j] IN
                 m.last = p[Len(p)] /\ m.incr = [p EXCEPT ![Len(p)] = @ + m.n] /\ m.str = p THEN {} ELSE {"LastIncrStr"})
ClausesOf(e) == CASE e.kind = "export" -> ExportClauses(e) [] e.kind = "ids" -> IdsClauses(e) [] OTHER -> {}
Nontrivial(e) == CASE e.kind = "export" -> ExportNontrivial(e) [] e.kind = "ids" -> ~e.raised [] OTHER -> FALSE
Diverges(e) == e.kind = "export" /\ ExportDiverges(e)
InfoOf(e) == [tid |-> e.tid, tags |-> IF e.kind = "export" THEN Tags(e) ELSE {}]
TNext == LET e == Trace[l] IN TStepInfo(e.tid, ClausesOf(e), Nontrivial(e), Diverges(e), InfoOf(e))
TSpec == TInit /\ [][TNext]_l
=============================================================================
