------------------------------- MODULE C18_Sem -------------------------------
(* Semantics used by C18 (veriT / Alethe steps): "the conclusion sequent is a consequence of the premise sequents". *)
(*                                                                                                                 *)
(* A step is  prems = <<[h |-> <<hyps>>, c |-> prop]>>...   res = [h |-> <<hyps>>, c |-> prop]   (codec shape).      *)
(*   Holds in an interpretation:  (\A i : (/\ prems[i].h) => prems[i].c)  =>  ((/\ res.h) => res.c)                 *)
(* Two tiers of interpretations, chosen by the vocabulary of the step:                                             *)
(*   tier E (covers the purely propositional tier P): finite standard models of HOL as in lib/HolSem.tla, extended *)
(*          with the constants xor and IF of theory logic/verit; type variables are sets of 1..N elements, free      *)
(*          variables (atoms p q r, terms a b c, functions f g, predicates P) range over the full domains;           *)
(*          quantifiers all/exists are interpreted. Any other theory constant makes the step NOT examinable.        *)
(*   tier A: quantifier-free linear arithmetic over int / real with boolean structure: exact rational arithmetic    *)
(*          (pairs <<num, den>>, den > 0, compared by cross multiplication) at the grid points of a box.            *)
(*          Division is total as in theory real (x / 0 = 0).                                                        *)
(* A counter-interpretation in a tier whose vocabulary covers the step is a genuine counterexample to consequence.  *)
EXTENDS HolSem, Integers

\* ------------------------------------------------------------------ vocabulary
IntT == <<"tc","int",<<>>>>
RealT == <<"tc","real",<<>>>>
NatT == <<"tc","nat",<<>>>>
B1 == FunT(BoolT, BoolT)
B2 == FunT(BoolT, FunT(BoolT, BoolT))
TrueC == <<"const","true",BoolT>>
FalseC == <<"const","false",BoolT>>
NegC == <<"const","neg",B1>>
ConjC == <<"const","conj",B2>>
DisjC == <<"const","disj",B2>>
XorC == <<"const","xor",B2>>
IfC(T) == <<"const","IF",FunT(BoolT, FunT(T, FunT(T, T)))>>
ExC(T) == <<"const","exists",FunT(FunT(T,BoolT),BoolT)>>
Neg(a) == App(NegC, a)
Conj(a, b) == App(App(ConjC, a), b)
Disj(a, b) == App(App(DisjC, a), b)
Iff(a, b) == App(App(EqC(BoolT), a), b)
Xor(a, b) == App(App(XorC, a), b)
EqT(T, a, b) == App(App(EqC(T), a), b)
Ite(T, c, a, b) == App(App(App(IfC(T), c), a), b)
RECURSIVE AndN(_), OrN(_)
AndN(s) == IF Len(s) = 0 THEN TrueC ELSE IF Len(s) = 1 THEN s[1] ELSE Conj(s[1], AndN(Tail(s)))
OrN(s) == IF Len(s) = 0 THEN FalseC ELSE IF Len(s) = 1 THEN s[1] ELSE Disj(s[1], OrN(Tail(s)))

\* shape tests (short-circuit: never index into a string)
IsApp1(t, n) == t[1] = "comb" /\ t[2][1] = "const" /\ t[2][2] = n
IsApp2(t, n) == t[1] = "comb" /\ t[2][1] = "comb" /\ t[2][2][1] = "const" /\ t[2][2][2] = n
IsApp3(t, n) == t[1] = "comb" /\ t[2][1] = "comb" /\ t[2][2][1] = "comb" /\ t[2][2][2][1] = "const" /\ t[2][2][2][2] = n
A1(t) == t[2][3]            \* first argument of a binary application
A2(t) == t[3]               \* second argument of a binary application / argument of a unary one
C3(t) == t[2][2][3]         \* condition of IF c a b
\* argument type of a fully applied binary constant (equals / less ...):  c : T => T => bool
ArgT2(t) == t[2][2][3][3][1]
\* result type of IF c a b :  IF : bool => T => T => T
IfT(t) == t[2][2][2][3][3][2][3][1]

\* ------------------------------------------------------------------ tier E : finite standard models
InterpX == Interp \cup {"xor", "IF", "Let"}
ConstValX(n, T, ta) ==
  IF n = "xor" THEN [x \in BOOLEAN |-> [y \in BOOLEAN |-> x # y]]
  ELSE IF n = "IF" THEN LET D == Dom(T[3][2][3][1], ta) IN [c \in BOOLEAN |-> [x \in D |-> [y \in D |-> IF c THEN x ELSE y]]]
  ELSE IF n = "Let" THEN [x \in Dom(T[3][1], ta) |-> [f \in Dom(T[3][2][3][1], ta) |-> f[x]]]      \* Let_def: Let s f = f s
  ELSE ConstVal(n, T, ta)
RECURSIVE EvalX(_,_,_,_)
EvalX(t, va, benv, ta) ==
  IF t[1] \in {"svar","var"} THEN va[t]
  ELSE IF t[1] = "const" THEN ConstValX(t[2], t[3], ta)
  ELSE IF t[1] = "bound" THEN benv[t[2]+1]
  ELSE IF t[1] = "abs" THEN [x \in Dom(t[2], ta) |-> EvalX(t[3], va, <<x>> \o benv, ta)]
  ELSE IF IsApp1(t, "neg") THEN ~EvalX(A2(t), va, benv, ta)
  ELSE IF IsApp2(t, "conj") THEN EvalX(A1(t), va, benv, ta) /\ EvalX(A2(t), va, benv, ta)
  ELSE IF IsApp2(t, "disj") THEN EvalX(A1(t), va, benv, ta) \/ EvalX(A2(t), va, benv, ta)
  ELSE IF IsApp2(t, "implies") THEN EvalX(A1(t), va, benv, ta) => EvalX(A2(t), va, benv, ta)
  ELSE IF IsApp2(t, "equals") THEN EvalX(A1(t), va, benv, ta) = EvalX(A2(t), va, benv, ta)
  ELSE IF IsApp2(t, "xor") THEN EvalX(A1(t), va, benv, ta) # EvalX(A2(t), va, benv, ta)
  ELSE IF IsApp3(t, "IF") THEN (IF EvalX(C3(t), va, benv, ta) THEN EvalX(A1(t), va, benv, ta) ELSE EvalX(A2(t), va, benv, ta))
  ELSE IF IsApp2(t, "Let") THEN EvalX(A2(t), va, benv, ta)[EvalX(A1(t), va, benv, ta)]
  ELSE EvalX(t[2], va, benv, ta)[EvalX(t[3], va, benv, ta)]

RECURSIVE VarsOf(_), ConstsOf(_), TypesInX(_)
VarsOf(t) == CASE t[1] \in {"svar","var"} -> {t}
               [] t[1] = "comb" -> VarsOf(t[2]) \cup VarsOf(t[3])
               [] t[1] = "abs" -> VarsOf(t[3])
               [] OTHER -> {}
ConstsOf(t) == CASE t[1] = "const" -> {t[2]}
               [] t[1] = "comb" -> ConstsOf(t[2]) \cup ConstsOf(t[3])
               [] t[1] = "abs" -> ConstsOf(t[3])
               [] OTHER -> {}
TypesInX(t) == CASE t[1] \in {"svar","var","const"} -> {t[3]}
               [] t[1] = "comb" -> TypesInX(t[2]) \cup TypesInX(t[3])
               [] t[1] = "abs" -> {t[2]} \cup TypesInX(t[3])
               [] OTHER -> {}
SeqTerms(sq) == { sq.h[k] : k \in 1..Len(sq.h) } \cup {sq.c}
StepTerms(prems, res) == UNION { SeqTerms(prems[i]) : i \in 1..Len(prems) } \cup SeqTerms(res)
SeqHolds(sq, va, ta) == (\A k \in 1..Len(sq.h) : EvalX(sq.h[k], va, <<>>, ta)) => EvalX(sq.c, va, <<>>, ta)
StepHoldsX(prems, res, va, ta) == (\A i \in 1..Len(prems) : SeqHolds(prems[i], va, ta)) => SeqHolds(res, va, ta)
RECURSIVE HoldsAllX(_,_,_,_,_,_)
HoldsAllX(prems, res, symSeq, i, va, ta) ==
  IF i > Len(symSeq) THEN StepHoldsX(prems, res, va, ta)
  ELSE \A d \in Dom(symSeq[i][3], ta) : HoldsAllX(prems, res, symSeq, i + 1, (symSeq[i] :> d) @@ va, ta)
\* every term closed, of type bool, over interpreted constants and small base types
ExaminableX(prems, res, N) ==
  LET ts == StepTerms(prems, res) IN
  /\ \A t \in ts : TypeOf(t, <<>>) = BoolT /\ ConstsOf(t) \subseteq InterpX /\ Size(t) <= 250
  /\ \A T \in UNION { TypesInX(t) : t \in ts } : OnlyBase(T) /\ DomSize(T, N) <= 256
  /\ ProdSizes(SetToSeq(UNION { VarsOf(t) : t \in ts }), 1, N) <= 5000
EntailedX(prems, res, N) ==
  LET ts == StepTerms(prems, res)
      symSeq == SetToSeq(UNION { VarsOf(t) : t \in ts })
      tvs == UNION { TVarsOfTerm(t) : t \in ts } IN
  \A ta \in [tvs -> Carriers(N)] : HoldsAllX(prems, res, symSeq, 1, <<>>, ta)

\* ---- steps that DISCHARGE context equations (let): the last premise was derived under hypotheses  x = s  for the variables x bound by
\* the step; Alethe reads such a premise as holding FOR ALL values of x.  The step is a consequence when, for every interpretation of
\* the other symbols,  (for all values of the discharged variables: every premise sequent holds)  implies  (for all values: the result holds).
IsEqVar(h) == IsApp2(h, "equals") /\ A1(h)[1] = "var"
DischargedVars(prems, res) ==
  IF Len(prems) = 0 THEN {}
  ELSE LET lp == prems[Len(prems)] IN { A1(lp.h[k]) : k \in { k \in 1..Len(lp.h) : IsEqVar(lp.h[k]) /\ \A m \in 1..Len(res.h) : res.h[m] # lp.h[k] } }
RECURSIVE PremsAllV(_,_,_,_,_), ResAllV(_,_,_,_,_), HoldsClosedX(_,_,_,_,_,_,_)
PremsAllV(prems, vSeq, i, va, ta) ==
  IF i > Len(vSeq) THEN \A j \in 1..Len(prems) : SeqHolds(prems[j], va, ta)
  ELSE \A d \in Dom(vSeq[i][3], ta) : PremsAllV(prems, vSeq, i + 1, (vSeq[i] :> d) @@ va, ta)
ResAllV(res, vSeq, i, va, ta) ==
  IF i > Len(vSeq) THEN SeqHolds(res, va, ta)
  ELSE \A d \in Dom(vSeq[i][3], ta) : ResAllV(res, vSeq, i + 1, (vSeq[i] :> d) @@ va, ta)
HoldsClosedX(prems, res, outSeq, i, vSeq, va, ta) ==
  IF i > Len(outSeq) THEN PremsAllV(prems, vSeq, 1, va, ta) => ResAllV(res, vSeq, 1, va, ta)
  ELSE \A d \in Dom(outSeq[i][3], ta) : HoldsClosedX(prems, res, outSeq, i + 1, vSeq, (outSeq[i] :> d) @@ va, ta)
EntailedClosedX(prems, res, V, N) ==
  LET ts == StepTerms(prems, res)
      syms == UNION { VarsOf(t) : t \in ts }
      tvs == UNION { TVarsOfTerm(t) : t \in ts } IN
  \A ta \in [tvs -> Carriers(N)] : HoldsClosedX(prems, res, SetToSeq(syms \ V), 1, SetToSeq(syms \cap V), <<>>, ta)

\* ------------------------------------------------------------------ tier A : linear arithmetic at grid points
RAdd(a, b) == <<a[1] * b[2] + b[1] * a[2], a[2] * b[2]>>
RNeg(a) == <<0 - a[1], a[2]>>
RSub(a, b) == RAdd(a, RNeg(b))
RMul(a, b) == <<a[1] * b[1], a[2] * b[2]>>
RInv(a) == IF a[1] > 0 THEN <<a[2], a[1]>> ELSE <<0 - a[2], 0 - a[1]>>      \* a # 0
RDiv(a, b) == IF b[1] = 0 THEN <<0, 1>> ELSE RMul(a, RInv(b))     \* theory real: x / y = x * real_inverse y, real_inverse 0 = 0
REq(a, b) == a[1] * b[2] = b[1] * a[2]
RLt(a, b) == a[1] * b[2] < b[1] * a[2]
RLe(a, b) == a[1] * b[2] <= b[1] * a[2]
NumT == {IntT, RealT}
RECURSIVE IsNatLit(_), NatVal(_)
IsNatLit(t) == \/ t = <<"const","one",NatT>>
               \/ (IsApp1(t, "bit0") \/ IsApp1(t, "bit1")) /\ IsNatLit(A2(t))
NatVal(t) == IF t[1] = "const" THEN 1 ELSE IF IsApp1(t, "bit0") THEN 2 * NatVal(A2(t)) ELSE 2 * NatVal(A2(t)) + 1
\* a non-zero non-negative numeral: one | of_nat (bit..)
IsPosLit(t) == (t[1] = "const" /\ t[2] = "one" /\ t[3] \in NumT) \/ (IsApp1(t, "of_nat") /\ t[2][3][3][2] \in NumT /\ IsNatLit(A2(t)) /\ NatVal(A2(t)) <= 64)
ArithBin == {"plus", "minus", "times"}
CmpBin == {"less", "less_eq", "greater", "greater_eq"}
BoolBin == {"conj", "disj", "implies", "xor"}
IsBinOf(t, S) == t[1] = "comb" /\ t[2][1] = "comb" /\ t[2][2][1] = "const" /\ t[2][2][2] \in S
RECURSIVE ExamA(_)
\* terms of the arithmetic fragment (closed, first order, no division by anything but a positive numeral)
ExamA(t) ==
  IF t[1] = "var" THEN t[3] \in {BoolT, IntT, RealT}
  ELSE IF t[1] = "const" THEN (t[2] \in {"true","false"}) \/ (t[2] \in {"zero","one"} /\ t[3] \in NumT)
  ELSE IF t[1] # "comb" THEN FALSE
  ELSE IF IsApp1(t, "of_nat") THEN IsPosLit(t)
  ELSE IF IsApp1(t, "neg") \/ IsApp1(t, "uminus") THEN ExamA(A2(t))
  ELSE IF IsBinOf(t, BoolBin) THEN ExamA(A1(t)) /\ ExamA(A2(t))
  ELSE IF IsApp2(t, "equals") THEN ArgT2(t) \in {BoolT, IntT, RealT} /\ ExamA(A1(t)) /\ ExamA(A2(t))
  ELSE IF IsBinOf(t, ArithBin \cup CmpBin) THEN ArgT2(t) \in NumT /\ ExamA(A1(t)) /\ ExamA(A2(t))
  ELSE IF IsApp2(t, "real_divide") THEN ArgT2(t) = RealT /\ ExamA(A1(t)) /\ ExamA(A2(t))
  ELSE IF IsApp3(t, "IF") THEN IfT(t) \in {BoolT, IntT, RealT} /\ ExamA(C3(t)) /\ ExamA(A1(t)) /\ ExamA(A2(t))
  ELSE FALSE
RECURSIVE EvalA(_,_)
EvalA(t, va) ==
  IF t[1] = "var" THEN va[t]
  ELSE IF t[1] = "const" THEN (IF t[2] = "true" THEN TRUE ELSE IF t[2] = "false" THEN FALSE ELSE IF t[2] = "zero" THEN <<0,1>> ELSE <<1,1>>)
  ELSE IF IsApp1(t, "of_nat") THEN <<NatVal(A2(t)), 1>>
  ELSE IF IsApp1(t, "neg") THEN ~EvalA(A2(t), va)
  ELSE IF IsApp1(t, "uminus") THEN RNeg(EvalA(A2(t), va))
  ELSE IF IsApp2(t, "conj") THEN EvalA(A1(t), va) /\ EvalA(A2(t), va)
  ELSE IF IsApp2(t, "disj") THEN EvalA(A1(t), va) \/ EvalA(A2(t), va)
  ELSE IF IsApp2(t, "implies") THEN EvalA(A1(t), va) => EvalA(A2(t), va)
  ELSE IF IsApp2(t, "xor") THEN EvalA(A1(t), va) # EvalA(A2(t), va)
  ELSE IF IsApp2(t, "equals") THEN (IF ArgT2(t) = BoolT THEN EvalA(A1(t), va) = EvalA(A2(t), va) ELSE REq(EvalA(A1(t), va), EvalA(A2(t), va)))
  ELSE IF IsApp2(t, "plus") THEN RAdd(EvalA(A1(t), va), EvalA(A2(t), va))
  ELSE IF IsApp2(t, "minus") THEN RSub(EvalA(A1(t), va), EvalA(A2(t), va))
  ELSE IF IsApp2(t, "times") THEN RMul(EvalA(A1(t), va), EvalA(A2(t), va))
  ELSE IF IsApp2(t, "real_divide") THEN RDiv(EvalA(A1(t), va), EvalA(A2(t), va))
  ELSE IF IsApp2(t, "less") THEN RLt(EvalA(A1(t), va), EvalA(A2(t), va))
  ELSE IF IsApp2(t, "less_eq") THEN RLe(EvalA(A1(t), va), EvalA(A2(t), va))
  ELSE IF IsApp2(t, "greater") THEN RLt(EvalA(A2(t), va), EvalA(A1(t), va))
  ELSE IF IsApp2(t, "greater_eq") THEN RLe(EvalA(A2(t), va), EvalA(A1(t), va))
  ELSE (IF EvalA(C3(t), va) THEN EvalA(A1(t), va) ELSE EvalA(A2(t), va))
GridOf(T, G) == IF T = BoolT THEN BOOLEAN ELSE IF T = IntT THEN { <<k, 1>> : k \in (0 - G)..G } ELSE { <<k, 2>> : k \in (0 - 2 * G)..(2 * G) }
SeqHoldsA(sq, va) == (\A k \in 1..Len(sq.h) : EvalA(sq.h[k], va)) => EvalA(sq.c, va)
StepHoldsA(prems, res, va) == (\A i \in 1..Len(prems) : SeqHoldsA(prems[i], va)) => SeqHoldsA(res, va)
RECURSIVE HoldsAllA(_,_,_,_,_,_)
HoldsAllA(prems, res, symSeq, i, va, G) ==
  IF i > Len(symSeq) THEN StepHoldsA(prems, res, va)
  ELSE \A d \in GridOf(symSeq[i][3], G) : HoldsAllA(prems, res, symSeq, i + 1, (symSeq[i] :> d) @@ va, G)
NumVars(ts) == { v \in UNION { VarsOf(t) : t \in ts } : v[3] \in NumT }
ExaminableA(prems, res) ==
  LET ts == StepTerms(prems, res) IN
  /\ \A t \in ts : TypeOf(t, <<>>) = BoolT /\ ExamA(t) /\ Size(t) <= 80
  /\ NumVars(ts) # {} \/ \E t \in ts : ConstsOf(t) \cap (ArithBin \cup CmpBin \cup {"zero","one","of_nat","uminus","real_divide"}) # {}
  /\ Cardinality(NumVars(ts)) <= 3 /\ Cardinality(UNION { VarsOf(t) : t \in ts }) <= 6
EntailedA(prems, res, G) ==
  LET ts == StepTerms(prems, res) IN HoldsAllA(prems, res, SetToSeq(UNION { VarsOf(t) : t \in ts }), 1, <<>>, G)

\* ------------------------------------------------------------------ the verdict: first tier whose vocabulary covers the step
NModel == 2
Grid == 2
Tier(prems, res) == IF ExaminableX(prems, res, NModel) THEN "E" ELSE IF ExaminableA(prems, res) THEN "A" ELSE "none"
Entailed(prems, res) == LET k == Tier(prems, res) IN
                        IF k = "E" THEN EntailedX(prems, res, NModel) ELSE IF k = "A" THEN EntailedA(prems, res, Grid) ELSE TRUE
\* per rule: the rules that discharge context equations are read with the universal closure above (finite-model tier only)
ClosureRules == {"verit_let"}
TierStep(rule, prems, res) == IF rule \in ClosureRules THEN (IF ExaminableX(prems, res, NModel) THEN "E" ELSE "none") ELSE Tier(prems, res)
EntailedStep(rule, prems, res) ==
  IF rule \in ClosureRules
  THEN (IF ExaminableX(prems, res, NModel) THEN EntailedClosedX(prems, res, DischargedVars(prems, res), NModel) ELSE TRUE)
  ELSE Entailed(prems, res)
\* hypothesis discipline
HypSet(sq) == { sq.h[k] : k \in 1..Len(sq.h) }
HypsSubset(prems, res) == HypSet(res) \subseteq UNION { HypSet(prems[i]) : i \in 1..Len(prems) }
=============================================================================
