SPECIFICATION Spec
CONSTANTS
  Theories <- cTheories
  Imports <- cImports
  Modules <- cModules
  LazyImport <- cLazy
  ModuleBody <- cBody
  OpTheories <- cTheories
  OpModules <- cModules
  Present0 <- cTheories
  Origin <- cOrigin
  Items0 <- cItems0
  LimitsOf <- cLimits
  FileOps = {}
  Variants <- Fixed
  GoodVariants <- Fixed
  PrintGood = FALSE
  MaxOps = 3
  MaxDepth = 40
  AllowFault = TRUE
  defaultInitValue = defaultInitValue
INVARIANT Good
CHECK_DEADLOCK FALSE
