SPECIFICATION Spec
CONSTANTS
  Theories <- cTheories
  Imports <- cImports
  Modules <- cModules
  LazyImport <- cLazy
  ModuleBody <- cBody
  OpTheories <- cTheories
  OpModules <- cModules
  MaxOps = 3
  RestoreThy = TRUE
  TimestampLast = TRUE
  AllowFault = TRUE
  defaultInitValue = defaultInitValue
INVARIANT Good
CHECK_DEADLOCK FALSE
