SPECIFICATION Spec
CONSTANTS Consts = {a, b, c, d}
 MaxOps = 3
 Queries = FALSE
 ChainMode = FALSE
 EmitAll = TRUE
SYMMETRY Symm
INVARIANT TestCorrect
INVARIANT ExplainCorrect
INVARIANT QueryCorrect
INVARIANT AlwaysSound
INVARIANT RepIdempotent
INVARIANT ClassListsMatch
INVARIANT ForestMatchesRep
INVARIANT ForestLabelsMerged
INVARIANT LookupComplete
CHECK_DEADLOCK FALSE
