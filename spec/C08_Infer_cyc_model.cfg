SPECIFICATION Spec
CONSTANTS MaxSize = 1
 MaxSteps = 0
 NV = 4
 MaxAtoms = 4
 AtomKinds = {"A", "L"}
 LongKinds = {"A", "L", "E"}
 ShortKinds = {}
 ShortLen = 0
 DeclAtoms = 2
 Variants <- VariantsQuick
 ExactOccursCheck = TRUE
 AnnotVarCheck = TRUE
 WithModel = TRUE
INVARIANT ModelTerminates
INVARIANT ModelGoodResult
INVARIANT ModelErasure
CHECK_DEADLOCK FALSE
