SPECIFICATION Spec
CONSTANTS MaxOps = 5
 MaxDepth = 3
 ThNames = {"xa", "xb"}
 VSets = {"v1", "v2"}
 Record = FALSE
 EmitAll = FALSE
 ExitMode = "entry"
 SetCtxMode = "replace"
 LoadMode = "fresh"
 CacheLoadMode = "restore"
INVARIANT CtxtRestored
INVARIANT ThyRestored
INVARIANT SetContextReplaces
INVARIANT PrevContextUntouched
INVARIANT CachedTheoryUntouched
INVARIANT FramesAreStack
CHECK_DEADLOCK FALSE
