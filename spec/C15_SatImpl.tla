----------------------------- MODULE C15_SatImpl -----------------------------
(* I-specification for C15: prover/sat.py::solve_cnf AS CODED.                               *)
(*                                                                                          *)
(*   st.cnf     working clause list (input clauses, then learned clauses), 0-based ids       *)
(*   st.asg     name -> (val, dec, lvl, rsn, on)   = assigns[name] = (value, is_decision,    *)
(*              level, reason clause id); on = FALSE means "not in the dictionary"           *)
(*   st.level, st.proofs (learned id -> ids resolved), st.pc, st.confl, st.result            *)
(*                                                                                          *)
(*   Propagate  one pass of unit_propagate's for-loop: the FIRST clause (index order) that   *)
(*              is not satisfied and has no / exactly one unassigned literal ENTRY (the      *)
(*              code counts list entries: a duplicated literal counts twice)                 *)
(*   Decide     "for var in variables" over a Python set: ANY unassigned variable, value     *)
(*              True, level + 1                                                              *)
(*   Backtrack  analyze_conflict + backtrack: resolve the first non-decision literal with    *)
(*              its reason, resolution() drops EVERY literal on the pivot name and returns   *)
(*              list(set(..)) -- an arbitrary order, so after the first step (and for learned *)
(*              clauses) ANY non-decision literal may be next; learn the clause; jump to the *)
(*              level of the second-highest ENTRY (0 for a unit clause)                      *)
(*                                                                                          *)
(* Dedup models which code is present: TRUE iff solve_cnf removes repeated literals of each  *)
(* clause at entry (cnf = [list(dict.fromkeys(clause)) for clause in cnf]).  It is not       *)
(* chosen by hand: the check derives it from a behavioural probe of the code under test, and *)
(* the result-level conformance below (every verdict/certificate the code returned is one    *)
(* this model can return, every time-out is a loop of this model) shows the model mirrors it.*)
(*                                                                                          *)
(* Initial states: every CNF that the S specification C15_Sat enumerated (VECTOR_FILE).      *)
EXTENDS C15_SatAlgo, Json, IOUtils

CONSTANTS Dedup,      \* the code dedupes literals per clause at entry
          Conform,    \* compare with the recorded results of the real code (EVENT_FILE)
          Prune       \* do not explore beyond a state in which the loop is already closed (stut)

Vectors == ndJsonDeserialize(IOEnv.VECTOR_FILE)
Events == IF Conform THEN ndJsonDeserialize(IOEnv.EVENT_FILE) ELSE <<>>

\* ---------------------------------------------------------------- the machine
VARIABLE st
ObsInit == TLCSet(11, {}) /\ TLCSet(12, {})
Init == ObsInit /\ \E i \in 1..Len(Vectors) : st = Start(Vectors[i].cnf, i, Dedup)
Live == ~(Prune /\ st.stut)
Propagate == Live /\ st.pc = "propagate" /\ st' = PropStep(st)
Decide == Live /\ st.pc = "decide" /\ st' \in DecideSet(st)
Backtrack == Live /\ st.pc = "analyze" /\ st' \in BacktrackSet(st)
Next == Propagate \/ Decide \/ Backtrack
Spec == Init /\ [][Next]_st

\* ---------------------------------------------------------------- properties
\* the property: verdicts agree with exhaustive search and come with valid certificates ...
VerdictCorrect ==
  /\ st.result.verdict = "sat" => /\ Satisfiable(st.cnf0)
                                  /\ \A k \in 1..st.n0 : LitSet(st.cnf0[k]) \cap st.result.asg # {}
  /\ st.result.verdict = "unsat" => ~Satisfiable(st.cnf0)
CertificateValid == st.result.verdict = "unsat" => ValidRefutation(st.cnf0, st.result.proofs)
\* ... and the solver terminates: a run learns at most 3^n clauses (each learned clause blocks the current decisions);
RECURSIVE Pow3(_)
Pow3(n) == IF n = 0 THEN 1 ELSE 3 * Pow3(n - 1)
Terminates == Len(st.cnf) - st.n0 <= Pow3(Cardinality(DOMAIN st.asg))
\* mechanism: a back-jump must change the trail -- otherwise the same conflict is found again, the same clause learned,
\* the same level computed, for ever (the clause list grows by one each round)
Progress == ~st.stut
\* invariants of the mechanism
Assigned == { v \in DOMAIN st.asg : st.asg[v].on }
TrailConsistent ==
  /\ \A v \in Assigned : st.asg[v].lvl <= st.level /\ (st.asg[v].dec => st.asg[v].lvl >= 1)
  /\ \A lv \in 1..st.level : Cardinality({ v \in Assigned : st.asg[v].dec /\ st.asg[v].lvl = lv }) = 1
ReasonsAreUnit ==
  \A v \in { v \in Assigned : ~st.asg[v].dec } :
     LET a == st.asg[v]  c == st.cnf[a.rsn + 1] IN
     /\ <<v, a.val>> \in LitSet(c)
     /\ \A l \in LitSet(c) : l[1] # v => /\ st.asg[l[1]].on /\ st.asg[l[1]].val # l[2] /\ st.asg[l[1]].lvl <= a.lvl
LearnedEntailed == Len(st.cnf) > st.n0 =>
                   LET M == Models(st.cnf0) IN \A k \in (st.n0 + 1)..Len(st.cnf) : \A m \in M : HoldsIn(LitSet(st.cnf[k]), m)

\* ---------------------------------------------------------------- conformance with the recorded behaviour of the code
\* registers: 11 = vector indices whose recorded (verdict, certificate) is a result of this model,
\*            12 = vector indices from which this model closes a loop.  Run with one worker.
AsgOf(e) == { e.assignment[i] : i \in 1..Len(e.assignment) }
Matches(e, r) == /\ e.verdict = r.verdict
                 /\ e.verdict = "sat" => AsgOf(e) = r.asg
                 /\ e.verdict = "unsat" => e.proofs = r.proofs
Observe ==
  /\ (Conform /\ st.pc = "done" /\ Matches(Events[st.idx], st.result)) => TLCSet(11, TLCGet(11) \cup {st.idx})
  /\ st.stut => TLCSet(12, TLCGet(12) \cup {st.idx})
ConfPost ==
  LET matched == TLCGet(11)
      looping == TLCGet(12)
      n == Len(Events)
      bad == { i \in 1..n : IF Events[i].verdict = "timeout" THEN i \notin looping
                             ELSE IF Events[i].verdict \in {"sat", "unsat"} THEN i \notin matched ELSE TRUE } IN
  /\ JsonSerialize(IOEnv.CONF_FILE, [events |-> n, vectors |-> Len(Vectors), matched |-> Cardinality(matched),
                                     looping |-> SetToSeq(looping), unexplained |-> SetToSeq(bad),
                                     aligned |-> (n = Len(Vectors) /\ \A i \in 1..n : Events[i].vid = i /\ Events[i].cnf = Vectors[i].cnf)])
=============================================================================
