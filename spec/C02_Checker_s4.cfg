SPECIFICATION Spec
CONSTANTS MaxItems = 2
 MaxSub = 2
 MaxBlocks = 3
 MaxDepth = 2
 MaxLeaves = 4
 Lean = TRUE
 Budget = 1
 IdOffs <- IdOffs1
 Rules = {"assume", "substitution", "subproof"}
 ArgKinds = {}
 ArityOffs <- ArityOffs1
 MaxAlias = 0
 Emit = TRUE
INVARIANT RefSound
INVARIANT RefGapFree
INVARIANT RefGapCount
INVARIANT RefModes
INVARIANT RefPositions
INVARIANT RefDecides
CHECK_DEADLOCK FALSE
