SPECIFICATION Spec
CONSTANTS MaxConn = 4
 MaxBin = 1
 Flavours = {"nat", "int", "natreal"}
 MainIdx = {1, 2, 3, 5, 6, 7}
 SideIdx = {4}
 RMainIdx = {1, 2, 5}
 RSideIdx = {3}
 N = 2
INVARIANT TypeOK
INVARIANT WellScoped
INVARIANT OracleOK
POSTCONDITION Emit
CHECK_DEADLOCK FALSE
