--------------------------- MODULE C17_CongCAlgo ---------------------------
(* C17, implementation level: the Nieuwenhuis-Oliveras congruence closure AS CODED in        *)
(* prover/congc.py (class CongClosure), written as functions on a state record so that the   *)
(* I specification (C17_CongCImpl) and the trace specification (C17_CongCTrace) share them.  *)
(*   st.rep   constant |-> representative            (self.rep)                              *)
(*   st.cls   representative |-> sequence of members (self.class_list; <<>> = deleted key)   *)
(*   st.use   representative |-> sequence of f-equations (self.use_list)                     *)
(*   st.lk    <<r1, r2>> |-> f-equation or NoEq      (self.lookup; stale keys are kept)      *)
(*   st.pf    constant |-> <<parent, label>> or NoEdge   (self.proof_forest)                 *)
(*   st.pend  sequence of labels                      (self.pending)                         *)
(* label = <<"c", e, e>> for a constant equation e, <<"ff", e1, e2>> for two f-equations.     *)
EXTENDS Naturals, Sequences, FiniteSets, TLC

NoEq == <<"none">>
NoLab == <<"none", NoEq, NoEq>>
NoEdge == <<"", NoLab>>
LabC(e) == <<"c", e, e>>
LabF(e1, e2) == <<"ff", e1, e2>>
\* the two constants a label asserts equal
LabA(E) == IF E[1] = "c" THEN E[2][2] ELSE E[2][4]
LabB(E) == IF E[1] = "c" THEN E[3][3] ELSE E[3][4]
\* the input equations a label stands for
LabEqs(E) == IF E[1] = "c" THEN {E[2]} ELSE {E[2], E[3]}

StInit(U) == [rep |-> [c \in U |-> c], cls |-> [c \in U |-> <<c>>], use |-> [c \in U |-> <<>>],
              lk |-> [p \in U \X U |-> NoEq], pf |-> [c \in U |-> NoEdge], pend |-> <<>>]

\* ---- merge(s, t) up to the call of _propagate
MergeStart(st, e) ==
  IF e[1] = "c" THEN [st EXCEPT !.pend = Append(@, LabC(e))]
  ELSE LET k == <<st.rep[e[2]], st.rep[e[3]]>> IN
       IF st.lk[k] # NoEq THEN [st EXCEPT !.pend = Append(@, LabF(e, st.lk[k]))]
       ELSE [st EXCEPT !.lk = [@ EXCEPT ![k] = e],
                       !.use = [c \in DOMAIN @ |-> IF c = k[1] \/ c = k[2]
                                   THEN (IF k[1] = k[2] THEN @[c] \o <<e, e>> ELSE Append(@[c], e)) ELSE @[c]]]

\* ---- proof forest
RECURSIVE PathUp(_,_,_)
\* [(s, None), (p1, l1), (p2, l2), ...]; the fuel only makes the operator total on a cyclic parent map
PathUp(pf, s, acc) == IF pf[s] = NoEdge \/ Len(acc) > Cardinality(DOMAIN pf) THEN acc
                      ELSE PathUp(pf, pf[s][1], Append(acc, <<pf[s][1], pf[s][2]>>))
PathToRoot(pf, s) == PathUp(pf, s, << <<s, NoLab>> >>)
RootOf(pf, s) == LET p == PathToRoot(pf, s) IN p[Len(p)][1]
Acyclic(pf) == \A s \in DOMAIN pf : Len(PathToRoot(pf, s)) <= Cardinality(DOMAIN pf)
\* _add_edge_proof_forest(s1, s2, label): redirect s1 to s2 and reverse the path from s1 to its root
AddEdge(pf, s1, s2, lab) ==
  LET path == PathToRoot(pf, s1) IN
  TLCEval([c \in DOMAIN pf |->
     IF c = s1 THEN <<s2, lab>>
     ELSE IF \E i \in 1..(Len(path) - 1) : path[i+1][1] = c
          THEN LET i == CHOOSE i \in 1..(Len(path) - 1) : path[i+1][1] = c IN <<path[i][1], path[i+1][2]>>
          ELSE pf[c]])

\* ---- one iteration of the loop of _propagate
RECURSIVE UseFold(_,_,_,_,_,_)
\* processes use_list[rep_a] after the class move: <<lookup', use_list[rep_b]', new pending>>
UseFold(rep2, us, i, lk, ub, np) ==
  IF i > Len(us) THEN <<lk, ub, np>>
  ELSE LET e == us[i] k == <<rep2[e[2]], rep2[e[3]]>> IN
       IF lk[k] # NoEq THEN UseFold(rep2, us, i+1, lk, ub, Append(np, LabF(e, lk[k])))
       ELSE UseFold(rep2, us, i+1, [lk EXCEPT ![k] = e], Append(ub, e), np)
InSeq(x, s) == \E i \in 1..Len(s) : s[i] = x
PropStep(st) ==
  LET E == Head(st.pend)
      a0 == LabA(E)
      b0 == LabB(E)
      swap == Len(st.cls[st.rep[a0]]) > Len(st.cls[st.rep[b0]])
      a == IF swap THEN b0 ELSE a0
      b == IF swap THEN a0 ELSE b0
      ra == st.rep[a]
      rb == st.rep[b] IN
  IF ra = rb THEN [st EXCEPT !.pend = Tail(@)]
  ELSE LET rep2 == TLCEval([c \in DOMAIN st.rep |-> IF InSeq(c, st.cls[ra]) THEN rb ELSE st.rep[c]])
           r == UseFold(rep2, st.use[ra], 1, st.lk, st.use[rb], <<>>) IN
       [rep |-> rep2,
        cls |-> [st.cls EXCEPT ![rb] = st.cls[rb] \o st.cls[ra], ![ra] = <<>>],
        use |-> [st.use EXCEPT ![rb] = r[2], ![ra] = <<>>],
        lk |-> r[1],
        pf |-> AddEdge(st.pf, a, b, E),
        pend |-> Tail(st.pend) \o r[3]]
RECURSIVE PropAll(_)
PropAll(st) == IF st.pend = <<>> THEN st ELSE PropAll(PropStep(st))
DoMerge(st, e) == PropAll(MergeStart(st, e))
RECURSIVE RunFrom(_,_,_)
RunFrom(st, h, i) == IF i > Len(h) THEN st ELSE RunFrom(DoMerge(st, h[i]), h, i + 1)
\* the state of the data structure after the merges h (a sequence of equations) over universe U
Run(U, h) == RunFrom(StInit(U), h, 1)

\* ---- test / explain
TestAns(st, s, t) == st.rep[s] = st.rep[t]
SameTree(pf, s, t) == RootOf(pf, s) = RootOf(pf, t)
\* cur_path of explain(s, t): the labels from s up to the lowest common ancestor, then down to t
ExplainPath(pf, s, t) ==
  LET sp == PathToRoot(pf, s)
      tp == PathToRoot(pf, t)
      ls == Len(sp)
      lt == Len(tp)
      Common(k) == k <= ls /\ k <= lt /\ \A j \in 1..k : sp[ls - j + 1][1] = tp[lt - j + 1][1]
      pos == CHOOSE k \in 1..ls : Common(k) /\ ~Common(k + 1) IN
  [i \in 1..(ls - pos) |-> sp[i + 1][2]] \o [i \in 1..(lt - pos) |-> tp[lt - pos + 2 - i][2]]
RECURSIVE ExplainLabs(_,_,_,_)
\* all labels in the dictionary returned by explain(s, t) (recursive calls for the arguments of ff labels);
\* defined when s and t are in the same tree; fuel bounds the recursion on an ill-formed forest
ExplainLabs(pf, s, t, fuel) ==
  IF s = t \/ fuel = 0 THEN {}
  ELSE LET p == ExplainPath(pf, s, t)
           L == { p[i] : i \in 1..Len(p) } IN
       L \cup UNION { IF lab[1] = "c" THEN {}
                      ELSE ExplainLabs(pf, lab[2][2], lab[3][2], fuel - 1) \cup ExplainLabs(pf, lab[2][3], lab[3][3], fuel - 1)
                      : lab \in L }
ExplainEqs(pf, s, t) == UNION { LabEqs(lab) : lab \in ExplainLabs(pf, s, t, 2 * Cardinality(DOMAIN pf)) }
\* total version: the code asserts that s and t are in the same tree; {NoEq} is not an explanation of anything
SafeExplainEqs(pf, s, t) == IF SameTree(pf, s, t) THEN ExplainEqs(pf, s, t) ELSE {NoEq}
=============================================================================
