SPECIFICATION Spec
CONSTANTS Coef <- C3
 Pairs <- P2
 SumPairs <- SP1
 Bnd <- B2
 MaxD = 2
 MaxSteps = 3
 SubA <- A2
 LimC <- L1
 SubB <- S1
INVARIANT SameValueInv
INVARIANT TwoEvaluators
INVARIANT SimplifyIdempotent
POSTCONDITION Emit
CHECK_DEADLOCK FALSE
