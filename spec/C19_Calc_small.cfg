SPECIFICATION Spec
CONSTANTS Coef <- C3
 Bnd <- B3
 MaxD = 2
 MaxSteps = 3
 SubA <- A2
 SubB <- S2
INVARIANT SameValueInv
INVARIANT TwoEvaluators
INVARIANT SimplifyIdempotent
POSTCONDITION Emit
CHECK_DEADLOCK FALSE
