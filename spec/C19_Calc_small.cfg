SPECIFICATION Spec
CONSTANTS Coef <- C3
 Bnd <- B3
 MaxD = 2
 MaxSteps = 2
 SubA <- A2
 SubB <- S2
INVARIANT SameValueInv
INVARIANT ExaminableInv
INVARIANT TwoEvaluators
INVARIANT SimplifyIdempotent
POSTCONDITION Emit
CHECK_DEADLOCK FALSE
