SPECIFICATION Spec
CONSTANTS MaxConn = 3
 MaxBin = 1
 Flavours = {"nat", "int", "natreal"}
 MainIdx = {2, 3, 5, 6}
 SideIdx = {4}
 RMainIdx = {1, 5}
 RSideIdx = {3}
 N = 2
INVARIANT TypeOK
INVARIANT WellScoped
INVARIANT OracleOK
POSTCONDITION Emit
CHECK_DEADLOCK FALSE
