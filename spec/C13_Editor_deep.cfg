SPECIFICATION Spec
CONSTANTS MaxOps = 4
 MaxLines = 5
INVARIANT Contiguous
INVARIANT CitationsTrackItems
INVARIANT NoDanglingUnlessRemoved
INVARIANT ReplacedCitationsFollow
CHECK_DEADLOCK FALSE
