SPECIFICATION Spec
CONSTANTS Addr = {1,2,3}
 Structs = {"s1","s2"}
 MaxSteps = 6
 CopyReowns = FALSE
INVARIANT EqCorrect

CHECK_DEADLOCK FALSE
