------------------------------ MODULE X03_Poly ------------------------------
(* S-specification of X03, polynomials (util/poly.py).  Three registers p, q, r hold polynomials (canonical finite maps, X03_Defs).   *)
(* One action per public operation:                                                                                              *)
(*   load(g)  q := Polynomial([Monomial(c, factors), ...]) for a generator g        add / sub / mul   p := p + q | p - q | p * q          *)
(*   neg      p := -p        scale(c)  p := p.scale(c)        pow(n)  p := p ** n        rot   (p, q, r) := (q, r, p)                     *)
(*   laws(c)  observation: both sides of every ring law on (p, q, r) and the scalar c                                               *)
(* Init: (p, q, r) ranges over InitP x InitQ x InitR; with InitP = ALL polynomials of <= MaxMono monomials over the atoms x, y with     *)
(* powers in {-1, 1, 2, 3} (0 = absent) and coefficients in CoefSet this is the universe of the statement.  TLC explores all histories  *)
(* of <= MaxOps actions (results of more than MaxSize monomials or with a number beyond TLC's integers are cut) and, with Record,       *)
(* prints every behaviour for replay in the real code.                                                                            *)
(* Invariants (on the reference; the T specification applies the same clauses to what the code answers):                           *)
(*   NormalForm       no zero coefficient, no zero power, one coefficient per monomial, one power per atom                            *)
(*   EvalCommutes     the value of the result at four rational points is the value of the operation on the values of the operands     *)
(*                    (an independent semantics: the ring operations of X03_Defs are checked against evaluation)                     *)
(*   RingLaws         every law of X03_Defs.LawSides holds on (p, q, r)                                                               *)
EXTENDS X03_Machines, Json
CONSTANTS MaxMono, CoefSet, MaxOps, MaxSize, InitP, InitQ, InitR, Gens, Scalars, Kinds, Record, EmitAll
VARIABLES p, q, r, ops, hist, done, prev, init0
vars == <<p, q, r, ops, hist, done, prev, init0>>

\* ------------------------------------------------------------------ the universe
Half == <<1, 2>>   MinusOne == <<0 - 1, 1>>   Two == <<2, 1>>
Three == <<3, 1>>
PowSet == { MinusOne, ROne, Two, Three }
MkMono(px, py) == { f \in { <<"x", px>>, <<"y", py>> } : f[2] # RZero }
MonoU == { MkMono(px, py) : px \in PowSet \cup {RZero}, py \in PowSet \cup {RZero} }
Coefs3 == { MinusOne, Half, Two }
Coefs2 == { MinusOne, Half }
RECURSIVE Polys(_)
Polys(k) == IF k = 0 THEN { {} }
            ELSE LET S == Polys(k - 1) IN S \cup UNION { { s \cup { <<m, c>> } : m \in MonoU \ Monos(s), c \in CoefSet } : s \in S }
X == PAtom1("x", ROne)   Y == PAtom1("y", ROne)
One == PConst(ROne)
XInv == PAtom1("x", MinusOne)   XCube == PAtom1("x", Three)   YInv == PAtom1("y", MinusOne)
XY == PMul(X, Y)
Zero == {}
UniverseP == Polys(MaxMono)
\* named sets for the configurations
QSmall == { PAdd(X, PConst(Half)), PAdd(XInv, PNeg(Y)), PAdd(XCube, PScale(XY, Two)) }
RSmall == { PAdd(Y, PConst(MinusOne)) }
QWide == { Zero, One, X, PAdd(X, PConst(Half)), PAdd(XInv, PNeg(Y)), PAdd(XCube, PScale(XY, Two)), PAdd(PMul(X, X), PAdd(Y, One)) }
RWide == { PAdd(Y, PConst(MinusOne)), PAdd(YInv, XInv), Zero }
ZeroOnly == { Zero }
GensSmall == { X, Y, One, PConst(Half), XInv, XCube, PAdd(X, Y), PAdd(PScale(XY, Two), PConst(MinusOne)) }
GensInt == { X, Y, One, PConst(Half), XInv, PAdd(X, Y), PAdd(PScale(XY, Two), PConst(MinusOne)) }
ScalarsSmall == { RZero, MinusOne, Half, <<3, 1>> }
ScalarsOne == { Half }
KindsAll == {"load", "add", "sub", "mul", "neg", "scale", "pow", "rot", "laws", "hash"}
KindsOps == {"load", "add", "sub", "mul", "neg", "scale", "pow", "rot", "hash"}
KindsLaws == {"laws"}
QOne == { PAdd(XInv, PNeg(Y)) }

\* ------------------------------------------------------------------ the machine (the registers hold VALUES; X03_Machines.PoNextV)
Here == PSt(p, q, r)
Fits(v) == Cardinality(v) <= MaxSize /\ ~PHasOvf(v)
Init == /\ p \in InitP /\ q \in InitQ /\ r \in InitR /\ ops = 0 /\ hist = <<>> /\ done = FALSE
        /\ prev = [k |-> "init", p |-> p, q |-> q, c |-> RZero, n |-> 0] /\ init0 = <<p, q, r>>
\* prev: the operation just performed with the operands it read (ghost, for EvalCommutes)
Step(op) == LET n == PoNextV(Here, op) IN
            /\ Fits(n.p) /\ p' = n.p /\ q' = n.q /\ r' = n.r /\ ops' = ops + 1 /\ UNCHANGED <<done, init0>>
            /\ prev' = [k |-> op.k, p |-> p, q |-> q, c |-> op.c, n |-> op.n]
            /\ hist' = IF Record THEN Append(hist, op) ELSE hist
Load(g) == g # q /\ Step(POp("load", PSeq(g), RZero, 0))
Add == Step(POp("add", <<>>, RZero, 0))
Sub == Step(POp("sub", <<>>, RZero, 0))
Mul == Step(POp("mul", <<>>, RZero, 0))
NegP == Step(POp("neg", <<>>, RZero, 0))
Scale(c) == Step(POp("scale", <<>>, c, 0))
Pow(n) == Step(POp("pow", <<>>, RZero, n))
Rot == <<p, q, r>> # <<q, r, p>> /\ Step(POp("rot", <<>>, RZero, 0))
Laws(c) == Step(POp("laws", <<>>, c, 0))
Hash == Step(POp("hash", <<>>, RZero, 0))
Finish == /\ Record /\ ~done /\ (IF EmitAll THEN ops >= 1 ELSE ops = MaxOps) /\ done' = TRUE
          /\ PrintT(<<"X03P", ToJson([init |-> [p |-> PSeq(init0[1]), q |-> PSeq(init0[2]), r |-> PSeq(init0[3])],
                                      steps |-> hist, log |-> IF EmitAll THEN "last" ELSE "all"])>>)
          /\ UNCHANGED <<p, q, r, ops, hist, prev, init0>>
Act == /\ ~done /\ ops < MaxOps
       /\ \/ "load" \in Kinds /\ \E g \in Gens : Load(g)
          \/ "add" \in Kinds /\ Add
          \/ "sub" \in Kinds /\ Sub
          \/ "mul" \in Kinds /\ Mul
          \/ "neg" \in Kinds /\ NegP
          \/ "scale" \in Kinds /\ \E c \in Scalars : Scale(c)
          \/ "pow" \in Kinds /\ \E n \in 0..3 : Pow(n)
          \/ "rot" \in Kinds /\ Rot
          \/ "laws" \in Kinds /\ \E c \in Scalars : Laws(c)
          \/ "hash" \in Kinds /\ prev.k # "hash" /\ Hash
Next == Act \/ Finish
Spec == Init /\ [][Next]_vars

\* ------------------------------------------------------------------ the statement
NormalForm == PNF(p) /\ PNF(q) /\ PNF(r)
EvalCommutes == prev.k \in Arith => \A pt \in Points : EvalCommutesAt(prev.k, prev.p, prev.q, prev.c, prev.n, p, pt)
\* the evaluation is not vacuous: on the small values of the universe it is defined at every point
EvalDefined == (ops = 0 /\ Cardinality(p) <= 3) => \A pt \in Points : ~RIsOvf(EvalP(p, pt))
LawOK(nm, c) == LET s == LawSides(nm, p, q, r, c) IN PHasOvf(s[1]) \/ PHasOvf(s[2]) \/ (s[1] = s[2] /\ PNF(s[1]))
RingLaws == prev.k = "laws" => \A i \in 1..Len(LawNames) : LawOK(LawNames[i], prev.c)
\* the sequence handed to the code is a normal form in the module's own order and denotes the value
SeqDenotes == ops <= 1 => (LET s == PSeq(p) IN PAbs(s) = p /\ NFSeq(s) /\ SortedSeq(s))
=============================================================================
