SPECIFICATION Spec
CONSTANTS MaxItems = 2
 MaxSub = 1
 MaxBlocks = 1
 MaxDepth = 1
 MaxLeaves = 99
 Lean = FALSE
 Budget = 1
 IdOffs <- IdOffs3
 Rules = {"assume", "implies_intr", "substitution", "sorry", "subproof"}
 ArgKinds = {}
 ArityOffs <- ArityOffs1
 MaxAlias = 0
 Emit = FALSE
INVARIANT RefSound
INVARIANT RefGapFree
INVARIANT RefGapCount
INVARIANT RefModes
INVARIANT RefPositions
INVARIANT RefDecides
CHECK_DEADLOCK FALSE
