-------------------------------- MODULE Rat --------------------------------
(* Exact rational arithmetic for TLC.                                                          *)
(* A rational is a pair <<p, q>> of integers with q > 0 and gcd(|p|, q) = 1 (unique normal     *)
(* form, so TLA+ equality is numerical equality).  TLC integers are 32-bit and an overflow is   *)
(* an ERROR, so every operation checks magnitudes BEFORE multiplying/adding and returns the    *)
(* absorbing value ROvf == <<0, 0>> ("not representable here") as soon as a numerator or        *)
(* denominator would exceed RatLim = 2^30 - 1.  Users must treat ROvf as "not examinable",      *)
(* never as a number.                                                                          *)
EXTENDS Integers

RatLim == 1073741823
ROvf == <<0, 0>>
RIsOvf(x) == x[2] = 0
RAbs(n) == IF n < 0 THEN -n ELSE n
RSgn(n) == IF n < 0 THEN -1 ELSE IF n = 0 THEN 0 ELSE 1
RFits(n) == n <= RatLim /\ -n <= RatLim
\* the product a * b stays within RatLim (checked without computing it)
MulFits(a, b) == a = 0 \/ b = 0 \/ RAbs(a) <= RatLim \div RAbs(b)

RECURSIVE RGcd(_, _)
RGcd(a, b) == IF b = 0 THEN a ELSE RGcd(b, a % b)          \* a, b >= 0

\* normal form of p / q  (q # 0, both within RatLim)
RNorm(p, q) == IF p = 0 THEN <<0, 1>>
               ELSE LET g == RGcd(RAbs(p), RAbs(q)) IN
                    IF q < 0 THEN <<(-p) \div g, (-q) \div g>> ELSE <<p \div g, q \div g>>
RInt(n) == IF RFits(n) THEN <<n, 1>> ELSE ROvf
RIsInt(x) == x[2] = 1
RIsNorm(x) == x[2] > 0 /\ RFits(x[1]) /\ RFits(x[2]) /\ RGcd(RAbs(x[1]), x[2]) = 1

RNeg(x) == IF RIsOvf(x) THEN ROvf ELSE <<-x[1], x[2]>>

RAdd(x, y) ==
  IF RIsOvf(x) \/ RIsOvf(y) THEN ROvf
  ELSE IF x[2] = y[2] THEN LET s == x[1] + y[1] IN IF RFits(s) THEN RNorm(s, x[2]) ELSE ROvf
  ELSE LET g == RGcd(x[2], y[2])  mx == y[2] \div g  my == x[2] \div g IN
       IF MulFits(x[1], mx) /\ MulFits(y[1], my) /\ MulFits(x[2], mx)
       THEN LET s == x[1] * mx + y[1] * my IN IF RFits(s) THEN RNorm(s, x[2] * mx) ELSE ROvf
       ELSE ROvf
RSub(x, y) == RAdd(x, RNeg(y))

RMul(x, y) ==
  IF RIsOvf(x) \/ RIsOvf(y) THEN ROvf
  ELSE IF x[1] = 0 \/ y[1] = 0 THEN <<0, 1>>
  ELSE LET g1 == RGcd(RAbs(x[1]), y[2])  g2 == RGcd(RAbs(y[1]), x[2])
           a == x[1] \div g1  b == y[1] \div g2  c == x[2] \div g2  d == y[2] \div g1 IN
       IF MulFits(a, b) /\ MulFits(c, d) THEN <<a * b, c * d>> ELSE ROvf

\* HOL convention: the inverse of 0 is 0
RInv(x) == IF RIsOvf(x) THEN ROvf ELSE IF x[1] = 0 THEN <<0, 1>>
           ELSE IF x[1] < 0 THEN <<-x[2], -x[1]>> ELSE <<x[2], x[1]>>
RDiv(x, y) == RMul(x, RInv(y))
RAbsQ(x) == IF RIsOvf(x) THEN ROvf ELSE <<RAbs(x[1]), x[2]>>

\* comparison: -1, 0, 1, or 2 when it cannot be decided within the magnitude limit
RCmp(x, y) ==
  IF RIsOvf(x) \/ RIsOvf(y) THEN 2
  ELSE IF x = y THEN 0
  ELSE IF x[2] = y[2] THEN (IF x[1] < y[1] THEN -1 ELSE 1)
  ELSE IF RSgn(x[1]) # RSgn(y[1]) THEN (IF x[1] < y[1] THEN -1 ELSE 1)
  ELSE IF MulFits(x[1], y[2]) /\ MulFits(y[1], x[2]) THEN (IF x[1] * y[2] < y[1] * x[2] THEN -1 ELSE 1)
  ELSE 2

\* x ^ n for a natural number n (0 ^ 0 = 1)
RECURSIVE RPowRec(_, _)
RPowRec(x, n) == IF n = 0 THEN <<1, 1>> ELSE LET r == RPowRec(x, n - 1) IN IF RIsOvf(r) THEN ROvf ELSE RMul(x, r)
RPow(x, n) ==
  IF RIsOvf(x) \/ n < 0 THEN ROvf
  ELSE IF n = 0 THEN <<1, 1>>
  ELSE IF x[1] = 0 THEN <<0, 1>>
  ELSE IF x = <<1, 1>> THEN x
  ELSE IF x = <<-1, 1>> THEN (IF n % 2 = 0 THEN <<1, 1>> ELSE x)
  ELSE IF n > 62 THEN ROvf                      \* |x| # 1: numerator or denominator >= 2, so 2^63 would not fit
  ELSE RPowRec(x, n)

\* integer square root (floor) of 0 <= n <= RatLim by bisection on [lo, hi)
RECURSIVE RISqrtRec(_, _, _)
RISqrtRec(n, lo, hi) == IF hi - lo <= 1 THEN lo
                        ELSE LET m == (lo + hi) \div 2 IN IF m * m <= n THEN RISqrtRec(n, m, hi) ELSE RISqrtRec(n, lo, m)
RISqrt(n) == RISqrtRec(n, 0, 32768)            \* 32767^2 < 2^30
RIsSquare(n) == n >= 0 /\ LET r == RISqrt(n) IN r * r = n
=============================================================================
