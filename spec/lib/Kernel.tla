------------------------------- MODULE Kernel -------------------------------
(* The 15 primitive rules of kernel/thm.py, written from their inference-rule statements. *)
(* A sequent is [h |-> set of terms, c |-> term].  Each rule returns a sequent or Err.     *)
EXTENDS HolTerms
Sq(H, c) == [h |-> H, c |-> c]
ErrS == [h |-> {}, c |-> Err]
IsErrS(th) == th.c = Err
Assume(A) == Sq({A}, A)
ImpliesIntr(A, th) == Sq(th.h \ {A}, Imp(A, th.c))
ImpliesElim(t1, t2) == IF IsImp(t1.c) /\ Arg1(t1.c) = t2.c THEN Sq(t1.h \cup t2.h, Arg(t1.c)) ELSE ErrS
Reflexive(x) == IF WellTyped(x) THEN Sq({}, MkEq(x, x)) ELSE ErrS
Symmetric(th) == IF IsEq(th.c) THEN Sq(th.h, App(App(th.c[2][2], Arg(th.c)), Arg1(th.c))) ELSE ErrS
Transitive(t1, t2) == IF IsEq(t1.c) /\ IsEq(t2.c) /\ Arg(t1.c) = Arg1(t2.c)
                      THEN Sq(t1.h \cup t2.h, App(App(t1.c[2][2], Arg1(t1.c)), Arg(t2.c))) ELSE ErrS
Combination(t1, t2) ==
  IF IsEq(t1.c) /\ IsEq(t2.c) THEN
     LET f == Arg1(t1.c) g == Arg(t1.c) x == Arg1(t2.c) y == Arg(t2.c) Tf == TypeOf(f, <<>>) IN
     IF Tf # Err /\ IsFun(Tf) /\ Tf[3][1] = TypeOf(x, <<>>) THEN Sq(t1.h \cup t2.h, MkEq(App(f, x), App(g, y))) ELSE ErrS
  ELSE ErrS
EqualIntr(t1, t2) == IF IsImp(t1.c) /\ IsImp(t2.c) /\ Arg1(t1.c) = Arg(t2.c) /\ Arg(t1.c) = Arg1(t2.c)
                     THEN Sq(t1.h \cup t2.h, MkEq(Arg1(t1.c), Arg(t1.c))) ELSE ErrS
EqualElim(t1, t2) == IF IsEq(t1.c) /\ Arg1(t1.c) = t2.c THEN Sq(t1.h \cup t2.h, Arg(t1.c)) ELSE ErrS
SubstType(ti, th) == Sq({ STypeTerm(x, ti) : x \in th.h }, STypeTerm(th.c, ti))
\* ONE instantiation for the whole sequent: the type instantiation is first completed by matching the types of all
\* instantiated schematic variables of all hypotheses and of the conclusion, then applied everywhere
Substitution(inst, th) ==
  LET svs == UNION { SVarsOf(x) : x \in th.h \cup {th.c} }
      ti == MatchSVTypes(svs, inst.sv, inst.ty)
  IN IF ti = ErrAL THEN ErrS
     ELSE LET full == [ty |-> ti, sv |-> inst.sv]
              H == { Subst(x, full) : x \in th.h } c == Subst(th.c, full) IN
          IF Err \in H \/ c = Err THEN ErrS ELSE Sq(H, c)
BetaConvR(t) == LET r == BetaConv(t) IN IF r = Err \/ ~WellTyped(t) THEN ErrS ELSE Sq({}, MkEq(t, r))
IsV(x) == x[1] \in {"var","svar"}
Abstraction(x, th) == IF ~IsV(x) \/ (\E hh \in th.h : Occurs(hh, x)) \/ ~IsEq(th.c) THEN ErrS
                      ELSE LET l == Lambda(x, Arg1(th.c)) r == Lambda(x, Arg(th.c)) IN
                           IF l = Err \/ r = Err THEN ErrS ELSE Sq(th.h, MkEq(l, r))
ForallIntr(x, th) == IF ~IsV(x) \/ (\E hh \in th.h : Occurs(hh, x)) THEN ErrS
                     ELSE LET f == Forall(x, th.c) IN IF f = Err THEN ErrS ELSE Sq(th.h, f)
ForallElim(s, th) == IF IsAll(th.c) /\ th.c[3][2] = TypeOf(s, <<>>) THEN Sq(th.h, SubstBound(th.c[3], s)) ELSE ErrS
SeqWellTyped(th) == ~IsErrS(th) /\ \A x \in th.h \cup {th.c} : TypeOf(x, <<>>) = BoolT
=============================================================================
