------------------------------- MODULE HolSem -------------------------------
(* Finite standard models of HOL: every type variable is a finite non-empty set, function types are FULL function spaces. *)
(* A type assignment ta maps type variables <<"tv"|"stv", name>> to finite non-empty SETS.                               *)
EXTENDS HolTerms, SequencesExt
RECURSIVE Dom(_,_)
Dom(T, ta) == IF T[1] \in {"tv","stv"} THEN ta[<<T[1],T[2]>>]
              ELSE IF T = BoolT THEN BOOLEAN
              ELSE IF IsFun(T) THEN [Dom(T[3][1], ta) -> Dom(T[3][2], ta)]
              ELSE {"?"}
Interp == {"equals","implies","all","true","false","neg","conj","disj","exists"}
RECURSIVE SymsOf(_), TVarsOfTerm(_)
SymsOf(t) == CASE t[1] \in {"svar","var"} -> {t}
               [] t[1] = "const" -> IF t[2] \in Interp THEN {} ELSE {t}
               [] t[1] = "comb" -> SymsOf(t[2]) \cup SymsOf(t[3])
               [] t[1] = "abs" -> SymsOf(t[3])
               [] OTHER -> {}
TVarsOfTerm(t) == CASE t[1] \in {"svar","var","const"} -> TyVarsOf(t[3])
               [] t[1] = "comb" -> TVarsOfTerm(t[2]) \cup TVarsOfTerm(t[3])
               [] t[1] = "abs" -> TyVarsOf(t[2]) \cup TVarsOfTerm(t[3])
               [] OTHER -> {}
ConstVal(n, T, ta) ==
  CASE n = "equals" -> [x \in Dom(T[3][1], ta) |-> [y \in Dom(T[3][1], ta) |-> x = y]]
    [] n = "implies" -> [x \in BOOLEAN |-> [y \in BOOLEAN |-> x => y]]
    [] n = "all" -> [f \in Dom(T[3][1], ta) |-> \A x \in DOMAIN f : f[x]]
    [] n = "exists" -> [f \in Dom(T[3][1], ta) |-> \E x \in DOMAIN f : f[x]]
    [] n = "true" -> TRUE [] n = "false" -> FALSE
    [] n = "neg" -> [x \in BOOLEAN |-> ~x]
    [] n = "conj" -> [x \in BOOLEAN |-> [y \in BOOLEAN |-> x /\ y]]
    [] n = "disj" -> [x \in BOOLEAN |-> [y \in BOOLEAN |-> x \/ y]]
RECURSIVE Eval(_,_,_,_)
Eval(t, va, benv, ta) ==
  CASE t[1] \in {"svar","var"} -> va[t]
    [] t[1] = "const" -> IF t[2] \in Interp THEN ConstVal(t[2], t[3], ta) ELSE va[t]
    [] t[1] = "bound" -> benv[t[2]+1]
    [] t[1] = "abs" -> [x \in Dom(t[2], ta) |-> Eval(t[3], va, <<x>> \o benv, ta)]
    [] t[1] = "comb" -> Eval(t[2], va, benv, ta)[Eval(t[3], va, benv, ta)]
RECURSIVE Assigns(_,_)
Assigns(S, ta) == IF S = {} THEN { <<>> }
                  ELSE LET s == CHOOSE x \in S : TRUE IN
                       { (s :> d) @@ f : d \in Dom(s[3], ta), f \in Assigns(S \ {s}, ta) }
\* lazy universal quantification over the values of the symbols in symSeq (no set of assignments is built)
RECURSIVE HoldsAll(_,_,_,_,_)
HoldsAll(th, symSeq, i, va, ta) ==
  IF i > Len(symSeq) THEN (\A x \in th.h : Eval(x, va, <<>>, ta)) => Eval(th.c, va, <<>>, ta)
  ELSE \A d \in Dom(symSeq[i][3], ta) : HoldsAll(th, symSeq, i + 1, (symSeq[i] :> d) @@ va, ta)
SeqSyms(th) == UNION { SymsOf(x) : x \in th.h } \cup SymsOf(th.c)
SeqTVars(th) == UNION { TVarsOfTerm(x) : x \in th.h } \cup TVarsOfTerm(th.c)
Carriers(N) == { 1..k : k \in 1..N }
\* validity of a sequent [h |-> set, c |-> term] in all models with type-variable sizes 1..N
Valid(th, N) ==
  LET symSeq == SetToSeq(SeqSyms(th)) IN
  \A ta \in [SeqTVars(th) -> Carriers(N)] : HoldsAll(th, symSeq, 1, <<>>, ta)
\* size guard: function spaces are capped so that evaluation stays tractable
RECURSIVE TOrder(_)
TOrder(T) == IF IsFun(T) THEN LET a == TOrder(T[3][1]) + 1 b == TOrder(T[3][2]) IN IF a > b THEN a ELSE b ELSE 0
\* every type occurring in a term (symbols and binders)
RECURSIVE TypesIn(_)
TypesIn(t) == CASE t[1] \in {"svar","var"} -> {t[3]}
               [] t[1] = "const" -> IF t[2] \in Interp THEN (IF IsFun(t[3]) THEN {t[3][3][1]} ELSE {}) ELSE {t[3]}
               [] t[1] = "comb" -> TypesIn(t[2]) \cup TypesIn(t[3])
               [] t[1] = "abs" -> {t[2]} \cup TypesIn(t[3])
               [] OTHER -> {}
RECURSIVE OnlyBase(_), Pow(_,_), DomSize(_,_)
\* built from type variables, bool and fun only
OnlyBase(T) == IF T[1] \in {"tv","stv"} THEN TRUE ELSE IF T = BoolT THEN TRUE
               ELSE IF IsFun(T) THEN OnlyBase(T[3][1]) /\ OnlyBase(T[3][2]) ELSE FALSE
Pow(b, e) == IF e = 0 THEN 1 ELSE LET r == Pow(b, e - 1) IN IF r > 100000 \div b THEN 100001 ELSE b * r
\* size of Dom(T) when every type variable has n elements (saturating at 100001)
DomSize(T, n) == IF T[1] \in {"tv","stv"} THEN n ELSE IF T = BoolT THEN 2
                 ELSE LET a == DomSize(T[3][1], n) b == DomSize(T[3][2], n) IN IF a > 16 THEN 100001 ELSE Pow(b, a)
RECURSIVE ProdSizes(_,_,_)
ProdSizes(symSeq, i, n) == IF i > Len(symSeq) THEN 1
                           ELSE LET r == ProdSizes(symSeq, i + 1, n) d == DomSize(symSeq[i][3], n) IN
                                IF r > 100000 \/ d > 100000 THEN 100001 ELSE IF r > 100000 \div d THEN 100001 ELSE r * d
\* a sequent is examinable when all its types are base types whose domains are small and the number of assignments is small
Examinable(th, n) ==
  LET ts == UNION { TypesIn(x) : x \in th.h \cup {th.c} } IN
  /\ \A T \in ts : OnlyBase(T) /\ DomSize(T, n) <= 256
  /\ ProdSizes(SetToSeq(SeqSyms(th)), 1, n) <= 70000
=============================================================================
