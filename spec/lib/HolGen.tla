------------------------------- MODULE HolGen -------------------------------
(* Typed term generator: enumerates EXACTLY the well-typed terms of a given type up to a  *)
(* depth over a signature (no generate-and-filter).                                      *)
(*   Sig      : set of atoms  <<"var"|"svar"|"const", name, T>>                          *)
(*   ArgTypes : set of types that may occur as the argument type of an application        *)
(*   env      : sequence of binder types (innermost first) for loose bound variables      *)
EXTENDS HolTerms
RECURSIVE Gen(_,_,_,_,_)
Gen(Sig, ArgTypes, T, d, env) ==
  LET atoms == { s \in Sig : s[3] = T } \cup { <<"bound", k - 1>> : k \in { k \in 1..Len(env) : env[k] = T } } IN
  IF d = 0 THEN atoms
  ELSE atoms
       \cup UNION { { <<"comb", f, a>> : f \in Gen(Sig, ArgTypes, FunT(A, T), d - 1, env), a \in Gen(Sig, ArgTypes, A, d - 1, env) } : A \in ArgTypes }
       \cup (IF IsFun(T) THEN { <<"abs", T[3][1], b>> : b \in Gen(Sig, ArgTypes, T[3][2], d - 1, <<T[3][1]>> \o env) } ELSE {})
\* eta-normal form (nameless): %. f (Bound 0)  with Bound 0 not free in f   ==>   f shifted down
RECURSIVE HasBound(_,_), Shift(_,_), EtaNorm(_)
HasBound(t, n) == CASE t[1] = "bound" -> t[2] = n [] t[1] = "comb" -> HasBound(t[2], n) \/ HasBound(t[3], n)
                    [] t[1] = "abs" -> HasBound(t[3], n + 1) [] OTHER -> FALSE
\* decrement loose bound variables > lev (used after removing a binder whose variable does not occur)
Shift(t, lev) == CASE t[1] = "bound" -> IF t[2] > lev THEN <<"bound", t[2] - 1>> ELSE t
                   [] t[1] = "comb" -> <<"comb", Shift(t[2], lev), Shift(t[3], lev)>>
                   [] t[1] = "abs" -> <<"abs", t[2], Shift(t[3], lev + 1)>>
                   [] OTHER -> t
EtaNorm(t) == CASE t[1] = "comb" -> <<"comb", EtaNorm(t[2]), EtaNorm(t[3])>>
                [] t[1] = "abs" -> LET b == EtaNorm(t[3]) IN
                      IF b[1] = "comb" /\ b[3] = <<"bound", 0>> /\ ~HasBound(b[2], 0) THEN Shift(b[2], 0) ELSE <<"abs", t[2], b>>
                [] OTHER -> t
RECURSIVE HasRedex(_)
HasRedex(t) == CASE t[1] = "comb" -> t[2][1] = "abs" \/ HasRedex(t[2]) \/ HasRedex(t[3])
                 [] t[1] = "abs" -> HasRedex(t[3]) [] OTHER -> FALSE
RECURSIVE FreeVarsOf(_)
FreeVarsOf(t) == CASE t[1] = "var" -> {t} [] t[1] = "comb" -> FreeVarsOf(t[2]) \cup FreeVarsOf(t[3])
                   [] t[1] = "abs" -> FreeVarsOf(t[3]) [] OTHER -> {}
=============================================================================
