------------------------------ MODULE TraceLib ------------------------------
(* Skeleton shared by all trace specifications (kind T).                              *)
(* The event file is ndjson (one JSON object per line, field "tid" unique).           *)
(* Every event receives a TOTAL verdict: the set of names of failing clauses.         *)
(* TLC does not stop at the first failing event; verdicts are collected in TLC        *)
(* registers and written as JSON by the post-condition.  Run with -workers 1.         *)
EXTENDS Naturals, Sequences, TLC, Json, IOUtils
Trace == ndJsonDeserialize(IOEnv.TRACE_FILE)
VARIABLE l
TInit == l = 1 /\ TLCSet(1, <<>>) /\ TLCSet(2, 0) /\ TLCSet(3, <<>>) /\ TLCSet(4, <<>>) /\ TLCSet(5, <<>>)
\* fails : set of clause names (strings);  nt : the event exercised a clause non-trivially;
\* dv : the code differs from the reference without violating the property (informational)
TStep(tid, fails, nt, dv) ==
  /\ l <= Len(Trace) /\ l' = l + 1
  /\ IF fails # {} THEN TLCSet(1, Append(TLCGet(1), [tid |-> tid, fail |-> fails])) ELSE TRUE
  /\ IF nt THEN TLCSet(3, Append(TLCGet(3), tid)) ELSE TRUE
  /\ IF dv THEN TLCSet(4, Append(TLCGet(4), tid)) ELSE TRUE
  /\ TLCSet(2, TLCGet(2) + 1)
\* same, with a free-form information record appended to the verdict file
TStepInfo(tid, fails, nt, dv, info) == TStep(tid, fails, nt, dv) /\ TLCSet(5, Append(TLCGet(5), info))
TPost == /\ TLCGet(2) = Len(Trace)
         /\ JsonSerialize(IOEnv.VERDICT_FILE,
               [consumed |-> TLCGet(2), fails |-> TLCGet(1), nontrivial |-> TLCGet(3), divergences |-> TLCGet(4), info |-> TLCGet(5)])
=============================================================================
