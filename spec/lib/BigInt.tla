------------------------------- MODULE BigInt -------------------------------
(* Arbitrary-precision integers and (unnormalised) rationals for TLC, whose own integers are 32-bit.        *)
(*                                                                                                          *)
(* A magnitude is a tuple of limbs in base BBase = 10^4, LEAST significant first, without most-significant  *)
(* zero limbs (0 is <<>>).  Limb products stay below 10^8 + 10^4, so no native operation can overflow.      *)
(* A big integer is << sign, magnitude >> with sign in {-1, 0, 1} (0 exactly for <<>>): the representation   *)
(* is canonical, so TLA+ equality is numerical equality.                                                    *)
(* Only addition, subtraction, multiplication and comparison are provided: no division, no gcd.  A rational *)
(* is a pair << p, q >> of big integers with q > 0, NOT normalised; rationals are compared by               *)
(* cross-multiplication (QCmp), never with =.                                                               *)
(* The laws of this module are model-checked against native integers in spec/C05_BigIntLaws.tla.            *)
EXTENDS Integers, Sequences

BBase == 10000

\* ---------------------------------------------------------------- magnitudes
RECURSIVE MStrip(_)
MStrip(a) == IF Len(a) = 0 THEN a ELSE IF a[Len(a)] = 0 THEN MStrip(SubSeq(a, 1, Len(a) - 1)) ELSE a
MOk(a) == (\A i \in 1..Len(a) : a[i] >= 0 /\ a[i] < BBase) /\ (Len(a) = 0 \/ a[Len(a)] # 0)

RECURSIVE MAddC(_, _, _)
MAddC(a, b, c) ==              \* a + b + c, c in {0, 1}
  IF Len(a) = 0 /\ Len(b) = 0 THEN (IF c = 0 THEN <<>> ELSE <<c>>)
  ELSE LET x == IF Len(a) = 0 THEN 0 ELSE a[1]  y == IF Len(b) = 0 THEN 0 ELSE b[1]  s == x + y + c
           ta == IF Len(a) = 0 THEN a ELSE Tail(a)  tb == IF Len(b) = 0 THEN b ELSE Tail(b) IN
       <<s % BBase>> \o MAddC(ta, tb, s \div BBase)
MAdd(a, b) == MAddC(a, b, 0)

RECURSIVE MCmpFrom(_, _, _)
MCmpFrom(a, b, i) == IF i = 0 THEN 0 ELSE IF a[i] < b[i] THEN -1 ELSE IF a[i] > b[i] THEN 1 ELSE MCmpFrom(a, b, i - 1)
MCmp(a, b) == IF Len(a) < Len(b) THEN -1 ELSE IF Len(a) > Len(b) THEN 1 ELSE MCmpFrom(a, b, Len(a))

RECURSIVE MSubB(_, _, _)
MSubB(a, b, w) ==              \* a - b - w for a >= b + w, w in {0, 1}; not stripped
  IF Len(a) = 0 THEN <<>>
  ELSE LET y == IF Len(b) = 0 THEN 0 ELSE b[1]  d == a[1] - y - w  tb == IF Len(b) = 0 THEN b ELSE Tail(b) IN
       IF d < 0 THEN <<d + BBase>> \o MSubB(Tail(a), tb, 1) ELSE <<d>> \o MSubB(Tail(a), tb, 0)
MSub(a, b) == MStrip(MSubB(a, b, 0))     \* requires MCmp(a, b) >= 0

RECURSIVE MMulLimb(_, _, _)
MMulLimb(a, d, c) ==           \* a * d + c  for a limb d and a carry c < BBase
  IF Len(a) = 0 THEN (IF c = 0 THEN <<>> ELSE <<c>>)
  ELSE LET s == a[1] * d + c IN <<s % BBase>> \o MMulLimb(Tail(a), d, s \div BBase)
RECURSIVE MMul(_, _)
MMul(a, b) == IF Len(a) = 0 \/ Len(b) = 0 THEN <<>>
              ELSE LET rest == MMul(Tail(a), b) IN
                   MAdd(IF a[1] = 0 THEN <<>> ELSE MMulLimb(b, a[1], 0), IF Len(rest) = 0 THEN rest ELSE <<0>> \o rest)

\* ---------------------------------------------------------------- integers
BZero == <<0, <<>>>>
BOne == <<1, <<1>>>>
BMk(s, m) == IF Len(m) = 0 THEN BZero ELSE <<s, m>>
BOk(x) == MOk(x[2]) /\ x[1] \in {-1, 0, 1} /\ (x[1] = 0 <=> Len(x[2]) = 0)
RECURSIVE MFromNat(_)
MFromNat(n) == IF n = 0 THEN <<>> ELSE <<n % BBase>> \o MFromNat(n \div BBase)
BFromInt(n) == IF n = 0 THEN BZero ELSE IF n > 0 THEN <<1, MFromNat(n)>> ELSE <<-1, MFromNat(-n)>>     \* n # -2^31
\* from limbs given least significant first (as read from an event); BZero-like garbage for ill-formed input is excluded by BLimbsOk
BLimbsOk(ls) == \A i \in 1..Len(ls) : ls[i] >= 0 /\ ls[i] < BBase
BFromLimbs(ls) == BMk(1, MStrip(ls))
BNeg(x) == <<-x[1], x[2]>>
BAbs(x) == <<x[1] * x[1], x[2]>>
BAdd(x, y) == IF x[1] = 0 THEN y ELSE IF y[1] = 0 THEN x
              ELSE IF x[1] = y[1] THEN <<x[1], MAdd(x[2], y[2])>>
              ELSE LET c == MCmp(x[2], y[2]) IN
                   IF c = 0 THEN BZero ELSE IF c > 0 THEN <<x[1], MSub(x[2], y[2])>> ELSE <<y[1], MSub(y[2], x[2])>>
BSub(x, y) == BAdd(x, BNeg(y))
BMul(x, y) == IF x[1] = 0 \/ y[1] = 0 THEN BZero ELSE <<x[1] * y[1], MMul(x[2], y[2])>>
BCmp(x, y) == IF x[1] # y[1] THEN (IF x[1] < y[1] THEN -1 ELSE 1)
              ELSE IF x[1] = 0 THEN 0 ELSE x[1] * MCmp(x[2], y[2])
\* the native value, for |x| < 10^8 (at most two limbs)
BSmall(x) == Len(x[2]) <= 2
BToInt(x) == x[1] * (IF Len(x[2]) = 0 THEN 0 ELSE IF Len(x[2]) = 1 THEN x[2][1] ELSE x[2][1] + BBase * x[2][2])
RECURSIVE BPowRec(_, _)
BPowRec(x, n) == IF n = 0 THEN BOne ELSE BMul(x, BPowRec(x, n - 1))
BPowMax == 64
BPow(x, n) == BPowRec(x, n)            \* 0 <= n <= BPowMax is the caller's business

\* ---------------------------------------------------------------- unnormalised rationals << p, q >>, q > 0
QInt(x) == <<x, BOne>>
QZero == QInt(BZero)
QNeg(x) == <<BNeg(x[1]), x[2]>>
QAdd(x, y) == IF x[2] = y[2] THEN <<BAdd(x[1], y[1]), x[2]>> ELSE <<BAdd(BMul(x[1], y[2]), BMul(y[1], x[2])), BMul(x[2], y[2])>>
QSub(x, y) == QAdd(x, QNeg(y))
QMul(x, y) == <<BMul(x[1], y[1]), BMul(x[2], y[2])>>
\* HOL convention: the inverse of 0 is 0
QInv(x) == IF x[1][1] = 0 THEN QZero ELSE IF x[1][1] > 0 THEN <<x[2], x[1]>> ELSE <<BNeg(x[2]), BNeg(x[1])>>
QDiv(x, y) == QMul(x, QInv(y))
QAbs(x) == <<BAbs(x[1]), x[2]>>
QCmp(x, y) == IF x[2] = y[2] THEN BCmp(x[1], y[1]) ELSE BCmp(BMul(x[1], y[2]), BMul(y[1], x[2]))
QSgn(x) == x[1][1]
RECURSIVE QPowRec(_, _)
QPowRec(x, n) == IF n = 0 THEN QInt(BOne) ELSE QMul(x, QPowRec(x, n - 1))
=============================================================================
