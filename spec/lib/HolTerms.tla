------------------------------ MODULE HolTerms ------------------------------
(* Reference term algebra of HOL (nameless / de Bruijn).  Encodings are tuples so that *)
(* JsonDeserialize of the codec's arrays yields exactly these values.                  *)
(*   types : <<"tv",a>>  <<"stv",a>>  <<"tc",name,<<args>>>>                           *)
(*   terms : <<"svar",n,T>> <<"var",n,T>> <<"const",n,T>> <<"comb",f,a>>               *)
(*           <<"abs",T,body>> <<"bound",k>>                                            *)
EXTENDS Naturals, Sequences, FiniteSets, TLC

Err == <<"err">>
BoolT == <<"tc","bool",<<>>>>
FunT(A, B) == <<"tc","fun",<<A,B>>>>
IsFun(T) == T[1] = "tc" /\ T[2] = "fun" /\ Len(T[3]) = 2

\* association lists: sequences of <<key, value>>
Keys(al) == { al[i][1] : i \in 1..Len(al) }
Lookup(al, k) == LET I == { i \in 1..Len(al) : al[i][1] = k } IN al[CHOOSE i \in I : \A j \in I : i <= j][2]
Put(al, k, v) == IF k \in Keys(al) THEN al ELSE Append(al, <<k, v>>)

RECURSIVE TSubst(_,_), TyVarsOf(_)
\* Type.subst: only schematic type variables are instantiated
TSubst(T, ti) == CASE T[1] = "stv" -> IF T[2] \in Keys(ti) THEN Lookup(ti, T[2]) ELSE T
                   [] T[1] = "tv" -> T
                   [] T[1] = "tc" -> <<"tc", T[2], [i \in 1..Len(T[3]) |-> TSubst(T[3][i], ti)]>>
TyVarsOf(T) == IF T[1] \in {"tv","stv"} THEN {<<T[1],T[2]>>} ELSE UNION { TyVarsOf(T[3][i]) : i \in 1..Len(T[3]) }
\* Type.match_incr: one-way matching of pattern P against T, extending ti; returns ti' or ErrAL
\* (ErrAL is itself shaped like an association list so that TLC can compare it with one)
ErrAL == << <<"!err", <<"tv", "!err">> >> >>
RECURSIVE TMatch(_,_,_), TMatchArgs(_,_,_,_)
TMatch(P, T, ti) ==
  CASE P[1] = "stv" -> IF P[2] \in Keys(ti) THEN (IF Lookup(ti, P[2]) = T THEN ti ELSE ErrAL) ELSE Append(ti, <<P[2], T>>)
    [] P[1] = "tv" -> IF P = T THEN ti ELSE ErrAL
    [] P[1] = "tc" -> IF T[1] # "tc" \/ T[2] # P[2] \/ Len(T[3]) # Len(P[3]) THEN ErrAL ELSE TMatchArgs(P[3], T[3], 1, ti)
TMatchArgs(Ps, Ts, i, ti) == IF ti = ErrAL THEN ErrAL ELSE IF i > Len(Ps) THEN ti ELSE TMatchArgs(Ps, Ts, i+1, TMatch(Ps[i], Ts[i], ti))

\* ---- typing (Term.checked_get_type) ----
RECURSIVE TypeOf(_,_)
TypeOf(t, env) ==
  CASE t[1] \in {"svar","var","const"} -> t[3]
    [] t[1] = "bound" -> IF t[2] < Len(env) THEN env[t[2]+1] ELSE Err
    [] t[1] = "abs" -> LET b == TypeOf(t[3], <<t[2]>> \o env) IN IF b = Err THEN Err ELSE FunT(t[2], b)
    [] t[1] = "comb" -> LET f == TypeOf(t[2], env) a == TypeOf(t[3], env) IN
          IF f # Err /\ a # Err /\ IsFun(f) /\ f[3][1] = a THEN f[3][2] ELSE Err
WellTyped(t) == TypeOf(t, <<>>) # Err
RECURSIVE IsOpenAt(_,_)
IsOpenAt(t, n) == CASE t[1] = "bound" -> t[2] >= n [] t[1] = "comb" -> IsOpenAt(t[2], n) \/ IsOpenAt(t[3], n)
                    [] t[1] = "abs" -> IsOpenAt(t[3], n+1) [] OTHER -> FALSE
IsOpen(t) == IsOpenAt(t, 0)

\* ---- de Bruijn arithmetic ----
RECURSIVE IncrBound(_,_,_), SubstB(_,_,_), AbsOver(_,_,_), STypeTerm(_,_), Occurs(_,_), Size(_)
IncrBound(t, lev, inc) == CASE t[1] = "bound" -> IF t[2] >= lev THEN <<"bound", t[2] + inc>> ELSE t
   [] t[1] = "comb" -> <<"comb", IncrBound(t[2], lev, inc), IncrBound(t[3], lev, inc)>>
   [] t[1] = "abs" -> <<"abs", t[2], IncrBound(t[3], lev+1, inc)>>
   [] OTHER -> t
\* substitute u for Bound n in s (body of an abstraction entered n levels)
SubstB(s, u, n) == CASE s[1] = "bound" -> IF s[2] = n THEN IncrBound(u, 0, n) ELSE IF s[2] > n THEN <<"bound", s[2]-1>> ELSE s
   [] s[1] = "comb" -> <<"comb", SubstB(s[2], u, n), SubstB(s[3], u, n)>>
   [] s[1] = "abs" -> <<"abs", s[2], SubstB(s[3], u, n+1)>>
   [] OTHER -> s
SubstBound(abs, u) == SubstB(abs[3], u, 0)             \* Term.subst_bound on an abstraction
\* Term.abstract_over: v is a var or svar; same kind and name must have the same type
AbsOver(s, v, n) == CASE s[1] \in {"var","svar"} -> IF s[1] = v[1] /\ s[2] = v[2] THEN (IF s[3] = v[3] THEN <<"bound", n>> ELSE Err) ELSE s
   [] s[1] = "comb" -> LET f == AbsOver(s[2], v, n) a == AbsOver(s[3], v, n) IN IF f = Err \/ a = Err THEN Err ELSE <<"comb", f, a>>
   [] s[1] = "abs" -> LET b == AbsOver(s[3], v, n+1) IN IF b = Err THEN Err ELSE <<"abs", s[2], b>>
   [] OTHER -> s
Lambda(v, body) == LET b == AbsOver(body, v, 0) IN IF b = Err THEN Err ELSE <<"abs", v[3], b>>
AllC(T) == <<"const","all",FunT(FunT(T,BoolT),BoolT)>>
EqC(T) == <<"const","equals",FunT(T,FunT(T,BoolT))>>
ImpC == <<"const","implies",FunT(BoolT,FunT(BoolT,BoolT))>>
App(f, a) == <<"comb", f, a>>
Forall(v, body) == LET l == Lambda(v, body) IN IF l = Err THEN Err ELSE App(AllC(v[3]), l)
Imp(a, b) == App(App(ImpC, a), b)
MkEq(a, b) == App(App(EqC(TypeOf(a, <<>>)), a), b)
IsImp(t) == t[1] = "comb" /\ t[2][1] = "comb" /\ t[2][2][1] = "const" /\ t[2][2][2] = "implies"
IsEq(t) == t[1] = "comb" /\ t[2][1] = "comb" /\ t[2][2][1] = "const" /\ t[2][2][2] = "equals"
IsAll(t) == t[1] = "comb" /\ t[2][1] = "const" /\ t[2][2] = "all" /\ t[3][1] = "abs"
Arg1(t) == t[2][3]
Arg(t) == t[3]
STypeTerm(t, ti) == CASE t[1] \in {"svar","var","const"} -> <<t[1], t[2], TSubst(t[3], ti)>>
   [] t[1] = "comb" -> <<"comb", STypeTerm(t[2], ti), STypeTerm(t[3], ti)>>
   [] t[1] = "abs" -> <<"abs", TSubst(t[2], ti), STypeTerm(t[3], ti)>>
   [] OTHER -> t
Occurs(s, v) == CASE s[1] \in {"var","svar"} -> s = v
   [] s[1] = "comb" -> Occurs(s[2], v) \/ Occurs(s[3], v)
   [] s[1] = "abs" -> Occurs(s[3], v)
   [] OTHER -> FALSE
Size(t) == CASE t[1] = "comb" -> 1 + Size(t[2]) + Size(t[3]) [] t[1] = "abs" -> 1 + Size(t[3]) [] OTHER -> 1
RECURSIVE SVarsOf(_)
SVarsOf(t) == CASE t[1] = "svar" -> {t} [] t[1] = "comb" -> SVarsOf(t[2]) \cup SVarsOf(t[3]) [] t[1] = "abs" -> SVarsOf(t[3]) [] OTHER -> {}
\* ---- instantiation of schematic variables (Term.subst): inst = [ty |-> tyinst alist, sv |-> alist name -> term]
RECURSIVE ReplSV(_,_), MatchSVTypes(_,_,_)
ReplSV(t, sv) == CASE t[1] = "svar" -> IF t[2] \in Keys(sv) THEN Lookup(sv, t[2]) ELSE t
   [] t[1] = "comb" -> <<"comb", ReplSV(t[2], sv), ReplSV(t[3], sv)>>
   [] t[1] = "abs" -> <<"abs", t[2], ReplSV(t[3], sv)>>
   [] OTHER -> t
\* pre-pass: for every schematic variable of t that is instantiated, match its type against the type of the instance
MatchSVTypes(S, sv, ti) ==
  IF ti = ErrAL \/ S = {} THEN ti
  ELSE LET v == CHOOSE x \in S : TRUE IN
       IF v[2] \notin Keys(sv) THEN MatchSVTypes(S \ {v}, sv, ti)
       ELSE LET T == TypeOf(Lookup(sv, v[2]), <<>>) IN
            IF T = Err THEN ErrAL ELSE MatchSVTypes(S \ {v}, sv, TMatch(v[3], T, ti))
Subst(t, inst) == LET ti == MatchSVTypes(SVarsOf(t), inst.sv, inst.ty) IN
                  IF ti = ErrAL THEN Err ELSE ReplSV(STypeTerm(t, ti), inst.sv)
\* ---- beta ----
IsRedex(t) == t[1] = "comb" /\ t[2][1] = "abs"
BetaConv(t) == IF IsRedex(t) THEN SubstBound(t[2], t[3]) ELSE Err
RECURSIVE BetaNorm(_)
BetaNorm(t) == CASE t[1] = "comb" -> LET f == BetaNorm(t[2]) x == BetaNorm(t[3]) IN
                                      IF f[1] = "abs" THEN BetaNorm(SubstBound(f, x)) ELSE <<"comb", f, x>>
                 [] t[1] = "abs" -> <<"abs", t[2], BetaNorm(t[3])>>
                 [] OTHER -> t
=============================================================================
