---------------------------- MODULE C09_MatchUniverse ----------------------------
(* Input universe of C09: patterns, instantiations, targets, given instantiations (see C09_Matcher.tla).   *)
EXTENDS C09_MatchLaws
CONSTANTS Depth, MaxSize, Rich

\* ------------------------------------------------------------------ universe
TA == <<"tv","a">>     SB == <<"stv","b">>
AA == FunT(TA, TA)     AB == FunT(TA, BoolT)    AAB == FunT(TA, FunT(TA, BoolT))   BB == FunT(BoolT, BoolT)
AAAB == FunT(TA, AAB)
B0 == <<"bound", 0>>   B1 == <<"bound", 1>>   B2 == <<"bound", 2>>
Lam(T, b) == <<"abs", T, b>>
\* target atoms ("x" is also the name the replayer gives to binders in one of its routes)
vx == <<"var","x",TA>>  vy == <<"var","y",TA>>  vf == <<"var","f",AA>>  vh == <<"var","h",AA>>
vP == <<"var","P",AB>>  vQ == <<"var","Q",AB>>  vR == <<"var","R",AAB>>  vA == <<"var","A",BoolT>>
\* schematic
sx == <<"svar","x",TA>>  sy == <<"svar","y",TA>>  sA == <<"svar","A",BoolT>>
sF == <<"svar","F",AB>>  sf == <<"svar","f",AA>>  sG == <<"svar","G",AAB>>  sK == <<"svar","K",AAAB>>
sz == <<"svar","z",SB>>  sH == <<"svar","H",FunT(SB, BoolT)>>  sk == <<"svar","k",FunT(SB, SB)>>
EqA(a, b) == App(App(EqC(TA), a), b)
All(T, body) == App(AllC(T), Lam(T, body))
R2(a, b) == App(App(vR, a), b)
PSig == {vx, vf, vP, vR, sx, sy, sF, sf, sz, sH, EqC(TA), EqC(SB), ImpC}
PArgTypes == {TA, BoolT, SB, AB}
PTop == {BoolT, TA, AB, AA}
\* deeper shapes (the replayer names every binder; de Bruijn here)
Shapes == {
  All(TA, App(sF, B0)),                                              \* !z. ?F z                       Miller, one binder
  All(TA, Imp(App(sF, B0), App(vP, B0))),                            \* !z. ?F z --> P z
  All(TA, Imp(App(sF, B0), App(sF, App(vf, B0)))),                   \* !z. ?F z --> ?F (f z)          head instantiated at second occurrence
  Lam(TA, Lam(TA, App(App(sG, B1), B0))),                            \* %z w. ?G z w                   Miller, two binders
  Lam(TA, Lam(TA, App(App(sG, B0), B1))),                            \* %z w. ?G w z
  All(TA, All(TA, Imp(App(App(sG, B1), B0), App(App(sG, B0), B1)))), \* !z w. ?G z w --> ?G w z
  All(TA, All(TA, App(sF, B0))),                                     \* !z w. ?F w                     bound variable not passed
  All(TA, App(App(sG, B0), B0)),                                     \* !z. ?G z z                     repeated argument (non-pattern)
  Imp(R2(sx, sy), R2(sy, sx)),                                       \* R ?x ?y --> R ?y ?x            repeated first-order
  Imp(App(sF, sx), App(vP, sx)),                                     \* ?F ?x --> P ?x                 argument matched later (arg-first order)
  Imp(App(vP, sx), App(sF, sx)),                                     \* P ?x --> ?F ?x                 argument already matched
  Imp(App(vP, sx), App(App(sG, sx), sy)),                            \* P ?x --> ?G ?x ?y
  Lam(TA, App(sF, App(vf, B0))),                                     \* %z. ?F (f z)                   heuristic under a binder
  Lam(TA, App(sF, vx)),                                              \* %z. ?F x                       heuristic, free argument
  Lam(TA, App(sf, App(sf, B0))),                                     \* %z. ?f (?f z)
  App(App(sG, sx), sy),                                              \* ?G ?x ?y                       two-argument non-pattern
  App(App(sG, vx), sy),
  Imp(App(vP, sx), All(TA, R2(B0, sx))),                             \* P ?x --> !z. R z ?x            variable outside and under a binder
  Imp(All(TA, R2(B0, sx)), App(vP, sx)),
  Lam(TA, R2(B0, sx)),                                               \* %z. R z ?x                     first-order under a binder
  Lam(TA, Lam(TA, R2(B1, sx))),
  All(TA, Imp(App(vP, B0), sA)),                                     \* !z. P z --> ?A
  Imp(sA, Imp(sA, sA)),
  App(App(EqC(SB), sz), sz),                                         \* (?z::?'b) = ?z                 polymorphic, repeated
  App(App(EqC(SB), App(sk, sz)), sz),                                \* ?k ?z = ?z
  All(SB, App(sH, B0)),                                              \* !w::?'b. ?H w
  Imp(App(sH, sz), EqA(sx, sx)),                                     \* ?H ?z --> ?x = ?x
  Lam(SB, App(App(EqC(SB), B0), sz)),                                \* %w::?'b. w = ?z
  App(Lam(TA, App(sF, B0)), sx),                                     \* (%z. ?F z) ?x                  pattern with a redex
  All(TA, Imp(App(sF, B0), All(TA, App(sF, B0)))),                   \* !z. ?F z --> (!w. ?F w)       the same body at two binder depths
  Lam(TA, Imp(App(vP, B0), All(TA, App(sF, B1)))),                   \* %z. P z --> (!w. ?F z)         outer bound variable under an inner binder
  Lam(TA, Imp(App(vP, B0), All(TA, Imp(App(vP, B0), sA)))),          \* %z. P z --> (!w. P w --> ?A)   first-order, nested
  Lam(TA, Imp(R2(B0, sx), All(TA, R2(B0, sx)))),                     \* %z. R z ?x --> (!w. R w ?x)
  R2(vx, vy), Lam(TA, App(vP, B0))                                   \* ground patterns
}
\* ---- mixed-argument applications: a schematic head applied to DISTINCT arguments that are bound variables of the nb enclosing binders
\* and/or first-order schematic variables -- instantiated earlier in the same pattern (guarded form), by the given instantiation, or not at
\* all; every selection and order of arguments (so some bound variables are passed, some are not)
RECURSIVE InjSeqs(_,_), AppSeq(_,_), LamN(_,_)
InjSeqs(S, n) == IF n = 0 THEN { <<>> } ELSE UNION { { <<a>> \o r : r \in InjSeqs(S \ {a}, n - 1) } : a \in S }
AppSeq(h, args) == IF args = <<>> THEN h ELSE AppSeq(App(h, Head(args)), Tail(args))
LamN(n, b) == IF n = 0 THEN b ELSE Lam(TA, LamN(n - 1, b))
HeadFor(n) == CASE n = 1 -> sF [] n = 2 -> sG [] n = 3 -> sK
MixArgSeqs(nb, svs) == { a \in UNION { InjSeqs({ <<"bound", k>> : k \in 0..(nb - 1) } \cup svs, n) : n \in 1..3 } : \E i \in 1..Len(a) : a[i][1] = "svar" }
Guard(a) == LET used == { v \in {sx, sy} : \E i \in 1..Len(a) : a[i] = v } IN
            IF used = {sx, sy} THEN R2(sx, sy) ELSE App(vP, CHOOSE v \in used : TRUE)
MixPatterns(nb, svs) == UNION { { LamN(nb, AppSeq(HeadFor(Len(a)), a)), LamN(nb, Imp(Guard(a), AppSeq(HeadFor(Len(a)), a))) } : a \in MixArgSeqs(nb, svs) }
Mixed == IF Rich THEN MixPatterns(2, {sx, sy}) \cup MixPatterns(3, {sx}) ELSE MixPatterns(2, {sx})
Patterns == { p \in UNION { Gen(PSig, PArgTypes, T, Depth, <<>>) : T \in PTop } : SVarsOf(p) # {} /\ ~HasRedex(p) /\ Size(p) <= MaxSize }
            \cup Shapes \cup Mixed
\* closed beta-normal instance values by type
Vals(T) ==
  CASE T = TA -> {vx, vy, App(vf, vx)}
    [] T = BoolT -> {vA, App(vP, vx), R2(vx, vy)}
    [] T = AB -> {vP, App(vR, vy), Lam(TA, R2(B0, B0)), Lam(TA, App(vP, App(vf, B0))), Lam(TA, App(vP, vx))}
    [] T = AA -> {vf, Lam(TA, B0), Lam(TA, vy), Lam(TA, App(vf, App(vh, B0)))}
    [] T = AAB -> {vR, Lam(TA, Lam(TA, R2(B0, B1))), Lam(TA, Lam(TA, App(vP, B1))), Lam(TA, App(vR, App(vf, B0)))}
    [] T = BB -> {Lam(BoolT, B0), App(ImpC, App(vP, vx))}
    [] T = AAAB -> {Lam(TA, vR), Lam(TA, Lam(TA, Lam(TA, R2(B2, B0)))), Lam(TA, Lam(TA, Lam(TA, App(vP, B1))))}
    [] OTHER -> {}
ValsFew(T) ==
  CASE T = TA -> {vx, App(vf, vx)}
    [] T = BoolT -> {App(vP, vx)}
    [] T = AB -> {App(vR, vy), Lam(TA, App(vP, App(vf, B0)))}
    [] T = AA -> {vf, Lam(TA, vy)}
    [] T = AAB -> {vR, Lam(TA, Lam(TA, R2(B0, B1)))}
    [] T = BB -> {Lam(BoolT, B0)}
    [] T = AAAB -> {Lam(TA, vR), Lam(TA, Lam(TA, Lam(TA, R2(B2, B0))))}
    [] OTHER -> {}
RECURSIVE SvAl(_,_,_)
SvAl(vs, ti, few) == IF vs = <<>> THEN { <<>> }
                     ELSE LET v == Head(vs) T == TSubst(v[3], ti) IN
                          { << <<v[2], val>> >> \o rest : val \in (IF few THEN ValsFew(T) ELSE Vals(T)), rest \in SvAl(Tail(vs), ti, few) }
TyChoices(p) == IF "b" \in STVNames(p) THEN { << <<"b", TA>> >>, << <<"b", BoolT>> >> } ELSE { <<>> }
InstsFor(p) == LET vs == SetToSeq(SVarsOf(p)) few == (Len(vs) >= 3) \/ (~Rich /\ Len(vs) >= 2 /\ p \notin Shapes \cup Mixed) IN
               UNION { { MkInst(ti, al) : al \in SvAl(vs, ti, few) } : ti \in TyChoices(p) }
\* one-atom perturbations that keep the term well-typed
AltVars(v) == { w \in {vx, vy, vf, vh, vP, vQ} : w[3] = v[3] /\ w # v }
RECURSIVE Perturb(_,_)
Perturb(t, env) ==
  CASE t[1] = "var" -> AltVars(t) \cup { <<"bound", k - 1>> : k \in { k \in 1..Len(env) : env[k] = t[3] } }
    [] t[1] = "bound" -> { <<"bound", k - 1>> : k \in { k \in 1..Len(env) : env[k] = env[t[2] + 1] /\ k - 1 # t[2] } }
                         \cup { w \in {vx, vf, vP} : w[3] = env[t[2] + 1] }
    [] t[1] = "comb" -> { <<"comb", f, t[3]>> : f \in Perturb(t[2], env) } \cup { <<"comb", t[2], a>> : a \in Perturb(t[3], env) }
    [] t[1] = "abs" -> { <<"abs", t[2], b>> : b \in Perturb(t[3], <<t[2]>> \o env) }
    [] OTHER -> {}
Unrelated == { vx, vA, App(vf, vy), App(vR, vx), R2(vx, vx), vP, Lam(TA, B0), All(TA, R2(B0, vx)), Imp(App(vP, vx), App(vQ, vy)),
               Lam(TA, R2(B0, vx)), App(vR, App(vf, vx)) }
\* given instantiations
Restrict1(al, k) == << al[k] >>
OtherVal(T, val) == LET S == Vals(T) \ {val} IN IF S = {} THEN {} ELSE { CHOOSE s \in S : TRUE }
\* schematic variables occurring in function position
RECURSIVE HeadSV(_), HeadOf(_)
HeadOf(t) == IF t[1] = "comb" THEN HeadOf(t[2]) ELSE t
HeadSV(p) == CASE p[1] = "comb" -> (IF HeadOf(p)[1] = "svar" THEN {HeadOf(p)[2]} ELSE {}) \cup HeadSV(p[2]) \cup HeadSV(p[3])
               [] p[1] = "abs" -> HeadSV(p[3])
               [] OTHER -> {}
\* the generating instantiation restricted to the variables that never occur in function position ("arguments pre-seeded")
ArgSeed(p, gi) == LET H == HeadSV(p) a == SelectSeq(gi.sv, LAMBDA b : b[1] \notin H) IN
                  IF a = <<>> \/ a = gi.sv THEN {} ELSE { <<"args", MkInst(gi.ty, a)>> }
SeedsPos(p, gi) ==
  { <<"empty", EmptyInst>>, <<"full", gi>>, <<"extra", MkInst(<< <<"c", TA>> >>, << <<"q", vx>> >>)>> } \cup ArgSeed(p, gi)
  \cup (IF gi.ty # <<>> THEN { <<"ty", MkInst(gi.ty, <<>>)>>, <<"bad_ty", MkInst(<< <<"b", IF gi.ty[1][2] = TA THEN BoolT ELSE TA>> >>, <<>>)>> } ELSE {})
  \cup { <<"sv1", MkInst(<<>>, Restrict1(gi.sv, k))>> : k \in 1..Len(gi.sv) }
  \cup UNION { { <<"bad_sv", MkInst(gi.ty, << <<gi.sv[k][1], o>> >>)>> : o \in OtherVal(TypeOf(gi.sv[k][2], <<>>), gi.sv[k][2]) } : k \in 1..Len(gi.sv) }
V(p, t, s0, gi, kind, seed) == [p |-> p, t |-> t, s0 |-> s0, gi |-> gi, kind |-> kind, seed |-> seed]
VectorsOf(p) ==
  UNION { LET raw == Subst(p, gi) pos == BetaNorm(raw) T == TypeOf(pos, <<>>) IN
          { V(p, pos, sd[2], gi, "pos", sd[1]) : sd \in SeedsPos(p, gi) }
          \cup (IF raw # pos THEN { V(p, raw, EmptyInst, gi, "raw", "empty") } ELSE {})
          \cup (IF EtaNorm(pos) # pos THEN { V(p, EtaNorm(pos), EmptyInst, gi, "etac", "empty") } ELSE {})
          \cup (IF IsFun(T) THEN { V(p, Lam(T[3][1], App(IncrBound(pos, 0, 1), B0)), EmptyInst, gi, "etax", "empty") } ELSE {})
          \cup UNION { { V(p, n, EmptyInst, gi, "neg", "empty"), V(p, n, gi, gi, "neg", "full") } \cup { V(p, n, sd[2], gi, "neg", sd[1]) : sd \in ArgSeed(p, gi) }
                       : n \in Perturb(pos, <<>>) }
          \cup { V(pos, pos, EmptyInst, EmptyInst, "self", "empty") }          \* the instance as a ground pattern against itself
        : gi \in InstsFor(p) }
  \cup { V(p, u, EmptyInst, EmptyInst, "unrel", "empty") : u \in Unrelated }

=============================================================================
