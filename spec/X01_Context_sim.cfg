SPECIFICATION Spec
CONSTANTS MaxOps = 8
 MaxDepth = 3
 ThNames = {"xa", "xb", "logic_base"}
 VSets = {"v1", "v2", "v3"}
 Record = TRUE
 EmitAll = FALSE
 ExitMode = "entry"
 SetCtxMode = "replace"
 LoadMode = "fresh"
 CacheLoadMode = "restore"
INVARIANT CtxtRestored
INVARIANT ThyRestored
INVARIANT SetContextReplaces
INVARIANT PrevContextUntouched
INVARIANT CachedTheoryUntouched
INVARIANT FramesAreStack
CHECK_DEADLOCK FALSE
