------------------------------- MODULE C15_Prop -------------------------------
(* Propositional formulas, truth tables, and the reference Tseitin encoding (shared by the      *)
(* S-specification C15_Tseitin and the T-specification C15_TseitinTrace).                        *)
(*   formula : <<"atom", name>> | <<"not", f>> | <<"and", f, g>> | <<"or", f, g>> |              *)
(*             <<"imp", f, g>> | <<"iff", f, g>> | <<"true">> | <<"false">>                      *)
(*   CNFs    : as in C15_SatCore, literals <<name, sign>> with names = strings                    *)
EXTENDS C15_SatCore

BinOps == {"and", "or", "imp", "iff"}
IsBin(f) == f[1] \in BinOps
RECURSIVE WellFormed(_)
WellFormed(f) == CASE f[1] = "atom" -> Len(f) = 2
                   [] f[1] = "not" -> Len(f) = 2 /\ WellFormed(f[2])
                   [] f[1] \in BinOps -> Len(f) = 3 /\ WellFormed(f[2]) /\ WellFormed(f[3])
                   [] f[1] \in {"true", "false"} -> Len(f) = 1
                   [] OTHER -> FALSE
RECURSIVE AtomsOf(_)
AtomsOf(f) == CASE f[1] = "atom" -> { f[2] }
                [] f[1] = "not" -> AtomsOf(f[2])
                [] f[1] \in BinOps -> AtomsOf(f[2]) \cup AtomsOf(f[3])
                [] OTHER -> {}
RECURSIVE Eval(_, _)
Eval(f, s) == CASE f[1] = "atom" -> s[f[2]]
                [] f[1] = "not" -> ~Eval(f[2], s)
                [] f[1] = "and" -> Eval(f[2], s) /\ Eval(f[3], s)
                [] f[1] = "or" -> Eval(f[2], s) \/ Eval(f[3], s)
                [] f[1] = "imp" -> Eval(f[2], s) => Eval(f[3], s)
                [] f[1] = "iff" -> Eval(f[2], s) = Eval(f[3], s)
                [] f[1] = "true" -> TRUE
                [] OTHER -> FALSE
RECURSIVE NConn(_)
NConn(f) == CASE f[1] = "not" -> 1 + NConn(f[2])
              [] f[1] \in BinOps -> 1 + NConn(f[2]) + NConn(f[3])
              [] OTHER -> 0

SatF(f) == \E s \in [AtomsOf(f) -> BOOLEAN] : Eval(f, s)
ValidF(f) == \A s \in [AtomsOf(f) -> BOOLEAN] : Eval(f, s)
\* the sequent  hs[1], ..., hs[n] |- c  holds in every row of the truth table over all its atoms
SeqAtoms(hs, c) == AtomsOf(c) \cup UNION { AtomsOf(hs[i]) : i \in 1..Len(hs) }
SeqValid(hs, c) == \A s \in [SeqAtoms(hs, c) -> BOOLEAN] : (\A i \in 1..Len(hs) : Eval(hs[i], s)) => Eval(c, s)
\* a CNF (names as variables) and a formula have the same truth table over the atoms of both
CnfEquivalent(cnf, f) == \A s \in [VarsOf(cnf) \cup AtomsOf(f) -> BOOLEAN] : IsModel(cnf, s) = Eval(f, s)
Equisatisfiable(cnf, f) == Satisfiable(cnf) = SatF(f)

\* ---------------------------------------------------------------- reference Tseitin encoding
\* sub-formulas in post-order, each once
InSeq(x, s) == \E i \in 1..Len(s) : s[i] = x
RECURSIVE AddAll(_, _, _)
AddAll(s, t, i) == IF i > Len(t) THEN s ELSE AddAll(IF InSeq(t[i], s) THEN s ELSE Append(s, t[i]), t, i + 1)
RECURSIVE Subs(_)
Subs(f) == CASE f[1] = "not" -> AddAll(Subs(f[2]), <<f>>, 1)
             [] f[1] \in BinOps -> AddAll(AddAll(Subs(f[2]), Subs(f[3]), 1), <<f>>, 1)
             [] OTHER -> <<f>>
IndexOf(x, s) == CHOOSE i \in 1..Len(s) : s[i] = x
DigitStr == <<"0", "1", "2", "3", "4", "5", "6", "7", "8", "9">>
XName(i) == IF i < 10 THEN "x" \o DigitStr[i + 1] ELSE "x" \o DigitStr[(i \div 10) + 1] \o DigitStr[(i % 10) + 1]
\* definition of the variable of sub-formula g (as a formula over the x's and the atoms) and its clauses
DefOf(g, subs) ==
  LET X(h) == <<"atom", XName(IndexOf(h, subs))>> IN
  CASE g[1] = "not" -> <<"not", X(g[2])>>
    [] g[1] \in BinOps -> <<g[1], X(g[2]), X(g[3])>>
    [] OTHER -> g
ClausesOf(g, subs) ==
  LET x == XName(IndexOf(g, subs))
      N(h) == XName(IndexOf(h, subs)) IN
  CASE g[1] = "not" -> << << <<x, TRUE>>, <<N(g[2]), TRUE>> >>, << <<x, FALSE>>, <<N(g[2]), FALSE>> >> >>
    [] g[1] = "and" -> << << <<x, FALSE>>, <<N(g[2]), TRUE>> >>, << <<x, FALSE>>, <<N(g[3]), TRUE>> >>,
                          << <<N(g[2]), FALSE>>, <<N(g[3]), FALSE>>, <<x, TRUE>> >> >>
    [] g[1] = "or" -> << << <<N(g[2]), FALSE>>, <<x, TRUE>> >>, << <<N(g[3]), FALSE>>, <<x, TRUE>> >>,
                         << <<x, FALSE>>, <<N(g[2]), TRUE>>, <<N(g[3]), TRUE>> >> >>
    [] g[1] = "imp" -> << << <<N(g[2]), TRUE>>, <<x, TRUE>> >>, << <<N(g[3]), FALSE>>, <<x, TRUE>> >>,
                          << <<x, FALSE>>, <<N(g[2]), FALSE>>, <<N(g[3]), TRUE>> >> >>
    [] g[1] = "iff" -> << << <<x, FALSE>>, <<N(g[2]), FALSE>>, <<N(g[3]), TRUE>> >>, << <<x, FALSE>>, <<N(g[2]), TRUE>>, <<N(g[3]), FALSE>> >>,
                          << <<x, TRUE>>, <<N(g[2]), TRUE>>, <<N(g[3]), TRUE>> >>, << <<x, TRUE>>, <<N(g[2]), FALSE>>, <<N(g[3]), FALSE>> >> >>
    [] OTHER -> <<>>
RECURSIVE Concat(_, _)
Concat(ss, i) == IF i > Len(ss) THEN <<>> ELSE ss[i] \o Concat(ss, i + 1)
\* reference encoding of f:  defs = << x_i <-> definition >>,  cnf = << <<x_top>> >> \o clauses of every definition
RefEncode(f) ==
  LET subs == Subs(f) IN
  [subs |-> subs,
   defs |-> [i \in 1..Len(subs) |-> <<"iff", <<"atom", XName(i)>>, DefOf(subs[i], subs)>>],
   cnf |-> << << <<XName(Len(subs)), TRUE>> >> >> \o Concat([i \in 1..Len(subs) |-> ClausesOf(subs[i], subs)], 1)]
DistinctClauses(cnf) == Cardinality({ LitSet(cnf[k]) : k \in 1..Len(cnf) })
=============================================================================
