------------------------------- MODULE C15_Prop -------------------------------
(* Propositional formulas, truth tables, and the reference Tseitin encoding (shared by the      *)
(* S-specification C15_Tseitin and the T-specification C15_TseitinTrace).                        *)
(*   formula : <<"atom", name>> | <<"not", f>> | <<"and", f, g>> | <<"or", f, g>> |              *)
(*             <<"imp", f, g>> | <<"iff", f, g>> | <<"true">> | <<"false">>                      *)
(*   CNFs    : as in C15_SatCore, literals <<name, sign>> with names = strings                    *)
EXTENDS C15_SatCore

BinOps == {"and", "or", "imp", "iff"}
IsBin(f) == f[1] \in BinOps
RECURSIVE WellFormed(_)
WellFormed(f) == CASE f[1] = "atom" -> Len(f) = 2
                   [] f[1] = "not" -> Len(f) = 2 /\ WellFormed(f[2])
                   [] f[1] \in BinOps -> Len(f) = 3 /\ WellFormed(f[2]) /\ WellFormed(f[3])
                   [] f[1] \in {"true", "false"} -> Len(f) = 1
                   [] OTHER -> FALSE
RECURSIVE AtomsOf(_)
AtomsOf(f) == CASE f[1] = "atom" -> { f[2] }
                [] f[1] = "not" -> AtomsOf(f[2])
                [] f[1] \in BinOps -> AtomsOf(f[2]) \cup AtomsOf(f[3])
                [] OTHER -> {}
RECURSIVE Eval(_, _)
Eval(f, s) == CASE f[1] = "atom" -> s[f[2]]
                [] f[1] = "not" -> ~Eval(f[2], s)
                [] f[1] = "and" -> Eval(f[2], s) /\ Eval(f[3], s)
                [] f[1] = "or" -> Eval(f[2], s) \/ Eval(f[3], s)
                [] f[1] = "imp" -> Eval(f[2], s) => Eval(f[3], s)
                [] f[1] = "iff" -> Eval(f[2], s) = Eval(f[3], s)
                [] f[1] = "true" -> TRUE
                [] OTHER -> FALSE
RECURSIVE NConn(_)
NConn(f) == CASE f[1] = "not" -> 1 + NConn(f[2])
              [] f[1] \in BinOps -> 1 + NConn(f[2]) + NConn(f[3])
              [] OTHER -> 0

SatF(f) == \E s \in [AtomsOf(f) -> BOOLEAN] : Eval(f, s)
ValidF(f) == \A s \in [AtomsOf(f) -> BOOLEAN] : Eval(f, s)
\* the sequent  hs[1], ..., hs[n] |- c  holds in every row of the truth table over all its atoms
SeqAtoms(hs, c) == AtomsOf(c) \cup UNION { AtomsOf(hs[i]) : i \in 1..Len(hs) }
SeqValid(hs, c) == \A s \in [SeqAtoms(hs, c) -> BOOLEAN] : (\A i \in 1..Len(hs) : Eval(hs[i], s)) => Eval(c, s)
\* a CNF (names as variables) and a formula have the same truth table over the atoms of both
CnfEquivalent(cnf, f) == \A s \in [VarsOf(cnf) \cup AtomsOf(f) -> BOOLEAN] : IsModel(cnf, s) = Eval(f, s)
Equisatisfiable(cnf, f) == Satisfiable(cnf) = SatF(f)

\* ---------------------------------------------------------------- reference Tseitin encoding
\* sub-formulas in post-order, each once
InSeq(x, s) == \E i \in 1..Len(s) : s[i] = x
RECURSIVE AddAll(_, _, _)
AddAll(s, t, i) == IF i > Len(t) THEN s ELSE AddAll(IF InSeq(t[i], s) THEN s ELSE Append(s, t[i]), t, i + 1)
RECURSIVE Subs(_)
Subs(f) == CASE f[1] = "not" -> AddAll(Subs(f[2]), <<f>>, 1)
             [] f[1] \in BinOps -> AddAll(AddAll(Subs(f[2]), Subs(f[3]), 1), <<f>>, 1)
             [] OTHER -> <<f>>
IndexOf(x, s) == CHOOSE i \in 1..Len(s) : s[i] = x
DigitStr == <<"0", "1", "2", "3", "4", "5", "6", "7", "8", "9">>
\* the encoder's fresh-name scheme: x1, x2, ...
XName(i) == IF i < 10 THEN "x" \o DigitStr[i + 1] ELSE "x" \o DigitStr[(i \div 10) + 1] \o DigitStr[(i % 10) + 1]
\* ---- the ATOM NAME SPACE is a dimension of the formula universe: an atom of the input may itself carry a name of the
\* scheme.  Fresh names = the first n names of the scheme that are NOT in `used` (x1, x2, ... when there is no clash).
RECURSIVE NextFree(_, _)
NextFree(i, used) == IF XName(i) \in used THEN NextFree(i + 1, used) ELSE i
\* acc = the names chosen so far, last = index of the last one
RECURSIVE FreshFrom(_, _, _, _)
FreshFrom(n, used, acc, last) == IF Len(acc) = n THEN acc
                                 ELSE LET i == NextFree(last + 1, used) IN FreshFrom(n, used, Append(acc, XName(i)), i)
FreshNames(n, used) == FreshFrom(n, used, <<>>, 0)
\* names the reference gives to the n sub-formulas of f
RefNames(f, n) == FreshNames(n, AtomsOf(f))
\* definition of the variable of sub-formula g (as a formula over the new variables and the atoms) and its clauses;
\* the constants true / false are leaves with a definition  x <-> true  and the unit clause  x  (resp. ~x)
DefOf(g, subs, nm) ==
  LET X(h) == <<"atom", nm[IndexOf(h, subs)]>> IN
  CASE g[1] = "not" -> <<"not", X(g[2])>>
    [] g[1] \in BinOps -> <<g[1], X(g[2]), X(g[3])>>
    [] OTHER -> g
ClausesOf(g, subs, nm) ==
  LET x == nm[IndexOf(g, subs)]
      N(h) == nm[IndexOf(h, subs)] IN
  CASE g[1] = "not" -> << << <<x, TRUE>>, <<N(g[2]), TRUE>> >>, << <<x, FALSE>>, <<N(g[2]), FALSE>> >> >>
    [] g[1] = "and" -> << << <<x, FALSE>>, <<N(g[2]), TRUE>> >>, << <<x, FALSE>>, <<N(g[3]), TRUE>> >>,
                          << <<N(g[2]), FALSE>>, <<N(g[3]), FALSE>>, <<x, TRUE>> >> >>
    [] g[1] = "or" -> << << <<N(g[2]), FALSE>>, <<x, TRUE>> >>, << <<N(g[3]), FALSE>>, <<x, TRUE>> >>,
                         << <<x, FALSE>>, <<N(g[2]), TRUE>>, <<N(g[3]), TRUE>> >> >>
    [] g[1] = "imp" -> << << <<N(g[2]), TRUE>>, <<x, TRUE>> >>, << <<N(g[3]), FALSE>>, <<x, TRUE>> >>,
                          << <<x, FALSE>>, <<N(g[2]), FALSE>>, <<N(g[3]), TRUE>> >> >>
    [] g[1] = "iff" -> << << <<x, FALSE>>, <<N(g[2]), FALSE>>, <<N(g[3]), TRUE>> >>, << <<x, FALSE>>, <<N(g[2]), TRUE>>, <<N(g[3]), FALSE>> >>,
                          << <<x, TRUE>>, <<N(g[2]), TRUE>>, <<N(g[3]), TRUE>> >>, << <<x, TRUE>>, <<N(g[2]), FALSE>>, <<N(g[3]), FALSE>> >> >>
    [] g[1] = "true" -> << << <<x, TRUE>> >> >>
    [] g[1] = "false" -> << << <<x, FALSE>> >> >>
    [] OTHER -> <<>>
RECURSIVE Concat(_, _)
Concat(ss, i) == IF i > Len(ss) THEN <<>> ELSE ss[i] \o Concat(ss, i + 1)
\* structural equality of two well-formed formulas (the head decides the shape: never compares a string with a tuple)
RECURSIVE SameF(_, _)
SameF(f, g) == /\ f[1] = g[1] /\ Len(f) = Len(g)
               /\ CASE f[1] = "atom" -> f[2] = g[2]
                    [] f[1] = "not" -> SameF(f[2], g[2])
                    [] f[1] \in BinOps -> SameF(f[2], g[2]) /\ SameF(f[3], g[3])
                    [] OTHER -> TRUE
\* g with every occurrence of the sub-formula r replaced by the variable v (top-down: what rewriting g right-to-left with the
\* equation  v <-> r  does)
RECURSIVE Replace(_, _, _)
Replace(g, r, v) == IF SameF(g, r) THEN <<"atom", v>>
                    ELSE CASE g[1] = "not" -> <<"not", Replace(g[2], r, v)>>
                           [] g[1] \in BinOps -> <<g[1], Replace(g[2], r, v), Replace(g[3], r, v)>>
                           [] OTHER -> g
\* ... with the definitions one after the other, in their order (sub-formulas first)
RECURSIVE RewriteAll(_, _, _)
RewriteAll(g, defs, i) == IF i > Len(defs) THEN g ELSE RewriteAll(Replace(g, defs[i][3], defs[i][2][2]), defs, i + 1)
\* the clauses of a formula that is a conjunction of disjunctions of literals.  (With fresh names the rewritten formula is
\* the top variable, invariant RefTopIsVariable; anything else is kept total for the mutants: an unreadable literal "?")
RECURSIVE DisjLits(_)
DisjLits(g) == CASE g[1] = "or" -> DisjLits(g[2]) \o DisjLits(g[3])
                 [] g[1] = "atom" -> << <<g[2], TRUE>> >>
                 [] g[1] = "not" /\ g[2][1] = "atom" -> << <<g[2][2], FALSE>> >>
                 [] OTHER -> << <<"?", TRUE>> >>
RECURSIVE TopClauses(_)
TopClauses(g) == IF g[1] = "and" THEN TopClauses(g[2]) \o TopClauses(g[3]) ELSE << DisjLits(g) >>
\* reference encoding of f as a machine:  defs = << x_i <-> definition >> (one per sub-formula, x_i fresh);  top = f rewritten
\* with the definitions (the variable of f itself);  cnf = clauses of top \o clauses of every definition
RefEncode(f) ==
  LET subs == Subs(f)
      nm == RefNames(f, Len(subs))
      defs == [i \in 1..Len(subs) |-> <<"iff", <<"atom", nm[i]>>, DefOf(subs[i], subs, nm)>>]
      top == RewriteAll(f, defs, 1) IN
  [subs |-> subs, names |-> nm, defs |-> defs, top |-> top,
   cnf |-> TopClauses(top) \o Concat([i \in 1..Len(subs) |-> ClausesOf(subs[i], subs, nm)], 1)]

\* ---------------------------------------------------------------- the definitional reading of an encoding
IsDef(h) == h[1] = "iff" /\ h[2][1] = "atom"
DefVar(h) == h[2][2]
\* no definition depends (through other definitions) on its own variable: the definitions can be put in an order in which
\* every right side mentions only variables defined earlier (and undefined ones)
RECURSIVE AcyclicDefs(_, _)
AcyclicDefs(hs, I) ==
  IF I = {} THEN TRUE
  ELSE LET open == { DefVar(hs[i]) : i \in I }
           ready == { i \in I : AtomsOf(hs[i][3]) \cap open = {} } IN
       IF ready = {} THEN FALSE ELSE AcyclicDefs(hs, I \ ready)
\* hs (well-formed formulas) are DEFINITIONS of fresh variables over the formula f:  equations  v <-> rhs  whose left sides
\* are pairwise distinct variables that do not occur in f and do not depend on themselves.  Exactly then every assignment
\* of the atoms of f extends to the v's so that all of hs hold: the hypotheses add nothing to f (a conservative extension),
\* which is what makes  hs, f |- cnf  an ENCODING of f.
DefsFresh(hs, f) ==
  LET I == 1..Len(hs) IN
  /\ \A i \in I : IsDef(hs[i])
  /\ \A i, j \in I : i # j => DefVar(hs[i]) # DefVar(hs[j])
  /\ \A i \in I : DefVar(hs[i]) \notin AtomsOf(f)
  /\ AcyclicDefs(hs, I)
\* what DefsFresh is for, decided by brute force: every model of f extends to a model of hs
Conservative(hs, f) ==
  LET A == AtomsOf(f)
      B == (UNION { AtomsOf(hs[i]) : i \in 1..Len(hs) }) \ A IN
  \A s \in [A -> BOOLEAN] : Eval(f, s) => \E t \in [B -> BOOLEAN] : LET st == [x \in A \cup B |-> IF x \in A THEN s[x] ELSE t[x]] IN
                                                                      \A i \in 1..Len(hs) : Eval(hs[i], st)
DistinctClauses(cnf) == Cardinality({ LitSet(cnf[k]) : k \in 1..Len(cnf) })
=============================================================================
