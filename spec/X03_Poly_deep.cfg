SPECIFICATION Spec
CONSTANTS MaxMono = 0
 CoefSet <- Coefs3
 MaxOps = 4
 MaxSize = 9
 InitP <- ZeroOnly
 InitQ <- ZeroOnly
 InitR <- ZeroOnly
 Gens <- GensSmall
 Scalars <- ScalarsSmall
 Kinds <- KindsOps
 Record = TRUE
 EmitAll = TRUE
INVARIANT NormalForm
INVARIANT EvalCommutes
INVARIANT EvalDefined
INVARIANT RingLaws
INVARIANT SeqDenotes
CHECK_DEADLOCK FALSE
