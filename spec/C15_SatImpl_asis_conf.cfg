SPECIFICATION Spec
CONSTANTS Dedup = FALSE
 Conform = TRUE
 Prune = TRUE
INVARIANT VerdictCorrect
INVARIANT CertificateValid
INVARIANT TrailConsistent
INVARIANT ReasonsAreUnit
INVARIANT LearnedEntailed
INVARIANT Observe
POSTCONDITION ConfPost
CHECK_DEADLOCK FALSE
