SPECIFICATION Spec
CONSTANTS MaxOps = 2
 MaxLines = 10
 MaxDepth = 4
 Emit = TRUE
INVARIANTS ShapeOK ArithmeticIsPosition NewLinesNumbered DependsIsVisibility VisibilityPreserved IdsDistinct Numbered DecrUndoesIncr
CHECK_DEADLOCK FALSE
