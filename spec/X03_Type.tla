------------------------------ MODULE X03_Type ------------------------------
(* S-specification of X03, types.  A workbench with one current type `cur`, one TyInst under construction `ti` (the object that     *)
(* match_incr updates IN PLACE) and one saved copy of it (`saved` = copy.copy(ti)).  One action per public operation of                *)
(* kernel/type.py:                                                                                                                  *)
(*   match(P, U)   P.match_incr(U, ti), AS CODED (bindings made before a failure stay in ti)      subst    cur := cur.subst(ti)          *)
(*   fresh         ti := TyInst()           inst(s)  ti := TyInst(s)          save   saved := copy.copy(ti)                            *)
(*   conv          cur := cur.convert_stvar()  (TypeException when a schematic variable occurs)                                        *)
(*   wrap(c)       cur := TConst("list", cur) | TFun(cur, nat) | TFun(?'a, cur)                                                        *)
(*   cmp(U)        ==, hash, <=, <, fast_compare_typ on (cur, U)     look   every unary observation of cur      subst2  (observation)   *)
(* Init: cur ranges over ALL types of <= Depth levels (X03_Defs.TypesUpTo), so that the unary / binary clauses are checked on the        *)
(* whole universe; the histories of <= MaxOps actions are all explored and, with Record, every behaviour is printed for replay in the     *)
(* real code.  The clauses are the operators of X03_Defs, the SAME ones the T specification applies to what the real code answers;       *)
(* here they are applied to what the reference answers (RefLook, RefPair, ...), which checks the reference itself: the printer's         *)
(* bracket rules against the reference parser, strip/TFun, the coded orders being total orders, composition of instantiations, the        *)
(* coded matcher against the reference matcher of lib/HolTerms.                                                                       *)
EXTENDS X03_Defs, Json
CONSTANTS Depth,       \* Init: cur \in TypesUpTo(Depth)
          MaxOps, Pats, Targs, Insts, CmpSet, Kinds, Record, EmitAll
VARIABLES cur, ti, saved, ops, hist, done, fails, init
vars == <<cur, ti, saved, ops, hist, done, fails, init>>

SA == <<"stv","a">>  SB == <<"stv","b">>  TA == <<"tv","a">>  TB == <<"tv","b">>
\* named sets for the configurations (cfg files cannot write tuples)
PatsSmall == { SA, FunT(SA, SB), FunT(SA, SA), TC1("list", SB), TC2("prod", SA, TC1("list", SA)), FunT(TA, SB) }
TargsSmall == { TA, FunT(TA, NatT), FunT(NatT, NatT), TC1("list", SB), TC2("prod", TB, TC1("list", TB)), TC2("prod", TB, TC1("list", TA)), FunT(TA, FunT(TB, SA)) }
PatsAll == TypesUpTo(2)
TargsAll == TypesUpTo(2)
InstRange == { SA, SB, TA, NatT, TC1("list", SB), FunT(TA, SA), TC2("prod", SA, SB) }
InstsAll == { <<>> } \cup { << <<"a", X>> >> : X \in InstRange } \cup { << <<"b", X>> >> : X \in InstRange }
            \cup { << <<"a", X>>, <<"b", Y>> >> : X \in InstRange, Y \in InstRange }
InstsSmall == { << <<"a", TB>> >>, << <<"a", SB>>, <<"b", TC1("list", SA)>> >>, << <<"b", FunT(SA, TA)>> >>, << <<"a", TC2("prod", SB, SB)>>, <<"b", SA>> >> }
CmpSmall == { SA, SB, TA, TB, NatT, TC1("list", TA), FunT(TA, TA), TC2("prod", TA, TA), FunT(SA, TC1("list", TA)), TC1("list", FunT(TA, TA)) }
CmpAll == TypesUpTo(2)
None == {}
KindsAll == {"match", "subst", "fresh", "inst", "save", "conv", "wrap", "cmp", "subst2"}
KindsMatch == {"match", "subst", "fresh", "save"}
KindsInst == {"inst", "save", "subst", "subst2", "conv", "wrap"}
KindsCmp == {"cmp"}
KindsPair == {"cmp", "match"}

Op(k, P, U, c, s) == [k |-> k, P |-> P, U |-> U, c |-> c, s |-> s]
St(c, t, s) == [cur |-> c, ti |-> t, saved |-> s]

\* ------------------------------------------------------------------ what the reference answers
RefLook(T) ==
  LET s == Strip(T) IN
  [strip |-> s, refun |-> MkFun(s[1], s[2]), stv |-> VarsSeq(T, "stv"), tv |-> VarsSeq(T, "tv"), tsubs |-> SubsSeq(T), size |-> TSize(T),
   eqcopy |-> TRUE, heqcopy |-> TRUE, pout |-> "ok", ptoks |-> Toks(T), btoks |-> Toks(T), back |-> ParseToks(Toks(T)), bback |-> ParseToks(Toks(T)),
   fb |-> ParseToks(FullToks(T)),
   conv |-> IF HasSTV(T) THEN [out |-> "TypeException", res |-> NoT] ELSE [out |-> "ok", res |-> Conv(T)],
   convback |-> IF HasSTV(T) THEN NoT ELSE TSubst(Conv(T), BackInst(T))]
RefPair(T, U) == [eq |-> T = U, eq21 |-> U = T, heq |-> T = U, le12 |-> LeT(T, U), le21 |-> LeT(U, T), lt12 |-> LtT(T, U), lt21 |-> LtT(U, T),
                  c12 |-> CmpT(T, U), c21 |-> CmpT(U, T)]
RefTriple(T, U, V) == [le |-> <<LeT(T, U), LeT(U, V), LeT(T, V), LeT(U, T), LeT(V, U), LeT(V, T)>>,
                       c |-> <<CmpT(T, U), CmpT(U, V), CmpT(T, V), CmpT(U, T), CmpT(V, U), CmpT(V, T)>>]
\* substitution: exactly the schematic variables of the domain are replaced, everywhere
SubstClauses(T, s, r1) ==
  (IF r1 = TSubst(T, s) THEN {} ELSE {"SubstExact"})
  \cup (IF Functional(s) /\ TyVarsOf(r1) # { v \in TyVarsOf(T) : ~(v[1] = "stv" /\ v[2] \in Keys(s)) }
                                           \cup UNION { TyVarsOf(Lookup(s, v[2])) : v \in { w \in TyVarsOf(T) : w[1] = "stv" /\ w[2] \in Keys(s) } }
        THEN {"SubstOnlyDomain"} ELSE {})
Subst2Clauses(T, s, r, r2, r3) ==
  (IF r2 = TSubst(T, Compose(s, r)) THEN {} ELSE {"SubstComposes"})
  \cup (IF r3 = r2 THEN {} ELSE {"SubstComposes"})

\* ------------------------------------------------------------------ the machine
Init == /\ cur \in TypesUpTo(Depth) /\ ti = <<>> /\ saved = <<>> /\ ops = 0 /\ hist = <<>> /\ done = FALSE /\ fails = {} /\ init = cur
Step(op, c, t, s, f) == /\ cur' = c /\ ti' = t /\ saved' = s /\ ops' = ops + 1 /\ fails' = f /\ UNCHANGED <<done, init>>
                        /\ hist' = IF Record THEN Append(hist, op) ELSE hist
Match(P, U) == LET r == MatchP(P, U, ti) IN
               Step(Op("match", P, U, "", <<>>), cur, r[2], saved, MatchClauses(P, U, ti, r[2], r[1], FALSE))
SubstCur == LET r == TSubst(cur, ti) IN Step(Op("subst", NoT, NoT, "", <<>>), r, ti, saved, SubstClauses(cur, ti, r))
Subst2 == LET r2 == TSubst(TSubst(cur, ti), saved) IN
          Step(Op("subst2", NoT, NoT, "", Compose(ti, saved)), cur, ti, saved, Subst2Clauses(cur, ti, saved, r2, TSubst(cur, Compose(ti, saved))))
Fresh == ti # <<>> /\ Step(Op("fresh", NoT, NoT, "", <<>>), cur, <<>>, saved, {})
SetInst(s) == s # ti /\ Step(Op("inst", NoT, NoT, "", s), cur, s, saved, {})
Save == saved # ti /\ Step(Op("save", NoT, NoT, "", <<>>), cur, ti, ti, {})
ConvCur == Step(Op("conv", NoT, NoT, "", <<>>), IF HasSTV(cur) THEN cur ELSE Conv(cur), ti, saved, {})
Wrapped(c) == CASE c = "list" -> TC1("list", cur) [] c = "dom" -> FunT(cur, NatT) [] OTHER -> FunT(SA, cur)
Wrap(c) == TSize(cur) <= 7 /\ Step(Op("wrap", NoT, NoT, c, <<>>), Wrapped(c), ti, saved, {})
Cmp(U) == Step(Op("cmp", NoT, U, "", <<>>), cur, ti, saved, PairClauses(cur, U, RefPair(cur, U)))
Finish == /\ Record /\ ~done /\ (IF EmitAll THEN TRUE ELSE ops = MaxOps) /\ done' = TRUE
          /\ PrintT(<<"X03T", ToJson([init |-> init, steps |-> hist, log |-> IF EmitAll THEN "last" ELSE "all"])>>)
          /\ UNCHANGED <<cur, ti, saved, ops, hist, fails, init>>
Act == /\ ~done /\ ops < MaxOps
       /\ \/ "match" \in Kinds /\ \E P \in Pats \cup {cur}, U \in Targs \cup {cur} : Match(P, U)
          \/ "subst" \in Kinds /\ SubstCur
          \/ "subst2" \in Kinds /\ Subst2
          \/ "fresh" \in Kinds /\ Fresh
          \/ "inst" \in Kinds /\ \E s \in Insts : SetInst(s)
          \/ "save" \in Kinds /\ Save
          \/ "conv" \in Kinds /\ ConvCur
          \/ "wrap" \in Kinds /\ \E c \in {"list", "dom", "rng"} : Wrap(c)
          \/ "cmp" \in Kinds /\ \E U \in CmpSet : Cmp(U)
Next == Act \/ Finish
Spec == Init /\ [][Next]_vars

\* ------------------------------------------------------------------ the statement
\* every step of the reference machine satisfies the clause about that step
StepsLawful == fails = {}
\* one type: strip/TFun, variable and sub-type lists, printed form parsed back by the reference grammar, conversion and its inverse
LookLawful == TypeClauses(cur, RefLook(cur)) = {}
\* the instantiation under construction is a function and the saved copy is one too
InstsFunctional == Functional(ti) /\ Functional(saved)
\* T.subst(s).subst(r) = T.subst(s ; r)  and  the empty instantiation is the identity
ComposeLaw == TSubst(TSubst(cur, ti), saved) = TSubst(cur, Compose(ti, saved)) /\ TSubst(cur, <<>>) = cur
\* within one arity per name the coded matcher IS the reference matcher
MatcherIsReference == \A P \in Pats : \A U \in Targs \cup {cur} :
                        LET r == MatchP(P, U, ti) ref == TMatch(P, U, ti) IN (r[1] = (ref # ErrAL)) /\ (r[1] => ALSet(r[2]) = ALSet(ref))
\* the coded orders are total orders consistent with equality (cur against CmpSet, and transitivity through CmpSet)
OrdersLawful == ops = 0 => \A U \in CmpSet : /\ PairClauses(cur, U, RefPair(cur, U)) = {}
                                              /\ \A V \in CmpSet : TripleClauses(RefTriple(cur, U, V)) = {}
=============================================================================
