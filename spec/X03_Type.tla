------------------------------ MODULE X03_Type ------------------------------
(* S-specification of X03, types.  A workbench with one current type `cur`, one TyInst under construction `ti` (the object that     *)
(* match_incr updates IN PLACE) and one saved copy of it (`saved` = copy.copy(ti)).  One action per public operation of                *)
(* kernel/type.py:                                                                                                                  *)
(*   match(P, U)   P.match_incr(U, ti), AS CODED (bindings made before a failure stay in ti)      subst    cur := cur.subst(ti)          *)
(*   fresh         ti := TyInst()           inst(s)  ti := TyInst(s)          save   saved := copy.copy(ti)                            *)
(*   conv          cur := cur.convert_stvar()  (TypeException when a schematic variable occurs)                                        *)
(*   wrap(c)       cur := TConst("list", cur) | TFun(cur, nat) | TFun(?'a, cur)                                                        *)
(*   cmp(U)        ==, hash, <=, <, fast_compare_typ on (cur, U)     look   every unary observation of cur      subst2  (observation)   *)
(* Init: cur ranges over ALL types of <= Depth levels (X03_Defs.TypesUpTo), so that the unary / binary clauses are checked on the        *)
(* whole universe; the histories of <= MaxOps actions are all explored and, with Record, every behaviour is printed for replay in the     *)
(* real code.  The clauses are the operators of X03_Defs, the SAME ones the T specification applies to what the real code answers;       *)
(* here they are applied to what the reference answers (RefLook, RefPair, ...), which checks the reference itself: the printer's         *)
(* bracket rules against the reference parser, strip/TFun, the coded orders being total orders, composition of instantiations, the        *)
(* coded matcher against the reference matcher of lib/HolTerms.                                                                       *)
EXTENDS X03_Machines, Json
CONSTANTS Depth,       \* Init: cur \in TypesUpTo(Depth)
          MaxOps, Pats, Targs, Insts, CmpSet, Cmp3Set, Kinds, Record, EmitAll
VARIABLES cur, ti, saved, ops, hist, done, fails, init
vars == <<cur, ti, saved, ops, hist, done, fails, init>>

\* named sets for the configurations (cfg files cannot write tuples)
PatsSmall == { SA, FunT(SA, SB), FunT(SA, SA), TC2("prod", SA, TC1("list", SA)), FunT(TA, SB) }
PatsTiny == { FunT(SA, SB), FunT(SA, SA), TC2("prod", SA, TC1("list", SB)) }
TargsTiny == { FunT(TA, NatT), FunT(NatT, NatT), TC2("prod", TB, TC1("list", TB)), FunT(TA, FunT(TB, SA)) }
TargsSmall == { TA, FunT(TA, NatT), FunT(NatT, NatT), TC1("list", SB), TC2("prod", TB, TC1("list", TB)), TC2("prod", TB, TC1("list", TA)), FunT(TA, FunT(TB, SA)) }
PatsAll == TypesUpTo(2)
TargsAll == TypesUpTo(2)
InstRange == { SA, SB, TA, NatT, TC1("list", SB), FunT(TA, SA), TC2("prod", SA, SB) }
InstsAll == { <<>> } \cup { << <<"a", X>> >> : X \in InstRange } \cup { << <<"b", X>> >> : X \in InstRange }
            \cup { << <<"a", X>>, <<"b", Y>> >> : X \in InstRange, Y \in InstRange }
InstsSmall == { << <<"a", TB>> >>, << <<"a", SB>>, <<"b", TC1("list", SA)>> >>, << <<"b", FunT(SA, TA)>> >>, << <<"a", TC2("prod", SB, SB)>>, <<"b", SA>> >> }
CmpSmall == { SA, SB, TA, TB, NatT, TC1("list", TA), FunT(TA, TA), TC2("prod", TA, TA), FunT(SA, TC1("list", TA)), TC1("list", FunT(TA, TA)) }
CmpAll == TypesUpTo(2)
Cmp3Tiny == { SB, TA, FunT(TA, TA), TC1("list", TA) }
None == {}
KindsAll == {"match", "subst", "fresh", "inst", "save", "conv", "wrap", "cmp", "cmp3", "subst2"}
KindsHist == {"match", "subst", "fresh", "inst", "save", "conv", "wrap", "subst2"}
KindsPair == {"cmp", "cmp3", "match"}
KindsLook == {"look"}
KindsCompose == {"inst", "save", "subst2"}

\* ------------------------------------------------------------------ the machine
Here == TSt(cur, ti, saved)
Init == /\ cur \in TypesUpTo(Depth) /\ ti = <<>> /\ saved = <<>> /\ ops = 0 /\ hist = <<>> /\ done = FALSE /\ fails = {} /\ init = cur
\* one step: the transition function, and the statement's clauses applied to what the reference itself answers
Step(op) == LET n == TyNext(Here, op) IN
            /\ cur' = n.cur /\ ti' = n.ti /\ saved' = n.saved /\ ops' = ops + 1 /\ UNCHANGED <<done, init>>
            /\ fails' = TyClauses(Here, op, n, n.out, TyObs(Here, op))
            /\ hist' = IF Record THEN Append(hist, op) ELSE hist
Match(P, U) == Step(TOp("match", P, U, "", <<>>))
SubstCur == Step(TOp("subst", NoT, NoT, "", <<>>))
Subst2 == Step(TOp("subst2", NoT, NoT, "", Compose(ti, saved)))
Fresh == ti # <<>> /\ Step(TOp("fresh", NoT, NoT, "", <<>>))
SetInst(s) == s # ti /\ Step(TOp("inst", NoT, NoT, "", s))
Save == saved # ti /\ Step(TOp("save", NoT, NoT, "", <<>>))
ConvCur == Step(TOp("conv", NoT, NoT, "", <<>>))
Wrap(c) == TSize(cur) <= 7 /\ Step(TOp("wrap", NoT, NoT, c, <<>>))
Cmp(U) == Step(TOp("cmp", NoT, U, "", <<>>))
Cmp3(U, V) == Step(TOp("cmp3", U, V, "", <<>>))
Look == Step(TOp("look", NoT, NoT, "", <<>>))
Finish == /\ Record /\ ~done /\ (IF EmitAll THEN ops >= 1 ELSE ops = MaxOps) /\ done' = TRUE
          /\ PrintT(<<"X03T", ToJson([init |-> init, steps |-> hist, log |-> IF EmitAll THEN "last" ELSE "all"])>>)
          /\ UNCHANGED <<cur, ti, saved, ops, hist, fails, init>>
Act == /\ ~done /\ ops < MaxOps
       /\ \/ "match" \in Kinds /\ \E P \in Pats \cup {cur}, U \in Targs \cup {cur} : Match(P, U)
          \/ "subst" \in Kinds /\ SubstCur
          \/ "subst2" \in Kinds /\ Subst2
          \/ "fresh" \in Kinds /\ Fresh
          \/ "inst" \in Kinds /\ \E s \in Insts : SetInst(s)
          \/ "save" \in Kinds /\ Save
          \/ "conv" \in Kinds /\ ConvCur
          \/ "wrap" \in Kinds /\ \E c \in {"list", "dom", "rng"} : Wrap(c)
          \/ "cmp" \in Kinds /\ \E U \in CmpSet : Cmp(U)
          \/ "cmp3" \in Kinds /\ \E U \in CmpSmall, V \in Cmp3Set : Cmp3(U, V)
          \/ "look" \in Kinds /\ Look
Next == Act \/ Finish
Spec == Init /\ [][Next]_vars

\* ------------------------------------------------------------------ the statement
\* every step of the reference machine satisfies the clause about that step
StepsLawful == fails = {}
\* one type: strip/TFun, variable and sub-type lists, printed form parsed back by the reference grammar, conversion and its inverse
LookLawful == TypeClauses(cur, RefLook(cur)) = {}
\* the instantiation under construction is a function and the saved copy is one too
InstsFunctional == Functional(ti) /\ Functional(saved)
\* T.subst(s).subst(r) = T.subst(s ; r)  and  the empty instantiation is the identity
ComposeLaw == TSubst(TSubst(cur, ti), saved) = TSubst(cur, Compose(ti, saved)) /\ TSubst(cur, <<>>) = cur
\* within one arity per name the coded matcher IS the reference matcher
MatcherIsReference == \A P \in Pats : \A U \in Targs \cup {cur} :
                        LET r == MatchP(P, U, ti) ref == TMatch(P, U, ti) IN (r[1] = (ref # ErrAL)) /\ (r[1] => ALSet(r[2]) = ALSet(ref))
\* the coded orders are total orders consistent with equality (cur against CmpSet, and transitivity through CmpSet)
OrdersLawful == ops = 0 => \A U \in CmpSet : /\ PairClauses(cur, U, RefPair(cur, U)) = {}
                                              /\ \A V \in CmpSmall : TripleClauses(RefTriple(cur, U, V)) = {}
=============================================================================
