SPECIFICATION Spec
CONSTANTS MaxMono = 1
 MaxOps = 10
 MaxSize = 12
 InitP <- UniverseP
 InitQ <- QWide
 InitR <- RWide
 Gens <- GensSmall
 Scalars <- ScalarsSmall
 Kinds <- KindsAll
 Record = TRUE
 EmitAll = FALSE
INVARIANT NormalForm
INVARIANT EvalCommutes
INVARIANT EvalDefined
INVARIANT RingLaws
CHECK_DEADLOCK FALSE
