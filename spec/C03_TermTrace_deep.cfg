SPECIFICATION TSpec
POSTCONDITION TPost
CHECK_DEADLOCK FALSE
CONSTANTS Depth = 3
 N = 2
 MaxSize = 8
