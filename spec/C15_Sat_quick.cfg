SPECIFICATION Spec
CONSTANT Parts <- PartsQuick
INVARIANT ResolutionSound
INVARIANT RefutationComplete
INVARIANT CertificateAccepted
INVARIANT CertificateOnlyIfUnsat
INVARIANT ReplayFaithful
POSTCONDITION Emit
CHECK_DEADLOCK FALSE
