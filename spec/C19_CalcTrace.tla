---------------------------- MODULE C19_CalcTrace ----------------------------
(* T-specification for C19: events produced by the real integration calculator                      *)
(* (harness/drivers/c19.py: TLC-generated vectors, seeded random inputs, recorded example files).     *)
(*                                                                                                   *)
(*  kind "rule"  e --rule(ps, pe), conds--> r ; printed = str(r) ; rp = parse_expr(printed)            *)
(*      SameValue             at every grid point that satisfies the recorded conditions and where     *)
(*                            both e and r are defined and exactly evaluable (C19_Eval) the values are  *)
(*                            equal (with an indefinite integral / Skolem constant: equal up to an       *)
(*                            additive constant).  Named DerivCorrect when the step is the symbolic       *)
(*                            differentiation of D x. b (value of r against the forward-mode derivative).  *)
(*      PrintParseIdentity    str(r) parses, and gives r back (numerals identified, see Canon)            *)
(*      A rule that fails with its own exception is not a violation (no clause applies).                  *)
(*  kind "norm"  n1 = normalize(e), n2 = normalize(n1), n3 = normalize(n2)                                *)
(*      NormalizeIdempotent       n2 = n1, structurally.  The verdict file also says (info.cls) whether   *)
(*                                the second pass was a fixed point (n3 = n2): "second-pass-stable"          *)
(*      NormalizePreservesValue   as SameValue, for e and n1                                             *)
(*  kind "pp"    rp = parse_expr(str(e)) for expressions of ALL forms                                    *)
(*      PrintParseIdentity                                                                               *)
(*  Events outside the exactly evaluable fragment are consumed with nt = FALSE for the value clauses.     *)
(*  Steps of a HISTORY (several rule applications in one shared context, fields fam / k / prefix) and steps that use    *)
(*  scratch identities are rule events like the others: conds = the conditions STATED for the whole history.         *)
(*  dv (informational): a recorded example step whose re-executed result differs from the stored one; a step that    *)
(*  changed the conditions held by the shared context (cb / ca).                                                   *)
EXTENDS C19_Eval, TraceLib

PPFails(e, rpo, rp) ==
  IF ~Printable(e, TRUE) \/ ~PrintableCanon(e) THEN FALSE
  ELSE IF rpo # "ok" THEN TRUE
  ELSE LET c == SameUpToNumerals(e, rp) IN c.judged /\ ~c.same

\* rules whose claim is "the result has the value of the input" with nothing but the recorded conditions as context.
\* (Not judged by value: rules that use lemmas, definitions, induction hypotheses or earlier substitutions of the
\* calculation, rules on equations, and IntegrateByEquation, whose result is the solution of an equation.)
ValueRules == {"Simplify", "FullSimplify", "Linearity", "CommonIntegral", "DefiniteIntegralIdentity", "IndefiniteIntegralIdentity",
               "ExpandPolynomial", "DerivativeSimplify", "SummationSimplify", "SimplifyPower", "DerivIntExchange", "IntSumExchange",
               "MergeSummation", "Substitution", "SubstitutionInverse", "IntegrationByParts", "SplitRegion", "Equation",
               "ElimInfInterval", "LHopital", "ReduceLimit", "ApplyIdentity", "SeriesExpansionIdentity", "SeriesEvaluationIdentity"}
IsDerivStep(ev) == ev.e[1] = "deriv" /\ ev.rule \in {"DerivativeSimplify", "Sub:DerivativeSimplify"}

\* [fails: set of failing clauses, nt: non-trivial, dv: divergence]   (records: see the note in C19_Eval)
V(f, nt, dv) == [fails |-> f, nt |-> nt, dv |-> dv]
Verdict3(ev) ==
  CASE ev.kind = "rule" ->
         IF ev.outcome # "ok" THEN V({}, FALSE, FALSE)
         ELSE LET sv == IF ev.base \in ValueRules THEN SameValue(ev.e, ev.r, ev.conds) ELSE [fails |-> FALSE, cmp |-> FALSE]
                  pp == PPFails(ev.r, ev.rpo, ev.rp) IN
              V((IF sv.fails THEN {IF IsDerivStep(ev) THEN "DerivCorrect" ELSE "SameValue"} ELSE {})
                \cup (IF pp THEN {"PrintParseIdentity"} ELSE {}),
                sv.cmp,
                \/ ("rec" \in DOMAIN ev /\ ~SameUpToNumerals(ev.rec, ev.r).same)
                \/ ("cb" \in DOMAIN ev /\ "ca" \in DOMAIN ev /\ ev.cb # ev.ca))         \* the step changed the conditions of the shared context
    [] ev.kind = "norm" ->
         IF ev.outcome # "ok" THEN V({}, FALSE, FALSE)
         ELSE LET sv == SameValue(ev.e, ev.n1, ev.conds) IN
              V((IF ev.n1 # ev.n2 THEN {"NormalizeIdempotent"} ELSE {})
                \cup (IF sv.fails THEN {"NormalizePreservesValue"} ELSE {}),
                TRUE, FALSE)
    [] ev.kind = "pp" -> V(IF PPFails(ev.e, ev.rpo, ev.rp) THEN {"PrintParseIdentity"} ELSE {}, Printable(ev.e, TRUE), FALSE)
    [] OTHER -> V({}, FALSE, FALSE)

\* class of the failure (bookkeeping for the finding's key only)
ClassOf(ev, fails) ==
  IF ev.kind = "norm" /\ "NormalizeIdempotent" \in fails THEN (IF ev.n3 = ev.n2 THEN "second-pass-stable" ELSE "second-pass-unstable") ELSE ""

TNext == l <= Len(Trace) /\
         LET ev == Trace[l]  v == Verdict3(ev) IN
         IF v.fails # {} THEN TStepInfo(ev.tid, v.fails, v.nt, v.dv, [tid |-> ev.tid, cls |-> ClassOf(ev, v.fails)])
         ELSE TStep(ev.tid, v.fails, v.nt, v.dv)
TSpec == TInit /\ [][TNext]_l
=============================================================================
