---------------------------- MODULE C19_CalcTrace ----------------------------
(* T-specification for C19: events produced by the real integration calculator                      *)
(* (harness/drivers/c19.py: TLC-generated vectors, seeded random inputs, recorded example files).     *)
(*                                                                                                   *)
(*  kind "rule"  e --rule(ps, pe), conds--> r ; printed = str(r) ; rp = parse_expr(printed)            *)
(*      SameValue             at every grid point that satisfies the recorded conditions and where     *)
(*                            both e and r are defined and exactly evaluable (C19_Eval) the values are  *)
(*                            equal (with an indefinite integral / Skolem constant: equal up to an       *)
(*                            additive constant).  Named DerivCorrect when the step is the symbolic       *)
(*                            differentiation of D x. b (value of r against the forward-mode derivative).  *)
(*      PrintParseIdentity    str(r) parses, and gives r back (numerals identified, see Canon)            *)
(*      A rule that fails with its own exception is not a violation (no clause applies).                  *)
(*  kind "norm"  n1 = normalize(e), n2 = normalize(n1)                                                   *)
(*      NormalizeIdempotent       n2 = n1, structurally                                                  *)
(*      NormalizePreservesValue   as SameValue, for e and n1                                             *)
(*  kind "pp"    rp = parse_expr(str(e)) for expressions of ALL forms                                    *)
(*      PrintParseIdentity                                                                               *)
(*  Events outside the exactly evaluable fragment are consumed with nt = FALSE for the value clauses.     *)
(*  dv (informational): a recorded example step whose re-executed result differs from the stored one.    *)
EXTENDS C19_Eval, TraceLib

PPFails(e, rpo, rp) ==
  IF ~Printable(e, TRUE) THEN FALSE
  ELSE IF rpo # "ok" THEN TRUE
  ELSE LET a == Canon(e)  b == Canon(rp) IN
       IF HasKind(a, "bigconst") \/ HasKind(b, "bigconst") \/ HasKind(b, "oth") THEN FALSE ELSE a # b

IsDerivStep(ev) == ev.e[1] = "deriv" /\ ev.rule \in {"DerivativeSimplify", "Sub:DerivativeSimplify"}

\* <<set of failing clauses, non-trivial, divergence>>
Verdict(ev) ==
  CASE ev.kind = "rule" ->
         IF ev.outcome # "ok" THEN <<{}, FALSE, FALSE>>
         ELSE LET sv == SameValue(ev.e, ev.r, ev.conds)
                  pp == PPFails(ev.r, ev.rpo, ev.rp) IN
              << (IF sv[1] THEN {IF IsDerivStep(ev) THEN "DerivCorrect" ELSE "SameValue"} ELSE {})
                 \cup (IF pp THEN {"PrintParseIdentity"} ELSE {}),
                 sv[2],
                 "rec" \in DOMAIN ev /\ Canon(ev.rec) # Canon(ev.r) >>
    [] ev.kind = "norm" ->
         IF ev.outcome # "ok" THEN <<{}, FALSE, FALSE>>
         ELSE LET sv == SameValue(ev.e, ev.n1, ev.conds) IN
              << (IF ev.n1 # ev.n2 THEN {"NormalizeIdempotent"} ELSE {})
                 \cup (IF sv[1] THEN {"NormalizePreservesValue"} ELSE {}),
                 TRUE, FALSE >>
    [] ev.kind = "pp" -> << IF PPFails(ev.e, ev.rpo, ev.rp) THEN {"PrintParseIdentity"} ELSE {}, Printable(ev.e, TRUE), FALSE >>
    [] OTHER -> <<{}, FALSE, FALSE>>

TNext == LET ev == Trace[l]  v == Verdict(ev) IN TStep(ev.tid, v[1], v[2], v[3])
TSpec == TInit /\ [][TNext]_l
=============================================================================
