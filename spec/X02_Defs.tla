------------------------------ MODULE X02_Defs ------------------------------
(* Constant-level vocabulary of X02, shared by the S specifications (X02_Export, X02_ItemId) and the T        *)
(* specification (X02_Trace): the same definitions are invariants of the reference machines and clauses     *)
(* evaluated on the real code.  Line numbering / visibility come from C13_Lines (LCanDependOn, LNextOK,       *)
(* LContiguous: kernel/proof.py ItemID.can_depend_on and pre-order contiguity), which C04_MacroTrace states   *)
(* once more for macro expansions; they are not repeated here.                                              *)
(*                                                                                                          *)
(* A proof term is a DAG  N = << node_1 .. node_k >>,  node = [rule, arg, prems, th, aid]:                  *)
(*    prems = indices of EARLIER nodes (sharing = one index cited twice; two nodes may also be equal),       *)
(*    th    = the sequent the node proves (opaque here: only compared with =),                              *)
(*    aid   = for rule "atom" the id of the line of the enclosing proof that the atom stands for, else <<>>. *)
(* An exported proof is a sequence of lines [id, rule, arg, prevs, th].                                      *)
EXTENDS C13_Lines, TLC

XSetOf(s) == { s[i] : i \in 1..Len(s) }
XLast(s) == s[Len(s)]
XParent(id) == SubSeq(id, 1, Len(id) - 1)
XIsPrefix(a, b) == Len(a) <= Len(b) /\ SubSeq(b, 1, Len(a)) = a

\* ------------------------------------------------------------------ the DAG
\* the nodes a node depends on (premises have smaller indices: one sweep downwards, linear also with heavy sharing)
RECURSIVE XReachDown(_,_,_)
XReachDown(N, k, S) == IF k = 0 THEN S ELSE XReachDown(N, k - 1, IF k \in S THEN S \cup XSetOf(N[k].prems) ELSE S)
XReach(N, n) == XReachDown(N, n, {n})
\* the nodes in the order a depth-first walk from n (premises left to right) finishes them; a canonical numbering of the DAG
RECURSIVE XPost(_,_,_), XPostPrems(_,_,_,_)
XPost(N, n, acc) == IF n \in XSetOf(acc) THEN acc ELSE Append(XPostPrems(N, n, 1, acc), n)
XPostPrems(N, n, k, acc) == IF k > Len(N[n].prems) THEN acc ELSE XPostPrems(N, n, k + 1, XPost(N, N[n].prems[k], acc))
XPostOrder(N, root) == XPost(N, root, <<>>)
XGaps(N, root) == { N[n].th : n \in { m \in XReach(N, root) : N[m].rule = "sorry" } }
XWellFormed(N) == \A n \in 1..Len(N) : \A k \in 1..Len(N[n].prems) : N[n].prems[k] \in 1..(n - 1)

\* ------------------------------------------------------------------ reference export  (ProofTerm.export)
\* the k-th exported line (k = 0, 1, ..): below the prefix (subproof) or as the prefix's later siblings
XLineId(pfx, sub, k) == IF sub THEN Append(pfx, k) ELSE Append(XParent(pfx), pfx[Len(pfx)] + k)
XApplicable(pfx, sub) == sub \/ Len(pfx) >= 1
\* depth-first, premises left to right; a premise whose SEQUENT already has a line is cited, not exported again;
\* an atom is cited by the id it carries.   acc = [lines |-> .., map |-> sequent :> id of the latest line stating it]
XEmptyAcc == [lines |-> <<>>, map |-> <<>>]
RECURSIVE XNode(_,_,_,_,_), XPrems(_,_,_,_,_,_,_)
XNode(N, n, pfx, sub, acc) ==
  LET r == XPrems(N, n, 1, pfx, sub, acc, <<>>)
      id == XLineId(pfx, sub, Len(r.acc.lines))
  IN [lines |-> Append(r.acc.lines, [id |-> id, rule |-> N[n].rule, arg |-> N[n].arg, prevs |-> r.ids, th |-> N[n].th]),
      map |-> (N[n].th :> id) @@ r.acc.map]
XPrems(N, n, k, pfx, sub, acc, ids) ==
  IF k > Len(N[n].prems) THEN [acc |-> acc, ids |-> ids]
  ELSE LET p == N[n].prems[k] IN
       IF N[p].rule = "atom" THEN XPrems(N, n, k + 1, pfx, sub, acc, Append(ids, N[p].aid))
       ELSE IF N[p].th \in DOMAIN acc.map THEN XPrems(N, n, k + 1, pfx, sub, acc, Append(ids, acc.map[N[p].th]))
       ELSE LET a2 == XNode(N, p, pfx, sub, acc) IN XPrems(N, n, k + 1, pfx, sub, a2, Append(ids, XLast(a2.lines).id))
XRefExport(N, root, pfx, sub) == XNode(N, root, pfx, sub, XEmptyAcc).lines

\* ------------------------------------------------------------------ the statement, clause by clause, on lines L
XIds(L) == { L[i].id : i \in 1..Len(L) }
XIdx(L, id) == CHOOSE i \in 1..Len(L) : L[i].id = id
XAtomIds(N) == { N[n].aid : n \in { m \in 1..Len(N) : N[m].rule = "atom" } }
\* (b) identifiers contiguous below the prefix (LNextOK: each line is the next sibling of the one before)
XContiguous(L, pfx, sub) ==
  /\ Len(L) >= 1 /\ L[1].id = XLineId(pfx, sub, 0)
  /\ \A i \in 1..(Len(L) - 1) : LNextOK(L[i].id, L[i + 1].id) /\ Len(L[i + 1].id) = Len(L[1].id)
\* (b) every citation names an EARLIER line of the export that is visible from the citing line, or the line an atom stands for
XCitations(L, N) ==
  \A i \in 1..Len(L) : \A k \in 1..Len(L[i].prevs) :
     LET p == L[i].prevs[k] IN
     \/ (p \in XIds(L) /\ XIdx(L, p) < i /\ LCanDependOn(L[i].id, p))
     \/ (p \notin XIds(L) /\ p \in XAtomIds(N))
\* (a) the last line states exactly the proof term's sequent (by its rule)
XLastIsRoot(L, N, root) == Len(L) >= 1 /\ XLast(L).th = N[root].th /\ XLast(L).rule = N[root].rule /\ XLast(L).arg = N[root].arg
\* what a line proves: every line is the application of SOME node of the proof term - same rule, same argument, same
\* sequent - and the lines it cites state exactly that node's premises (so merging never changes what a line proves)
XRealises(L, N, i, n) ==
  /\ N[n].rule = L[i].rule /\ N[n].arg = L[i].arg /\ N[n].th = L[i].th /\ Len(N[n].prems) = Len(L[i].prevs)
  /\ \A k \in 1..Len(L[i].prevs) :
        LET q == N[n].prems[k] IN
        IF N[q].rule = "atom" THEN L[i].prevs[k] = N[q].aid
        ELSE L[i].prevs[k] \in XIds(L) /\ L[XIdx(L, L[i].prevs[k])].th = N[q].th
XFaithful(L, N, root) == \A i \in 1..Len(L) : \E n \in XReach(N, root) : N[n].rule # "atom" /\ XRealises(L, N, i, n)
\* (c) one sub-derivation = one line: never two lines with the same rule, argument and citations
XSharedOnce(L) == \A i \in 1..Len(L) : \A j \in (i + 1)..Len(L) :
                     ~(L[i].rule = L[j].rule /\ L[i].arg = L[j].arg /\ L[i].prevs = L[j].prevs /\ L[i].th = L[j].th)
\* (b) gaps: every sorry line is a gap of the proof term with that sequent (no invented gap).  The converse is NOT what the code
\* does and is not required: a gap whose sequent already has a line (another derivation of it came first), or that lies below
\* a node whose sequent already has a line, is absorbed - the exported proof then has fewer gaps than ProofTerm.gaps (XAbsorbed)
XSorryThs(L) == { L[i].th : i \in { j \in 1..Len(L) : L[j].rule = "sorry" } }
XThs(L) == { L[i].th : i \in 1..Len(L) }
XNoInventedGap(L, N, root) == XSorryThs(L) \subseteq XGaps(N, root) /\ \A i \in 1..Len(L) : L[i].rule = "sorry" => L[i].prevs = <<>>
XAbsorbed(L, N, root) == XGaps(N, root) \ XSorryThs(L)
\* sharing really happened: some line is cited at two places
XCiteSites(L, id) == UNION { { <<i, k>> : k \in { m \in 1..Len(L[i].prevs) : L[i].prevs[m] = id } } : i \in 1..Len(L) }
XCitedTwice(L) == \E i \in 1..Len(L) : Cardinality(XCiteSites(L, L[i].id)) >= 2
XExportClauses(L, N, root, pfx, sub) ==
     (IF XContiguous(L, pfx, sub) THEN {} ELSE {"Contiguous"})
  \cup (IF XCitations(L, N) THEN {} ELSE {"CitationsEarlierVisible"})
  \cup (IF XLastIsRoot(L, N, root) THEN {} ELSE {"LastLineIsSequent"})
  \cup (IF XContiguous(L, pfx, sub) /\ XCitations(L, N) /\ ~XFaithful(L, N, root) THEN {"LineProvesItsNode"} ELSE {})
  \cup (IF XSharedOnce(L) THEN {} ELSE {"SharedOnce"})
  \cup (IF XNoInventedGap(L, N, root) THEN {} ELSE {"GapsAreSorries"})

\* ------------------------------------------------------------------ embedding into the enclosing proof
\* H = enclosing proof in pre-order, lines [id, rule, arg, prevs, th]; g = id of the goal line (<<>> : no enclosing proof).
\*   subproof: the goal line becomes a block (rule "subproof") whose lines are the export (method.py introduction, Macro.expand)
\*   siblings: the export takes the goal's place, the later lines of its level move down by n - 1 (method.py apply_tactic)
XIncrAfter(self, start, n) == LET k == Len(start) IN
   IF Len(self) >= k /\ SubSeq(self, 1, k - 1) = SubSeq(start, 1, k - 1) /\ self[k] >= start[k]
   THEN [self EXCEPT ![k] = @ + n] ELSE self
XDecrId(self, rem) == LET k == Len(rem) IN
   IF Len(self) >= k /\ SubSeq(self, 1, k - 1) = SubSeq(rem, 1, k - 1) /\ self[k] > rem[k]
   THEN [self EXCEPT ![k] = @ - 1] ELSE self
XEmbed(H, g, L, sub) ==
  IF g = <<>> THEN L
  ELSE LET gi == XIdx(H, g) n == Len(L) IN
       IF sub THEN SubSeq(H, 1, gi - 1) \o << [H[gi] EXCEPT !.rule = "subproof"] >> \o L \o SubSeq(H, gi + 1, Len(H))
       ELSE LET mv(x) == XIncrAfter(x, g, n - 1)
                tail == [i \in 1..(Len(H) - gi) |->
                           [H[gi + i] EXCEPT !.id = mv(@), !.prevs = [k \in 1..Len(@) |-> mv(@[k])]]]
            IN SubSeq(H, 1, gi - 1) \o L \o tail
\* the whole proof as C13_Lines lines <<id, uid, prevs>> (uid = position, only the shape matters here)
XAsLines(W) == [i \in 1..Len(W) |-> <<W[i].id, i, W[i].prevs>>]
XWholeContiguous(W) == LContiguous(XAsLines(W))
XWholeCitations(W) == \A i \in 1..Len(W) : \A k \in 1..Len(W[i].prevs) :
                         LET p == W[i].prevs[k] IN p \in XIds(W) /\ XIdx(W, p) < i /\ LCanDependOn(W[i].id, p)
\* lines of the enclosing proof that cited the goal now cite the line that states it (the block, or the last exported line)
XGoalStillStated(H, g, W, L, sub) ==
  g = <<>> \/ LET tgt == IF sub THEN g ELSE XLast(L).id IN
              /\ tgt \in XIds(W) /\ W[XIdx(W, tgt)].th = H[XIdx(H, g)].th
              /\ \A i \in 1..Len(H) : g \in XSetOf(H[i].prevs) =>
                   \E j \in 1..Len(W) : W[j].rule = H[i].rule /\ W[j].arg = H[i].arg /\ tgt \in XSetOf(W[j].prevs) /\ Len(W[j].prevs) = Len(H[i].prevs)

\* ------------------------------------------------------------------ (e) the tree of lines, by POSITION
\* a proof shape is the pre-order sequence D of the depths (1, 2, ..) of its lines; the id of a line is its path of positions
XShapeOK(D) == Len(D) >= 1 /\ D[1] = 1 /\ \A i \in 1..(Len(D) - 1) : D[i + 1] >= 1 /\ D[i + 1] <= D[i] + 1
RECURSIVE XUp(_,_,_)
XUp(D, j, d) == IF j = 0 THEN 0 ELSE IF D[j] = d THEN j ELSE XUp(D, j - 1, d)
XPar(D, i) == IF D[i] = 1 THEN 0 ELSE XUp(D, i - 1, D[i] - 1)         \* the block a line lies in (0: none)
\* TLC applies a function written [i \in S |-> e] by evaluating e again at every application: XSeqOf makes it a tuple once
RECURSIVE XSeqOf(_,_)
XSeqOf(f, n) == IF n = 0 THEN <<>> ELSE Append(XSeqOf(f, n - 1), f[n])
XParF(D) == XSeqOf([i \in 1..Len(D) |-> XPar(D, i)], Len(D))
RECURSIVE XPathF(_,_,_), XAncF(_,_)
XPathF(D, pf, i) == LET k == Cardinality({ j \in 1..(i - 1) : D[j] = D[i] /\ pf[j] = pf[i] }) IN
                    IF pf[i] = 0 THEN <<k>> ELSE Append(XPathF(D, pf, pf[i]), k)
XPaths(D) == LET pf == XParF(D) IN XSeqOf([i \in 1..Len(D) |-> XPathF(D, pf, i)], Len(D))
XPath(D, i) == XPathF(D, XParF(D), i)
XAncF(pf, i) == IF pf[i] = 0 THEN {} ELSE {pf[i]} \cup XAncF(pf, pf[i])
\* line a may cite line b: b is earlier, is not a block around a, and lies directly in the proof or in a block around a
XVisPairs(D) == LET pf == XParF(D) anc == XSeqOf([i \in 1..Len(D) |-> XAncF(pf, i)], Len(D)) IN
   { ab \in (1..Len(D)) \X (1..Len(D)) : ab[2] < ab[1] /\ ab[2] \notin anc[ab[1]] /\ (pf[ab[2]] = 0 \/ pf[ab[2]] \in anc[ab[1]]) }
XVisible(D, a, b) == <<a, b>> \in XVisPairs(D)
XSubtreeEnd(D, i) == LET S == { j \in (i + 1)..Len(D) : D[j] <= D[i] } IN
                     IF S = {} THEN Len(D) ELSE (CHOOSE j \in S : \A m \in S : j <= m) - 1
\* insert n blank lines in front of line i (same depth); remove line i with the lines inside it
XInsert(D, i, n) == SubSeq(D, 1, i - 1) \o [k \in 1..n |-> D[i]] \o SubSeq(D, i, Len(D))
XRemove(D, i) == SubSeq(D, 1, i - 1) \o SubSeq(D, XSubtreeEnd(D, i) + 1, Len(D))
\* position after the edit of the line that was at position j (0: removed)
XPosAfterInsert(i, n, j) == IF j >= i THEN j + n ELSE j
XPosAfterRemove(D, i, j) == IF j < i THEN j ELSE IF j <= XSubtreeEnd(D, i) THEN 0 ELSE j - (XSubtreeEnd(D, i) - i + 1)
=============================================================================
