SPECIFICATION Spec
CONSTANTS MaxSize = 8
 MaxSteps = 3
 NV = 4
 MaxAtoms = 4
 AtomKinds = {"A", "E", "L", "F", "P", "N", "B", "M"}
 LongKinds = {"A", "L", "F"}
 Variants <- VariantsAll
 FinalOccursCheck = TRUE
 AnnotVarCheck = TRUE
 WithModel = TRUE
INVARIANT ModelTerminates
INVARIANT ModelGoodResult
INVARIANT ModelErasure
CHECK_DEADLOCK FALSE
