SPECIFICATION Spec
CONSTANTS MaxSize = 8
 MaxSteps = 3
 NV = 3
 MaxAtoms = 4
 AtomKinds = {"A", "L", "F", "P", "B", "M"}
 LongKinds = {"A", "L"}
 ShortKinds = {"SP", "SN", "SE", "SA"}
 ShortLen = 3
 DeclAtoms = 3
 Variants <- VariantsDeep
 ExactOccursCheck = TRUE
 AnnotVarCheck = TRUE
 WithModel = TRUE
INVARIANT ModelTerminates
INVARIANT ModelGoodResult
INVARIANT ModelErasure
CHECK_DEADLOCK FALSE
