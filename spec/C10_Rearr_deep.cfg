SPECIFICATION Spec
CONSTANTS SeedLeaves = 3
 MaxLeaves = 4
 PropMembers = 3
 MaxMembers = 4
 MaxNnfSize = 11
 MaxNum = 4
 Rich = TRUE
INVARIANT TypeInv
INVARIANT PolyPreserved
INVARIANT MembersPreserved
INVARIANT TablePreserved
INVARIANT AtomsPreserved
CHECK_DEADLOCK FALSE
