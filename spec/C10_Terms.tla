------------------------------ MODULE C10_Terms ------------------------------
(* S-specification (input space) for the traversal / rewriting combinators of logic/conv.py.              *)
(* TLC enumerates closed well-typed terms WITH BINDERS over a small signature of the theory nat:           *)
(*   x y : nat,  f : nat => nat,  0,  +  (typed generator lib/HolGen.tla, depth Depth, size-capped)        *)
(* extended by the shapes on which the combinators' case analysis depends:                                 *)
(*   redexes of the rewrite rules ?x + 0 = ?x, 0 + ?n = ?n (also nested, also under binders and with the  *)
(*   bound variable inside), instances of the CONDITIONAL rule  ?y <= ?x --> ?x - ?y + ?y = ?x  (with the  *)
(*   variables of the supplied condition y <= x free, and under a binder), beta-redexes whose contractum   *)
(*   is an abstraction, eta-expansions of every generated function term (an abstraction that rewrites to   *)
(*   another abstraction or to a non-abstraction at the top).                                              *)
(* State = one term of the universe; invariants = the universe is what the replay assumes (closed,        *)
(* well-typed at nat or nat => nat) and is not vacuous (every shape class is inhabited).                  *)
EXTENDS HolGen, C10_Laws, SequencesExt, Json, IOUtils

CONSTANTS Depth, MaxSize, CoreSize, NestSize

NN == FunT(NatT, NatT)
vx == <<"var","x",NatT>>   vy == <<"var","y",NatT>>   vf == <<"var","f",NN>>
Z == ZeroC(NatT)
B0 == <<"bound", 0>>
Plus(a, b) == App(App(PlusC(NatT), a), b)
Minus(a, b) == App(App(MinusC(NatT), a), b)
Lam(b) == <<"abs", NatT, b>>
Sig == { vx, vy, vf, Z, PlusC(NatT) }
ArgTypes == { NatT }
TopTypes == { NatT, NN }
Small(S, n) == { t \in S : Size(t) <= n }
\* size-indexed typed generator: EXACTLY the well-typed terms of type T with Size <= n (HolGen.Gen is depth-indexed)
RECURSIVE GenS(_,_,_)
GenS(T, n, env) ==
  { s \in Sig : s[3] = T } \cup { <<"bound", k - 1>> : k \in { k \in 1..Len(env) : env[k] = T } }
  \cup (IF n >= 3 THEN UNION { UNION { { <<"comb", f, a>> : f \in GenS(FunT(A, T), k, env), a \in GenS(A, n - 1 - k, env) } : k \in 1..(n - 2) } : A \in ArgTypes }
        ELSE {})
  \cup (IF IsFun(T) /\ n >= 2 THEN { <<"abs", T[3][1], b>> : b \in GenS(T[3][2], n - 1, <<T[3][1]>> \o env) } ELSE {})
GenT(T, d) == Small(Gen(Sig, ArgTypes, T, d, <<>>), MaxSize) \cup GenS(T, MaxSize, <<>>)
Base == UNION { GenT(T, Depth) : T \in TopTypes }
CoreN == Small(Gen(Sig, ArgTypes, NatT, 2, <<>>), CoreSize)           \* small closed nat terms
CoreB == Small(Gen(Sig, ArgTypes, NatT, 2, <<NatT>>), CoreSize)       \* small nat terms under one binder
\* redexes of the two unconditional rules, nested
Redex1 == UNION { { Plus(a, Z), Plus(Z, a), Plus(Plus(a, Z), Z), Plus(Z, Plus(a, Z)), App(vf, Plus(a, Z)), Plus(Plus(a, Z), Plus(Z, a)) } : a \in CoreN }
\* ... under a binder, with and without the bound variable in the redex
UnderLam == { Lam(Plus(b, Z)) : b \in CoreB } \cup { Lam(Plus(Z, Plus(b, Z))) : b \in CoreB } \cup { App(Lam(Plus(b, Z)), vx) : b \in CoreB }
\* instances of the conditional rule for the condition  y <= x ; the last two put the instance under a binder whose
\* bound variable is (resp. is not) the variable x of the condition once the binder is opened with the name x
SubAdd(a, b) == Plus(Minus(a, b), b)
Cond == { SubAdd(vx, vy), Plus(SubAdd(vx, vy), Z), App(vf, SubAdd(vx, vy)), SubAdd(vy, vx), Plus(SubAdd(vx, vy), SubAdd(vx, vy)),
          Lam(Plus(SubAdd(vx, vy), B0)), Lam(SubAdd(B0, vy)), Lam(Plus(SubAdd(B0, vy), Z)), App(Lam(SubAdd(B0, vy)), vx) }
\* beta-redexes whose contractum is an abstraction; the argument may contain a rule redex
BetaAbs == { App(<<"abs", NatT, Lam(b)>>, a) : b \in { <<"bound", 1>>, B0, Plus(<<"bound", 1>>, B0), Plus(<<"bound", 1>>, Z), App(vf, <<"bound", 1>>) },
                                                a \in { vx, Plus(vx, Z), App(vf, vy) } }
\* eta-expansions  %z. l z  of closed function terms l (contracting gives l: an abstraction or not)
FunTerms == { t \in GenT(NN, Depth) : TRUE } \cup { Lam(Plus(b, Z)) : b \in CoreB } \cup { App(<<"abs", NatT, Lam(b)>>, vx) : b \in { <<"bound", 1>>, Plus(<<"bound", 1>>, B0) } }
EtaX == { Lam(App(l, B0)) : l \in FunTerms }
\* NESTED BINDERS: %a:T1. %b:T2. body  with T1, T2 nat or nat => nat (same or different types), every body of size <= NestSize over the
\* signature and both bound variables that MENTIONS THE OUTER variable; among them bodies with a beta-redex / a rule redex inside.
\* The replay names the binders (all the same name / all different / the same name as a free variable), so that an inner binder
\* carrying the suggested name of an enclosing one is a systematic dimension for every conversion that opens binders.
NestBodies(T1, T2) == { b \in GenS(NatT, NestSize, <<T2, T1>>) : HasBound(b, 1) }
Nested == UNION { { <<"abs", T1, <<"abs", T2, b>> >> : b \in NestBodies(T1, T2) } : T1 \in {NatT, NN}, T2 \in {NatT, NN} }
NestedApp == { App(t, vx) : t \in { u \in Nested : u[2] = NatT /\ Size(u) <= NestSize + 1 } }
Universe == Base \cup Redex1 \cup UnderLam \cup Cond \cup BetaAbs \cup EtaX \cup Nested \cup NestedApp

\* ---- reference notions used for the vacuity guards
RECURSIVE HasRule(_), HasRuleUnderAbs(_)
IsRule(t) == IsOp2(t, PlusC(NatT)) /\ (A2(t) = Z \/ A1(t) = Z)
HasRule(t) == IsRule(t) \/ (t[1] = "comb" /\ (HasRule(t[2]) \/ HasRule(t[3]))) \/ (t[1] = "abs" /\ HasRule(t[3]))
HasRuleUnderAbs(t) == (t[1] = "abs" /\ HasRule(t[3])) \/ (t[1] = "comb" /\ (HasRuleUnderAbs(t[2]) \/ HasRuleUnderAbs(t[3])))
EtaTop(t) == t[1] = "abs" /\ t[3][1] = "comb" /\ t[3][3] = B0 /\ ~HasBound(t[3][2], 0)
BetaTop(t) == IsRedex(t)
NestedMust == { u \in Nested : HasRedex(u) }

VARIABLES t, emitted
vars == <<t, emitted>>
Init == t \in Universe /\ emitted = FALSE
\* a single emission step (taken from one state only) writes the whole universe as vectors
First == CHOOSE u \in Universe : TRUE
Emit == /\ ~emitted /\ t = First /\ emitted' = TRUE /\ UNCHANGED t
        /\ LET us == SetToSeq(Universe) IN
           /\ ndJsonSerialize(IOEnv.VECTOR_FILE, [i \in 1..Len(us) |-> [t |-> us[i], ty |-> TypeOf(us[i], <<>>), must |-> us[i] \in Cond \cup BetaAbs \cup NestedMust]])
           /\ PrintT(<<"terms", Len(us), "base", Cardinality(Base), "rule redex", Cardinality({ u \in Universe : HasRule(u) }),
                       "rule under binder", Cardinality({ u \in Universe : HasRuleUnderAbs(u) }),
                       "eta at top", Cardinality({ u \in Universe : EtaTop(u) }), "beta at top", Cardinality({ u \in Universe : BetaTop(u) }),
                       "beta-normal", Cardinality({ u \in Universe : ~HasRedex(u) }),
                       "nested binders", Cardinality(Nested), "nested with a redex inside", Cardinality(NestedMust)>>)
Next == Emit
Spec == Init /\ [][Next]_vars

NestTypes == { FunT(T1, FunT(T2, NatT)) : T1 \in {NatT, NN}, T2 \in {NatT, NN} }
TermOK == WellTyped(t) /\ ~IsOpen(t) /\ TypeOf(t, <<>>) \in TopTypes \cup NestTypes \cup { FunT(NN, NatT) }
\* the universe inhabits every shape class the combinators distinguish (a constant: evaluated in one state)
NonVacuous == t = First =>
              /\ \E u \in Universe : EtaTop(u) /\ BetaNorm(EtaNorm(u))[1] = "abs"          \* abstraction -> abstraction at the top
              /\ \E u \in Universe : EtaTop(u) /\ EtaNorm(u)[1] # "abs"                       \* abstraction -> non-abstraction
              /\ \E u \in Universe : BetaTop(u) /\ BetaConv(u)[1] = "abs"                     \* application -> abstraction
              /\ \E u \in Universe : HasRuleUnderAbs(u)
              /\ \E u \in Universe : u[1] = "abs" /\ HasBound(u[3], 0) /\ HasRule(u[3])
              \* an inner binder whose body mentions the outer variable and still contains a beta-redex; binders of different types
              /\ \E u \in Nested : u[2] = u[3][2] /\ HasRedex(u[3][3])
              /\ \E u \in Nested : u[2] # u[3][2] /\ HasRedex(u[3][3])
=============================================================================
