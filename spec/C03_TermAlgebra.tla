---------------------------- MODULE C03_TermAlgebra ----------------------------
(* S-specification for C03 (algebra part): a machine with one state per operation vector *)
(* (term, operation, arguments) of the universe of C03_Laws.  Invariant RefLawful: the    *)
(* reference algebra of lib/HolTerms.tla satisfies every semantic law on every vector.    *)
EXTENDS C03_Laws
\* ------------------------------------------------------------------ machine: one state per vector
VARIABLES vec, phase
vars == <<vec, phase>>
Init == vec \in AllVectors /\ phase = "chosen"
Done == phase = "chosen" /\ phase' = "judged" /\ UNCHANGED vec
Next == Done
Spec == Init /\ [][Next]_vars
\* the reference algebra satisfies every law on every vector (when the operation applies)
RefLawful == LET r == Ref(vec) IN r = Err \/ Judge(vec, r) = {}
RefExamined == TRUE
=============================================================================
