---------------------------- MODULE X07_CompFile ----------------------------
(* S / I specification for X07: the proof-file bookkeeping of integral/compstate.py as a tree machine.                 *)
(* State: `file` = the sequence of items of a CompFile; an item is [t = the set of its nodes (X07_Tree), snap = the      *)
(* statements CompFile.get_context() collected for it when it was created].  One action per public operation:           *)
(*   AddDef / AddGoal                         CompFile.add_definition / add_goal (append; the context is taken THEN)     *)
(*   ByCalc / ByInd / ByCase / ByRw           Goal.proof_by_calculation / _induction / _case / _rewrite_goal at any goal  *)
(*   Perform                                  Calculation.perform_rule(rule, id), id = -1 (from the start) .. last step;  *)
(*                                            CalculationStep.perform_rule(rule) is perform_rule(rule, step.id).  AS      *)
(*                                            CODED the later steps are dropped BEFORE the rule is evaluated: a rule that *)
(*                                            raises leaves the calculation truncated (PerformFails)                      *)
(*   Clear / ProofClear                       clear() of any node, goal.proof.clear()                                     *)
(* Rule.eval is a black box: here a table over a six-expression alphabet (FullSimplify, Equation to "n + 0" / "n"); the   *)
(* real FullSimplify also uses the conditions (under the case n = 0 it turns n into 0): such steps are divergences in T.   *)
(* Expressions 1..6 = "n + 0", "n", "0", "n + 1", "1", "n + 2"; the equation l = r is the number 10 l + r; conditions    *)
(* 91 "n >= 0", 92 "n = 0", 93 "n != 0"; definition 81 "f(n) = n + 0" (82 = "f(n)").                                    *)
(* Invariants = the clauses of extras/X07.md:                                                                           *)
(*   TreeShape, StepIds     every item is a well-formed tree, step ids are positions                                     *)
(*   LabelsExact   (a)      get_by_label (Resolve: as coded when AsCoded, else the reference) answers, for EVERY label    *)
(*                          over 0..2 up to length 3, exactly the node a walk reaches and the module's own error otherwise *)
(*   EditExact     (b)      perform_rule keeps steps 0..id untouched, drops the later ones, appends one step whose input  *)
(*                          was the expression at id; clear removes exactly the progress below the node; nothing else moves *)
(*   FinishedExact (c)      is_finished (recursive, as coded) = no open leaf obligation at or below (flat)                 *)
(*   FactsPreceding (d)     the context of an item holds exactly the statements of ALL items before it (definitions and    *)
(*                          goals, finished or not - as coded), never itself or a later one                                *)
(* With Record = TRUE the behaviour is kept in `hist` and printed by Finish: vectors for harness/drivers/x07.py (every     *)
(* behaviour of 1..MaxOps operations when EmitAll, else only those of MaxOps operations: -simulate).                        *)
EXTENDS X07_Tree, TLC, Json
CONSTANTS MaxOps, MaxItems, MaxSteps, AsCoded, Record, EmitAll
Simp == <<2, 2, 3, 4, 5, 6>>        \* FullSimplify
Cls == <<1, 1, 2, 3, 4, 5>>         \* class of the normal form (Equation(None, t) succeeds iff same class)
BaseE == <<3, 3, 3, 5, 5, 0>>       \* normalize(e[n := 0]);   0 = outside the alphabet
IndE == <<4, 4, 3, 6, 5, 0>>        \* normalize(e[n := n + 1])
EqId(l, r) == 10 * l + r
LhsOf(q) == q \div 10
RhsOf(q) == q % 10
GoalAlphabet == { <<1, 2>>, <<2, 4>>, <<2, 1>> }
CondAlphabet == { <<>>, <<91>> }
Rules == {1, 2, 3}
\* 0 = the rule raises
Eval(rule, e) == IF e <= 6 THEN (CASE rule = 1 -> Simp[e] [] rule = 2 -> (IF Cls[e] = Cls[1] THEN 1 ELSE 0) [] OTHER -> (IF Cls[e] = Cls[2] THEN 2 ELSE 0))
                 ELSE IF rule = 1 THEN EqId(Simp[LhsOf(e)], Simp[RhsOf(e)]) ELSE 0
St(l, r) == <<EqId(l, r), l, r, "=">>
LabUniverse == { <<>> } \cup { <<a>> : a \in 0..2 } \cup { <<a, b>> : a \in 0..2, b \in 0..2 } \cup { <<a, b, c>> : a \in 0..2, b \in 0..2, c \in 0..2 }
VARIABLES file, ops, before, lastop, hist, done
vars == <<file, ops, before, lastop, hist, done>>
Root(it) == At(it.t, <<>>)
Stmts(f) == [j \in 1..Len(f) |-> Root(f[j]).e]
NoOp == [nm |-> "none", i |-> 0, lab |-> <<>>, id |-> 0, keep |-> FALSE, rule |-> 0, a |-> 0, b |-> 0, res |-> 0]
Op(nm, i, lab, keep, id, rule, a, b, res) == [nm |-> nm, i |-> i, lab |-> lab, id |-> id, keep |-> keep, rule |-> rule, a |-> a, b |-> b, res |-> res]
Init == file = <<>> /\ ops = 0 /\ before = <<>> /\ lastop = NoOp /\ hist = <<>> /\ done = FALSE
Step(op, f) == /\ file' = f /\ before' = file /\ lastop' = op /\ ops' = ops + 1 /\ UNCHANGED done
               /\ hist' = IF Record THEN Append(hist, op) ELSE hist
SetTree(i, T) == [file EXCEPT ![i].t = T]
Add(op, root) == Len(file) < MaxItems /\ Step(op, Append(file, [t |-> {root}, snap |-> Stmts(file)]))
AddDef == Add(Op("adddef", Len(file) + 1, <<>>, FALSE, 0, 0, 81, 0, 0), N(<<>>, "def", 81, 82, 1, "=", 0, <<>>, 0, 0))
AddGoal(g, cs) == Add(Op("addgoal", Len(file) + 1, <<>>, FALSE, 0, 0, g[1], g[2], Len(cs)), N(<<>>, "goal", EqId(g[1], g[2]), g[1], g[2], "=", 0, cs, 0, 0))
GoalAt(i, lab) == Has(file[i].t, lab) /\ At(file[i].t, lab).k = "goal"
ByCalcA(i, lab) == GoalAt(i, lab) /\ Step(Op("bycalc", i, lab, FALSE, 0, 0, 0, 0, 0), SetTree(i, ByCalc(file[i].t, lab)))
ByIndA(i, lab) == /\ GoalAt(i, lab)
                  /\ LET g == At(file[i].t, lab) IN
                     /\ BaseE[g.l] # 0 /\ BaseE[g.r] # 0 /\ IndE[g.l] # 0 /\ IndE[g.r] # 0
                     /\ Step(Op("byind", i, lab, FALSE, 0, 0, 0, 0, 0),
                             SetTree(i, ByInduction(file[i].t, lab, 1, 3, St(BaseE[g.l], BaseE[g.r]), St(IndE[g.l], IndE[g.r]))))
ByCaseA(i, lab) == GoalAt(i, lab) /\ Step(Op("bycase", i, lab, FALSE, 0, 0, 92, 0, 0), SetTree(i, ByCase(file[i].t, lab, 92, 93)))
\* the begin goal is an EARLIER goal of the file (what app/integral.py looks for; the method itself takes any Goal object)
ByRwA(i, lab, j) == /\ GoalAt(i, lab) /\ j < i /\ Root(file[j]).k = "goal"
                    /\ Step(Op("byrw", i, lab, FALSE, 0, 0, j, 0, 0), SetTree(i, ByRewrite(file[i].t, lab, Root(file[j]).e, Root(file[j]).cs)))
CalcAt(i, c) == Has(file[i].t, c) /\ At(file[i].t, c).k \in {"calc", "rw"}
PerformA(i, c, keep, id, rule) ==
  /\ CalcAt(i, c) /\ (keep => Has(file[i].t, Append(c, id))) /\ (~keep => id = 0)
  /\ LET T == file[i].t  res == Eval(rule, PerformInput(T, c, keep, id)) IN
     /\ (IF keep THEN id + 1 ELSE 0) < MaxSteps
     /\ Step(Op("perform", i, c, keep, id, rule, 0, 0, res),
             SetTree(i, IF res # 0 THEN Performed(T, c, keep, id, rule, res) ELSE Truncated(T, c, keep, id)))
ClearA(i, lab) == Has(file[i].t, lab) /\ Step(Op("clear", i, lab, FALSE, 0, 0, 0, 0, 0), SetTree(i, Cleared(file[i].t, lab)))
PClearA(i, lab) == GoalAt(i, lab) /\ At(file[i].t, lab).pk # 0 /\ Step(Op("pclear", i, lab, FALSE, 0, 0, 0, 0, 0), SetTree(i, ProofCleared(file[i].t, lab)))
FileProj == [i \in 1..Len(file) |-> file[i].t]
Finish == /\ Record /\ ~done /\ (IF EmitAll THEN ops >= 1 ELSE ops = MaxOps) /\ done' = TRUE
          /\ PrintT(<<"X07", ToJson([steps |-> hist, final |-> FileProj])>>)
          /\ UNCHANGED <<file, ops, before, lastop, hist>>
Edit == /\ ~done /\ ops < MaxOps
        /\ \/ AddDef
           \/ \E g \in GoalAlphabet, cs \in CondAlphabet : AddGoal(g, cs)
           \/ \E i \in 1..Len(file) : \E lab \in Labels(file[i].t) :
                \/ ByCalcA(i, lab) \/ ByIndA(i, lab) \/ ByCaseA(i, lab) \/ ClearA(i, lab) \/ PClearA(i, lab)
                \/ \E j \in 1..Len(file) : ByRwA(i, lab, j)
                \/ \E rule \in Rules : PerformA(i, lab, FALSE, 0, rule) \/ \E id \in 0..(MaxSteps - 1) : PerformA(i, lab, TRUE, id, rule)
Next == Edit \/ Finish
Spec == Init /\ [][Next]_vars
\* ---- the clauses ----
TreeShape == \A i \in 1..Len(file) : Shape(file[i].t)
StepIds == \A i \in 1..Len(file) : StepIdsArePositions(file[i].t)
\* (a)
FixedResolve(T, lab) == RefResolve(T, lab)
Resolve(T, lab) == IF AsCoded THEN CodeResolve(T, <<>>, lab) ELSE FixedResolve(T, lab)
LabelsExact == \A i \in 1..Len(file) : \A lab \in LabUniverse : Resolve(file[i].t, lab) = RefResolve(file[i].t, lab)
\* weaker: whatever the error raised for an invalid label, a label never reaches ANOTHER node
LabelsNeverAnotherNode == \A i \in 1..Len(file) : \A lab \in LabUniverse :
   Resolve(file[i].t, lab)[1] = "node" => Resolve(file[i].t, lab) = RefResolve(file[i].t, lab)
\* the corrected get_by_label (what the repair does) IS the walk: CodeResolve differs from it only on RewriteGoalProof labels
\* and on step numbers out of range
CodeDiffersOnlyThere == \A i \in 1..Len(file) : \A lab \in LabUniverse :
   CodeResolve(file[i].t, <<>>, lab) # RefResolve(file[i].t, lab) =>
     \/ CodeResolve(file[i].t, <<>>, lab) = Err("foreign")
     \/ \E p \in Path(lab) : p # lab /\ Has(file[i].t, p) /\ At(file[i].t, p).k = "goal" /\ At(file[i].t, p).pk = 4
\* (b) on the last step
EditExact ==
  LET op == lastop  i == op.i IN
  /\ op.nm \notin {"none", "adddef", "addgoal"} =>
       /\ Len(file) = Len(before) /\ \A j \in 1..Len(file) : j # i => file[j] = before[j]
       /\ file[i].snap = before[i].snap
  /\ op.nm \in {"adddef", "addgoal"} => Len(file) = Len(before) + 1 /\ \A j \in 1..Len(before) : file[j] = before[j]
  /\ op.nm = "perform" =>
       LET B == before[i].t  A == file[i].t  c == op.lab  kept == IF op.keep THEN op.id + 1 ELSE 0 IN
       /\ \A n \in B : (n \notin StepsOf(B, c)) => n \in A                                      \* nothing outside the calculation moves
       /\ \A n \in StepsOf(B, c) : LastOf(n.lab) < kept => n \in A                               \* earlier steps untouched
       /\ \A n \in StepsOf(A, c) : LastOf(n.lab) < kept => n \in B
       /\ \A n \in StepsOf(A, c) : LastOf(n.lab) <= kept                                        \* later steps dropped
       /\ op.res # 0 => /\ NSteps(A, c) = kept + 1
                        /\ At(A, Append(c, kept)) = StepN(c, kept, op.rule, Eval(op.rule, IF op.keep THEN At(B, Append(c, op.id)).e ELSE At(B, c).e))
  /\ op.nm \in {"clear", "pclear"} =>
       LET B == before[i].t  A == file[i].t
           Scope == IF At(B, op.lab).k = "step" THEN { m \in StepsOf(B, Front(op.lab)) : LastOf(m.lab) >= LastOf(op.lab) } ELSE Under(B, op.lab) IN
       /\ \A n \in A : n \in B \/ (n.k = "goal" /\ Has(B, n.lab) /\ n = [At(B, n.lab) EXCEPT !.pk = 0, !.x = 0, !.y = 0])
       /\ \A n \in B : n \notin Scope => n \in A                                              \* exactly the subtree
       /\ \A n \in A : n.k = "step" => n \notin Scope                                          \* all of its progress
       /\ \A n \in Goals(A) : IsPrefix(op.lab, n.lab) /\ n.pk # 0 => op.nm = "pclear" /\ n.lab = op.lab
\* (c)
Closed(T, g) == IF g.pk = 1 THEN LastExpr(T, Append(g.lab, 0)) = LastExpr(T, Append(g.lab, 1))
                ELSE LET q == LastExpr(T, Append(g.lab, 0)) IN
                     q > 10 /\ Cls[LhsOf(q)] = Cls[g.l] /\ Cls[RhsOf(q)] = Cls[g.r]
LCOf(T) == [lab \in { g.lab : g \in Goals(T) } |-> LET g == At(T, lab) IN IF g.pk \in {1, 4} THEN Closed(T, g) ELSE FALSE]
SGOf(T) == [lab \in { g.lab : g \in Goals(T) } |-> TRUE]
Finished(T, lab) == Fin(T, lab, LCOf(T), SGOf(T))
FinishedExact == \A i \in 1..Len(file) : \A g \in Goals(file[i].t) :
   Finished(file[i].t, g.lab) <=> OpenLeaves(file[i].t, g.lab, LCOf(file[i].t), SGOf(file[i].t)) = {}
\* (d)
FactsPreceding == \A i \in 1..Len(file) : file[i].snap = [j \in 1..(i - 1) |-> Root(file[j]).e]
\* sanity: the interesting configurations are reachable (checked as violated "invariants" by the harness: see *_reach.cfg)
NeverFinishedInduction == ~ \E i \in 1..Len(file) : \E g \in Goals(file[i].t) : g.pk = 2 /\ Finished(file[i].t, g.lab)
NeverTruncatingPerform == ~ (lastop.nm = "perform" /\ NSteps(before[lastop.i].t, lastop.lab) > NSteps(file[lastop.i].t, lastop.lab))
=============================================================================
