------------------------------ MODULE C01_Rules ------------------------------
(* Argument pools and derivation attempts shared by the C01 machines.                  *)
(*   state   : thms  -- the set of sequents derived so far                              *)
(*             log   -- the derivation attempts of the last round (spec -> code vectors)*)
(*   action  : Saturate -- add every one-step consequence of thms under the 15 rules of *)
(*             lib/Kernel.tla with arguments from typed AND adversarial pools           *)
(*   property: every derived sequent is well-typed and valid in every finite standard   *)
(*             model with |tyvar| <= N (HolSem), and is not  |- false-like (!A. A)       *)
(* The vectors written at the end are replayed into kernel/thm.py and the checker.     *)
EXTENDS Kernel, HolSem, FiniteSets, Json, IOUtils

CONSTANTS MaxRound, MaxSize, MaxHyps, N, EmitRejected, Focus
\* Focus = TRUE: small pools around schematic TYPE variables, so that three rounds are cheap

\* ---------------------------------------------------------------- signature
TA == <<"tv","a">>
SA == <<"stv","a">>
vA == <<"var","A",BoolT>>       vB == <<"var","B",BoolT>>
sP == <<"svar","P",BoolT>>      sQ == <<"svar","Q",BoolT>>
vx == <<"var","x",TA>>          vy == <<"var","y",TA>>
sx == <<"svar","x",TA>>         \* same name as the variable x, schematic
xb == <<"var","x",BoolT>>       \* same name as x at another type
vf == <<"var","f",FunT(TA,TA)>>
vR == <<"var","R",FunT(TA,BoolT)>>
sR == <<"svar","R",FunT(TA,BoolT)>>
sz == <<"svar","z",SA>>         \* schematic variable of schematic type
B0 == <<"bound",0>>
vp == <<"var","p",SA>>          vq == <<"var","q",SA>>      \* variables of schematic type
sQ2 == <<"svar","Q2",FunT(SA,BoolT)>>                       \* ?'a occurs only in the types of schematic variables
AllEq == Forall(vp, Forall(vq, MkEq(vp, vq)))              \* "?'a has one element": true or false depending on the model
\* two schematic variables of ONE NAME at two schematic types (an instantiation by name meets both), next to a variable of the second type
SB == <<"stv","b">>
sz2 == <<"svar","z",SB>>
vr == <<"var","r",SB>>
vW == <<"var","W",FunT(SA,FunT(SB,BoolT))>>
Wzr == App(App(vW, sz), vr)

TermsA == {vx, vy, sx, App(vf, vx), App(vf, sx)}
Atoms == {vA, vB, sP, sQ, App(vR, vx), App(vR, sx), App(sR, vx), MkEq(vx, vy), MkEq(sx, vx), xb}
Props1 == Atoms \cup { Imp(a, b) : a \in {vA, sP, App(vR, vx)}, b \in {vA, vB, sP} }
                \cup { Forall(v, b) : v \in {vx, sx}, b \in {App(vR, vx), App(vR, sx), MkEq(vx, vx)} }
                \cup { Forall(vA, vA), Forall(sP, sP), Forall(vA, Imp(vA, vA)), AllEq, MkEq(sz, sz) }
Redexes == { App(Lambda(vx, b), a) : b \in {App(vR, vx), App(vf, vx), vy}, a \in {vx, sx, App(vf, vy)} }
           \cup { App(Lambda(sx, App(vR, sx)), vx) }
\* adversarial arguments: ill-typed applications, loose bound variables, non-boolean "propositions"
Adversarial == { App(vA, vx), App(vR, vA), App(vf, vA), B0, App(vR, B0), vx, vf,
                 <<"abs", TA, <<"bound", 1>> >>, App(Lambda(vx, App(vR, vx)), vA) }
AssumePool == IF Focus THEN {AllEq, sP, MkEq(sz, sz), App(sQ2, sz), Wzr} ELSE
   Props1 \cup Adversarial
ReflPool == IF Focus THEN {sz} ELSE
   TermsA \cup {vA, sP, vf, vR, Lambda(vx, App(vR, vx))} \cup Redexes \cup Adversarial
BetaPool == IF Focus THEN {} ELSE
   Redexes \cup {vx, App(vf, vx)} \cup Adversarial
VarPool == IF Focus THEN {sz, vp, sP} ELSE
   {vx, vy, sx, vA, sP, xb, vf, sR} \cup {App(vf, vx), B0, <<"const","c",TA>>}
ElimPool == IF Focus THEN {vA} ELSE
   TermsA \cup {vA, vB, sP, Imp(vA, vA), Forall(vA, vA)} \cup {App(vA, vx), B0}
NoArg == <<"none">>
EmptyAL == <<>>
InstPool == IF Focus THEN { [ty |-> EmptyAL, sv |-> sv] : sv \in { << <<"z", vA>> >>, << <<"z", vx>> >>, << <<"P", vA>> >> } } ELSE
   { [ty |-> EmptyAL, sv |-> sv] : sv \in
               { <<>>, << <<"P", vA>> >>, << <<"P", Imp(vA, vA)>> >>, << <<"P", Forall(vA, vA)>> >>, << <<"P", sQ>> >>,
                 << <<"P", sQ>>, <<"Q", sP>> >>, << <<"x", vx>> >>, << <<"x", vy>> >>, << <<"x", App(vf, vx)>> >>,
                 << <<"R", vR>> >>, << <<"R", Lambda(vx, MkEq(vx, vx))>> >>, << <<"P", vx>> >>, << <<"x", vA>> >>,
                 << <<"z", vx>> >>, << <<"z", vA>> >> } }
TyInstPool == IF Focus THEN { << <<"a", BoolT>> >> } ELSE
   { << <<"a", BoolT>> >>, << <<"a", TA>> >>, << <<"a", FunT(TA, TA)>> >>, <<>> }

\* ---------------------------------------------------------------- derivation attempts
\* uniform argument record so that TLC never compares values of different kinds
ArgT(t) == [t |-> t, ty |-> EmptyAL, sv |-> EmptyAL]
ArgI(i) == [t |-> NoArg, ty |-> i.ty, sv |-> i.sv]
ArgY(ti) == [t |-> NoArg, ty |-> ti, sv |-> EmptyAL]
Att(rule, arg, prems, res) == [rule |-> rule, arg |-> arg, prems |-> prems, res |-> res]

\* the reference outcome of a rule application: the sequent, or ErrS when the rule does not apply
\* or its result is not a well-typed sequent (check_thm_type)
Chk(th) == IF IsErrS(th) THEN ErrS ELSE IF SeqWellTyped(th) THEN th ELSE ErrS
WT(t) == WellTyped(t)
\* the two instantiation rules, also applied alone in one extra round (C01_Kernel.SaturateInst): they are the rules whose
\* result depends on how hypotheses and proposition of ONE sequent are treated together
InstAttempts(S) ==
     UNION { { Att("substitution", ArgI(i), <<th>>,
                     IF \A k \in 1..Len(i.sv) : WT(i.sv[k][2]) THEN Chk(Substitution(i, th)) ELSE ErrS) : i \in InstPool } : th \in S }
  \cup UNION { { Att("subst_type", ArgY(ti), <<th>>, Chk(SubstType(ti, th))) : ti \in TyInstPool } : th \in S }
Attempts(S) ==
     { Att("assume", ArgT(a), <<>>, Chk(Assume(a))) : a \in AssumePool }
  \cup { Att("reflexive", ArgT(a), <<>>, Chk(Reflexive(a))) : a \in ReflPool }
  \cup { Att("beta_conv", ArgT(a), <<>>, IF WT(a) THEN Chk(BetaConvR(a)) ELSE ErrS) : a \in BetaPool }
  \cup UNION { { Att("implies_intr", ArgT(a), <<th>>, IF WT(a) THEN Chk(ImpliesIntr(a, th)) ELSE ErrS)
                   : a \in th.h \cup {vA, sP, App(vR, vx), App(vA, vx), MkEq(sz, sz)} \cup (IF Focus THEN {MkEq(sz2, sz2)} ELSE {}) } : th \in S }
  \cup { Att("symmetric", ArgT(NoArg), <<th>>, Chk(Symmetric(th))) : th \in S }
  \cup UNION { { Att("abstraction", ArgT(v), <<th>>, Chk(Abstraction(v, th))) : v \in VarPool } : th \in S }
  \cup UNION { { Att("forall_intr", ArgT(v), <<th>>, Chk(ForallIntr(v, th))) : v \in VarPool } : th \in S }
  \cup UNION { { Att("forall_elim", ArgT(s), <<th>>, IF WT(s) THEN Chk(ForallElim(s, th)) ELSE ErrS) : s \in ElimPool }
                 : th \in { x \in S : IsAll(x.c) } }
  \cup InstAttempts(S)
  \cup UNION { { Att("implies_elim", ArgT(NoArg), <<t1, t2>>, Chk(ImpliesElim(t1, t2))) : t2 \in S } : t1 \in { x \in S : IsImp(x.c) } }
  \cup UNION { { Att("equal_elim", ArgT(NoArg), <<t1, t2>>, Chk(EqualElim(t1, t2))) : t2 \in S } : t1 \in { x \in S : IsEq(x.c) } }
  \cup UNION { { Att("equal_intr", ArgT(NoArg), <<t1, t2>>, Chk(EqualIntr(t1, t2))) : t2 \in { x \in S : IsImp(x.c) } } : t1 \in { x \in S : IsImp(x.c) } }
  \cup UNION { { Att("transitive", ArgT(NoArg), <<t1, t2>>, Chk(Transitive(t1, t2))) : t2 \in { x \in S : IsEq(x.c) } } : t1 \in { x \in S : IsEq(x.c) } }
  \cup UNION { { Att("combination", ArgT(NoArg), <<t1, t2>>, Chk(Combination(t1, t2))) : t2 \in { x \in S : IsEq(x.c) } } : t1 \in { x \in S : IsEq(x.c) } }

Keep(th) == ~IsErrS(th) /\ Cardinality(th.h) <= MaxHyps /\ Size(th.c) <= MaxSize /\ \A x \in th.h : Size(x) <= MaxSize
=============================================================================
