SPECIFICATION Spec
CONSTANTS
  MaxOps = 0
  MaxLevel = 4
  KeepLast = FALSE
  Record = FALSE
  EmitBadOnly = FALSE
  Interferer = "ub"
  FirstOpens = FALSE
  SwOrderUser = TRUE
  SwLoadUser = TRUE
  SwFreshMeta = TRUE
  SwTotal = TRUE
  SwApplyReload = TRUE
  SwCacheWorld = TRUE
  SwCreateAtomic = TRUE
  SwFailKeeps = TRUE
CHECK_DEADLOCK FALSE
