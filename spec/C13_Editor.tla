------------------------------ MODULE C13_Editor ------------------------------
(* S/I-specification for C13: the identifier arithmetic of kernel/proof.py (incr_id_after, decr_id,        *)
(* can_depend_on, incr/decr_proof_item) and ProofState.add_line_before / remove_line / citation edits of     *)
(* server/method.py, on proofs with one level of nesting.  Ghost uids identify items independently of their  *)
(* numbering.  Invariants: Contiguous (ids = positions at every level) and the action-like invariants        *)
(* CitationsTrackItems (renumbering never redirects a citation whose source and target both survive) and     *)
(* NoDanglingUnlessRemoved.  TLC explores all sequences of <= MaxOps editing actions.                         *)
(* ReplaceIdTop / ReplaceIdIn = ProofState.replace_id(old, new): every citation of old ANYWHERE (later lines of   *)
(* its level and the lines inside later sibling blocks) goes to new, then old is removed with renumbering;        *)
(* invariant ReplacedCitationsFollow.  The same layer for blocks nested to any depth, with the behaviours        *)
(* emitted as vectors for the real code, is spec/C13_LineEdit.tla.                                                *)
EXTENDS Naturals, Sequences, FiniteSets, TLC
\* item: [uid, id (seq of nat), prevs (seq of ids), sub (seq of items)]   (two levels of nesting are enough for the id arithmetic)
CONSTANTS MaxOps, MaxLines
\* ---- kernel/proof.py ItemID arithmetic, transcribed ----
IncrAfter(self, start, n) == LET k == Len(start) IN
   IF Len(self) >= k /\ SubSeq(self, 1, k-1) = SubSeq(start, 1, k-1) /\ self[k] >= start[k]
   THEN [self EXCEPT ![k] = @ + n] ELSE self
DecrId(self, rem) == LET k == Len(rem) IN
   IF Len(self) >= k /\ SubSeq(self, 1, k-1) = SubSeq(rem, 1, k-1) /\ self[k] > rem[k]
   THEN [self EXCEPT ![k] = @ - 1] ELSE self
CanDependOn(self, other) == LET l == Len(other) IN
   l <= Len(self) /\ SubSeq(other, 1, l-1) = SubSeq(self, 1, l-1) /\ other[l] < self[l]
RECURSIVE MapItem(_,_,_,_)
\* incr_proof_item / decr_proof_item: rewrite id and prevs of an item and, recursively, of its subproof
MapItem(it, f(_), g(_), d) ==
  [uid |-> it.uid, id |-> f(it.id), prevs |-> [i \in 1..Len(it.prevs) |-> g(it.prevs[i])],
   sub |-> IF d = 0 THEN it.sub ELSE [i \in 1..Len(it.sub) |-> MapItem(it.sub[i], f, g, d - 1)]]
VARIABLES prf, nextUid, ops, before, lastop
vars == <<prf, nextUid, ops, before, lastop>>
Blank(u, id) == [uid |-> u, id |-> id, prevs |-> <<>>, sub |-> <<>>]
\* ---- ProofState.add_line_before(id, n=1) on the top level or inside block b ----
AddTop(pos) ==
  LET id == <<pos>> inc(x) == IncrAfter(x, id, 1)
      new == Blank(nextUid, id)
  IN prf' = [i \in 1..Len(prf)+1 |-> IF i-1 < pos THEN prf[i] ELSE IF i-1 = pos THEN new ELSE MapItem(prf[i-1], inc, inc, 1)]
AddIn(b, pos) ==
  LET id == <<b, pos>> inc(x) == IncrAfter(x, id, 1)
      blk == prf[b+1].sub new == Blank(nextUid, id)
      blk2 == [i \in 1..Len(blk)+1 |-> IF i-1 < pos THEN blk[i] ELSE IF i-1 = pos THEN new ELSE MapItem(blk[i-1], inc, inc, 0)]
  IN prf' = [prf EXCEPT ![b+1].sub = blk2]
RemoveTop(pos) ==
  LET id == <<pos>> dec(x) == DecrId(x, id)
  IN prf' = [i \in 1..Len(prf)-1 |-> IF i-1 < pos THEN prf[i] ELSE MapItem(prf[i+1], dec, dec, 1)]
RemoveIn(b, pos) ==
  LET id == <<b, pos>> dec(x) == DecrId(x, id) blk == prf[b+1].sub
      blk2 == [i \in 1..Len(blk)-1 |-> IF i-1 < pos THEN blk[i] ELSE MapItem(blk[i+1], dec, dec, 0)]
  IN prf' = [prf EXCEPT ![b+1].sub = blk2]
\* ---- adding a citation (what set_line does with prevs) ----
AllItems(p) == { <<p[i].id, p[i].uid>> : i \in 1..Len(p) } \cup UNION { { <<p[i].sub[j].id, p[i].sub[j].uid>> : j \in 1..Len(p[i].sub) } : i \in 1..Len(p) }
CiteTop(pos, target) == CanDependOn(<<pos>>, target) /\ prf' = [prf EXCEPT ![pos+1].prevs = Append(@, target)]
CiteIn(b, pos, target) == CanDependOn(<<b, pos>>, target) /\ prf' = [prf EXCEPT ![b+1].sub[pos+1].prevs = Append(@, target)]
UidOf(p, id) == LET S == { x[2] : x \in { x \in AllItems(p) : x[1] = id } } IN IF S = {} THEN 0 ELSE CHOOSE u \in S : TRUE
\* ---- ProofState.replace_id(old, new): redirect every citation of old to new, then remove old ----
ReplaceIdTop(pos, new) ==
  LET old == <<pos>> re(x) == IF x = old THEN new ELSE x  same(x) == x  dec(x) == DecrId(x, old)
      p1 == [i \in 1..Len(prf) |-> MapItem(prf[i], same, re, 1)]
  IN CanDependOn(old, new) /\ prf' = [i \in 1..Len(p1)-1 |-> IF i-1 < pos THEN p1[i] ELSE MapItem(p1[i+1], dec, dec, 1)]
ReplaceIdIn(b, pos, new) ==
  LET old == <<b, pos>> re(x) == IF x = old THEN new ELSE x  same(x) == x  dec(x) == DecrId(x, old)
      blk == [j \in 1..Len(prf[b+1].sub) |-> MapItem(prf[b+1].sub[j], same, re, 0)]
      blk2 == [i \in 1..Len(blk)-1 |-> IF i-1 < pos THEN blk[i] ELSE MapItem(blk[i+1], dec, dec, 0)]
  IN CanDependOn(old, new) /\ prf' = [prf EXCEPT ![b+1].sub = blk2]
Size(p) == Len(p) + (IF Len(p) = 0 THEN 0 ELSE LET S == { Len(p[i].sub) : i \in 1..Len(p) } IN CHOOSE m \in S : \A x \in S : x <= m)
Init == /\ prf = << Blank(1, <<0>>), [uid |-> 2, id |-> <<1>>, prevs |-> <<>>, sub |-> << Blank(3, <<1,0>>), Blank(4, <<1,1>>) >>], Blank(5, <<2>>) >>
        /\ nextUid = 6 /\ ops = 0 /\ before = prf /\ lastop = <<"edit", 0, 0>>
Plain == \/ \E pos \in 0..Len(prf) : Len(prf) < MaxLines /\ AddTop(pos) /\ nextUid' = nextUid + 1
         \/ \E b \in 0..Len(prf)-1, pos \in 0..MaxLines : pos <= Len(prf[b+1].sub) /\ Len(prf[b+1].sub) > 0 /\ Len(prf[b+1].sub) < MaxLines /\ AddIn(b, pos) /\ nextUid' = nextUid + 1
         \/ \E pos \in 0..Len(prf)-1 : Len(prf) > 1 /\ RemoveTop(pos) /\ UNCHANGED nextUid
         \/ \E b \in 0..Len(prf)-1, pos \in 0..MaxLines : pos < Len(prf[b+1].sub) /\ Len(prf[b+1].sub) > 1 /\ RemoveIn(b, pos) /\ UNCHANGED nextUid
         \/ \E pos \in 0..Len(prf)-1, t \in { x[1] : x \in AllItems(prf) } : CiteTop(pos, t) /\ UNCHANGED nextUid
         \/ \E b \in 0..Len(prf)-1, pos \in 0..MaxLines, t \in { x[1] : x \in AllItems(prf) } : pos < Len(prf[b+1].sub) /\ CiteIn(b, pos, t) /\ UNCHANGED nextUid
Next == /\ ops < MaxOps /\ ops' = ops + 1 /\ before' = prf
        /\ \/ Plain /\ lastop' = <<"edit", 0, 0>>
           \/ \E pos \in 0..Len(prf)-1, t \in { x[1] : x \in AllItems(prf) } : Len(prf) > 1 /\ ReplaceIdTop(pos, t) /\ UNCHANGED nextUid /\ lastop' = <<"replace", UidOf(prf, <<pos>>), UidOf(prf, t)>>
           \/ \E b \in 0..Len(prf)-1, pos \in 0..MaxLines, t \in { x[1] : x \in AllItems(prf) } : pos < Len(prf[b+1].sub) /\ Len(prf[b+1].sub) > 1 /\ ReplaceIdIn(b, pos, t) /\ UNCHANGED nextUid /\ lastop' = <<"replace", UidOf(prf, <<b, pos>>), UidOf(prf, t)>>
Spec == Init /\ [][Next]_vars
\* ---- properties ----
Contiguous == /\ \A i \in 1..Len(prf) : prf[i].id = <<i-1>>
              /\ \A i \in 1..Len(prf) : \A j \in 1..Len(prf[i].sub) : prf[i].sub[j].id = <<i-1, j-1>>
Cites(p) == { <<p[i].uid, UidOf(p, p[i].prevs[k])>> : i \in 1..Len(p), k \in 1..3 } \cap { <<p[i].uid, UidOf(p, p[i].prevs[k])>> : i \in 1..Len(p), k \in 1..0 }
\* citation graph on uids (who cites whom), computed through the current numbering
CiteGraph(p) == UNION { { <<p[i].uid, UidOf(p, p[i].prevs[k])>> : k \in 1..Len(p[i].prevs) } : i \in 1..Len(p) }
                \cup UNION { UNION { { <<p[i].sub[j].uid, UidOf(p, p[i].sub[j].prevs[k])>> : k \in 1..Len(p[i].sub[j].prevs) } : j \in 1..Len(p[i].sub) } : i \in 1..Len(p) }
Uids(p) == { x[2] : x \in AllItems(p) }
\* renumbering must not redirect any citation whose source and target both survive
CitationsTrackItems == LET keep == Uids(prf) \cap Uids(before) IN
   { e \in CiteGraph(before) : e[1] \in keep /\ e[2] \in keep } \subseteq CiteGraph(prf)
\* replace_id: whoever cited the replaced item now cites its replacement - wherever the citing line is
ReplacedCitationsFollow == lastop[1] = "replace" =>
   \A e \in CiteGraph(before) : (e[2] = lastop[2] /\ e[2] # 0 /\ e[1] \in Uids(prf)) => <<e[1], lastop[3]>> \in CiteGraph(prf)
NoDanglingUnlessRemoved == \A e \in CiteGraph(prf) : e[2] # 0 \/ \E f \in CiteGraph(before) : f[1] = e[1] /\ f[2] \notin Uids(prf)
====
