SPECIFICATION Spec
CONSTANTS
  MaxOps = 6
  MaxLevel = 5
  KeepLast = TRUE
  Record = TRUE
  EmitBadOnly = FALSE
  Interferer = "ub"
  FirstOpens = FALSE
  SwOrderUser = TRUE
  SwLoadUser = TRUE
  SwFreshMeta = TRUE
  SwTotal = TRUE
  SwApplyReload = TRUE
  SwCacheWorld = TRUE
  SwCreateAtomic = TRUE
  SwFailKeeps = TRUE
CHECK_DEADLOCK FALSE
