----------------------------- MODULE X05_IdeTrace -----------------------------
(* T-specification for X05.  The trace is a sequence of sessions of HTTP requests performed on the real Flask application  *)
(* (harness/drivers/x05.py); this module replays the REFERENCE model of the user directories along it and gives every        *)
(* request a total verdict.  Events:                                                                                         *)
(*   decl   a content (input alphabet): cid, name, imports, items (names), itemdigs (digest of every stored item)           *)
(*   start  a session begins on fresh users: disk = << <<user, file, cid>> ... >> written by the environment                 *)
(*   req    one request: u, op, f, c (saved content), rq (digest of the request), rkind / ans / adig (projected answer and    *)
(*          its digest), disk (projected content of every directory AFTER the request), sess (digest of the proof the         *)
(*          request is about), and, attached by the check from other runs of the real code:                                   *)
(*            ref  = [world, kind, adig]  the answer of the lower layers (items.parse_edit, ProofState, apply_method) called   *)
(*                   directly in a fresh process on the files `world`                                                         *)
(*            solo = [hist, adig]  the answer to the same request in a session that contains only this user's requests        *)
(*            exp  = the answer and files predicted by spec/X05_Ide.tla for generated behaviours                              *)
(* Model state: files (set of <<user, file, cid>>), hist (requests of the session so far), cont (declared contents).          *)
(* Clauses (the statement of extras/X05.md):                                                                                  *)
(*   Totality         no HTTP 5xx / non-JSON answer                                                                          *)
(*   SaveExact        save answers ok and afterwards exactly that file has the saved content, every other file is as before   *)
(*   RemoveExact      remove of a present file removes exactly it; remove of an absent file changes nothing and is not `ok`   *)
(*   ReadOnly         no other request changes any file                                                                      *)
(*   Persistence      load of a present file whose imports are all present returns its name, imports, item names and the      *)
(*                    stored form of every item; load of an absent file does not return a theory; find-files lists exactly    *)
(*                    the present files when every import is present                                                         *)
(*   EditRoundTrip    an accepted check-modify returns, in stored form, the item that saving it will persist                  *)
(*   Faithful         check-modify / init-saved-proof / apply-method / search-method answer what the lower layers answer on   *)
(*                    the user's CURRENT files (ref.world must be the model's world: the binding is checked here)             *)
(*   FailedStepKeeps  ... in particular right after a failed apply-method of the same proof                                   *)
(*   Isolation        the answer equals the answer of the solo session (solo.hist must be this user's requests so far)         *)
(* Divergence: the abstract answer / files predicted by X05_Ide differ from what the code did although no clause fails.        *)
EXTENDS Naturals, Sequences, FiniteSets, TLC, TraceLib
VARIABLES files, hist, cont
Trip(s) == { <<s[i][1], s[i][2], s[i][3]>> : i \in 1..Len(s) }
Pairs(s) == { <<s[i][1], s[i][2]>> : i \in 1..Len(s) }
SetOf(s) == { s[i] : i \in 1..Len(s) }
Has(e, fld) == fld \in DOMAIN e
FilesOf(fl, u) == { t[2] : t \in { x \in fl : x[1] = u } }
World(fl, u) == { <<t[2], t[3]>> : t \in { x \in fl : x[1] = u } }
Present(fl, u, f) == f \in FilesOf(fl, u)
CidOf(fl, u, f) == (CHOOSE t \in fl : t[1] = u /\ t[2] = f)[3]
Known(c) == c \in DOMAIN cont
ImportsOf(fl, u, f) == IF Present(fl, u, f) /\ Known(CidOf(fl, u, f)) THEN SetOf(cont[CidOf(fl, u, f)].imports) ELSE {}
RECURSIVE Closure(_, _, _, _)
Closure(fl, u, S, n) == IF n = 0 THEN S ELSE LET T == S \cup UNION { ImportsOf(fl, u, f) : f \in S } IN IF T = S THEN S ELSE Closure(fl, u, T, n - 1)
Deps(fl, u, f) == Closure(fl, u, ImportsOf(fl, u, f), Cardinality(FilesOf(fl, u)) + 1)
\* every file reachable through imports is present, declared and not on a cycle
Loadable(fl, u, f) == /\ Present(fl, u, f) /\ Known(CidOf(fl, u, f))
                      /\ \A g \in Deps(fl, u, f) \cup {f} : Present(fl, u, g) /\ Known(CidOf(fl, u, g)) /\ g \notin Deps(fl, u, g)
WellFormed(fl, u) == \A f \in FilesOf(fl, u) : Loadable(fl, u, f)
Effect(fl, e) == CASE e.op = "save" -> { t \in fl : ~(t[1] = e.u /\ t[2] = e.f) } \cup { <<e.u, e.f, e.c>> }
                   [] e.op = "remove" -> { t \in fl : ~(t[1] = e.u /\ t[2] = e.f) }
                   [] OTHER -> fl
ProjHist(h, u) == SelectSeq(h, LAMBDA x : x.u = u)
LastOf(h, u) == LET p == ProjHist(h, u) IN IF Len(p) = 0 THEN [u |-> u, rq |-> "-", op |-> "none", rkind |-> "-", sess |-> "-"] ELSE p[Len(p)]
Entry(e) == [u |-> e.u, rq |-> e.rq, op |-> e.op, rkind |-> e.rkind, sess |-> e.sess]
Bad5(e) == e.rkind \in {"500", "http", "other"}
SameAnswer(e) == e.rkind = e.ref.kind /\ (e.rkind = "err" \/ e.adig = e.ref.adig)
ReqClauses(e) ==
  LET u == e.u  f == e.f  after == Effect(files, e)  was == Present(files, u, f) IN
  (IF Bad5(e) THEN {"Totality"} ELSE {})
  \cup (IF e.op = "save" /\ ~(e.rkind = "ok" /\ Trip(e.disk) = after) THEN {"SaveExact"} ELSE {})
  \cup (IF e.op = "remove" /\ ~(Trip(e.disk) = after /\ (was <=> e.rkind = "ok")) /\ ~(~was /\ Bad5(e) /\ Trip(e.disk) = after) THEN {"RemoveExact"} ELSE {})
  \cup (IF e.op \notin {"save", "remove"} /\ Trip(e.disk) # files THEN {"ReadOnly"} ELSE {})
  \cup (IF e.op = "load" /\ Loadable(files, u, f)
           /\ ~(e.rkind = "theory" /\ LET c == cont[CidOf(files, u, f)] IN
                  e.ans.name = f /\ e.ans.imports = c.imports /\ e.ans.items = c.items /\ e.ans.itemdigs = c.itemdigs)
        THEN {"Persistence"} ELSE {})
  \cup (IF e.op = "load" /\ ~was /\ e.rkind = "theory" THEN {"Persistence"} ELSE {})
  \cup (IF e.op = "find" /\ WellFormed(files, u) /\ ~(e.rkind = "files" /\ SetOf(e.ans.fs) = FilesOf(files, u) /\ Len(e.ans.fs) = Cardinality(FilesOf(files, u)))
        THEN {"Persistence"} ELSE {})
  \cup (IF e.op = "check" /\ e.rkind = "item" /\ ~e.ans.itemerr /\ e.expect_saved # "" /\ e.ans.saved # e.expect_saved THEN {"EditRoundTrip"} ELSE {})
  \cup (IF Has(e, "ref") /\ Pairs(e.ref.world) # World(files, u) THEN {"OracleBinding"} ELSE {})
  \cup (IF Has(e, "ref") /\ ~SameAnswer(e) /\ ~(Bad5(e) /\ e.ref.kind = "err")
        THEN {"Faithful"} \cup (IF LET p == LastOf(hist, u) IN p.op = "apply" /\ p.rkind = "err" /\ p.sess = e.sess /\ e.op \in {"init", "reinit"}
                                THEN {"FailedStepKeeps"} ELSE {})
        ELSE {})
  \cup (IF Has(e, "solo") /\ ~(e.solo.hist = [i \in 1..Len(ProjHist(hist, u)) |-> ProjHist(hist, u)[i].rq] \o <<e.rq>>) THEN {"SoloBinding"} ELSE {})
  \cup (IF Has(e, "solo") /\ e.solo.adig # e.adig THEN {"Isolation"} ELSE {})
\* the abstract prediction of X05_Ide for generated behaviours (files t1 / t2 only; "base" is implicit there)
Abstracted(e) ==
  LET x == e.exp IN
  /\ { t \in Trip(e.disk) : t[2] \in {"t1", "t2"} } = Trip(x.files)
  /\ CASE x.k = "files" -> e.rkind = "files" /\ SetOf(e.ans.fs) \cap {"t1", "t2"} = SetOf(x.fs)
       [] x.k = "theory" -> e.rkind = "theory" /\ SetOf(e.ans.imports) \ {"base"} = SetOf(x.fs) /\ e.ans.items = x.seq
       [] x.k = "ok" -> e.rkind = "ok"
       [] x.k = "item" -> e.rkind = "item" /\ (e.ans.itemerr <=> x.seq = <<"bad">>)
       [] x.k = "proof" -> e.rkind = "proof" /\ e.ans.flags = x.flags
       [] x.k = "stepfail" -> e.rkind = "err"
       [] x.k = "sugg" -> e.rkind = "sugg" /\ (("la" \in SetOf(e.ans.thms)) <=> ("la" \in SetOf(x.fs)))
       [] x.k = "err" -> e.rkind = "err"
       [] OTHER -> TRUE
ClausesOf(e) == IF e.kind = "req" THEN ReqClauses(e)
                ELSE IF e.kind = "end" /\ ~e.repo_untouched THEN {"RepositoryWritten"} ELSE {}
Nontrivial(e) == e.kind = "req"
Diverges(e) == e.kind = "req" /\ Has(e, "exp") /\ ClausesOf(e) = {} /\ ~Abstracted(e)
XInit == TInit /\ files = {} /\ hist = <<>> /\ cont = [c \in {} |-> 0]
XNext == LET e == Trace[l] IN
  /\ TStep(e.tid, ClausesOf(e), Nontrivial(e), Diverges(e))
  \* the model follows the real directories: every request is judged from the state the previous one really left
  /\ files' = (IF e.kind \in {"start", "req"} THEN Trip(e.disk) ELSE files)
  /\ hist' = (IF e.kind = "start" THEN <<>> ELSE IF e.kind = "req" THEN Append(hist, Entry(e)) ELSE hist)
  /\ cont' = (IF e.kind = "decl" THEN (e.cid :> [imports |-> e.imports, items |-> e.items, itemdigs |-> e.itemdigs]) @@ cont ELSE cont)
TSpec == XInit /\ [][XNext]_<<l, files, hist, cont>>
=============================================================================
