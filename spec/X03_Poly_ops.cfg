SPECIFICATION Spec
CONSTANTS MaxMono = 2
 MaxOps = 1
 MaxSize = 12
 InitP <- UniverseP
 InitQ <- QWide
 InitR <- RSmall
 Gens <- GensSmall
 Scalars <- ScalarsSmall
 Kinds <- KindsOps
 Record = FALSE
 EmitAll = FALSE
INVARIANT NormalForm
INVARIANT EvalCommutes
INVARIANT EvalDefined
INVARIANT RingLaws
CHECK_DEADLOCK FALSE
