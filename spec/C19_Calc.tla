------------------------------- MODULE C19_Calc -------------------------------
(* S-specification for C19: the calculation machine of integral/compstate.py (class Calculation: a   *)
(* start expression and a sequence of steps, each obtained from the previous expression by a rule)     *)
(* with REFERENCE versions of the rules that have a simple reference on the polynomial fragment.       *)
(*                                                                                                   *)
(*   state      start, steps (sequence of expressions), hist (the rules applied)                       *)
(*   action     PerformRule(rule, params): steps' = Append(steps, Ref(rule, params, Last))             *)
(*   invariants SameValue        the last step has the value of the start expression at every grid     *)
(*                               point (exact rational arithmetic, C19_Eval)                           *)
(*              Examinable       every expression of the machine lies in the evaluable fragment         *)
(*              TwoEvaluators    symbolic coefficient arithmetic (this module) and pointwise sampling    *)
(*                               (C19_Eval) agree on every definite integral / derivative of the machine *)
(*              SimplifyIdempotent  the reference normal form is a fixed point of the reference Simplify  *)
(* TLC explores the integrands of degree <= MaxD with coefficients in Coef, in expanded / factored /   *)
(* power / scaled shapes, bounds in Bnd, derivatives, finite sums, as the state space, and every        *)
(* transition is written as a vector {e, rule, ps, pe} for replay into the real code (-workers 1).      *)
EXTENDS C19_Rules
CONSTANTS Coef, Pairs, SumPairs, Bnd, MaxD, MaxSteps, SubA, SubB, LimC
\* constant sets for the cfg files (a cfg cannot contain negative literals)
C2 == {-1, 2}
C3 == {-1, 1, 2}
C4 == {-1, 0, 1, 2}
C5 == {-2, -1, 0, 1, 3}
B3 == {-1, 0, 2}
B4 == {-1, 0, 1, 2}
P1 == {<<-1, 2>>}
P2 == {<<-1, 2>>, <<2, 0>>}
P4 == {<<-1, 2>>, <<2, 0>>, <<0, 1>>, <<1, -1>>}
P6 == {<<-1, 2>>, <<2, 0>>, <<0, 1>>, <<1, -1>>, <<-2, -1>>, <<0, 3>>}
SP1 == {<<0, 2>>}
SP3 == {<<0, 2>>, <<1, 3>>, <<2, 2>>}
B1 == {0}
B2 == {-1, 1}
A1 == {-1}
A2 == {-1, 2}
A3 == {-2, -1, 3}
L1 == {1}
L2 == {1, 2}
L3 == {1, 2, 3}
S1 == {1}
S2 == {0, 1}
S3 == {-1, 0, 2}


(* ---------------------------------- the universe ---------------------------------- *)
Polys == UNION {[1..(d + 1) -> Coef] : d \in 0..MaxD}           \* coefficient sequences (integers), constant first
PolyQ(c) == Trim([i \in 1..Len(c) |-> RInt(c[i])] \o <<>>)
\* shapes of one integrand
Expanded(c) == FromPoly(PolyQ(c), "x")
Shapes(c) ==
  {Expanded(c)}
  \cup (IF Len(c) = 3 /\ c[3] = 1 THEN {Mul(Add(X, K(c[1])), Add(X, K(c[2]))), Pow(Add(X, K(c[1])), 2), Mul(X, Add(X, K(c[2])))} ELSE {})
  \cup (IF Len(c) = 2 /\ c[2] # 0 THEN {Mul(K(c[2]), Add(X, K(c[1]))), Pow(Add(Mul(K(c[2]), X), K(c[1])), 2), Div(Add(X, K(c[1])), K(2))} ELSE {})
  \cup (IF Len(c) = 4 /\ c[4] # 0 THEN {Mul(Add(Mul(K(c[4]), Pow(X, 2)), K(c[1])), Add(X, K(c[2])))} ELSE {})
Bodies == UNION {Shapes(c) : c \in Polys}
BndPairs == Pairs
SumBodies == {FromPoly(PolyQ(c), "k") : c \in Polys} \cup {Mul(SignFactor, FromPoly(PolyQ(c), "k")) : c \in Polys}
\* limits at +oo of rational functions: sums / differences of decaying terms a / x^i (also under a reciprocal, where the side from
\* which 0 is approached decides the sign), quotients of polynomials
Decay(a, i) == Div(K(a), IF i = 1 THEN X ELSE Pow(X, i))
DecaySums == UNION {{Sub(Decay(a, ij[1]), Decay(b, ij[2])), Add(Decay(a, ij[1]), Decay(b, ij[2])), Add(Sub(Decay(a, ij[1]), Decay(b, ij[2])), K(a))}
                    : a \in LimC, b \in LimC, ij \in {p \in (1..3) \X (1..3) : p[1] # p[2]}}
LimBodies == DecaySums \cup {Div(K(1), d) : d \in DecaySums} \cup {Neg(Div(K(2), d)) : d \in DecaySums}
             \cup {Pow(d, 2) : d \in DecaySums} \cup {<<"op", "^", d, K(-1)>> : d \in DecaySums}
             \cup {Div(K(1), Div(d, K(-3))) : d \in DecaySums} \cup {Div(X, Mul(K(-2), d)) : d \in DecaySums} \cup {Mul(Pow(X, 2), d) : d \in DecaySums}
             \cup {Div(Pow(X, 2), Neg(Add(X, K(1)))), Div(Pow(X, 2), Mul(X, K(-3))), Div(Neg(X), Add(Pow(X, 2), K(1))), Mul(Neg(X), Div(K(2), X))}
             \cup UNION {{Div(Expanded(c), Add(X, K(1))), Div(Add(X, K(-1)), Expanded(c)), Div(Expanded(c), Add(Pow(X, 2), K(1)))}
                          : c \in {q \in Polys : Len(q) >= 2 /\ q[Len(q)] # 0}}
LimUniverse == {<<"lim", "x", <<"inf", 1>>, b, "">> : b \in LimBodies}
Universe ==
  LimUniverse \cup
  {IntE("x", K(bb[1]), K(bb[2]), b) : bb \in BndPairs, b \in Bodies}
  \cup {<<"deriv", "x", b>> : b \in Bodies}
  \cup {<<"sum", "k", K(bb[1]), K(bb[2]), b>> : bb \in SumPairs, b \in SumBodies}

VARIABLES start, steps, hist, ref
vars == <<start, steps, hist, ref>>
Last == IF Len(steps) = 0 THEN start ELSE steps[Len(steps)]

\* parameters offered for an expression: <<rule, <<string params>>, <<expression params>>>>
RECURSIVE FirstInt(_)
FirstInt(e) == CASE e[1] = "int" -> e
                 [] e[1] = "op" -> LET a == FirstInt(e[3]) IN IF a # <<"none">> THEN a ELSE FirstInt(e[4])
                 [] e[1] = "neg" -> FirstInt(e[2])
                 [] OTHER -> <<"none">>
Factor(b) == IF b[1] = "op" /\ b[2] = "*" THEN {<<b[3], b[4]>>, <<b[4], b[3]>>} ELSE {}
\* integration by parts: u one factor, v an antiderivative of the other one; or u the integrand and v = x
PartsOf(i) == {<<uv[1], FromPoly(PAnti(ToPoly(uv[2], i[2])), i[2])>> : uv \in Factor(i[5])} \cup {<<i[5], <<"var", i[2]>>>>}
NoP(r) == <<r, <<>>, <<>>>>
Offers(e, depth) ==
  LET i == FirstInt(e) IN
  IF depth = 0 THEN
    {NoP("Simplify")}
    \cup (IF i # <<"none">>
          THEN {NoP("Linearity"), NoP("Antiderivative"), NoP("ExpandPolynomial")}
               \cup {<<"Substitution", <<"u">>, <<K(a), K(b)>>>> : a \in SubA, b \in SubB}
               \cup {<<"SplitRegion", <<>>, <<K(c)>>>> : c \in Bnd}
               \cup {<<"IntegrationByParts", <<>>, <<uv[1], uv[2]>>>> : uv \in PartsOf(i)}
          ELSE {})
    \cup (IF e[1] = "deriv" THEN {NoP("DerivativeSimplify")} ELSE {})
    \cup (IF e[1] = "lim" THEN {NoP("ReduceLimit"), NoP("LimitSimplify")} ELSE {})
    \cup (IF e[1] = "sum" THEN {NoP("SumUnfold"), NoP("SummationSimplify")} ELSE {})
  ELSE    \* later steps finish the calculation
    (IF i # <<"none">> THEN {NoP("Antiderivative")} ELSE {})
    \cup (IF i = <<"none">> /\ HasKind(e, "evalat") THEN {NoP("EvalAt")} ELSE {})
    \cup (IF e[1] = "sum" THEN {NoP("SumUnfold")} ELSE {})

\* the vector handed to the real code: the substitution parameter is the expression a * x + b
\* name of the rule of integral/rules.py that plays the role of the reference rule
CodeRule(r) == CASE r = "Antiderivative" -> "DefiniteIntegralIdentity" [] r \in {"EvalAt", "SumUnfold", "LimitSimplify"} -> "FullSimplify" [] OTHER -> r
VecOf(e, o, n) ==
  [e |-> e, rule |-> CodeRule(o[1]), ref |-> o[1], ps |-> o[2], step |-> n,
   pe |-> IF o[1] = "Substitution" THEN << Add(Mul(o[3][1], X), o[3][2]) >> ELSE o[3]]

\* values of an expression at the grid points of the start expression's variables
ValTab(e, vs) == [env \in [vs -> Grid(1)] |-> XVal(e, env)] @@ <<>>
\* vectors are collected in TLC registers: 7 = the current chunk, 8 = the sequence of full chunks (a single growing
\* sequence would be walked completely by every TLCSet)
ChunkLen == 250
Log(v) == LET cur == TLCGet(7) IN
          IF Len(cur) >= ChunkLen THEN TLCSet(8, Append(TLCGet(8), cur)) /\ TLCSet(7, <<v>>) ELSE TLCSet(7, Append(cur, v))
RECURSIVE Flatten(_, _)
Flatten(cs, i) == IF i > Len(cs) THEN <<>> ELSE cs[i] \o Flatten(cs, i + 1)
Init == /\ TLCSet(7, <<>>) /\ TLCSet(8, <<>>)
        /\ start \in Universe /\ steps = <<>> /\ hist = <<>>
        /\ ref = ValTab(start, FV(start))
PerformRule(o) ==
  /\ steps' = Append(steps, Ref(o[1], o[3], Last))
  /\ hist' = Append(hist, o[1])
  /\ UNCHANGED <<start, ref>>
  /\ Log(VecOf(Last, o, Len(steps)))
Next == Len(steps) < MaxSteps /\ \E o \in Offers(Last, Len(steps)) : PerformRule(o)
Spec == Init /\ [][Next]_vars

(* ---------------------------------- invariants ---------------------------------- *)
\* the property: every step has the value of the start expression (at every grid point; all defined and examinable)
SameValueInv == \A env \in DOMAIN ref : ref[env].st = 0 /\ (Len(steps) > 0 => XVal(Last, env) = ref[env])
\* the general comparison operator used by the trace specification gives the same verdict
SameValueOp == Len(steps) > 0 => LET r == SameValue(start, Last, <<>>) IN ~r.fails /\ r.cmp
\* symbolic evaluation of a closed definite integral / of a derivative at the grid, against the pointwise evaluator
TwoEvaluators ==
  /\ IsInt(Last) /\ ToPoly(Last[5], Last[2]) # PErr =>
       LET P == PAnti(ToPoly(Last[5], Last[2]))  lo == Val(Last[3], <<>>).v  hi == Val(Last[4], <<>>).v IN
       Len(P) >= 0 /\ Val(Last, <<>>) = Res(0, QSub(PEval(P, hi), PEval(P, lo)), Z)
  /\ Last[1] = "deriv" /\ ToPoly(Last[3], Last[2]) # PErr =>
       LET P == PDeriv(ToPoly(Last[3], Last[2])) IN
       Len(P) >= 0 /\ \A t \in Grid(1) : Val(Last, [y \in {Last[2]} |-> t]) = Res(0, PEval(P, t), Z)
SimplifyIdempotent == LET s == Ref("Simplify", <<>>, Last) IN Ref("Simplify", <<>>, s) = s
\* written at the end of the run: every transition taken, as a vector for the real code
Emit == LET vs == Flatten(TLCGet(8), 1) \o TLCGet(7) IN
        /\ Len(vs) > 0
        /\ ndJsonSerialize(IOEnv.VECTOR_FILE, vs)
        /\ PrintT(<<"vectors", Len(vs), "universe", Cardinality(Universe), "rules", {vs[i].ref : i \in 1..Len(vs)}>>)
=============================================================================
