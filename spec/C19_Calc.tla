------------------------------- MODULE C19_Calc -------------------------------
(* S-specification for C19: the calculation machine of integral/compstate.py (class Calculation: a   *)
(* start expression and a sequence of steps, each obtained from the previous expression by a rule)     *)
(* with REFERENCE versions of the rules that have a simple reference on the polynomial fragment.       *)
(*                                                                                                   *)
(*   state      start, steps (sequence of expressions), hist (the rules applied)                       *)
(*   action     PerformRule(rule, params): steps' = Append(steps, Ref(rule, params, Last))             *)
(*   invariants SameValue        the last step has the value of the start expression at every grid     *)
(*                               point (exact rational arithmetic, C19_Eval)                           *)
(*              Examinable       every expression of the machine lies in the evaluable fragment         *)
(*              TwoEvaluators    symbolic coefficient arithmetic (this module) and pointwise sampling    *)
(*                               (C19_Eval) agree on every definite integral / derivative of the machine *)
(*              SimplifyIdempotent  the reference normal form is a fixed point of the reference Simplify  *)
(* TLC explores the integrands of degree <= MaxD with coefficients in Coef, in expanded / factored /   *)
(* power / scaled shapes, bounds in Bnd, derivatives, finite sums, as the state space, and every        *)
(* transition is written as a vector {e, rule, ps, pe} for replay into the real code (-workers 1).      *)
EXTENDS C19_Eval, Json, IOUtils
CONSTANTS Coef, Pairs, SumPairs, Bnd, MaxD, MaxSteps, SubA, SubB
\* constant sets for the cfg files (a cfg cannot contain negative literals)
C2 == {-1, 2}
C3 == {-1, 1, 2}
C4 == {-1, 0, 1, 2}
C5 == {-2, -1, 0, 1, 3}
B3 == {-1, 0, 2}
B4 == {-1, 0, 1, 2}
P1 == {<<-1, 2>>}
P2 == {<<-1, 2>>, <<2, 0>>}
P4 == {<<-1, 2>>, <<2, 0>>, <<0, 1>>, <<1, -1>>}
P6 == {<<-1, 2>>, <<2, 0>>, <<0, 1>>, <<1, -1>>, <<-2, -1>>, <<0, 3>>}
SP1 == {<<0, 2>>}
SP3 == {<<0, 2>>, <<1, 3>>, <<2, 2>>}
B1 == {0}
B2 == {-1, 1}
A1 == {-1}
A2 == {-1, 2}
A3 == {-2, -1, 3}
S1 == {1}
S2 == {0, 1}
S3 == {-1, 0, 2}

X == <<"var", "x">>
K(n) == <<"const", n, 1>>
Q(q) == IF q = ROvf THEN <<"bigconst", "", "">> ELSE <<"const", q[1], q[2]>>
Add(a, b) == <<"op", "+", a, b>>
Sub(a, b) == <<"op", "-", a, b>>
Mul(a, b) == <<"op", "*", a, b>>
Div(a, b) == <<"op", "/", a, b>>
Pow(a, n) == <<"op", "^", a, K(n)>>
Neg(a) == <<"neg", a>>
IntE(x, lo, hi, b) == <<"int", x, lo, hi, b>>
EvalAt(x, lo, hi, b) == <<"evalat", x, lo, hi, b>>
KV == <<"var", "k">>
SignFactor == <<"op", "^", K(-1), Mul(K(2), KV)>>             \* (-1) ^ (2 * k), the factor SummationSimplify removes

(* ---------------- coefficient sequences over Rat, lowest degree first, no trailing zero ---------------- *)
RECURSIVE Trim(_)
Trim(p) == IF Len(p) > 0 /\ p[Len(p)] = Z THEN Trim(SubSeq(p, 1, Len(p) - 1)) ELSE p
At(p, i) == IF i >= 1 /\ i <= Len(p) THEN p[i] ELSE Z
PAdd(p, q) == Trim([i \in 1..MaxN(Len(p), Len(q)) |-> QAdd(At(p, i), At(q, i))] \o <<>>)
PScale(c, p) == Trim([i \in 1..Len(p) |-> QMul(c, p[i])] \o <<>>)
PNeg(p) == PScale(<<-1, 1>>, p)
PSub(p, q) == PAdd(p, PNeg(q))
RECURSIVE ConvSum(_, _, _, _)
ConvSum(p, q, k, i) == IF i > Len(p) THEN Z ELSE QAdd(QMul(p[i], At(q, k - i + 1)), ConvSum(p, q, k, i + 1))
PMul(p, q) == IF Len(p) = 0 \/ Len(q) = 0 THEN <<>> ELSE Trim([k \in 1..(Len(p) + Len(q) - 1) |-> ConvSum(p, q, k, 1)] \o <<>>)
RECURSIVE PPow(_, _)
PPow(p, n) == IF n = 0 THEN <<One>> ELSE PMul(p, PPow(p, n - 1))
PDeriv(p) == IF Len(p) <= 1 THEN <<>> ELSE Trim([i \in 1..(Len(p) - 1) |-> QMul(RInt(i), p[i + 1])] \o <<>>)
PAnti(p) == IF Len(p) = 0 THEN <<>> ELSE Trim([i \in 1..(Len(p) + 1) |-> IF i = 1 THEN Z ELSE QDiv(p[i - 1], RInt(i - 1))] \o <<>>)
\* p(a * u + b)
RECURSIVE PCompFrom(_, _, _)
PCompFrom(p, l, i) == IF i > Len(p) THEN <<>> ELSE PAdd(<<p[i]>>, PMul(l, PCompFrom(p, l, i + 1)))
PComp(p, a, b) == Trim(PCompFrom(p, Trim(<<b, a>>), 1))
PEval(p, t) == PolyAt(p, t)

\* expression of the univariate fragment -> coefficients ; <<"err">> flags a non-polynomial
PErr == << <<7, 0>> >>
RECURSIVE ToPoly(_, _)
ToPoly(e, x) ==
  CASE e[1] = "var" -> IF e[2] = x THEN <<Z, One>> ELSE PErr
    [] e[1] = "const" -> Trim(<<RNorm(e[2], e[3])>>)
    [] e[1] = "neg" -> LET a == ToPoly(e[2], x) IN IF a = PErr THEN PErr ELSE PNeg(a)
    [] e[1] = "op" ->
         LET a == ToPoly(e[3], x) IN
         IF a = PErr THEN PErr
         ELSE IF e[2] = "^" THEN (IF e[4][1] = "const" /\ e[4][3] = 1 /\ e[4][2] >= 0 THEN PPow(a, e[4][2]) ELSE PErr)
         ELSE LET b == ToPoly(e[4], x) IN
              IF b = PErr THEN PErr
              ELSE CASE e[2] = "+" -> PAdd(a, b) [] e[2] = "-" -> PSub(a, b) [] e[2] = "*" -> PMul(a, b)
                     [] e[2] = "/" -> IF Len(b) = 1 THEN PScale(QDiv(One, b[1]), a) ELSE PErr
                     [] OTHER -> PErr
    [] OTHER -> PErr

\* canonical expression of a coefficient sequence: c_n * x^n + ... + c_1 * x + c_0 (zero terms omitted)
Mono(c, k, x) == IF k = 0 THEN Q(c)
                 ELSE LET xp == IF k = 1 THEN <<"var", x>> ELSE Pow(<<"var", x>>, k) IN IF c = One THEN xp ELSE Mul(Q(c), xp)
RECURSIVE FromFrom(_, _, _)
FromFrom(p, i, x) ==          \* terms of index <= i, highest first
  IF i = 0 THEN <<"none">>
  ELSE LET rest == FromFrom(p, i - 1, x) IN
       IF p[i] = Z THEN rest ELSE IF rest = <<"none">> THEN Mono(p[i], i - 1, x) ELSE Add(Mono(p[i], i - 1, x), rest)
FromPoly(p, x) == IF Len(p) = 0 THEN K(0) ELSE FromFrom(p, Len(p), x)

(* ---------------------------------- reference rules ---------------------------------- *)
IsInt(e) == e[1] = "int"
IsConstE(e) == e[1] = "const"
\* INT (a + b) = INT a + INT b ; INT (c * a) = c * INT a ; INT (-a) = - INT a
RECURSIVE Lin(_)
Lin(e) ==
  IF ~IsInt(e) THEN e ELSE
  LET x == e[2]  b == e[5]  I(t) == <<"int", x, e[3], e[4], t>> IN
  CASE b[1] = "op" /\ b[2] = "+" -> Add(Lin(I(b[3])), Lin(I(b[4])))
    [] b[1] = "op" /\ b[2] = "-" -> Sub(Lin(I(b[3])), Lin(I(b[4])))
    [] b[1] = "neg" -> Neg(Lin(I(b[2])))
    [] b[1] = "op" /\ b[2] = "*" /\ IsConstE(b[3]) -> Mul(b[3], Lin(I(b[4])))
    [] OTHER -> e
\* apply f to every definite integral inside arithmetic
RECURSIVE MapInt(_, _)
RefOne(rule, pe, e) ==             \* the reference rule on ONE definite integral / derivative / sum / evalat
  CASE rule = "Linearity" -> Lin(e)
    [] rule = "Antiderivative" ->          \* power rule on polynomials: INT x:[a,b]. p = [P]_x=a,b
         IF IsInt(e) THEN EvalAt(e[2], e[3], e[4], FromPoly(PAnti(ToPoly(e[5], e[2])), e[2])) ELSE e
    [] rule = "EvalAt" ->                  \* [F]_x=a,b = F(b) - F(a)
         IF e[1] = "evalat"
         THEN LET p == ToPoly(e[5], e[2])  lo == Val(e[3], <<>>)  hi == Val(e[4], <<>>) IN
              IF p = PErr \/ lo.st # 0 \/ hi.st # 0 THEN e ELSE Q(QSub(PEval(p, hi.v), PEval(p, lo.v)))
         ELSE e
    [] rule = "ExpandPolynomial" -> IF IsInt(e) THEN IntE(e[2], e[3], e[4], FromPoly(ToPoly(e[5], e[2]), e[2])) ELSE e
    [] rule = "Simplify" ->
         IF IsInt(e) THEN IntE(e[2], e[3], e[4], FromPoly(ToPoly(e[5], e[2]), e[2]))
         ELSE IF e[1] = "deriv" \/ e[1] = "sum" \/ e[1] = "evalat" THEN e ELSE FromPoly(ToPoly(e, "x"), "x")
    [] rule = "Substitution" ->            \* u = a * x + b :  INT x:[l,h]. f = INT u:[a l + b, a h + b]. f((u - b) / a) / a
         IF IsInt(e)
         THEN LET a == Val(pe[1], <<>>).v  b == Val(pe[2], <<>>).v  ia == QDiv(One, a)
                  lo == Val(e[3], <<>>).v  hi == Val(e[4], <<>>).v
                  g == PScale(ia, PComp(ToPoly(e[5], e[2]), ia, QNeg(QMul(b, ia)))) IN
              IF Len(g) < 0 THEN e ELSE IntE("u", Q(QAdd(QMul(a, lo), b)), Q(QAdd(QMul(a, hi), b)), FromPoly(g, "u"))
         ELSE e
    [] rule = "IntegrationByParts" ->      \* u dv = integrand :  INT u dv = [u v] - INT v du
         IF IsInt(e)
         THEN LET u == ToPoly(pe[1], e[2])  v == ToPoly(pe[2], e[2]) IN
              IF u = PErr \/ v = PErr THEN e ELSE
              Sub(EvalAt(e[2], e[3], e[4], FromPoly(PMul(u, v), e[2])), IntE(e[2], e[3], e[4], FromPoly(PMul(v, PDeriv(u)), e[2])))
         ELSE e
    [] rule = "SplitRegion" -> IF IsInt(e) THEN Add(IntE(e[2], e[3], pe[1], e[5]), IntE(e[2], pe[1], e[4], e[5])) ELSE e
    [] rule = "DerivativeSimplify" -> IF e[1] = "deriv" THEN FromPoly(PDeriv(ToPoly(e[3], e[2])), e[2]) ELSE e
    [] rule = "SummationSimplify" ->       \* (-1) ^ (2 * k) = 1 for integer k
         IF e[1] = "sum" /\ e[5][1] = "op" /\ e[5][2] = "*" /\ e[5][3] = SignFactor THEN <<"sum", e[2], e[3], e[4], Mul(K(1), e[5][4])>> ELSE e
    [] rule = "SumUnfold" ->               \* a finite sum is the sum of its terms
         IF e[1] = "sum" /\ ToPoly(e[5], e[2]) # PErr THEN LET lo == Val(e[3], <<>>).v[1]  hi == Val(e[4], <<>>).v[1]  p == ToPoly(e[5], e[2]) IN
                               IF Len(p) < 0 THEN e ELSE Q(HornerP([i \in 1..(hi - lo + 1) |-> PEval(p, RInt(lo + i - 1))] \o <<>>, One, 1))
         ELSE e
    [] OTHER -> e
MapInt(rule_pe, e) ==
  CASE e[1] \in {"int", "deriv", "sum", "evalat"} -> RefOne(rule_pe[1], rule_pe[2], e)
    [] e[1] = "op" -> <<"op", e[2], MapInt(rule_pe, e[3]), MapInt(rule_pe, e[4])>>
    [] e[1] = "neg" -> <<"neg", MapInt(rule_pe, e[2])>>
    [] OTHER -> e
\* rules with parameters act on the FIRST definite integral of the expression only (as rules.py does: separate_integral()[0])
RECURSIVE MapFirst(_, _)
MapFirst(rule_pe, e) ==          \* [done, e]   (a record: see the note in C19_Eval)
  CASE e[1] = "int" -> [done |-> TRUE, e |-> RefOne(rule_pe[1], rule_pe[2], e)]
    [] e[1] = "op" -> LET a == MapFirst(rule_pe, e[3]) IN
                      IF a.done THEN [done |-> TRUE, e |-> <<"op", e[2], a.e, e[4]>>]
                      ELSE LET b == MapFirst(rule_pe, e[4]) IN [done |-> b.done, e |-> <<"op", e[2], e[3], b.e>>]
    [] e[1] = "neg" -> LET a == MapFirst(rule_pe, e[2]) IN [done |-> a.done, e |-> <<"neg", a.e>>]
    [] OTHER -> [done |-> FALSE, e |-> e]
Parametric == {"Substitution", "IntegrationByParts", "SplitRegion"}
Ref(rule, pe, e) == IF rule \in Parametric THEN MapFirst(<<rule, pe>>, e).e
                    ELSE IF rule = "Simplify" /\ e[1] \notin {"int", "op", "neg"} THEN RefOne(rule, pe, e)
                    ELSE MapInt(<<rule, pe>>, e)

(* ---------------------------------- the universe ---------------------------------- *)
Polys == UNION {[1..(d + 1) -> Coef] : d \in 0..MaxD}           \* coefficient sequences (integers), constant first
PolyQ(c) == Trim([i \in 1..Len(c) |-> RInt(c[i])] \o <<>>)
\* shapes of one integrand
Expanded(c) == FromPoly(PolyQ(c), "x")
Shapes(c) ==
  {Expanded(c)}
  \cup (IF Len(c) = 3 /\ c[3] = 1 THEN {Mul(Add(X, K(c[1])), Add(X, K(c[2]))), Pow(Add(X, K(c[1])), 2), Mul(X, Add(X, K(c[2])))} ELSE {})
  \cup (IF Len(c) = 2 /\ c[2] # 0 THEN {Mul(K(c[2]), Add(X, K(c[1]))), Pow(Add(Mul(K(c[2]), X), K(c[1])), 2), Div(Add(X, K(c[1])), K(2))} ELSE {})
  \cup (IF Len(c) = 4 /\ c[4] # 0 THEN {Mul(Add(Mul(K(c[4]), Pow(X, 2)), K(c[1])), Add(X, K(c[2])))} ELSE {})
Bodies == UNION {Shapes(c) : c \in Polys}
BndPairs == Pairs
SumBodies == {FromPoly(PolyQ(c), "k") : c \in Polys} \cup {Mul(SignFactor, FromPoly(PolyQ(c), "k")) : c \in Polys}
Universe ==
  {IntE("x", K(bb[1]), K(bb[2]), b) : bb \in BndPairs, b \in Bodies}
  \cup {<<"deriv", "x", b>> : b \in Bodies}
  \cup {<<"sum", "k", K(bb[1]), K(bb[2]), b>> : bb \in SumPairs, b \in SumBodies}

VARIABLES start, steps, hist, ref
vars == <<start, steps, hist, ref>>
Last == IF Len(steps) = 0 THEN start ELSE steps[Len(steps)]

\* parameters offered for an expression: <<rule, <<string params>>, <<expression params>>>>
RECURSIVE FirstInt(_)
FirstInt(e) == CASE e[1] = "int" -> e
                 [] e[1] = "op" -> LET a == FirstInt(e[3]) IN IF a # <<"none">> THEN a ELSE FirstInt(e[4])
                 [] e[1] = "neg" -> FirstInt(e[2])
                 [] OTHER -> <<"none">>
Factor(b) == IF b[1] = "op" /\ b[2] = "*" THEN {<<b[3], b[4]>>, <<b[4], b[3]>>} ELSE {}
\* integration by parts: u one factor, v an antiderivative of the other one; or u the integrand and v = x
PartsOf(i) == {<<uv[1], FromPoly(PAnti(ToPoly(uv[2], i[2])), i[2])>> : uv \in Factor(i[5])} \cup {<<i[5], <<"var", i[2]>>>>}
NoP(r) == <<r, <<>>, <<>>>>
Offers(e, depth) ==
  LET i == FirstInt(e) IN
  IF depth = 0 THEN
    {NoP("Simplify")}
    \cup (IF i # <<"none">>
          THEN {NoP("Linearity"), NoP("Antiderivative"), NoP("ExpandPolynomial")}
               \cup {<<"Substitution", <<"u">>, <<K(a), K(b)>>>> : a \in SubA, b \in SubB}
               \cup {<<"SplitRegion", <<>>, <<K(c)>>>> : c \in Bnd}
               \cup {<<"IntegrationByParts", <<>>, <<uv[1], uv[2]>>>> : uv \in PartsOf(i)}
          ELSE {})
    \cup (IF e[1] = "deriv" THEN {NoP("DerivativeSimplify")} ELSE {})
    \cup (IF e[1] = "sum" THEN {NoP("SumUnfold"), NoP("SummationSimplify")} ELSE {})
  ELSE    \* later steps finish the calculation
    (IF i # <<"none">> THEN {NoP("Antiderivative")} ELSE {})
    \cup (IF i = <<"none">> /\ HasKind(e, "evalat") THEN {NoP("EvalAt")} ELSE {})
    \cup (IF e[1] = "sum" THEN {NoP("SumUnfold")} ELSE {})

\* the vector handed to the real code: the substitution parameter is the expression a * x + b
\* name of the rule of integral/rules.py that plays the role of the reference rule
CodeRule(r) == CASE r = "Antiderivative" -> "DefiniteIntegralIdentity" [] r \in {"EvalAt", "SumUnfold"} -> "FullSimplify" [] OTHER -> r
VecOf(e, o, n) ==
  [e |-> e, rule |-> CodeRule(o[1]), ref |-> o[1], ps |-> o[2], step |-> n,
   pe |-> IF o[1] = "Substitution" THEN << Add(Mul(o[3][1], X), o[3][2]) >> ELSE o[3]]

\* values of an expression at the grid points of the start expression's variables
ValTab(e, vs) == [env \in [vs -> Grid(1)] |-> Val(e, env)] @@ <<>>
\* vectors are collected in TLC registers: 7 = the current chunk, 8 = the sequence of full chunks (a single growing
\* sequence would be walked completely by every TLCSet)
ChunkLen == 250
Log(v) == LET cur == TLCGet(7) IN
          IF Len(cur) >= ChunkLen THEN TLCSet(8, Append(TLCGet(8), cur)) /\ TLCSet(7, <<v>>) ELSE TLCSet(7, Append(cur, v))
RECURSIVE Flatten(_, _)
Flatten(cs, i) == IF i > Len(cs) THEN <<>> ELSE cs[i] \o Flatten(cs, i + 1)
Init == /\ TLCSet(7, <<>>) /\ TLCSet(8, <<>>)
        /\ start \in Universe /\ steps = <<>> /\ hist = <<>>
        /\ ref = ValTab(start, FV(start))
PerformRule(o) ==
  /\ steps' = Append(steps, Ref(o[1], o[3], Last))
  /\ hist' = Append(hist, o[1])
  /\ UNCHANGED <<start, ref>>
  /\ Log(VecOf(Last, o, Len(steps)))
Next == Len(steps) < MaxSteps /\ \E o \in Offers(Last, Len(steps)) : PerformRule(o)
Spec == Init /\ [][Next]_vars

(* ---------------------------------- invariants ---------------------------------- *)
\* the property: every step has the value of the start expression (at every grid point; all defined and examinable)
SameValueInv == \A env \in DOMAIN ref : ref[env].st = 0 /\ (Len(steps) > 0 => Val(Last, env) = ref[env])
\* the general comparison operator used by the trace specification gives the same verdict
SameValueOp == Len(steps) > 0 => LET r == SameValue(start, Last, <<>>) IN ~r.fails /\ r.cmp
\* symbolic evaluation of a closed definite integral / of a derivative at the grid, against the pointwise evaluator
TwoEvaluators ==
  /\ IsInt(Last) /\ ToPoly(Last[5], Last[2]) # PErr =>
       LET P == PAnti(ToPoly(Last[5], Last[2]))  lo == Val(Last[3], <<>>).v  hi == Val(Last[4], <<>>).v IN
       Len(P) >= 0 /\ Val(Last, <<>>) = Res(0, QSub(PEval(P, hi), PEval(P, lo)), Z)
  /\ Last[1] = "deriv" /\ ToPoly(Last[3], Last[2]) # PErr =>
       LET P == PDeriv(ToPoly(Last[3], Last[2])) IN
       Len(P) >= 0 /\ \A t \in Grid(1) : Val(Last, [y \in {Last[2]} |-> t]) = Res(0, PEval(P, t), Z)
SimplifyIdempotent == LET s == Ref("Simplify", <<>>, Last) IN Ref("Simplify", <<>>, s) = s
\* written at the end of the run: every transition taken, as a vector for the real code
Emit == LET vs == Flatten(TLCGet(8), 1) \o TLCGet(7) IN
        /\ Len(vs) > 0
        /\ ndJsonSerialize(IOEnv.VECTOR_FILE, vs)
        /\ PrintT(<<"vectors", Len(vs), "universe", Cardinality(Universe), "rules", {vs[i].ref : i \in 1..Len(vs)}>>)
=============================================================================
