SPECIFICATION Spec
CONSTANTS MaxOps = 5
 MaxItems = 2
 MaxSteps = 2
 AsCoded = FALSE
 Record = FALSE
 EmitAll = FALSE
INVARIANT NeverFinishedInduction
CHECK_DEADLOCK FALSE
