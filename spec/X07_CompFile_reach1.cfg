SPECIFICATION Spec
CONSTANTS MaxOps = 4
 MaxItems = 1
 MaxSteps = 2
 AsCoded = FALSE
 Record = FALSE
 EmitAll = FALSE
INVARIANT NeverFinishedInduction
CHECK_DEADLOCK FALSE
