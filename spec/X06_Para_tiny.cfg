SPECIFICATION Spec
CONSTANTS
  NProc = 2
  NGuards = 2
  NAsgs = 3
  NInvs = 2
  TwoArr = FALSE
  Record = FALSE
  MaxSteps = 0
  WpMulti = 0
  RunSet = 1
  DoEmit = FALSE
  DoWp = TRUE
  DoRun = TRUE
INVARIANT WpExact
INVARIANT Consistent
INVARIANT Classified
CHECK_DEADLOCK FALSE
