------------------------------- MODULE C15_Sat -------------------------------
(* S-specification for C15 (SAT part): what a verdict and a certificate ARE.              *)
(*   input space : every CNF of the universe is an initial state (clauses are literal      *)
(*                 SEQUENCES in shape "seq": duplicated / complementary literals, the      *)
(*                 empty clause and the empty CNF are all included; shape "set": all       *)
(*                 sets of <= MaxClauses distinct clauses over NVars variables)            *)
(*   state       : cnf, derived (clauses derived so far, with ids), prf (their provenance  *)
(*                 in the certificate format of sat.solve_cnf), saturated, mark            *)
(*   action      : Saturate -- add every resolvent of two derived clauses (reference       *)
(*                 refutation procedure; stops at the first empty clause)                  *)
(*   properties  : ResolutionSound     every derived clause holds in every model of cnf    *)
(*                 RefutationComplete  at saturation: empty clause derived <=> no model    *)
(*                 CertificateAccepted the provenance of a derived empty clause is a       *)
(*                                     ValidRefutation (so T's clause is not too strict)   *)
(*                 CertificateOnlyIfUnsat  ValidRefutation(cnf, prf) => no model           *)
(* The universe is written as vectors (POSTCONDITION Emit) and replayed into solve_cnf.   *)
EXTENDS C15_SatCore, SequencesExt, FiniteSetsExt, Json, IOUtils

CONSTANTS NVars, MaxLen, MaxClauses, Shape

VarIds == 1..NVars
Lits == { <<v, b>> : v \in VarIds, b \in BOOLEAN }
LitLess(a, b) == a[1] < b[1] \/ (a[1] = b[1] /\ ~a[2] /\ b[2])
SeqClauses == UNION { [1..n -> Lits] : n \in 0..MaxLen }
SetClauses == { SetToSortSeq(S, LitLess) : S \in UNION { kSubset(n, Lits) : n \in 0..MaxLen } }
ClauseList == SetToSeq(SetClauses)
SortedIdx(I) == SetToSortSeq(I, LAMBDA a, b : a < b)
SeqCNFs == UNION { [1..n -> SeqClauses] : n \in 0..MaxClauses }
SetCNFs == UNION { { LET ix == SortedIdx(I) IN [j \in 1..n |-> ClauseList[ix[j]]] : I \in kSubset(n, 1..Len(ClauseList)) }
                   : n \in 0..MaxClauses }
CNFs == IF Shape = "seq" THEN SeqCNFs ELSE SetCNFs

VARIABLES cnf, derived, prf, saturated, mark
vars == <<cnf, derived, prf, saturated, mark>>

Init == /\ cnf \in CNFs
        /\ derived = [k \in 1..Len(cnf) |-> LitSet(cnf[k])]
        /\ prf = <<>>
        /\ saturated = FALSE
        /\ mark = 0          \* all pairs among derived[1..mark] have been resolved already

RangeS(s) == { s[i] : i \in 1..Len(s) }
\* all resolution steps between derived clauses: <<i, j, resolvent>> (i, j 1-based positions in derived)
\* (Resolvents is symmetric; pairs inside derived[1..mark] were done in earlier rounds; tautological resolvents are
\*  discarded, as every refutation procedure may: they hold in every assignment and are never needed)
Tautological(C) == \E l \in C : Neg(l) \in C
Steps(d, m) == UNION { UNION { { <<i, j, R>> : R \in { R \in Resolvents(d[i], d[j]) : ~Tautological(R) } } : j \in (IF i > m THEN i ELSE m + 1)..Len(d) } : i \in 1..Len(d) }
Saturate ==
  /\ ~saturated
  /\ UNCHANGED cnf
  /\ IF prf = <<>> /\ \E k \in 1..Len(derived) : derived[k] = {}
     THEN \* an input clause is empty: the refutation names it, no resolution step
          LET k == CHOOSE k \in 1..Len(derived) : derived[k] = {} IN
          /\ derived' = Append(derived, {})
          /\ prf' = << <<Len(derived), <<k - 1>> >> >>
          /\ saturated' = TRUE /\ mark' = mark
     ELSE LET steps == Steps(derived, mark)
              new == { t[3] : t \in steps } \ RangeS(derived)
              Prov(R) == CHOOSE t \in steps : t[3] = R IN     \* provenance: 0-based ids of the two clauses resolved
          IF {} \in new
          THEN LET p == Prov({}) IN
               /\ derived' = Append(derived, {})
               /\ prf' = Append(prf, <<Len(derived), <<p[1] - 1, p[2] - 1>> >>)
               /\ saturated' = TRUE /\ mark' = mark
          ELSE LET ns == SetToSeq(new) IN
               /\ derived' = derived \o ns
               /\ prf' = prf \o [i \in 1..Len(ns) |-> LET p == Prov(ns[i]) IN <<Len(derived) + i - 1, <<p[1] - 1, p[2] - 1>> >>]
               /\ saturated' = (new = {}) /\ mark' = Len(derived)
Next == Saturate
Spec == Init /\ [][Next]_vars

\* ---------------------------------------------------------------- properties
ResolutionSound == \A C \in RangeS(derived) : \A m \in Models(cnf) : HoldsIn(C, m)
RefutationComplete == saturated => (({} \in RangeS(derived)) <=> ~Satisfiable(cnf))
CertificateAccepted == (saturated /\ {} \in RangeS(derived)) => ValidRefutation(cnf, prf)
CertificateOnlyIfUnsat == (saturated /\ ValidRefutation(cnf, prf)) => ~Satisfiable(cnf)
\* the replay of the recorded provenance reconstructs exactly the derived clauses
ReplayFaithful == saturated =>
                  LET r == ReplayAll(cnf, prf) IN
                  r.ok /\ \A i \in 1..Len(derived) : derived[i] \in r.known[i - 1]

\* ---------------------------------------------------------------- vectors (spec -> code)
Emit == LET u == SetToSeq(CNFs) IN
        /\ TLCGet("distinct") >= Len(u)
        /\ ndJsonSerialize(IOEnv.VECTOR_FILE, [i \in 1..Len(u) |-> [cnf |-> u[i]]])
        /\ PrintT(<<"vectors", Len(u)>>)
=============================================================================
