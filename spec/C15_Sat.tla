------------------------------- MODULE C15_Sat -------------------------------
(* S-specification for C15 (SAT part): what a verdict and a certificate ARE.              *)
(*   input space : every CNF of the universe Parts is an initial state (shape "seq":       *)
(*                 clauses are literal SEQUENCES, so duplicated / complementary literals,  *)
(*                 the empty clause and the empty CNF are all included; shape "set": all   *)
(*                 sets of <= k distinct clauses of distinct literals over n variables)    *)
(*   state       : cnf, derived (clauses derived so far, with ids), prf (their provenance  *)
(*                 in the certificate format of sat.solve_cnf), saturated, mark            *)
(*   action      : Saturate -- add every resolvent of two derived clauses (reference       *)
(*                 refutation procedure; stops at the first empty clause)                  *)
(*   properties  : ResolutionSound     every derived clause holds in every model of cnf    *)
(*                 RefutationComplete  at saturation: empty clause derived <=> no model    *)
(*                 CertificateAccepted the provenance of a derived empty clause is a       *)
(*                                     ValidRefutation (so T's clause is not too strict)   *)
(*                 CertificateOnlyIfUnsat  ValidRefutation(cnf, prf) => no model           *)
(* The universe is written as vectors (POSTCONDITION Emit) and replayed into solve_cnf.   *)
EXTENDS C15_SatCore, SequencesExt, FiniteSetsExt, Json, IOUtils

CONSTANTS Parts     \* set of <<shape, number of variables, max literals per clause, max clauses>>, shape "seq" | "set" | "setc" | "seqc"

\* the universes used by the check (cfg: Parts <- ...)
PartsQuick == { <<"seq", 2, 2, 3>>,      \* 2 vars, clauses = literal sequences of length <= 2, <= 3 clauses  (9 724)
                <<"setc", 3, 3, 3>>,     \* 3 vars, all sets of <= 3 clauses of <= 3 distinct literals, one representative
                                         \* per renaming of the variables (variables first occur in the order 1, 2, 3)  (2 439)
                <<"set", 2, 2, 6>> }     \* 2 vars, all sets of <= 6 clauses of <= 2 distinct literals        (1 486)
PartsSeq2x == { <<"seqc", 2, 2, 4>> }    \* 2 vars, literal sequences of length <= 2, <= 4 clauses, up to renaming (of 204 205)
PartsSet3x == { <<"setc", 3, 3, 4>> }    \* 3 vars, all sets of <= 4 clauses of <= 3 distinct literals up to renaming (of 124 314)
PartsSeq3 == { <<"seq", 3, 2, 3>>, <<"set", 2, 2, 6>> }     \* (81 400 + 1 486)

Lits(nv) == { <<v, b>> : v \in 1..nv, b \in BOOLEAN }
LitLess(a, b) == a[1] < b[1] \/ (a[1] = b[1] /\ ~a[2] /\ b[2])
SeqClauses(nv, ml) == UNION { [1..n -> Lits(nv)] : n \in 0..ml }
SetClauses(nv, ml) == { SetToSortSeq(S, LitLess) : S \in UNION { kSubset(n, Lits(nv)) : n \in 0..ml } }
SortedIdx(I) == SetToSortSeq(I, LAMBDA a, b : a < b)
SeqCNFs(nv, ml, mc) == LET cs == SeqClauses(nv, ml) IN UNION { [1..n -> cs] : n \in 0..mc }
SetCNFs(nv, ml, mc) == LET cl == SetToSeq(SetClauses(nv, ml)) IN
                       UNION { { LET ix == SortedIdx(I) IN [j \in 1..n |-> cl[ix[j]]] : I \in kSubset(n, 1..Len(cl)) } : n \in 0..mc }
\* variables in order of occurrence; canonical = each variable k > 1 first occurs after variable k - 1
RECURSIVE VarSeq(_, _)
VarSeq(cnf, k) == IF k > Len(cnf) THEN <<>> ELSE [i \in 1..Len(cnf[k]) |-> cnf[k][i][1]] \o VarSeq(cnf, k + 1)
Canonical(cnf) == LET s == VarSeq(cnf, 1) IN \A i \in 1..Len(s) : s[i] > 1 => \E j \in 1..(i - 1) : s[j] = s[i] - 1
PartCNFs(p) == CASE p[1] = "seq" -> SeqCNFs(p[2], p[3], p[4])
                 [] p[1] = "set" -> SetCNFs(p[2], p[3], p[4])
                 [] p[1] = "setc" -> { c \in SetCNFs(p[2], p[3], p[4]) : Canonical(c) }
                 [] p[1] = "seqc" -> { c \in SeqCNFs(p[2], p[3], p[4]) : Canonical(c) }
CNFs == UNION { PartCNFs(p) : p \in Parts }

VARIABLES cnf, derived, prf, saturated, mark
vars == <<cnf, derived, prf, saturated, mark>>

Init == /\ cnf \in CNFs
        /\ derived = [k \in 1..Len(cnf) |-> LitSet(cnf[k])]
        /\ prf = <<>>
        /\ saturated = FALSE
        /\ mark = 0          \* all pairs among derived[1..mark] have been resolved already

RangeS(s) == { s[i] : i \in 1..Len(s) }
\* all resolution steps between derived clauses: <<i, j, resolvent>> (i, j 1-based positions in derived)
\* (Resolvents is symmetric; pairs inside derived[1..mark] were done in earlier rounds; tautological resolvents are
\*  discarded, as every refutation procedure may: they hold in every assignment and are never needed)
Tautological(C) == \E l \in C : Neg(l) \in C
Steps(d, m) == UNION { UNION { { <<i, j, R>> : R \in { R \in Resolvents(d[i], d[j]) : ~Tautological(R) } } : j \in (IF i > m THEN i ELSE m + 1)..Len(d) } : i \in 1..Len(d) }
Saturate ==
  /\ ~saturated
  /\ UNCHANGED cnf
  /\ IF prf = <<>> /\ \E k \in 1..Len(derived) : derived[k] = {}
     THEN \* an input clause is empty: the refutation names it, no resolution step
          LET k == CHOOSE k \in 1..Len(derived) : derived[k] = {} IN
          /\ derived' = Append(derived, {})
          /\ prf' = << <<Len(derived), <<k - 1>> >> >>
          /\ saturated' = TRUE /\ mark' = mark
     ELSE LET steps == Steps(derived, mark)
              new == { t[3] : t \in steps } \ RangeS(derived)
              Prov(R) == CHOOSE t \in steps : t[3] = R IN     \* provenance: 0-based ids of the two clauses resolved
          IF {} \in new
          THEN LET p == Prov({}) IN
               /\ derived' = Append(derived, {})
               /\ prf' = Append(prf, <<Len(derived), <<p[1] - 1, p[2] - 1>> >>)
               /\ saturated' = TRUE /\ mark' = mark
          ELSE LET ns == SetToSeq(new) IN
               /\ derived' = derived \o ns
               /\ prf' = prf \o [i \in 1..Len(ns) |-> LET p == Prov(ns[i]) IN <<Len(derived) + i - 1, <<p[1] - 1, p[2] - 1>> >>]
               /\ saturated' = (new = {}) /\ mark' = Len(derived)
Next == Saturate
Spec == Init /\ [][Next]_vars

\* ---------------------------------------------------------------- properties
ResolutionSound == LET M == Models(cnf) IN \A C \in RangeS(derived) : \A m \in M : HoldsIn(C, m)
RefutationComplete == saturated => (({} \in RangeS(derived)) <=> ~Satisfiable(cnf))
CertificateAccepted == (saturated /\ {} \in RangeS(derived)) => ValidRefutation(cnf, prf)
CertificateOnlyIfUnsat == (saturated /\ ValidRefutation(cnf, prf)) => ~Satisfiable(cnf)
\* the replay of the recorded provenance reconstructs exactly the derived clauses
ReplayFaithful == saturated =>
                  LET r == ReplayAll(cnf, prf) IN
                  r.ok /\ \A i \in 1..Len(derived) : derived[i] \in r.known[i - 1]

\* ---------------------------------------------------------------- vectors (spec -> code)
Emit == LET u == SetToSeq(CNFs) IN
        /\ TLCGet("distinct") >= Len(u)
        /\ ndJsonSerialize(IOEnv.VECTOR_FILE, [i \in 1..Len(u) |-> [cnf |-> u[i]]])
        /\ PrintT(<<"vectors", Len(u)>>)
=============================================================================
