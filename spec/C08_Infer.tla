------------------------------ MODULE C08_Infer ------------------------------
(* S-specification for C08.  The contract GoodResult / the erasure clause are in        *)
(* C08_Contract; this module is the INPUT SPACE as a transition system and the check    *)
(* that the algorithm model (C08_InferAlgo, type_infer as coded) meets the contract on  *)
(* all of it.  Two families of states:                                                  *)
(*   fam = "typed" : cur is a well-typed term over a signature taken from holpy's       *)
(*        theories (overloaded zero/one/plus/less_eq/of_nat at nat, int, real;          *)
(*        polymorphic equals/all/exists/nil/cons/append/length/IF/The/comp_fun;         *)
(*        higher-order variables F, H; schematic variables).  Grow* actions build       *)
(*        larger terms (applications both ways, binary constants both ways, binders     *)
(*        over free variables -> nested binders).  Each state stands for its erasures   *)
(*        under the patterns {none, vars, consts+binders, all}, with the variables      *)
(*        declared in the context or not.                                               *)
(*   fam = "cs" : cs is a sequence of atomic constraints over the untyped variables     *)
(*        x0..x(NV-1) (x_i x_j, x_i = x_j, x_i = [x_j], x_i = %z. x_j, x_i : bool,      *)
(*        x_i : nat, and annotated occurrences), cur their conjunction, an un-annotated *)
(*        skeleton.  All sequences up to length MaxAtoms in canonical variable order    *)
(*        (atoms after the second restricted to LongKinds):                             *)
(*        every order of the unify calls, occurs-check cycles of every length through   *)
(*        fun and list, one variable used at two types, and solvable ones; the short    *)
(*        ones also with x0 : nat, x1 : bool, ?x0 : bool, ?x1 : bool declared in the    *)
(*        context.  Schematic variables ?x_i carry the NAMES of the variables x_i.      *)
(* Invariants                                                                           *)
(*   ContractSane       : an original is a good result of each of its erasures          *)
(*   ModelTerminates, ModelGoodResult, ModelErasure (= ModelMeetsContract): the         *)
(*                        algorithm model, with ExactOccursCheck / AnnotVarCheck        *)
(*                        mirroring the code that is present, never diverges; what it   *)
(*                        returns is a GoodResult and satisfies the erasure clause      *)
(* Configurations: *_gen.cfg (input space + ContractSane; every state is recorded by    *)
(* Record, listed as an invariant, and written to VECTOR_FILE by the post-condition:    *)
(* spec -> code vectors for harness/drivers/c08.py) and *_model.cfg (Model* invariants).*)
EXTENDS C08_Contract, FiniteSets, Json, IOUtils, SequencesExt

CONSTANTS MaxSize,           \* size bound of typed terms
          MaxSteps,          \* number of growth steps from a leaf
          NV, MaxAtoms,      \* constraint skeletons: variables and atoms
          AtomKinds,         \* subset of {"A","E","L","F","P","N","B","M"}: kinds of the first two atoms
          LongKinds,         \* kinds of the atoms after the second
          ShortKinds, ShortLen, \* further kinds ("SP","SN","SE","SA": schematic variables), only in conjunctions of <= ShortLen atoms
          DeclAtoms,         \* conjunctions of at most this many atoms are also run with x0 : nat, x1 : bool declared
          Variants,          \* which erasures a typed state stands for: set of <<keep pattern, variables declared>>
          ExactOccursCheck,  \* the implementation's occurs check follows the bindings (exact reachability)
          AnnotVarCheck,     \* ... unifies annotated occurrences of a variable with its other occurrences
          WithModel          \* evaluate the algorithm model (the *_model configurations)

\* ---------------------------------------------------------------- signature (declared types, schematic)
SA == <<"stv","a">>   SB == <<"stv","b">>   SC == <<"stv","c">>
TA == <<"tv","a">>
Fun2(A, B, C) == FunT(A, FunT(B, C))
Sig == << <<"equals", Fun2(SA, SA, BoolT)>>, <<"all", FunT(FunT(SA, BoolT), BoolT)>>, <<"exists", FunT(FunT(SA, BoolT), BoolT)>>,
          <<"implies", Fun2(BoolT, BoolT, BoolT)>>, <<"conj", Fun2(BoolT, BoolT, BoolT)>>, <<"neg", FunT(BoolT, BoolT)>>,
          <<"true", BoolT>>, <<"zero", SA>>, <<"one", SA>>, <<"plus", Fun2(SA, SA, SA)>>, <<"less_eq", Fun2(SA, SA, BoolT)>>,
          <<"of_nat", FunT(NatT, SA)>>, <<"Suc", FunT(NatT, NatT)>>, <<"nil", ListT(SA)>>,
          <<"cons", Fun2(SA, ListT(SA), ListT(SA))>>, <<"append", Fun2(ListT(SA), ListT(SA), ListT(SA))>>,
          <<"length", FunT(ListT(SA), NatT)>>, <<"IF", FunT(BoolT, Fun2(SA, SA, SA))>>, <<"The", FunT(FunT(SA, BoolT), SA)>>,
          <<"comp_fun", Fun2(FunT(SB, SC), FunT(SA, SB), FunT(SA, SC))>> >>
C(n, T) == <<"const", n, T>>
V(n, T) == <<"var", n, T>>
EqAt(T) == C("equals", Fun2(T, T, BoolT))
Bin(op, a, b) == App(App(op, a), b)
NumTypes == {NatT, IntT, RealT}

vx == V("x", NatT)   vy == V("y", NatT)   vi == V("i", IntT)   vr == V("r", RealT)
va == V("a", TA)     vb == V("b", TA)     vp == V("p", BoolT)  vq == V("q", BoolT)
vf == V("f", FunT(NatT, NatT))            vg == V("g", FunT(TA, TA))
vP == V("P", FunT(TA, BoolT))             vR == V("R", Fun2(NatT, NatT, BoolT))
vxs == V("xs", ListT(NatT))               vas == V("as", ListT(TA))
vF == V("F", FunT(FunT(NatT, NatT), NatT))      \* higher-order variables
vH == V("H", FunT(FunT(TA, BoolT), BoolT))
ss == <<"svar", "s", NatT>>               st == <<"svar", "t", TA>>
\* schematic variables whose NAME is also the name of an ordinary variable: ?x : nat => bool (x : nat), ?p : bool (p : bool)
sx == <<"svar", "x", FunT(NatT, BoolT)>>           sp == <<"svar", "p", BoolT>>
Vars == {vx, vy, vi, vr, va, vb, vp, vq, vf, vg, vP, vR, vxs, vas, vF, vH, ss, st, sx, sp}
ConstLeaves == { C("true", BoolT), C("zero", NatT), C("zero", IntT), C("zero", RealT), C("one", NatT), C("one", RealT),
                 C("nil", ListT(NatT)), C("nil", ListT(TA)) }
Leaves == Vars \cup ConstLeaves
Ty(t) == TypeOf(t, <<>>)
LeavesOf(T) == { u \in Leaves : u[3] = T }
\* unary function symbols applicable to a term of type T
UnaryFuns(T) == { u \in Vars : IsFun(u[3]) /\ u[3][3][1] = T }
   \cup (IF T = NatT THEN { C("Suc", FunT(NatT, NatT)), C("of_nat", FunT(NatT, IntT)), C("of_nat", FunT(NatT, RealT)) } ELSE {})
   \cup (IF T = BoolT THEN { C("neg", FunT(BoolT, BoolT)) } ELSE {})
   \cup (IF T[1] = "tc" /\ T[2] = "list" THEN { C("length", FunT(T, NatT)) } ELSE {})
   \cup (IF IsFun(T) /\ T[3][2] = BoolT THEN { C("all", FunT(T, BoolT)), C("exists", FunT(T, BoolT)), C("The", FunT(T, T[3][1])) } ELSE {})
\* binary constants whose two arguments have type T (or T and T list)
BinOps(T) == { EqAt(T) }
   \cup (IF T \in NumTypes THEN { C("plus", Fun2(T, T, T)), C("less_eq", Fun2(T, T, BoolT)) } ELSE {})
   \cup (IF T = BoolT THEN { C("conj", Fun2(BoolT, BoolT, BoolT)), C("implies", Fun2(BoolT, BoolT, BoolT)) } ELSE {})
   \cup (IF T[1] = "tc" /\ T[2] = "list" THEN { C("append", Fun2(T, T, T)) } ELSE {})
FreeVars(t) == VarOccs(t)
GrowApp(t) == LET T == Ty(t) IN
   { App(f, t) : f \in UnaryFuns(T) }
   \cup (IF IsFun(T) THEN { App(t, u) : u \in LeavesOf(T[3][1]) } ELSE {})
GrowBin(t) == LET T == Ty(t) IN
   UNION { { Bin(op, t, u) : u \in LeavesOf(T) \cup {t} } \cup { Bin(op, u, t) : u \in LeavesOf(T) } : op \in BinOps(T) }
   \cup { Bin(C("cons", Fun2(T, ListT(T), ListT(T))), t, u) : u \in LeavesOf(ListT(T)) }
   \cup (IF T \in {NatT, TA} THEN { Bin(C("cons", Fun2(T, ListT(T), ListT(T))), t, C("nil", ListT(T))) } ELSE {})
   \cup (IF T \in {NatT, TA, BoolT} THEN { App(Bin(C("IF", FunT(BoolT, Fun2(T, T, T))), vq, t), u) : u \in LeavesOf(T) } ELSE {})
   \cup (IF T = FunT(NatT, NatT) THEN { Bin(C("comp_fun", Fun2(T, T, T)), t, vf), Bin(C("comp_fun", Fun2(T, T, T)), vf, t) } ELSE {})
   \* comp_fun at three different types:  P o t  with t : 'a => 'a,   t o g  with t : 'a => bool
   \cup (IF T = FunT(TA, TA) THEN { Bin(C("comp_fun", Fun2(FunT(TA, BoolT), T, FunT(TA, BoolT))), vP, t) } ELSE {})
   \cup (IF T = FunT(TA, BoolT) THEN { Bin(C("comp_fun", Fun2(T, FunT(TA, TA), T)), t, vg) } ELSE {})
   \cup (IF T = FunT(NatT, NatT) THEN { Bin(C("comp_fun", Fun2(FunT(NatT, RealT), T, FunT(NatT, RealT))), C("of_nat", FunT(NatT, RealT)), t) } ELSE {})
GrowBind(t) == LET T == Ty(t) IN
   { Lambda(v, t) : v \in (FreeVars(t) \cap {vx, va, vp, vf, vP, vxs}) \cup {vy} }
   \cup (IF T = BoolT THEN UNION { { App(C(q, FunT(FunT(v[3], BoolT), BoolT)), Lambda(v, t)) : q \in {"all", "exists"} }
                                   : v \in FreeVars(t) \cap {vx, vy, va, vb, vp, vf, vP, vxs, vas} } ELSE {})

\* ---------------------------------------------------------------- constraint skeletons
XV(i) == <<"var", "x" \o ToString(i), NoneT>>
C0(n) == <<"const", n, NoneT>>
Eq0(a, b) == Bin(C0("equals"), a, b)
XS(i) == <<"svar", "x" \o ToString(i), NoneT>>        \* the schematic variable ?x_i: same NAME as the variable x_i
AllKinds == AtomKinds \cup ShortKinds
Atoms == { a \in [k : AllKinds, i : 0..(NV - 1), j : 0..(NV - 1)] : a.k \in {"P","N","B","M","SP","SN"} => a.j = 0 }
AtomTerm(a) ==
  CASE a.k = "A" -> App(XV(a.i), XV(a.j))                                   \* x_i x_j  (a proposition)
    [] a.k = "E" -> Eq0(XV(a.i), XV(a.j))                                   \* x_i = x_j
    [] a.k = "L" -> Eq0(XV(a.i), Bin(C0("cons"), XV(a.j), C0("nil")))       \* x_i = [x_j]
    [] a.k = "F" -> Eq0(XV(a.i), <<"abs", NoneT, XV(a.j)>>)                 \* x_i = (%z. x_j)
    [] a.k = "P" -> XV(a.i)                                                 \* x_i  (a proposition)
    [] a.k = "N" -> Eq0(XV(a.i), App(C0("Suc"), XV(a.i)))                   \* x_i = Suc x_i
    [] a.k = "B" -> <<"var", XV(a.i)[2], BoolT>>                            \* (x_i::bool)
    [] a.k = "M" -> Eq0(<<"var", XV(a.i)[2], NatT>>, C0("zero"))            \* (x_i::nat) = 0
    [] a.k = "SP" -> XS(a.i)                                                \* ?x_i  (a proposition)
    [] a.k = "SN" -> Eq0(XS(a.i), App(C0("Suc"), XS(a.i)))                  \* ?x_i = Suc ?x_i
    [] a.k = "SE" -> Eq0(XS(a.i), XV(a.j))                                  \* ?x_i = x_j
    [] a.k = "SA" -> App(XS(a.i), XV(a.j))                                  \* ?x_i x_j  (a proposition)
RECURSIVE ConjOf(_,_)
ConjOf(seq, i) == IF i = Len(seq) THEN AtomTerm(seq[i]) ELSE Bin(C0("conj"), AtomTerm(seq[i]), ConjOf(seq, i + 1))
\* canonical variable order: x_k occurs only after x_0 .. x_(k-1)   (renaming is a symmetry of the algorithm)
RECURSIVE UsedAfter(_,_,_)
AtomUses(a) == IF a.k \in {"A","E","L","F","SE","SA"} THEN <<a.i, a.j>> ELSE <<a.i>>
Bad == 99
Use1(m, v) == IF m = Bad \/ v > m THEN Bad ELSE IF v = m THEN m + 1 ELSE m
StepUsed(m, us) == IF Len(us) = 1 THEN Use1(m, us[1]) ELSE Use1(Use1(m, us[1]), us[2])
UsedAfter(seq, i, m) == IF i > Len(seq) \/ m = Bad THEN m ELSE UsedAfter(seq, i + 1, StepUsed(m, AtomUses(seq[i])))
Canonical(seq) == UsedAfter(seq, 1, 0) # Bad

\* ---------------------------------------------------------------- what a state stands for
VariantsAll == { <<k, d>> : k \in KeepPatterns, d \in BOOLEAN }
VariantsQuick == { <<"none", TRUE>>, <<"vars", TRUE>>, <<"cb", TRUE>>, <<"none", FALSE>> }
VariantsDeep == VariantsQuick \cup { <<"all", FALSE>> }
NoCtx == [vars |-> <<>>, svars |-> <<>>]
XCtx == [vars |-> << <<"x0", NatT>>, <<"x1", BoolT>> >>, svars |-> << <<"x0", BoolT>>, <<"x1", BoolT>> >>]
DeclCtx(t) == [vars |-> SetToSeq({ <<v[2], v[3]>> : v \in { v \in VarOccs(t) : v[1] = "var" } }),
               svars |-> SetToSeq({ <<v[2], v[3]>> : v \in { v \in VarOccs(t) : v[1] = "svar" } })]
Case(f, keep, decl, skel, ctx, orig) == [fam |-> f, keep |-> keep, declared |-> decl, skel |-> skel, ctx |-> ctx, orig |-> orig]
CasesOf(f, t, c) ==
  IF f = "typed"
  THEN { Case("typed", v[1], v[2], EraseP(t, v[1]), IF v[2] THEN DeclCtx(t) ELSE NoCtx, t) : v \in Variants }
  ELSE IF c = <<>> THEN {}
  ELSE { Case("cs", "none", FALSE, t, NoCtx, NoTerm) }
       \* the same conjunction with x0, x1, ?x0, ?x1 DECLARED in the context (bare and annotated uses of a declared variable,
       \* in both orders, agreeing or not with the declaration)
       \cup (IF Len(c) <= DeclAtoms THEN { Case("cs", "decl", TRUE, t, XCtx, NoTerm) } ELSE {})
\* names of the contract clauses that the algorithm model fails on a case
MOut(c) == Outcome(c.skel, c.ctx, Sig, Opt(ExactOccursCheck, AnnotVarCheck), TRUE)
ModelClauses(c) ==
  LET o == MOut(c) IN
  (IF o.kind = "diverged" THEN {"Terminates"} ELSE {})
  \cup (IF o.kind = "term" THEN GoodClauses(c.skel, c.ctx, Sig, o.t) ELSE {})
  \cup (IF c.fam = "typed" /\ c.declared THEN ErasureClauses(c.skel, o.kind, o.err, o.t, c.orig) ELSE {})
  \cup (IF o.kind = "own" THEN {"err:" \o o.err} ELSE {"kind:" \o o.kind})        \* (not failures: reachability witnesses)
ModelFails(f, t, c) == IF WithModel THEN UNION { ModelClauses(x) : x \in CasesOf(f, t, c) } ELSE {}

\* ---------------------------------------------------------------- the state machine
VARIABLES fam, cur, cs, steps, mc
vars == <<fam, cur, cs, steps, mc>>
Dummy == C("true", BoolT)
Init == /\ TLCSet(1, <<>>)
        /\ \/ fam = "typed" /\ cur \in Leaves /\ cs = <<>> /\ steps = 0
           \/ fam = "cs" /\ cur = Dummy /\ cs = <<>> /\ steps = 0
        /\ mc = ModelFails(fam, cur, cs)
GrowTyped(G(_)) == /\ fam = "typed" /\ steps < MaxSteps
                   /\ \E t \in G(cur) : t # Err /\ Size(t) <= MaxSize /\ cur' = t /\ mc' = ModelFails(fam, t, cs)
                   /\ steps' = steps + 1 /\ UNCHANGED <<fam, cs>>
AddAtom == /\ fam = "cs" /\ Len(cs) < MaxAtoms
           /\ \E a \in Atoms : LET c2 == Append(cs, a) IN
                   (Len(cs) >= 2 => a.k \in LongKinds) /\ (a.k \in AtomKinds \/ Len(c2) <= ShortLen)
                   /\ (Len(c2) > ShortLen => \A n \in 1..Len(cs) : cs[n].k \in AtomKinds) /\ Canonical(c2) /\ cs' = c2 /\ cur' = ConjOf(c2, 1) /\ mc' = ModelFails(fam, ConjOf(c2, 1), c2)
           /\ steps' = steps + 1 /\ UNCHANGED fam
Next == GrowTyped(GrowApp) \/ GrowTyped(GrowBin) \/ GrowTyped(GrowBind) \/ AddAtom
Spec == Init /\ [][Next]_vars
Cases == CasesOf(fam, cur, cs)

\* ---------------------------------------------------------------- properties
TypedOK == fam = "typed" => Ty(cur) # Err /\ ~HasNone(cur) /\ ConstInst(cur, Sig) /\ OneType(cur)
ContractSane == fam = "typed" => \A c \in Cases : GoodResult(c.skel, c.ctx, Sig, c.orig) /\ IsErasureOf(c.skel, c.orig)
                                                  /\ (c.declared => ErasureApplies(c.skel, c.ctx, Sig, c.orig))
\* mc = the clauses failed by the algorithm model on the cases of the state (computed once, in the action)
\* unify and the final substitution loop of the algorithm terminate (no cyclic binding is accepted)
ModelTerminates == "Terminates" \notin mc
\* what the algorithm returns satisfies the contract
ModelGoodResult == mc \cap {"Determined", "WellTyped", "SameShape", "KeepAnnot", "KeepDecl", "OneType", "ConstInst", "NoInternal"} = {}
\* erasures of well-typed terms with declared variables: the original or "under-determined"
ModelErasure == "ErasureRecovers" \notin mc
ModelMeetsContract == ModelTerminates /\ ModelGoodResult /\ ModelErasure
\* recording (always TRUE); with -workers 1 each distinct state is recorded once
Record == TLCSet(1, TLCGet(1) \o SetToSeq(Cases))
Post == /\ ndJsonSerialize(IOEnv.VECTOR_FILE, TLCGet(1))
        /\ PrintT(<<"vectors", Len(TLCGet(1))>>)
\* sanity invariants that are expected to be VIOLATED (reachability of the interesting outcomes)
NoTermOutcomeForCs == fam = "cs" => "kind:term" \notin mc
NoUnspecified == "err:unspecified" \notin mc
NoLoopError == "err:loop" \notin mc
NoUnifyError == "err:unify" \notin mc
=============================================================================
