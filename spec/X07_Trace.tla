------------------------------ MODULE X07_Trace ------------------------------
(* T-specification for X07 (extras/X07.md).  Events of harness/drivers/x07.py (projection of the REAL objects of        *)
(* integral/compstate.py; expressions, rules, strings and item digests are interned to numbers):                         *)
(*  kind "op"     one public operation performed on a real CompFile:                                                     *)
(*      op = [nm, i (item, 1-based), lab, id (-1 = from the start), rule, a, b, cs]   oc = "ok" | "exc", exc, own         *)
(*      bd / ad = digests of the projection of every item before / after;  bt / at = the nodes of item i before / after   *)
(*      (X07_Tree nodes plus, for goals, what the code REPORTS: fin = is_finished(), lc = proof.is_finished() of a         *)
(*      calculation / rewrite proof, pl = both last expressions are binder-free, sg = is_finished() of the well-formedness  *)
(*      sub-goals, fo / lem / dfs / cnd / hyp = lemmas, definitions (beyond the book's), conditions, induction hypotheses   *)
(*      of goal.ctx);  items = [k, e, l, r, pd] of every item after;  dom = the step id was one of the calculation;         *)
(*      hasx / expect = the tree X07_CompFile predicts for item i (generated behaviours only)                              *)
(*  kind "labels" get_by_label of item i (nodes t) for every label of probes = [lab, oc = "node" | "own" | "foreign",      *)
(*      rl, rk = label and kind of the node returned (found by identity in the walk)]                                      *)
(*  kind "reload" export() of the file, re-parsed with parse_item into a new CompFile (what app/integral.py does on every  *)
(*      request), exported again: bd / ad = item projections before / after, ex1 / ex2 = digests of the exports            *)
(*  kind "rule"   Rule.export() -> parse_rule -> export(): ex1, oc, ex2                                                    *)
(* Clauses (every event gets a total verdict):                                                                            *)
(*  (a) LabelReachesNode, InvalidLabelAnswered, InvalidLabelForeignError; NextStepLabel (op.hasn / op.nsl: the label that  *)
(*      get_next_step_label gives for the step just appended - what app/integral.py returns as selected_item - is its label) *)
(*  (b) OthersUntouched, EffectExact (the tree after = the X07_Tree operator applied to the tree before; black boxes -      *)
(*      rule results, sub-goal statements, the negated condition - are read from the tree after), TreeShape, StepIds       *)
(*  (c) FinishedPropagates (reported is_finished of EVERY goal = Fin over the reported leaf verdicts), FinishedNoOpenLeaf,  *)
(*      CalcClosedIffSame (an `=` calculation proof is closed iff both last expressions are the same)                      *)
(*  (d) FactsLemmas, FactsDefinitions (exactly the items before i), FactsConditions, FactsHypotheses (exactly the path),   *)
(*      GetFactsIsStatement (get_facts of an item = its statement; items = [k, e, l, r, pd, gf, gfo])                      *)
(*  (e) ExportRaises, ReparseRaises, ReparseEqualTree, ExportStable, RuleReparseRaises, RuleExportStable                  *)
(* Divergence: an operation that raised changed the tree; a step id outside the calculation; code /= X07_CompFile; the     *)
(* transcription CodeResolve /= the code; parse_rule changed the dictionary it was given.                                  *)
EXTENDS X07_Tree, TLC, TraceLib
Stmt(n) == <<n.e, n.l, n.r, n.pd>>
GoalLabs(T) == { g.lab : g \in Goals(T) }
\* ---- (b)
EffectExact(e) ==
  LET op == e.op  B == CoreT(SeqToSet(e.bt))  A == CoreT(SeqToSet(e.at))  lab == op.lab
      isGoal == Has(B, lab) /\ At(B, lab).k = "goal"
      l0 == Append(lab, 0)  l1 == Append(lab, 1) IN
  CASE op.nm \in {"adddef", "addgoal"} ->
         /\ Cardinality(A) = 1 /\ Has(A, <<>>) /\ At(A, <<>>).pk = 0 /\ At(A, <<>>).e = op.a /\ At(A, <<>>).cs = op.cs
         /\ At(A, <<>>).k = (IF op.nm = "adddef" THEN "def" ELSE "goal")
    [] op.nm = "bycalc" -> isGoal /\ A = ByCalc(B, lab)
    [] op.nm = "byind" -> /\ isGoal /\ Has(A, l0) /\ Has(A, l1)
                          /\ A = ByInduction(B, lab, op.a, op.b, Stmt(At(A, l0)), Stmt(At(A, l1)))
    [] op.nm = "bycase" -> /\ isGoal /\ Has(A, l1) /\ Len(At(A, l1).cs) = 1 /\ At(A, l1).cs[1] # op.a
                           /\ A = ByCase(B, lab, op.a, At(A, l1).cs[1])
    [] op.nm = "byrw" -> isGoal /\ op.a >= 1 /\ op.a <= Len(e.items) /\ A = ByRewrite(B, lab, e.items[op.a].e, op.cs)
    [] op.nm = "perform" ->
         LET keep == op.id >= 0  kept == op.id + 1 IN
         /\ Has(B, lab) /\ At(B, lab).k \in {"calc", "rw"} /\ Has(A, Append(lab, kept))
         /\ A = Performed(B, lab, keep, IF keep THEN op.id ELSE 0, op.rule, At(A, Append(lab, kept)).e)
    [] op.nm = "clear" -> Has(B, lab) /\ A = Cleared(B, lab)
    [] op.nm = "pclear" -> isGoal /\ At(B, lab).pk # 0 /\ A = ProofCleared(B, lab)
    [] OTHER -> TRUE
Others(e) == IF e.op.nm \in {"adddef", "addgoal"} THEN Len(e.ad) = Len(e.bd) + 1 /\ e.op.i = Len(e.ad) /\ SubSeq(e.ad, 1, Len(e.bd)) = e.bd
             ELSE Len(e.ad) = Len(e.bd) /\ \A j \in 1..Len(e.bd) : j # e.op.i => e.ad[j] = e.bd[j]
\* ---- (c)
Known(v) == v \in {"t", "f"}
FinJudged(T, full, lab) == \A g \in Under(full, lab) : g.k = "goal" =>
   /\ \A k \in 1..Len(g.sg) : Known(g.sg[k])
   /\ (g.pk \in {1, 4} => Known(g.lc))
LCOf(full) == [lab \in GoalLabs(full) |-> At(full, lab).lc = "t"]
SGOf(full) == [lab \in GoalLabs(full) |-> \A k \in 1..Len(At(full, lab).sg) : At(full, lab).sg[k] = "t"]
FinClauses(full) ==
  LET T == CoreT(full) IN
  IF ~Shape(T) THEN {} ELSE
  (IF \A g \in Goals(full) : (Known(g.fin) /\ FinJudged(T, full, g.lab)) => ((g.fin = "t") <=> Fin(T, g.lab, LCOf(full), SGOf(full)))
   THEN {} ELSE {"FinishedPropagates"})
  \cup (IF \A g \in Goals(full) : (g.fin = "t" /\ FinJudged(T, full, g.lab)) => OpenLeaves(T, g.lab, LCOf(full), SGOf(full)) = {}
        THEN {} ELSE {"FinishedNoOpenLeaf"})
  \cup (IF \A g \in Goals(full) : (g.pk = 1 /\ g.pd = "=" /\ Known(g.lc)) =>
             LET same == LastExpr(T, Append(g.lab, 0)) = LastExpr(T, Append(g.lab, 1)) IN
             (same => g.lc = "t") /\ (g.pl => (g.lc = "t" => same))
        THEN {} ELSE {"CalcClosedIffSame"})
\* ---- (d)
ExpLem(items, i) == { <<items[j].l, items[j].r>> : j \in { j \in 1..(i - 1) : items[j].k = "def" \/ items[j].pd = "=" } }
ExpDfs(items, i) == { <<items[j].l, items[j].r>> : j \in { j \in 1..(i - 1) : items[j].k = "def" } }
FactClauses(full, items, i) ==
  LET T == CoreT(full)  G == { g \in Goals(full) : g.fo } IN
  IF ~Shape(T) \/ i > Len(items) THEN {} ELSE
  (IF \A g \in G : SeqToSet(g.lem) = ExpLem(items, i) THEN {} ELSE {"FactsLemmas"})
  \cup (IF \A g \in G : SeqToSet(g.dfs) = ExpDfs(items, i) THEN {} ELSE {"FactsDefinitions"})
  \cup (IF \A g \in G : SeqToSet(g.cnd) = CondsOnPath(T, g.lab) THEN {} ELSE {"FactsConditions"})
  \cup (IF \A g \in G : SeqToSet(g.hyp) = HypsOnPath(T, g.lab) THEN {} ELSE {"FactsHypotheses"})
  \cup (IF \A j \in 1..Len(items) : items[j].gfo => items[j].gf = (IF items[j].k \in {"def", "goal"} THEN <<items[j].e>> ELSE <<>>) THEN {} ELSE {"GetFactsIsStatement"})
OpClauses(e) ==
  LET full == SeqToSet(e.at)  A == CoreT(full) IN
  (IF Others(e) THEN {} ELSE {"OthersUntouched"})
  \cup (IF e.oc = "ok" /\ e.dom /\ ~EffectExact(e) THEN {"EffectExact"} ELSE {})
  \cup (IF e.oc = "ok" /\ e.op.nm = "perform" /\ e.op.hasn /\ e.op.nsl # Append(e.op.lab, e.op.id + 1) THEN {"NextStepLabel"} ELSE {})
  \cup (IF Shape(A) THEN {} ELSE {"TreeShape"})
  \cup (IF e.dom /\ ~StepIdsArePositions(A) THEN {"StepIds"} ELSE {})
  \cup FinClauses(full)
  \cup FactClauses(full, e.items, e.op.i)
\* ---- (a)
Answer(p) == IF p.oc = "node" THEN Ok(p.rl) ELSE Err(p.oc)
LabelClauses(e) ==
  LET T == CoreT(SeqToSet(e.t))  P == SeqToSet(e.probes) IN
  IF ~Shape(T) THEN {"TreeShape"} ELSE
  (IF \A p \in P : Has(T, p.lab) => (p.oc = "node" /\ p.rl = p.lab /\ p.rk = At(T, p.lab).k) THEN {} ELSE {"LabelReachesNode"})
  \cup (IF \A p \in P : ~Has(T, p.lab) => p.oc # "node" THEN {} ELSE {"InvalidLabelAnswered"})
  \cup (IF \A p \in P : ~Has(T, p.lab) => p.oc # "foreign" THEN {} ELSE {"InvalidLabelForeignError"})
LabelDiverges(e) == LET T == CoreT(SeqToSet(e.t)) IN Shape(T) /\ \E p \in SeqToSet(e.probes) : CodeResolve(T, <<>>, p.lab) # Answer(p)
\* ---- (e)
ReloadClauses(e) ==
  IF e.oc = "excexport" THEN {"ExportRaises"} ELSE IF e.oc # "ok" THEN {"ReparseRaises"} ELSE
  (IF e.ad = e.bd THEN {} ELSE {"ReparseEqualTree"}) \cup (IF e.ex2 = e.ex1 THEN {} ELSE {"ExportStable"})
RuleClauses(e) == IF e.oc # "ok" THEN {"RuleReparseRaises"} ELSE IF e.ex2 = e.ex1 THEN {} ELSE {"RuleExportStable"}
ClausesOf(e) == CASE e.kind = "op" -> OpClauses(e) [] e.kind = "labels" -> LabelClauses(e) [] e.kind = "reload" -> ReloadClauses(e)
                  [] e.kind = "rule" -> RuleClauses(e) [] OTHER -> {}
Nontrivial(e) == (e.kind = "op" /\ e.oc = "ok") \/ e.kind \in {"labels", "reload", "rule"}
Diverges(e) == \/ e.kind = "op" /\ e.oc = "exc" /\ CoreT(SeqToSet(e.at)) # CoreT(SeqToSet(e.bt))
               \/ e.kind = "op" /\ ~e.dom
               \/ e.kind = "op" /\ e.hasx /\ CoreT(SeqToSet(e.at)) # SeqToSet(e.expect)
               \/ e.kind = "labels" /\ LabelDiverges(e)
               \/ e.kind = "rule" /\ e.inmut
TNext == LET e == Trace[l] IN TStep(e.tid, ClausesOf(e), Nontrivial(e), Diverges(e))
TSpec == TInit /\ [][TNext]_l
=============================================================================
