------------------------------- MODULE C04_Macro -------------------------------
(* S-specification for C04: how the checker treats a derived proof method (macro) and the   *)
(* contract that makes the two treatments agree.                                             *)
(* A macro step can be accepted in two ways (kernel/theory.py _check_proof_item):              *)
(*    trusted  : level <= check level -> the result of `eval` is taken                         *)
(*    expanded : otherwise the detailed proof is produced and every item of it is checked;      *)
(*               its last sequent must prove the evaluated / stated one (can_prove)             *)
(* The machine explores, over a small universe of sequents, every combination of what eval      *)
(* reports, what the expansion proves and at which trust level the proof is checked.            *)
(* Property (MacroSound): whenever the expansion is produced and eval reports E, checking the   *)
(* expansion is accepted and proves X with  concl(X) = concl(E)  and  hyps(X) \subseteq hyps(E). *)
(* Theorem checked by TLC: under MacroSound the sequent accepted for the step is the same       *)
(* (up to weakening) at every trust level -- so raising the trust level never admits more.      *)
EXTENDS Naturals, FiniteSets, TLC
CONSTANTS Props, Levels
Sequents == [h : SUBSET Props, c : Props]
None == [h |-> {}, c |-> 0]
CanProve(x, s) == x.c = s.c /\ x.h \subseteq s.h              \* Thm.can_prove
VARIABLES ev, ex, level, checkLevel, accepted
vars == <<ev, ex, level, checkLevel, accepted>>
\* ev : what eval reports (a sequent, or None = raises); ex : what the checked expansion proves (or None)
Init == /\ ev \in Sequents \cup {None} /\ ex \in Sequents \cup {None}
        /\ level \in Levels /\ checkLevel \in Levels /\ accepted = None
MacroSound == (ev # None /\ ex # None) => CanProve(ex, ev)
\* the checker's step for a macro item without stated sequent
Check == /\ accepted = None
         /\ accepted' = IF level <= checkLevel THEN ev          \* trusted: eval is taken as is
                        ELSE ex                                  \* expanded: the checked expansion
         /\ UNCHANGED <<ev, ex, level, checkLevel>>
Next == Check
Spec == Init /\ [][Next]_vars
\* under the contract, what is accepted at the default level proves what the trusted evaluation claims
Agreement == (MacroSound /\ accepted # None /\ ev # None /\ ex # None) => CanProve(ex, ev)
\* without the contract the trusted path can claim more than the expansion establishes
ContractNeeded == ~(ev # None /\ ex # None /\ ~CanProve(ex, ev) /\ accepted = ev /\ level <= checkLevel)
=============================================================================
