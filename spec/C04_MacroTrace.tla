----------------------------- MODULE C04_MacroTrace -----------------------------
(* T-specification for C04: one event per macro invocation on real holpy (drivers/c04.py):  *)
(*   eval   = <<ok, hyps (term ids), concl>>   what macro.eval reports                        *)
(*   expand = <<produced, #items>>             whether the detailed expansion was produced     *)
(*   check  = <<ok, hyps, concl>>              theory.check_proof at the DEFAULT trust level of  *)
(*            [premises as stated gaps; the macro step]: macros above level 0 are expanded      *)
(*            recursively down to primitive rules, theorems and level-0 oracles                 *)
(* Clauses, for events where eval reports a sequent AND the expansion is produced:              *)
(*   ExpansionChecks  the checker accepts                                                       *)
(*   SameConclusion   the accepted sequent has the conclusion that eval reports                  *)
(*   NoExtraHyps      its hypotheses are among those that eval reports                           *)
(*   NoNewGaps        the accepted proof has no unproved step besides the stated premises (gaps = the checker's report)  *)
(*   ExportContiguous / ExportCitations / ExportProvesEval   the exported expansion (ProofTerm.export) is numbered contiguously  *)
(*                    below the step's id, cites only premises or earlier visible lines, and its last line states what eval reports *)
EXTENDS Naturals, Sequences, FiniteSets, TLC, TraceLib
SetOf(s) == { s[i] : i \in 1..Len(s) }
\* ---- the exported expansion (ProofTerm.export with prefix <<k>>, k = number of premises): numbered lines
Prefix(s, n) == SubSeq(s, 1, n)
CanDependOn(self, other) == LET k == Len(other) IN
   k >= 1 /\ k <= Len(self) /\ Prefix(other, k - 1) = Prefix(self, k - 1) /\ other[k] < self[k]
NextOK(a, b) == \/ b = Append(a, 0)
                \/ \E j \in 1..Len(a) : b = Append(Prefix(a, j - 1), a[j] + 1)
\* ids: first line <<k, 0>>, then pre-order contiguous below the macro step's id <<k>>
ExportContiguous(e) == LET L == e.exp_lines IN
   L = <<>> \/ (/\ L[1][1] = <<e.nprems, 0>>
                /\ \A i \in 1..(Len(L) - 1) : NextOK(L[i][1], L[i + 1][1]) /\ Len(L[i + 1][1]) >= 2 /\ L[i + 1][1][1] = e.nprems)
\* citations: an earlier line of the expansion that is visible, or one of the premises <<0>> .. <<k-1>>
ExportCitations(e) == LET L == e.exp_lines ids == { L[i][1] : i \in 1..Len(L) } IN
   \A i \in 1..Len(L) : \A j \in 1..Len(L[i][2]) :
       LET p == L[i][2][j] IN
       \/ (Len(p) = 1 /\ p[1] < e.nprems)
       \/ (p \in ids /\ CanDependOn(L[i][1], p))
Judged(e) == e.kind = "macro" /\ e.eval[1] /\ e.expand[1]
ClausesOf(e) ==
  IF ~Judged(e) THEN {}
  ELSE IF Len(e.exp_lines) < 400 /\ ~ExportContiguous(e) THEN {"ExportContiguous"}
  ELSE IF Len(e.exp_lines) < 400 /\ ~ExportCitations(e) THEN {"ExportCitations"}
  ELSE IF e.exp_lines # <<>> /\ e.exp_last # <<e.eval[2], e.eval[3]>> /\ ~(e.exp_last[2] = e.eval[3] /\ SetOf(e.exp_last[1]) \subseteq SetOf(e.eval[2])) THEN {"ExportProvesEval"}
  ELSE IF ~e.check[1] THEN {"ExpansionChecks"}
  ELSE (IF e.check[3] = e.eval[3] THEN {} ELSE {"SameConclusion"})
       \cup (IF e.gaps <= e.nprems THEN {} ELSE {"NoNewGaps"})
       \cup (IF SetOf(e.check[2]) \subseteq SetOf(e.eval[2]) THEN {} ELSE {"NoExtraHyps"})
\* informational: eval accepts an input for which no expansion can be produced, or the converse
DivergesOf(e) == e.kind = "macro" /\ (e.eval[1] # e.expand[1])
TNext == LET e == Trace[l] IN TStep(e.tid, ClausesOf(e), Judged(e), DivergesOf(e))
TSpec == TInit /\ [][TNext]_l
=============================================================================
