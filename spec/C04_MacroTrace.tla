----------------------------- MODULE C04_MacroTrace -----------------------------
(* T-specification for C04: one event per macro invocation on real holpy (drivers/c04.py):  *)
(*   eval   = <<ok, hyps (term ids), concl>>   what macro.eval reports                        *)
(*   expand = <<produced, #items>>             whether the detailed expansion was produced     *)
(*   check  = <<ok, hyps, concl>>              theory.check_proof at the DEFAULT trust level of  *)
(*            [premises as stated gaps; the macro step]: macros above level 0 are expanded      *)
(*            recursively down to primitive rules, theorems and level-0 oracles                 *)
(* Clauses, for events where eval reports a sequent AND the expansion is produced:              *)
(*   ExpansionChecks  the checker accepts                                                       *)
(*   SameConclusion   the accepted sequent has the conclusion that eval reports                  *)
(*   NoExtraHyps      its hypotheses are among those that eval reports                           *)
EXTENDS Naturals, Sequences, FiniteSets, TLC, TraceLib
SetOf(s) == { s[i] : i \in 1..Len(s) }
Judged(e) == e.kind = "macro" /\ e.eval[1] /\ e.expand[1]
ClausesOf(e) ==
  IF ~Judged(e) THEN {}
  ELSE IF ~e.check[1] THEN {"ExpansionChecks"}
  ELSE (IF e.check[3] = e.eval[3] THEN {} ELSE {"SameConclusion"})
       \cup (IF SetOf(e.check[2]) \subseteq SetOf(e.eval[2]) THEN {} ELSE {"NoExtraHyps"})
\* informational: eval accepts an input for which no expansion can be produced, or the converse
DivergesOf(e) == e.kind = "macro" /\ (e.eval[1] # e.expand[1])
TNext == LET e == Trace[l] IN TStep(e.tid, ClausesOf(e), Judged(e), DivergesOf(e))
TSpec == TInit /\ [][TNext]_l
=============================================================================
