SPECIFICATION Spec
CONSTANTS
  NProc = 2
  NGuards = 2
  NAsgs = 2
  NInvs = 2
  TwoArr = TRUE
  Record = FALSE
  MaxSteps = 0
  WpMulti = 0
  RunSet = 0
  DoEmit = TRUE
  DoWp = TRUE
  DoRun = FALSE
INVARIANT WpExact
INVARIANT Consistent
INVARIANT Classified
CHECK_DEADLOCK FALSE
