SPECIFICATION Spec
CONSTANTS LeafVals = {0, 3}
 RhsVals = {0}
 FullEq = FALSE
 Guarded = TRUE
INVARIANTS TypeOK ValTotal Sound EvAgrees Laws BigAgrees
CHECK_DEADLOCK FALSE
