SPECIFICATION Spec
CONSTANTS Depth = 1
 MaxOps = 2
 Pats <- PatsSmall
 Targs <- TargsSmall
 Insts <- InstsSmall
 CmpSet <- CmpSmall
 Kinds <- KindsAll
 Record = TRUE
 EmitAll = TRUE
INVARIANT StepsLawful
INVARIANT LookLawful
INVARIANT InstsFunctional
INVARIANT ComposeLaw
INVARIANT MatcherIsReference
INVARIANT OrdersLawful
CHECK_DEADLOCK FALSE
