SPECIFICATION Spec
CONSTANTS
  Theories <- cTheories
  Imports <- cImports
  Modules <- cModules
  LazyImport <- cLazy
  ModuleBody <- cBody
  OpTheories <- cTheories
  OpModules <- cModules
  MaxOps = 2
  RestoreThy = FALSE
  TimestampLast = FALSE
  AllowFault = TRUE
  defaultInitValue = defaultInitValue
INVARIANT Good
CHECK_DEADLOCK FALSE
