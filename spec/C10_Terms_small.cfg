SPECIFICATION Spec
CONSTANTS Depth = 2
 MaxSize = 6
 NestSize = 4
 CoreSize = 3
INVARIANT TermOK
INVARIANT NonVacuous
CHECK_DEADLOCK FALSE
