SPECIFICATION Spec
CONSTANTS Depth = 3
 MaxSize = 8
 CoreSize = 3
INVARIANT TermOK
INVARIANT NonVacuous
CHECK_DEADLOCK FALSE
