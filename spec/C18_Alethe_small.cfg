SPECIFICATION Spec
CONSTANTS Level = 2
 MutDepth = 2
 WrapMuts = {"correct","droplit","L.neg","L.conn","P.neg","P.conn","dropprem","nm.shape","nm.arity","nm.vars"}
INVARIANT SchemaTyped
INVARIANT RefSound
INVARIANT DbSound
INVARIANT ClosedRefutes
INVARIANT NearMissRefuted
CHECK_DEADLOCK FALSE
