SPECIFICATION Spec
CONSTANTS Level = 2
 MutDepth = 2
 WrapMuts = {"correct","droplit","sib","L.neg","L.conn","P.neg","P.conn","dropprem","nm.shape","nm.arity","nm.vars","nm.noteq","nm.quant","nm.freevar","nm.arith"}
INVARIANT SchemaTyped
INVARIANT RefSound
INVARIANT DbSound
INVARIANT ClosedRefutes
INVARIANT NearMissRefuted
CHECK_DEADLOCK FALSE
