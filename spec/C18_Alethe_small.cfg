SPECIFICATION Spec
CONSTANTS Level = 2
 MutDepth = 2
INVARIANT SchemaTyped
INVARIANT RefSound
INVARIANT DbSound
INVARIANT NearMissRefuted
CHECK_DEADLOCK FALSE
