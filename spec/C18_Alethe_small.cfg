SPECIFICATION Spec
CONSTANTS Rich = FALSE
 MutDepth = 2
INVARIANT SchemaTyped
INVARIANT RefSound
INVARIANT DbSound
INVARIANT NearMissRefuted
CHECK_DEADLOCK FALSE
