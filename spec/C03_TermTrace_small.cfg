SPECIFICATION TSpec
POSTCONDITION TPost
CHECK_DEADLOCK FALSE
CONSTANTS Depth = 2
 N = 2
 MaxSize = 7
