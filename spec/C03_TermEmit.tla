----------------------------- MODULE C03_TermEmit -----------------------------
(* Writes the operation vectors of C03_Laws as ndjson (spec -> code direction).            *)
EXTENDS C03_Laws
VARIABLE emitted
EInit == emitted = FALSE
ENext == /\ ~emitted /\ emitted' = TRUE
         /\ LET vs == SetToSeq(AllVectors) IN
            /\ ndJsonSerialize(IOEnv.VECTOR_FILE, vs)
            /\ PrintT(<<"vectors", Len(vs), "universe", Cardinality(Universe),
                       "examined", Cardinality({ v \in AllVectors : Ref(v) # Err /\ Examined(v, Ref(v)) })>>)
ESpec == EInit /\ [][ENext]_emitted
=============================================================================
