----------------------------- MODULE C12_LoaderMC -----------------------------
(* Small instances of the loader model.                                                            *)
(* chain: A <- B <- C <- D (think rat <- real <- realseries <- interval_arith) where loading B      *)
(*        lazily imports module mreal, whose body imports mint and loads D, and mint loads B: the   *)
(*        shape of data/real.py and data/integer.py.  Operations: loads, faults, module imports.    *)
(* edit:  P <- Q, Q has three items; loads of Q with limits, items inserted / deleted in Q and P.   *)
(* files: P <- X <- B, P <- W, and A (not there initially; created as a copy of X, import P): A takes *)
(*        place of X among the imports of B, X gets / loses the import W, A is removed again.       *)
EXTENDS C12_Loader
NoImports == <<>>
\* ---- chain
cTheories == {"A","B","C","D"}
cImports == [tt \in cTheories |-> CASE tt = "A" -> <<>> [] tt = "B" -> <<"A">> [] tt = "C" -> <<"B">> [] tt = "D" -> <<"C">>]
cModules == {"mreal","mint"}
cLazy == [tt \in cTheories |-> IF tt = "B" THEN "mreal" ELSE "none"]
cBody == [mm0 \in cModules |-> IF mm0 = "mreal" THEN << <<"import","mint">>, <<"load","D">> >> ELSE << <<"load","B">> >>]
cItems0 == [tt \in cTheories |-> <<1, 2>>]
cOrigin == [tt \in cTheories |-> tt]
cLimits == [tt \in cTheories |-> {0}]
\* mechanisms: {} has the property; {"staledeps"} is logic/basic.py before the import walk re-read changed files; one more deviation each
Fixed == {{}}
AsCoded == {{"staledeps"}}
cVariants == {{"tsfirst"}, {"staledeps"}, {"staledeps", "norestore"}, {"staledeps", "tsfirst"}}
eVariants == {{}, {"limitpos"}}
fVariants == {{}, {"stalemeta"}, {"staledeps"}, {"staledeps", "keepentry"}}
\* ---- edit
eTheories == {"P","Q"}
eImports == [tt \in eTheories |-> IF tt = "Q" THEN <<"P">> ELSE <<>>]
eLazy == [tt \in eTheories |-> "none"]
eBody == [mm0 \in {} |-> <<>>]
eOrigin == [tt \in eTheories |-> tt]
eItems0 == [tt \in eTheories |-> IF tt = "Q" THEN <<1, 2, 3>> ELSE <<1>>]
eLimits == [tt \in eTheories |-> IF tt = "Q" THEN {0, 2, 3} ELSE {0}]
eFileOps == { <<"ins", "Q", 0, NoImports>>, <<"ins", "Q", 2, NoImports>>, <<"del", "Q", 0, NoImports>>, <<"del", "Q", 1, NoImports>>,
              <<"ins", "P", 0, NoImports>> }
\* ---- files
fTheories == {"P","X","W","A","B"}
fImports == [tt \in fTheories |-> CASE tt = "P" -> <<>> [] tt = "X" -> <<"P">> [] tt = "W" -> <<"P">> [] tt = "A" -> <<"P">> [] tt = "B" -> <<"X">>]
fLazy == [tt \in fTheories |-> "none"]
fOrigin == [tt \in fTheories |-> IF tt = "A" THEN "X" ELSE tt]       \* A is created as a copy of X
fItems0 == [tt \in fTheories |-> <<1>>]
fLimits == [tt \in fTheories |-> {0}]
fPresent == {"P","X","W","B"}
fFileOps == { <<"create", "A", 0, <<"P">> >>, <<"remove", "A", 0, NoImports>>, <<"reimport", "B", 0, <<"A">> >>, <<"reimport", "B", 0, <<"X">> >>,
              <<"reimport", "X", 0, <<"P", "W">> >>, <<"reimport", "X", 0, <<"P">> >> }
=============================================================================
