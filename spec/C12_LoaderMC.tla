----------------------------- MODULE C12_LoaderMC -----------------------------
(* Small instance: a chain  A <- B <- C <- D  (think rat <- real <- realseries <- interval_arith) *)
(* where loading B lazily imports module mreal, whose body imports mint and loads D, and mint     *)
(* loads B: the shape of data/real.py and data/integer.py.                                        *)
EXTENDS C12_Loader
cTheories == {"A","B","C","D"}
cImports == [tt \in cTheories |-> CASE tt = "A" -> <<>> [] tt = "B" -> <<"A">> [] tt = "C" -> <<"B">> [] tt = "D" -> <<"C">>]
cModules == {"mreal","mint"}
cLazy == [tt \in cTheories |-> IF tt = "B" THEN "mreal" ELSE "none"]
cBody == [mm0 \in cModules |-> IF mm0 = "mreal" THEN << <<"import","mint">>, <<"load","D">> >> ELSE << <<"load","B">> >>]
=============================================================================
