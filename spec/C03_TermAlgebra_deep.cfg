SPECIFICATION Spec
CONSTANTS Depth = 3
 N = 2
 MaxSize = 8
INVARIANT RefLawful
CHECK_DEADLOCK FALSE
