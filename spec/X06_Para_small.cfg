SPECIFICATION Spec
CONSTANTS
  NProc = 2
  NGuards = 4
  NAsgs = 4
  NInvs = 3
  TwoArr = FALSE
  Record = FALSE
  MaxSteps = 0
  WpMulti = 0
  DoEmit = TRUE
  DoWp = TRUE
  DoRun = TRUE
INVARIANT WpExact
INVARIANT Consistent
INVARIANT Classified
CHECK_DEADLOCK FALSE
