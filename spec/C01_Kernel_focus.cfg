SPECIFICATION Spec
CONSTANTS MaxRound = 3
 MaxSize = 32
 MaxHyps = 2
 N = 2
 EmitRejected = TRUE
 ExtraInst = TRUE
 Focus = TRUE
INVARIANT AllWellTyped

INVARIANT AllValid
INVARIANT NoFalse

CHECK_DEADLOCK FALSE
