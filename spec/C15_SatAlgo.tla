----------------------------- MODULE C15_SatAlgo -----------------------------
(* The steps of prover/sat.py::solve_cnf AS CODED, as operators on a state record (no       *)
(* variables): shared by the I-specification C15_SatImpl (which turns them into a machine    *)
(* that TLC explores) and by the T-specification C15_SatTrace (which uses them to decide     *)
(* whether a time-out of the real code is a loop of the model).  See C15_SatImpl.tla for the *)
(* reading of the state and of each step.                                                   *)
EXTENDS C15_SatCore, SequencesExt, FiniteSetsExt

UNA == [val |-> FALSE, dec |-> FALSE, lvl |-> 0, rsn |-> 0, on |-> FALSE]   \* "not in assigns"
NoResult == [verdict |-> "none", asg |-> {}, proofs |-> <<>>]

DedupSeq(c) == LET keep == { i \in 1..Len(c) : \A j \in 1..(i - 1) : c[j] # c[i] } IN
               [k \in 1..Cardinality(keep) |-> c[CHOOSE i \in keep : Cardinality({ j \in keep : j < i }) = k - 1]]

Start(cnf, i, dedup) ==
  [cnf0 |-> cnf, idx |-> i, n0 |-> Len(cnf),
   cnf |-> IF dedup THEN [k \in 1..Len(cnf) |-> DedupSeq(cnf[k])] ELSE cnf,
   asg |-> [v \in VarsOf(cnf) |-> UNA], level |-> 0, proofs |-> <<>>,
   pc |-> "propagate", confl |-> 0, result |-> NoResult, stut |-> FALSE]

\* ---------------------------------------------------------------- unit_propagate
Sat1(c, a) == \E i \in 1..Len(c) : a[c[i][1]].on /\ a[c[i][1]].val = c[i][2]
UnassignedIdx(c, a) == { i \in 1..Len(c) : ~a[c[i][1]].on }     \* list entries, as the code counts them
RECURSIVE Scan(_, _, _, _)
\* <<"conflict", id>> | <<"unit", id, entry>> | <<"sat">> | <<"none">>      (id 0-based)
Scan(cnf, a, k, hasUnsat) ==
  IF k > Len(cnf) THEN (IF hasUnsat THEN <<"none">> ELSE <<"sat">>)
  ELSE LET c == cnf[k] IN
       IF Sat1(c, a) THEN Scan(cnf, a, k + 1, hasUnsat)
       ELSE LET u == UnassignedIdx(c, a) IN
            IF u = {} THEN <<"conflict", k - 1>>
            ELSE IF Cardinality(u) = 1 THEN <<"unit", k - 1, CHOOSE i \in u : TRUE>>
            ELSE Scan(cnf, a, k + 1, TRUE)

PropStep(s) ==
  LET r == Scan(s.cnf, s.asg, 1, FALSE) IN
  CASE r[1] = "unit" -> LET lit == s.cnf[r[2] + 1][r[3]] IN
          [s EXCEPT !.asg[lit[1]] = [val |-> lit[2], dec |-> FALSE, lvl |-> s.level, rsn |-> r[2], on |-> TRUE], !.stut = FALSE]
    [] r[1] = "conflict" -> [s EXCEPT !.pc = "analyze", !.confl = r[2], !.stut = FALSE]
    [] r[1] = "sat" -> [s EXCEPT !.pc = "done", !.stut = FALSE,
                                 !.result = [verdict |-> "sat", asg |-> { <<v, s.asg[v].val>> : v \in { v \in DOMAIN s.asg : s.asg[v].on } },
                                             proofs |-> <<>>]]
    [] OTHER -> [s EXCEPT !.pc = "decide", !.stut = FALSE]

\* ---------------------------------------------------------------- decide
DecideVar(s, v) == [s EXCEPT !.asg[v] = [val |-> TRUE, dec |-> TRUE, lvl |-> s.level + 1, rsn |-> 0, on |-> TRUE],
                               !.level = s.level + 1, !.pc = "propagate"]
DecideSet(s) == { DecideVar(s, v) : v \in { v \in DOMAIN s.asg : ~s.asg[v].on } }
\* the same with the iteration order of the set `variables` given (the driver records it for every call)
DecideOrd(s, ord) == LET js == { j \in 1..Len(ord) : ord[j] \in DOMAIN s.asg /\ ~s.asg[ord[j]].on } IN
                     IF js = {} THEN CHOOSE t \in DecideSet(s) : TRUE ELSE DecideVar(s, ord[Min(js)])

\* ---------------------------------------------------------------- analyze_conflict / backtrack
LitLess(a, b) == a[1] < b[1] \/ (a[1] = b[1] /\ ~a[2] /\ b[2])
Ord(S) == SetToSortSeq(S, LitLess)
\* resolution(c1, c2, name) = list(set(literals of both whose name differs))
ResSet(c1, c2, nm) == { l \in LitSet(c1) : l[1] # nm } \cup { l \in LitSet(c2) : l[1] # nm }
RECURSIVE AnalyzeSet(_, _, _, _)
\* the set of <<learned clause, proof>> the loop of analyze_conflict can end with
AnalyzeSet(s, c, ordered, prf) ==
  LET nd == { i \in 1..Len(c) : ~s.asg[c[i][1]].dec } IN
  IF nd = {} THEN { <<c, prf>> }
  ELSE LET picks == IF ordered THEN { Min(nd) } ELSE nd IN
       UNION { LET nm == c[i][1]
                   r == s.asg[nm].rsn IN
               AnalyzeSet(s, Ord(ResSet(c, s.cnf[r + 1], nm)), FALSE, Append(prf, r)) : i \in picks }
SecondHighestLevel(s, cl) ==
  LET lv == SortSeq([i \in 1..Len(cl) |-> s.asg[cl[i][1]].lvl], LAMBDA x, y : x < y) IN lv[Len(lv) - 1]
BacktrackSet(s) ==
  LET cid == s.confl
      aps == AnalyzeSet(s, s.cnf[cid + 1], cid < s.n0, <<cid>>) IN
  { LET cl == ap[1]
        s1 == [s EXCEPT !.cnf = Append(s.cnf, cl), !.proofs = Append(s.proofs, <<Len(s.cnf), ap[2]>>)] IN
    IF Len(cl) = 0
    THEN [s1 EXCEPT !.pc = "done", !.result = [verdict |-> "unsat", asg |-> {}, proofs |-> s1.proofs]]
    ELSE LET bl == IF Len(cl) = 1 THEN 0 ELSE SecondHighestLevel(s, cl)
             a2 == [v \in DOMAIN s.asg |-> IF s.asg[v].on /\ s.asg[v].lvl > bl THEN UNA ELSE s.asg[v]] IN
         [s1 EXCEPT !.asg = a2, !.level = bl, !.pc = "propagate", !.stut = (a2 = s.asg)]
    : ap \in aps }

\* every step of the machine as a successor set
Succ(s) == CASE s.pc = "propagate" -> { PropStep(s) }
             [] s.pc = "decide" -> DecideSet(s)
             [] s.pc = "analyze" -> BacktrackSet(s)
             [] OTHER -> {}
=============================================================================
