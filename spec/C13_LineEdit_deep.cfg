SPECIFICATION Spec
CONSTANTS MaxOps = 3
 MaxLines = 9
 MaxPrevs = 3
 Shape = 2
 Record = TRUE
 EmitAll = TRUE
INVARIANT Contiguous
INVARIANT CitationsTrackItems
INVARIANT NoDangling
INVARIANT UidsDistinct
CHECK_DEADLOCK FALSE
