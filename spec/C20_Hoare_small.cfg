SPECIFICATION Spec
CONSTANTS NAsg = 4
 NGrd = 3
 NAnn = 3
 NInA = 2
 NInG = 1
 NPre = 1
 NPost = 4
 NNatPost = 2
 Deep = FALSE
INVARIANT Sound
INVARIANT ExecAgrees
INVARIANT AllGuarded
CHECK_DEADLOCK FALSE
