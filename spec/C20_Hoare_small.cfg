SPECIFICATION Spec
CONSTANTS NAsg = 5
 NGrd = 4
 NAnn = 5
 NPre = 3
 NPost = 5
 Deep = FALSE
INVARIANT Sound
INVARIANT ExecAgrees
INVARIANT AllGuarded
CHECK_DEADLOCK FALSE
