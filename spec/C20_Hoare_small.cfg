SPECIFICATION Spec
CONSTANTS NAsg = 4
 NGrd = 3
 NAnn = 3
 NPre = 2
 NPost = 5
 Deep = FALSE
INVARIANT Sound
INVARIANT ExecAgrees
INVARIANT AllGuarded
CHECK_DEADLOCK FALSE
