------------------------------ MODULE C06_Bridge ------------------------------
(* S-specification for C06: "goals discharged through Z3 / SymPy are valid HOL statements".                    *)
(*                                                                                                            *)
(* The HOL meaning of the translatable fragment and the bounded refutation procedure are in C06_Sem.          *)
(* This module is the machine over the INPUT SPACE of the bridge: a state is a goal; the initial states are   *)
(* the atom shapes at nat, at int and (flavour "natreal") at nat seen through of_nat :: nat => real; the      *)
(* actions wrap the goal in one more connective:                                                              *)
(*     Negate | Quantify(all/exists, x/y) | Combine(conj/disj/implies-left/implies-right/iff, side atom)       *)
(* so that every formula with <= MaxConn connectives (<= MaxBin binary ones) over the two variables is         *)
(* reached, with quantifiers in positive AND negative positions (under neg, left of implies, under iff).       *)
(* The whole universe is written as vectors (POSTCONDITION Emit) and replayed into z3wrapper.solve / Z3Macro.            *)
(*                                                                                                            *)
(* Invariants (the oracle is checked before it is used to judge the code):                                     *)
(*   WellScoped    every state is a closed de Bruijn term with variables only at the flavour's type            *)
(*   BoundStable   doubling the witness bound Tq (w = 2) changes no verdict: the bound argued in C06_Sem is    *)
(*                 not too small on this universe                                                              *)
(*   MonotoneN     a refutation found with sub-domains 0..N / -N..N is still found with N + 1, and a closed    *)
(*                 goal decided true stays true                                                                *)
(*   RelFaithful   the INTENDED translation of the bridge -- nat becomes int, `!x::nat. p` becomes             *)
(*                 `!x::int. 0 <= x --> p`, `?x::nat. p` becomes `?x::int. 0 <= x & p`, a free nat variable    *)
(*                 gets the premise 0 <= x, nat `a - b` becomes `if a >= b then a - b else 0`, of_nat becomes  *)
(*                 of_int -- has the same verdict at int as the goal has at nat.  This is the statement        *)
(*                 "natural-number variables and quantifiers range over non-negative integers only, natural    *)
(*                 subtraction truncates" of the property, model-checked on the universe; the translation AS   *)
(*                 CODED (no guard under a binder) is the specification mutant and violates it.                *)
(*   AnchorsOK     known theorems are not refuted, known non-theorems are                                      *)
EXTENDS C06_Sem, Json, IOUtils

CONSTANTS MaxConn, MaxBin, Flavours, MainIdx, SideIdx, RMainIdx, RSideIdx, N

VT(flv) == IF flv = "int" THEN "int" ELSE "nat"
Plus(T, a, b) == Op2("plus", T, a, b)
Minus(T, a, b) == Op2("minus", T, a, b)
Times(T, a, b) == Op2("times", T, a, b)
OfNat(T, a) == Op1("of_nat", T, a)
\* atom shapes at T = nat / int over the free variables x, y
AtomAt(i, T) ==
  LET x == V("x", T)  y == V("y", T)  c0 == Nu(T, 0)  c1 == Nu(T, 1) IN
  CASE i = 1 -> Rel("less", x, y)
    [] i = 2 -> Rel("less", x, c0)
    [] i = 3 -> Rel("less_eq", c0, x)
    [] i = 4 -> Rel("equals", x, c0)
    [] i = 5 -> Rel("less", x, Plus(T, y, c1))
    [] i = 6 -> Rel("less", Minus(T, x, c1), x)
    [] i = 7 -> Rel("equals", Plus(T, Minus(T, x, y), y), x)
    [] i = 8 -> Rel("less_eq", x, y)
    [] i = 9 -> Rel("equals", x, y)
    [] i = 10 -> Rel("less", y, c1)
    [] i = 11 -> Rel("equals", Minus(T, x, y), c0)
    [] i = 12 -> Rel("less_eq", x, Times(T, x, y))
    [] i = 13 -> Rel("greater", y, c0)
    [] OTHER -> Rel("equals", x, x)
\* atom shapes of the flavour "natreal": nat variables, compared at real through of_nat, and plain nat atoms
RAtomAt(i) ==
  LET x == V("x", "nat")  y == V("y", "nat")  rx == OfNat("real", x)  ry == OfNat("real", y)
      r0 == Nu("real", 0)  r1 == Nu("real", 1) IN
  CASE i = 1 -> Rel("less", rx, r1)
    [] i = 2 -> Rel("equals", rx, r0)
    [] i = 3 -> Rel("less", Nu("nat", 0), x)
    [] i = 4 -> Rel("equals", x, Nu("nat", 1))
    [] i = 5 -> Rel("less_eq", rx, ry)
    [] i = 6 -> Rel("less", rx, Plus("real", ry, r1))
    [] i = 7 -> Rel("less", y, x)
    [] OTHER -> Rel("equals", rx, rx)
MainAtoms(flv) == IF flv = "natreal" THEN { RAtomAt(i) : i \in RMainIdx } ELSE { AtomAt(i, VT(flv)) : i \in MainIdx }
SideAtoms(flv) == IF flv = "natreal" THEN { RAtomAt(i) : i \in RSideIdx } ELSE { AtomAt(i, VT(flv)) : i \in SideIdx }

\* children rebuilt with an operator applied (tuples are built explicitly so that JSON sees arrays)
RECURSIVE Abstract(_, _, _), FreeNames(_), Scoped(_, _, _)
Abstract(t, nm, d) ==
  IF t[1] = "var" THEN (IF t[2] = nm THEN Bd(d, t[3]) ELSE t)
  ELSE IF IsQ(t) THEN <<t[1], t[2], t[3], t[4], <<Abstract(t[5][1], nm, d + 1)>>>>
  ELSE IF Len(t[5]) = 0 THEN t
  ELSE IF Len(t[5]) = 1 THEN <<t[1], t[2], t[3], t[4], <<Abstract(t[5][1], nm, d)>>>>
  ELSE IF Len(t[5]) = 2 THEN <<t[1], t[2], t[3], t[4], <<Abstract(t[5][1], nm, d), Abstract(t[5][2], nm, d)>>>>
  ELSE <<t[1], t[2], t[3], t[4], <<Abstract(t[5][1], nm, d), Abstract(t[5][2], nm, d), Abstract(t[5][3], nm, d)>>>>
FreeNames(t) == IF t[1] = "var" THEN {t[2]} ELSE UNION { FreeNames(t[5][i]) : i \in 1..Len(t[5]) }
Scoped(t, d, T) == CASE t[1] = "bound" -> t[4] < d /\ t[3] = T
                     [] t[1] = "var" -> t[3] = T /\ t[2] \in {"x", "y"}
                     [] IsQ(t) -> t[3] = T /\ Len(t[5]) = 1 /\ Scoped(t[5][1], d + 1, T)
                     [] OTHER -> \A i \in 1..Len(t[5]) : Scoped(t[5][i], d, T)

VARIABLES f, flv, nc, nb
vars == <<f, flv, nc, nb>>
St(g, fl, c, b) == [f |-> g, flv |-> fl, nc |-> c, nb |-> b]
Inits == UNION { { St(a, fl, 0, 0) : a \in MainAtoms(fl) } : fl \in Flavours }
IsNeg(g) == g[1] = "op" /\ g[2] = "neg"
SNegate(s) == IF s.nc < MaxConn /\ ~IsNeg(s.f) THEN { St(Neg(s.f), s.flv, s.nc + 1, s.nb) } ELSE {}
SQuantify(s) == IF s.nc < MaxConn
                THEN UNION { { St(QAll(v, VT(s.flv), Abstract(s.f, v, 0)), s.flv, s.nc + 1, s.nb),
                               St(QEx(v, VT(s.flv), Abstract(s.f, v, 0)), s.flv, s.nc + 1, s.nb) } : v \in FreeNames(s.f) }
                ELSE {}
SCombine(s) == IF s.nc < MaxConn /\ s.nb < MaxBin
               THEN UNION { { St(Conj(s.f, a), s.flv, s.nc + 1, s.nb + 1), St(Disj(s.f, a), s.flv, s.nc + 1, s.nb + 1),
                              St(Impl(s.f, a), s.flv, s.nc + 1, s.nb + 1), St(Impl(a, s.f), s.flv, s.nc + 1, s.nb + 1),
                              St(Iff(s.f, a), s.flv, s.nc + 1, s.nb + 1) } : a \in SideAtoms(s.flv) \ {s.f} }
               ELSE {}
Succ(s) == SNegate(s) \cup SQuantify(s) \cup SCombine(s)
Cur == St(f, flv, nc, nb)
Init == \E s \in Inits : f = s.f /\ flv = s.flv /\ nc = s.nc /\ nb = s.nb
Step(S) == \E s \in S : f' = s.f /\ flv' = s.flv /\ nc' = s.nc /\ nb' = s.nb
Negate == Step(SNegate(Cur))
Quantify == Step(SQuantify(Cur))
Combine == Step(SCombine(Cur))
Next == Negate \/ Quantify \/ Combine
Spec == Init /\ [][Next]_vars

\* ---------------------------------------------------------------- the intended translation nat -> int
IT(T) == IF T = "nat" THEN "int" ELSE T
Guard(b) == Rel("less_eq", Nu("int", 0), b)
RECURSIVE RelF(_)
RelF(t) ==
  LET c1 == RelF(t[5][1])  c2 == RelF(t[5][2])  c3 == RelF(t[5][3])  n == Len(t[5]) IN
  CASE t[1] \in {"var", "bound", "num"} -> <<t[1], t[2], IT(t[3]), t[4], <<>>>>
    [] t[1] = "all" -> IF t[3] = "nat" THEN QAll(t[2], "int", Impl(Guard(Bd(0, "int")), c1)) ELSE QAll(t[2], t[3], c1)
    [] t[1] = "exists" -> IF t[3] = "nat" THEN QEx(t[2], "int", Conj(Guard(Bd(0, "int")), c1)) ELSE QEx(t[2], t[3], c1)
    [] t[1] = "op" /\ t[2] = "minus" /\ t[3] = "nat" -> Op3("IF", "int", Rel("greater_eq", c1, c2), Minus("int", c1, c2), Nu("int", 0))
    [] t[1] = "op" /\ t[2] = "of_nat" /\ t[3] = "real" -> Op1("of_int", "real", c1)
    [] t[1] = "op" /\ t[2] = "of_nat" /\ t[3] = "int" -> c1
    [] OTHER -> IF n = 0 THEN <<t[1], t[2], IT(t[3]), t[4], <<>>>>
                ELSE IF n = 1 THEN <<t[1], t[2], IT(t[3]), t[4], <<c1>>>>
                ELSE IF n = 2 THEN <<t[1], t[2], IT(t[3]), t[4], <<c1, c2>>>>
                ELSE <<t[1], t[2], IT(t[3]), t[4], <<c1, c2, c3>>>>
RelPrems(g) == LET S == { v \in FV(g) : v[2] = "nat" }  q == SetToSeqC(S) IN
               IF Len(q) = 0 THEN <<>>
               ELSE IF Len(q) = 1 THEN <<Guard(V(q[1][1], "int"))>>
               ELSE <<Guard(V(q[1][1], "int")), Guard(V(q[2][1], "int"))>>

\* ---------------------------------------------------------------- invariants
NoP == <<>>
O1 == Outcomes(f, NoP, N, 1)
WellScoped == Scoped(f, 0, VT(flv)) \/ (flv = "natreal" /\ Examinable(f, NoP))
TypeOK == nc \in 0..MaxConn /\ nb \in 0..MaxBin /\ flv \in Flavours /\ Examinable(f, NoP)
BoundStableAt(o1) == HasKind(f, "all") \/ HasKind(f, "exists") => Outcomes(f, NoP, N, 2) = o1
MonotoneNAt(o1) == LET o2 == Outcomes(f, NoP, N + 1, 1) IN
                   /\ ("F" \in o1 => "F" \in o2)
                   /\ (FV(f) = {} /\ o1 = {"T"} => o2 = {"T"})
                   /\ (FV(f) = {} /\ o1 = {"F"} => o2 = {"F"})
RelFaithfulAt(o1) == flv # "int" =>
                     LET o == Outcomes(RelF(f), RelPrems(f), N, 1) IN
                     /\ ("F" \in o) = ("F" \in o1)
                     /\ ("N" \in o) = ("N" \in o1)
BoundStable == BoundStableAt(O1)
MonotoneN == MonotoneNAt(O1)
RelFaithful == RelFaithfulAt(O1)
\* anchors: theorems and non-theorems of HOL that belong to the universe
xN == Bd(0, "nat")
xI == Bd(0, "int")
AnchorFalse == { QEx("x", "nat", Rel("less", xN, Nu("nat", 0))),
                 Neg(QAll("x", "nat", Rel("less_eq", Nu("nat", 0), xN))),
                 QAll("x", "int", Rel("less_eq", Nu("int", 0), xI)),
                 QAll("x", "nat", Rel("less", Minus("nat", xN, Nu("nat", 1)), xN)),
                 QEx("x", "nat", Iff(Rel("less", OfNat("real", xN), Nu("real", 1)), Rel("less", Nu("nat", 0), xN))) }
AnchorTrue == { QAll("x", "nat", Rel("less_eq", Nu("nat", 0), xN)),
                Neg(QEx("x", "nat", Rel("less", xN, Nu("nat", 0)))),
                QEx("x", "int", Rel("less", xI, Nu("int", 0))),
                QAll("x", "int", Rel("less", Minus("int", xI, Nu("int", 1)), xI)),
                QAll("y", "nat", QEx("x", "nat", Rel("less", Bd(1, "nat"), Plus("nat", Bd(0, "nat"), Nu("nat", 1))))) }
\* true, but with a truncated or ring subtraction under a universal binder: only refutation is possible
AnchorOneSided == { QAll("x", "int", Rel("less", Minus("int", xI, Nu("int", 1)), xI)) }
AnchorsOKAt(o1) == /\ (f \in AnchorFalse => o1 = {"F"})
                   /\ (f \in AnchorTrue => IF f \in AnchorOneSided THEN o1 = {"N"} ELSE o1 = {"T"})
AnchorsOK == AnchorsOKAt(O1)
\* the four oracle invariants with the reference verdict computed once (what the cfg files check)
OracleOK == LET o1 == O1 IN BoundStableAt(o1) /\ MonotoneNAt(o1) /\ RelFaithfulAt(o1) /\ AnchorsOKAt(o1)

\* ---------------------------------------------------------------- the universe as a set, and its emission
RECURSIVE Reach(_)
Reach(k) == IF k = 0 THEN Inits ELSE LET R == Reach(k - 1) IN R \cup UNION { Succ(s) : s \in R }
Universe == Reach(MaxConn)
RECURSIVE HasWit(_), NegBinder(_, _)
HasWit(t) == (IsQ(t) /\ t[4] > 0) \/ \E i \in 1..Len(t[5]) : HasWit(t[5][i])
\* some binder occurs in a negative position (under an odd number of negations / left sides of implications) or under iff
NegBinder(t, neg) == IF IsQ(t) THEN neg \/ NegBinder(t[5][1], neg)
                     ELSE IF t[1] = "op" /\ t[2] = "neg" THEN NegBinder(t[5][1], ~neg)
                     ELSE IF t[1] = "op" /\ t[2] = "implies" THEN NegBinder(t[5][1], ~neg) \/ NegBinder(t[5][2], neg)
                     ELSE IF t[1] = "op" /\ t[2] = "equals" THEN HasKind(t, "all") \/ HasKind(t, "exists")
                     ELSE \E i \in 1..Len(t[5]) : NegBinder(t[5][i], neg)
\* POSTCONDITION of the model-checking run: the declarative universe IS the explored state space; it is written as vectors
Emit == LET us == SetToSeqC({ <<s.flv, s.f>> : s \in Universe })
            vs == [i \in 1..Len(us) |-> [id |-> i, flv |-> us[i][1], f |-> us[i][2]]] IN
        /\ Cardinality(Universe) = TLCGet("distinct")
        /\ ndJsonSerialize(IOEnv.VECTOR_FILE, vs)
        /\ PrintT(<<"vectors", Len(vs), "anchors_in_universe",
                    Cardinality({ a \in AnchorFalse \cup AnchorTrue : \E s \in Universe : s.f = a }),
                    "with_a_binder_decided_over_a_witness_interval", Cardinality({ s \in Universe : HasWit(Prep(s.f)) }),
                    "with_a_binder_under_negation_or_left_of_implies", Cardinality({ s \in Universe : NegBinder(s.f, FALSE) })>>)
=============================================================================
