---------------------------- MODULE C07_SyntaxTrace ----------------------------
(* T-specification for C07: events from the real printer and parser (harness/drivers/c07.py).   *)
(*  kind "term" | "thm" | "type" | "item": an object t printed under configuration cfg and the    *)
(*     result r of parsing the text back (structural codec; "item" = projected proof item)       *)
(*     RoundTrip : the text parses (no exception) and r = t                                     *)
(*  kind "hist": texts produced for one (term, settings) at different points of a history       *)
(*     PrintIsFunction : they are all the same                                                  *)
EXTENDS Naturals, Sequences, TLC, TraceLib
ClausesOf(e) ==
  IF e.kind = "hist" THEN (IF \A i \in 1..Len(e.texts) : e.texts[i] = e.texts[1] THEN {} ELSE {"PrintIsFunction"})
  ELSE IF e.outcome # "ok" THEN {"RoundTripParses"}
  ELSE IF e.r = e.t THEN {} ELSE {"RoundTrip"}
TNext == LET e == Trace[l] IN TStep(e.tid, ClausesOf(e), TRUE, FALSE)
TSpec == TInit /\ [][TNext]_l
=============================================================================
