---------------------------- MODULE C07_SyntaxTrace ----------------------------
(* T-specification for C07: events from the real printer and parser (harness/drivers/c07.py).   *)
(*  kind "term" | "thm" | "type" | "item" | "args": an object t printed under the settings cfg   *)
(*     = [unicode, highlight, line width] and the result r of parsing the text back (structural   *)
(*     codec; "item" = projected proof item; "args" = the argument of a proof step for one        *)
(*     signature of parser.parse_args, an instantiation as ["inst", type part, term part])        *)
(*     RoundTripParses : the text parses (no exception)                                           *)
(*     RoundTrip       : r = t  -- the WHOLE structure (for an instantiation: both parts)           *)
(*     PrintStable     : out2 = out, when the event records the printed object of a second print   *)
(*                       under the same settings (out: the printed object itself, a list of text /  *)
(*                       colour / link fragments with highlighting; the text parsed is their        *)
(*                       concatenation)                                                             *)
(*  kind "session": ONE history of print operations performed in one process (vectors of           *)
(*     C07_History, or a seeded long one); vals = the distinct structures of the event (1 = none), *)
(*     objs = the objects (name -> index in vals), steps = the operations in order: o = name of    *)
(*     the object, cfg, out = the printed object, outcome / r = parsing back (index in vals)        *)
(*     RoundTripParses, RoundTrip : on every step                                                   *)
(*     PrintStable     : two steps with the same object and settings have the same out              *)
(*  kind "hist": texts produced for one (term, settings) at different points of a history       *)
(*     PrintIsFunction : they are all the same                                                  *)
EXTENDS Naturals, Sequences, TLC, TraceLib
RT(x, t) == IF x.outcome # "ok" THEN {"RoundTripParses"} ELSE IF x.r = t THEN {} ELSE {"RoundTrip"}
Again(e) == IF "out2" \in DOMAIN e /\ e.out2 # e.out THEN {"PrintStable"} ELSE {}
SameOp(a, b) == a.o = b.o /\ a.cfg = b.cfg
SessionClauses(e) ==
  LET S == e.steps IN
  UNION { RT([outcome |-> S[i].outcome, r |-> e.vals[S[i].r]], e.vals[e.objs[S[i].o]]) : i \in 1..Len(S) }
  \cup (IF \A i \in 1..Len(S) : \A j \in 1..Len(S) : (i < j /\ SameOp(S[i], S[j])) => S[i].out = S[j].out THEN {} ELSE {"PrintStable"})
ClausesOf(e) ==
  IF e.kind = "hist" THEN (IF \A i \in 1..Len(e.texts) : e.texts[i] = e.texts[1] THEN {} ELSE {"PrintIsFunction"})
  ELSE IF e.kind = "session" THEN SessionClauses(e)
  ELSE RT(e, e.t) \cup Again(e)
TNext == LET e == Trace[l] IN TStep(e.tid, ClausesOf(e), TRUE, FALSE)
TSpec == TInit /\ [][TNext]_l
=============================================================================
