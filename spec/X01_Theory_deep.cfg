SPECIFICATION Spec
CONSTANTS MaxOps = 4
 MaxObjs = 2
 Fams = {"cache", "sig", "over", "attr"}
 Record = TRUE
 EmitAll = TRUE
 ExtReadd = "replace"
 PutMode = "invalidate"
 TypeMode = "shadow"
 CopyMode = "deep1"
 AttrMode = "tuple"
INVARIANT CopyIsolation
INVARIANT CacheCoherent
INVARIANT InstalledInOrder
INVARIANT PrefixOnRaise
INVARIANT ReaddRefused
INVARIANT DeterminedByExtensions
CHECK_DEADLOCK FALSE
