SPECIFICATION Spec
CONSTANTS MaxOps = 4
 MaxObjs = 2
 Fams = {"cache", "sig", "over", "attr"}
 Record = TRUE
 EmitAll = TRUE
 ExtReadd = "refuse"
 PutMode = "refuse"
 TypeMode = "refuse"
 CopyMode = "deep1"
 AttrMode = "tuple"
INVARIANT CopyIsolation
INVARIANT CacheCoherent
INVARIANT InstalledInOrder
INVARIANT PrefixOnRaise
INVARIANT ReaddRefused
INVARIANT DeterminedByExtensions
INVARIANT NoDivergence
CHECK_DEADLOCK FALSE
