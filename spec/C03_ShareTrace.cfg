SPECIFICATION TSpec
POSTCONDITION TPost
CHECK_DEADLOCK FALSE
