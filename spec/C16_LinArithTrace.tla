--------------------------- MODULE C16_LinArithTrace ---------------------------
(* T-specification for C16.  Events come from the real code (harness/drivers/c16.py), one per call of     *)
(*   omega.solve_matrix | OmegaHOL.solve | Simplex.handle_assertion (simplex.py, simplex_strict.py) |      *)
(*   branch_and_bound | SimplexMacro | StrictSimplexMacro | IntegerSimplexMacro :                          *)
(*   [tid, proc, dom ("int" | "rat"), n, sys (rows <<a_1..a_n, op, b>>: a.x op b), verdict,                *)
(*    wit [ok, den, nums, miss], proof [present, accepted, false, hypsok, hyps]]                           *)
(* Clauses (C16_LinCore gives the exact meaning of rows and points):                                      *)
(*   WitnessSatisfies  verdict SAT  => the returned assignment nums/den satisfies EVERY row (a variable    *)
(*                     the code left unassigned may take any value c, |c| <= 3: the clause fails only if   *)
(*                     no completion works)                                                                *)
(*   WitnessIntegral   verdict SAT of an integer procedure => the assignment is integral                   *)
(*   UnsatSound        verdict UNSAT / contradiction => no solution in the box (integer box [-B(n),B(n)]^n *)
(*                     for "int"; the grid { k/d } for "rat" -- complete for the TLC-enumerated class by    *)
(*                     invariant FMExact of C16_LinArith).  A point found IS a solution: the alarm is sound.*)
(*   ProofAccepted     a proof produced for a contradiction is accepted by theory.check_proof (gap-free)   *)
(*   ProofConcludesFalse  ... and its conclusion is the constant false                                     *)
(*   ProofHypsGiven    ... and every hypothesis is (as a linear form) one of the given constraints         *)
(*   ProofHypsUnsat    ... and the hypotheses have no solution in the box (else: a checked wrong theorem)  *)
(* NOCONCL / ERROR / TIMEOUT are always allowed (incompleteness): logged as divergences.                   *)
EXTENDS C16_LinCore, TraceLib

MaxEntry == 100          \* |coefficient|, |constant| of examined rows
MaxWit == 1000000        \* |numerator|, denominator of examined witnesses  (5 * 100 * 10^6 < 2^31)

RowOK(r, n) == /\ Len(r) = n + 2 /\ r[n + 1] \in 1..4
               /\ \A k \in 1..(n + 2) : r[k] \in (-MaxEntry)..MaxEntry
RowsOK(s, n) == \A k \in 1..Len(s) : RowOK(s[k], n)
WellFormed(e) == e.n \in 1..5 /\ e.dom \in {"int", "rat"} /\ RowsOK(e.sys, e.n)

IntB(n) == CASE n <= 2 -> 20 [] n = 3 -> 6 [] n = 4 -> 3 [] OTHER -> 2
RatD(n) == CASE n <= 2 -> {1, 2, 3, 4, 5, 6, 8} [] n = 3 -> {1, 2, 3} [] OTHER -> {1, 2}
RatK(n) == CASE n <= 2 -> 12 [] n = 3 -> 4 [] OTHER -> 2
SolutionInBox(S, n, dom) == IF dom = "int" THEN IntSat(S, n, IntB(n)) ELSE RatSat(S, n, RatD(n), RatK(n))

WitExaminable(e) == /\ e.wit.ok /\ Len(e.wit.nums) = e.n /\ Len(e.wit.miss) = e.n
                    /\ e.wit.den \in 1..MaxWit
                    /\ \A k \in 1..e.n : e.wit.nums[k] \in (-MaxWit)..MaxWit
RECURSIVE Complete(_, _, _, _, _)
Complete(S, nums, miss, den, k) ==
  IF k = 0 THEN AllHold(S, nums, den)
  ELSE IF miss[k] = 0 THEN Complete(S, nums, miss, den, k - 1)
  ELSE \E c \in (-3)..3 : Complete(S, [nums EXCEPT ![k] = c * den], miss, den, k - 1)

WitHolds(S, e) == IF e.n = 2 /\ e.wit.miss = <<0, 0>> THEN AllHold2(S, e.wit.nums[1], e.wit.nums[2], e.wit.den)
                  ELSE Complete(S, e.wit.nums, e.wit.miss, e.wit.den, e.n)
HypsExaminable(e) == e.proof.present /\ e.proof.accepted /\ e.proof.hypsok /\ RowsOK(e.proof.hyps, e.n)
Canon(s) == { CanonRow(s[k]) : k \in 1..Len(s) }

Clauses(e) ==
  IF ~WellFormed(e) THEN {}
  ELSE LET S == RangeOf(e.sys) IN
    (IF e.verdict = "SAT" /\ WitExaminable(e) /\ ~WitHolds(S, e)
       THEN {"WitnessSatisfies"} ELSE {})
    \cup (IF e.verdict = "SAT" /\ e.dom = "int" /\ e.wit.ok /\ e.wit.den # 1 THEN {"WitnessIntegral"} ELSE {})
    \cup (IF e.verdict = "UNSAT" /\ SolutionInBox(S, e.n, e.dom) THEN {"UnsatSound"} ELSE {})
    \cup (IF e.proof.present /\ ~e.proof.accepted THEN {"ProofAccepted"} ELSE {})
    \cup (IF e.proof.present /\ e.proof.accepted /\ ~e.proof.false THEN {"ProofConcludesFalse"} ELSE {})
    \cup (IF HypsExaminable(e) /\ ~(Canon(e.proof.hyps) \subseteq Canon(e.sys)) THEN {"ProofHypsGiven"} ELSE {})
    \cup (IF HypsExaminable(e) /\ e.proof.false /\ SolutionInBox(RangeOf(e.proof.hyps), e.n, e.dom)
            THEN {"ProofHypsUnsat"} ELSE {})
Nontrivial(e) == WellFormed(e) /\ (e.verdict = "UNSAT" \/ (e.verdict = "SAT" /\ WitExaminable(e)) \/ e.proof.present)
Diverges(e) == \/ e.verdict \notin {"SAT", "UNSAT"}
               \/ (e.verdict = "SAT" /\ \E k \in 1..Len(e.wit.miss) : e.wit.miss[k] = 1)
               \/ (e.proof.present /\ ~e.proof.hypsok)
TNext == LET e == Trace[l] IN TStep(e.tid, Clauses(e), Nontrivial(e), Diverges(e))
TSpec == TInit /\ [][TNext]_l
=============================================================================
