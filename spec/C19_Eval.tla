------------------------------- MODULE C19_Eval -------------------------------
(* Exact semantics of the EXACTLY EVALUABLE FRAGMENT of the integration calculator's expressions     *)
(* (integral/expr.py), shared by the S-specification C19_Calc and the T-specification C19_CalcTrace. *)
(*                                                                                                   *)
(* Expressions (the structural codec of harness/drivers/c19.py; tuples, kind first):                 *)
(*   <<"var",x>> <<"const",n,d>> <<"op",sym,a,b>> <<"neg",a>> <<"fun",f,<<args>>>>                    *)
(*   <<"int",x,lo,hi,body>> <<"iint",x,body,<<skolem args>>>> <<"deriv",x,body>>                      *)
(*   <<"evalat",x,lo,hi,body>> <<"sum",i,lo,hi,body>> <<"lim",x,l,body,drt>> <<"inf",s>>              *)
(*   <<"skolem",c,<<deps>>>> <<"diff",b>> <<"symbol",s>> <<"bigconst",..>> <<"oth",text>>             *)
(*                                                                                                   *)
(* Ev(e, env, dx) = [st, v, d]   : st = 0 value v (a Rat) and derivative d with respect to the         *)
(* variable dx ("" = none) at the point env;  st = 1 undefined at env (zero denominator);             *)
(* st = 2 NOT EXAMINABLE (outside the fragment, not an integer where one is needed, or a magnitude    *)
(* beyond Rat's 2^30 guard).  Everything is pointwise:                                               *)
(*   - derivatives by forward-mode differentiation (exact on rational expressions),                  *)
(*   - a definite integral INT x:[lo,hi]. b only when b is SYNTACTICALLY a polynomial in x of degree *)
(*     <= D (Deg): b is sampled at x = 0..D, the interpolating polynomial (Newton forward differences,*)
(*     coefficient sequence over Rat) is integrated by its antiderivative.  Nested binders need no    *)
(*     special treatment.  An integrand with x in a denominator, a non-natural power, or under a     *)
(*     function is not examinable: no logarithm or other transcendental value can arise.             *)
(*   - a limit LIM x -> +-oo of a rational function of x: from the degrees and leading coefficients   *)
(*     of numerator and denominator (extended value: finite | +oo | -oo, the infinite ones only at    *)
(*     the top of an expression).  Limits at finite points are not examined.                         *)
(* A verdict is only ever drawn from points where BOTH sides have st = 0.                             *)
(*                                                                                                   *)
(* EVALUATION-MODE DISCIPLINE (performance only).  TLC evaluates the function part of  f[i]  in a mode *)
(* that keeps function constructors lazy and caches nothing - also inside every operator called from  *)
(* there.  Therefore: (1) results with several components are RECORDS (field selection is evaluated in  *)
(* the normal mode); (2) a LET-bound or parameter sequence that is the result of a computation is first *)
(* touched by Len(..) or = before it is indexed; (3) the Rat wrappers below touch their arguments by an  *)
(* equality first; (4) constructed sequences are made concrete by  \o <<>>.                              *)
EXTENDS Rat, Integers, Sequences, FiniteSets, TLC

Z == <<0, 1>>
One == <<1, 1>>
MaxDeg == 9
MaxN(a, b) == IF a >= b THEN a ELSE b
\* Rat operations: arguments touched in the normal mode; integer fast paths (no gcd); same results as lib/Rat
QAdd(x, y) == IF x = ROvf \/ y = ROvf THEN ROvf
              ELSE IF x[2] = 1 /\ y[2] = 1 THEN (LET t == x[1] + y[1] IN IF RFits(t) THEN <<t, 1>> ELSE ROvf) ELSE RAdd(x, y)
QSub(x, y) == IF x = ROvf \/ y = ROvf THEN ROvf
              ELSE IF x[2] = 1 /\ y[2] = 1 THEN (LET t == x[1] - y[1] IN IF RFits(t) THEN <<t, 1>> ELSE ROvf) ELSE RSub(x, y)
QMul(x, y) == IF x = ROvf \/ y = ROvf THEN ROvf
              ELSE IF x[2] = 1 /\ y[2] = 1 THEN (IF MulFits(x[1], y[1]) THEN <<x[1] * y[1], 1>> ELSE ROvf) ELSE RMul(x, y)
QDiv(x, y) == IF x = ROvf \/ y = ROvf THEN ROvf ELSE RDiv(x, y)          \* callers exclude y = 0
QNeg(x) == IF x = ROvf THEN ROvf ELSE <<-x[1], x[2]>>
QPow(x, n) == IF x = ROvf THEN ROvf ELSE RPow(x, n)

Cmps == {"=", "!=", "<", "<=", ">", ">="}
Ariths == {"+", "-", "*", "/", "^"}

(* The structural functions below take expression VALUES (sub-tuples of an event or of a state) as arguments. *)
RECURSIVE FV(_)
FVSeq(s) == UNION {FV(s[i]) : i \in 1..Len(s)}
FV(e) == CASE e[1] = "var" -> {e[2]}
           [] e[1] = "op" -> FV(e[3]) \cup FV(e[4])
           [] e[1] = "neg" -> FV(e[2])
           [] e[1] = "fun" -> FVSeq(e[3])
           [] e[1] \in {"int", "evalat", "sum"} -> FV(e[3]) \cup FV(e[4]) \cup (FV(e[5]) \ {e[2]})
           [] e[1] = "iint" -> FV(e[3]) \cup {e[2]}
           [] e[1] = "deriv" -> FV(e[3]) \cup {e[2]}          \* D x. b is a function of x
           [] e[1] = "lim" -> FV(e[3]) \cup (FV(e[4]) \ {e[2]})
           [] e[1] = "skolem" -> FVSeq(e[3])
           [] e[1] = "diff" -> FV(e[2])
           [] OTHER -> {}

\* does a node of kind k occur in e
RECURSIVE HasKind(_, _)
HasKind(e, k) ==
  \/ e[1] = k
  \/ CASE e[1] = "op" -> HasKind(e[3], k) \/ HasKind(e[4], k)
       [] e[1] = "neg" -> HasKind(e[2], k)
       [] e[1] = "fun" -> \E i \in 1..Len(e[3]) : HasKind(e[3][i], k)
       [] e[1] \in {"int", "evalat", "sum"} -> HasKind(e[3], k) \/ HasKind(e[4], k) \/ HasKind(e[5], k)
       [] e[1] = "iint" -> HasKind(e[3], k)
       [] e[1] = "deriv" -> HasKind(e[3], k)
       [] e[1] = "lim" -> HasKind(e[3], k) \/ HasKind(e[4], k)
       [] e[1] = "skolem" -> \E i \in 1..Len(e[3]) : HasKind(e[3][i], k)
       [] e[1] = "diff" -> HasKind(e[2], k)
       [] OTHER -> FALSE

\* variables bound by an indefinite integral somewhere in e
RECURSIVE IVars(_)
IVars(e) == CASE e[1] = "iint" -> {e[2]} \cup IVars(e[3])
              [] e[1] = "op" -> IVars(e[3]) \cup IVars(e[4])
              [] e[1] = "neg" -> IVars(e[2])
              [] e[1] = "fun" -> UNION {IVars(e[3][i]) : i \in 1..Len(e[3])}
              [] e[1] \in {"int", "evalat", "sum"} -> IVars(e[3]) \cup IVars(e[4]) \cup IVars(e[5])
              [] e[1] = "deriv" -> IVars(e[3])
              [] e[1] = "lim" -> IVars(e[3]) \cup IVars(e[4])
              [] OTHER -> {}

(* ------------------------------------------------------------------------------------------------ *)
(* Occ(e, x): x occurs free in e.   DG(e, x) = [occ, deg]: deg is a syntactic upper bound of the        *)
(* degree of e as a polynomial in x, or -1 when e is not syntactically a polynomial in x; a subterm     *)
(* without x counts as a constant (Eff), whatever it is.  One pass.                                    *)
RECURSIVE Occ(_, _)
Occ(e, x) == CASE e[1] = "op" -> Occ(e[3], x) \/ Occ(e[4], x)
               [] e[1] = "var" -> e[2] = x
               [] e[1] = "const" -> FALSE
               [] e[1] = "neg" -> Occ(e[2], x)
               [] e[1] = "fun" -> \E i \in 1..Len(e[3]) : Occ(e[3][i], x)
               [] e[1] \in {"int", "evalat", "sum"} -> Occ(e[3], x) \/ Occ(e[4], x) \/ (e[2] # x /\ Occ(e[5], x))
               [] e[1] \in {"iint", "deriv"} -> e[2] = x \/ Occ(e[3], x)
               [] e[1] = "lim" -> Occ(e[3], x) \/ (e[2] # x /\ Occ(e[4], x))
               [] e[1] = "skolem" -> \E i \in 1..Len(e[3]) : Occ(e[3][i], x)
               [] e[1] = "diff" -> Occ(e[2], x)
               [] OTHER -> FALSE
RECURSIVE DG(_, _)
DGR(o, d) == [occ |-> o, deg |-> d]
Eff(r) == IF r.occ THEN r.deg ELSE 0
NoX == DGR(FALSE, 0)
DG(e, x) ==
  CASE e[1] = "op" ->
         LET a == DG(e[3], x)  b == DG(e[4], x)  da == Eff(a)  db == Eff(b) IN
         IF ~a.occ /\ ~b.occ THEN NoX
         ELSE IF e[2] \in {"+", "-"} THEN DGR(TRUE, IF da < 0 \/ db < 0 THEN -1 ELSE MaxN(da, db))
         ELSE IF e[2] = "*" THEN DGR(TRUE, IF da < 0 \/ db < 0 THEN -1 ELSE da + db)
         ELSE IF e[2] = "/" THEN DGR(TRUE, IF b.occ THEN -1 ELSE da)
         ELSE IF e[2] = "^" THEN
              DGR(TRUE, IF ~b.occ /\ e[4][1] = "const" /\ e[4][3] = 1 /\ e[4][2] >= 0 /\ e[4][2] <= MaxDeg /\ da >= 0 THEN da * e[4][2] ELSE -1)
         ELSE DGR(TRUE, -1)
    [] e[1] = "var" -> IF e[2] = x THEN DGR(TRUE, 1) ELSE NoX
    [] e[1] = "const" -> NoX
    [] e[1] = "neg" -> DG(e[2], x)
    [] e[1] \in {"int", "evalat"} ->
         LET y == e[2]  l == DG(e[3], x)  h == DG(e[4], x)  bx == IF y = x THEN NoX ELSE DG(e[5], x)
             dl == Eff(l)  dh == Eff(h)  dbx == Eff(bx)  m == MaxN(dl, dh) IN
         IF ~l.occ /\ ~h.occ /\ ~bx.occ THEN NoX
         ELSE IF dl < 0 \/ dh < 0 \/ dbx < 0 THEN DGR(TRUE, -1)
         ELSE IF m = 0 THEN DGR(TRUE, dbx)                       \* bounds without x
         ELSE LET dy == Eff(DG(e[5], y)) IN
              DGR(TRUE, IF dy < 0 THEN -1 ELSE IF e[1] = "int" THEN dbx + (dy + 1) * m ELSE dbx + dy * m)
    [] e[1] = "sum" ->
         LET bx == IF e[2] = x THEN NoX ELSE DG(e[5], x) IN
         IF Occ(e[3], x) \/ Occ(e[4], x) THEN DGR(TRUE, -1) ELSE bx
    [] e[1] = "deriv" -> LET b == DG(e[3], x) IN IF e[2] = x THEN DGR(TRUE, Eff(b)) ELSE b
    [] OTHER -> IF Occ(e, x) THEN DGR(TRUE, -1) ELSE NoX
Deg(e, x) == Eff(DG(e, x))

(* ------------------------------------------------------------------------------------------------ *)
(* Polynomials as coefficient sequences over Rat (lowest degree first) and Newton interpolation.     *)
\* coefficients of binom(x, k)
RECURSIVE BinP(_)
BinP(k) == IF k = 0 THEN <<One>>
           ELSE LET p == BinP(k - 1) IN           \* times (x - (k-1)) / k
                IF Len(p) = 0 THEN <<>>
                ELSE [i \in 1..(k + 1) |-> QDiv(QSub(IF i > 1 THEN p[i - 1] ELSE Z,
                                                     IF i <= k THEN QMul(RInt(k - 1), p[i]) ELSE Z), RInt(k))] \o <<>>
BinTab == [k \in 0..MaxDeg |-> BinP(k)] @@ <<>>
\* forward differences  d[k+1] = Delta^k f(0)  of the samples s[1..n+1] = f(0..n)      (s: a concrete sequence)
RECURSIVE DiffSeq(_)
DiffSeq(s) == IF Len(s) <= 1 THEN s
              ELSE <<s[1]>> \o DiffSeq([i \in 1..(Len(s) - 1) |-> QSub(s[i + 1], s[i])] \o <<>>)
RECURSIVE SumCoef(_, _, _, _)
SumCoef(d, i, k, n) == IF k > n THEN Z ELSE QAdd(QMul(d[k + 1], BinTab[k][i]), SumCoef(d, i, k + 1, n))
\* monomial coefficients c[1..n+1] (c[i] is the coefficient of x^(i-1)) of the interpolant of the samples
Coeffs(s) == LET n == Len(s) - 1  d == DiffSeq(s) IN
             IF Len(d) = 0 THEN <<>> ELSE [i \in 1..(n + 1) |-> SumCoef(d, i, i - 1, n)] \o <<>>
RECURSIVE HornerP(_, _, _)
HornerP(c, t, i) == IF i > Len(c) THEN Z ELSE QAdd(c[i], QMul(t, HornerP(c, t, i + 1)))
PolyAt(c, t) == HornerP(c, t, 1)
\* value at t of the antiderivative (with value 0 at 0)
AntiAt(c, t) == QMul(t, PolyAt([i \in 1..Len(c) |-> QDiv(c[i], RInt(i))] \o <<>>, t))

\* coefficient sequences over Rat, lowest degree first, no trailing zero (the zero polynomial is <<>>)
RECURSIVE Trim(_)
Trim(p) == IF Len(p) > 0 /\ p[Len(p)] = Z THEN Trim(SubSeq(p, 1, Len(p) - 1)) ELSE p
At(p, i) == IF i >= 1 /\ i <= Len(p) THEN p[i] ELSE Z
PAdd(p, q) == Trim([i \in 1..MaxN(Len(p), Len(q)) |-> QAdd(At(p, i), At(q, i))] \o <<>>)
PScale(c, p) == Trim([i \in 1..Len(p) |-> QMul(c, p[i])] \o <<>>)
PNeg(p) == PScale(<<-1, 1>>, p)
PSub(p, q) == PAdd(p, PNeg(q))
RECURSIVE ConvSum(_, _, _, _)
ConvSum(p, q, k, i) == IF i > Len(p) THEN Z ELSE QAdd(QMul(p[i], At(q, k - i + 1)), ConvSum(p, q, k, i + 1))
PMul(p, q) == IF Len(p) = 0 \/ Len(q) = 0 THEN <<>> ELSE Trim([k \in 1..(Len(p) + Len(q) - 1) |-> ConvSum(p, q, k, 1)] \o <<>>)
RECURSIVE PPow(_, _)
PPow(p, n) == IF n = 0 THEN <<One>> ELSE PMul(p, PPow(p, n - 1))
PHasOvf(p) == \E i \in 1..Len(p) : p[i] = ROvf

Ext(env, x, v) == [y \in (DOMAIN env) \cup {x} |-> IF y = x THEN v ELSE env[y]] @@ <<>>
IsIntQ(q) == q # ROvf /\ q[2] = 1

(* ------------------------------------------------------------------------------------------------ *)
Res(st, v, d) == [st |-> st, v |-> v, d |-> d]
Unk == Res(2, Z, Z)
Und == Res(1, Z, Z)
Bad(st) == Res(st, Z, Z)
Mk(v, d) == IF v = ROvf \/ d = ROvf THEN Unk ELSE Res(0, v, d)
\* the derivative component is only computed when a differentiation variable is given (TLC evaluates operator arguments on demand)
MkD(dx, v, d) == IF dx = "" THEN (IF v = ROvf THEN Unk ELSE Res(0, v, Z)) ELSE Mk(v, d)

RECURSIVE Ev(_, _, _)
MaxSt(s) == IF \E i \in 1..Len(s) : s[i].st = 2 THEN 2 ELSE IF \E i \in 1..Len(s) : s[i].st = 1 THEN 1 ELSE 0

EvPow(a, b, e, dx) ==
  IF dx # "" /\ Occ(e[4], dx) THEN Unk
  ELSE IF ~IsIntQ(b.v) \/ b.v[1] > 12 \/ b.v[1] < -12 THEN Unk
  ELSE LET n == b.v[1]  va == a.v IN
    IF n = 0 THEN (IF va[1] = 0 THEN Unk ELSE Res(0, One, Z))            \* 0 ^ 0 : not judged
    ELSE IF n > 0 THEN MkD(dx, QPow(va, n), QMul(QMul(RInt(n), QPow(va, n - 1)), a.d))
    ELSE IF va[1] = 0 THEN Und
    ELSE MkD(dx, QDiv(One, QPow(va, -n)), QMul(QDiv(RInt(n), QPow(va, 1 - n)), a.d))

EvOp(e, env, dx) ==
  IF e[2] \notin Ariths THEN Unk ELSE
  LET a == Ev(e[3], env, dx)  b == Ev(e[4], env, dx)  st == IF a.st >= b.st THEN a.st ELSE b.st IN
  IF st # 0 THEN Bad(st)
  ELSE CASE e[2] = "+" -> MkD(dx, QAdd(a.v, b.v), QAdd(a.d, b.d))
         [] e[2] = "-" -> MkD(dx, QSub(a.v, b.v), QSub(a.d, b.d))
         [] e[2] = "*" -> MkD(dx, QMul(a.v, b.v), QAdd(QMul(a.d, b.v), QMul(a.v, b.d)))
         [] e[2] = "/" -> IF b.v[1] = 0 THEN Und
                          ELSE MkD(dx, QDiv(a.v, b.v), QDiv(QSub(QMul(a.d, b.v), QMul(a.v, b.d)), QMul(b.v, b.v)))
         [] e[2] = "^" -> EvPow(a, b, e, dx)

EvInt(e, env, dx0) ==
  LET dx == IF dx0 # "" /\ Occ(e, dx0) THEN dx0 ELSE ""
      x == e[2]  lo == Ev(e[3], env, dx)  hi == Ev(e[4], env, dx)  st == IF lo.st >= hi.st THEN lo.st ELSE hi.st IN
  IF st # 0 THEN Bad(st) ELSE
  LET D == Deg(e[5], x) IN
  IF D < 0 \/ D > MaxDeg THEN Unk ELSE
  LET dxi == IF dx = x THEN "" ELSE dx
      smp == [i \in 1..(D + 1) |-> Ev(e[5], Ext(env, x, RInt(i - 1)), dxi)] \o <<>>
      st2 == MaxSt(smp) IN
  IF st2 # 0 THEN Bad(st2) ELSE
  LET c == Coeffs([i \in 1..(D + 1) |-> smp[i].v] \o <<>>)
      val == IF Len(c) = 0 THEN Z ELSE QSub(AntiAt(c, hi.v), AntiAt(c, lo.v)) IN
  IF dx = "" THEN Mk(val, Z) ELSE
  LET cd == Coeffs([i \in 1..(D + 1) |-> smp[i].d] \o <<>>)        \* Leibniz rule
      dv == IF Len(cd) = 0 THEN Z
            ELSE QAdd(QSub(AntiAt(cd, hi.v), AntiAt(cd, lo.v)),
                      QSub(QMul(PolyAt(c, hi.v), hi.d), QMul(PolyAt(c, lo.v), lo.d))) IN
  Mk(val, dv)

\* a derivative with respect to x inside e (the value of  [D x. f]_x=a,b  is a value of the derivative at a point, which the
\* calculator has no notation for: such EvalAt expressions are not examined)
RECURSIVE DerivOn(_, _)
DerivOn(e, x) == CASE e[1] = "deriv" -> e[2] = x \/ DerivOn(e[3], x)
                   [] e[1] = "op" -> DerivOn(e[3], x) \/ DerivOn(e[4], x)
                   [] e[1] = "neg" -> DerivOn(e[2], x)
                   [] e[1] = "fun" -> \E i \in 1..Len(e[3]) : DerivOn(e[3][i], x)
                   [] e[1] \in {"int", "evalat", "sum"} -> DerivOn(e[3], x) \/ DerivOn(e[4], x) \/ DerivOn(e[5], x)
                   [] e[1] = "iint" -> DerivOn(e[3], x)
                   [] OTHER -> FALSE
EvEvalAt(e, env, dx0) ==
  IF DerivOn(e[5], e[2]) THEN Unk ELSE
  LET dx == IF dx0 # "" /\ Occ(e, dx0) THEN dx0 ELSE ""
      x == e[2]  lo == Ev(e[3], env, dx)  hi == Ev(e[4], env, dx)  st == IF lo.st >= hi.st THEN lo.st ELSE hi.st IN
  IF st # 0 THEN Bad(st) ELSE
  LET dxi == IF dx = x THEN "" ELSE dx
      f1 == Ev(e[5], Ext(env, x, hi.v), dxi)
      f0 == Ev(e[5], Ext(env, x, lo.v), dxi)
      st2 == IF f1.st >= f0.st THEN f1.st ELSE f0.st IN
  IF st2 # 0 THEN Bad(st2) ELSE
  IF dx = "" THEN Mk(QSub(f1.v, f0.v), Z) ELSE
  \* chain rule through the bounds
  LET t1 == IF hi.d = Z THEN Res(0, Z, Z) ELSE Ev(e[5], Ext(env, x, hi.v), x)
      t0 == IF lo.d = Z THEN Res(0, Z, Z) ELSE Ev(e[5], Ext(env, x, lo.v), x)
      st3 == IF t1.st >= t0.st THEN t1.st ELSE t0.st IN
  IF st3 # 0 THEN Bad(st3) ELSE
  Mk(QSub(f1.v, f0.v), QSub(QAdd(f1.d, QMul(t1.d, hi.d)), QAdd(f0.d, QMul(t0.d, lo.d))))

RECURSIVE SumFrom(_, _, _, _, _, _)
SumFrom(body, env, i, n, hi, dxi) ==
  IF n > hi THEN Res(0, Z, Z)
  ELSE LET t == Ev(body, Ext(env, i, RInt(n)), dxi) IN
       IF t.st # 0 THEN Bad(t.st)
       ELSE LET r == SumFrom(body, env, i, n + 1, hi, dxi) IN
            IF r.st # 0 THEN Bad(r.st) ELSE MkD(dxi, QAdd(t.v, r.v), QAdd(t.d, r.d))
EvSum(e, env, dx) ==
  LET i == e[2]  lo == Ev(e[3], env, "")  hi == Ev(e[4], env, "")  st == IF lo.st >= hi.st THEN lo.st ELSE hi.st IN
  IF st # 0 THEN Bad(st)
  ELSE IF dx # "" /\ (Occ(e[3], dx) \/ Occ(e[4], dx)) THEN Unk
  ELSE IF ~IsIntQ(lo.v) \/ ~IsIntQ(hi.v) THEN Unk
  ELSE IF hi.v[1] < lo.v[1] \/ hi.v[1] - lo.v[1] > 12 THEN Unk          \* empty or long sums : not judged
  ELSE SumFrom(e[5], env, i, lo.v[1], hi.v[1], IF dx = i THEN "" ELSE dx)

EvIInt(e, env, dx) ==           \* the antiderivative that vanishes at 0, as a function of x
  LET x == e[2] IN
  IF (dx # "" /\ Occ(e, dx)) \/ x \notin DOMAIN env THEN Unk ELSE
  LET D == Deg(e[3], x) IN
  IF D < 0 \/ D > MaxDeg THEN Unk ELSE
  LET smp == [i \in 1..(D + 1) |-> Ev(e[3], Ext(env, x, RInt(i - 1)), "")] \o <<>>
      st == MaxSt(smp) IN
  IF st # 0 THEN Bad(st) ELSE
  LET c == Coeffs([i \in 1..(D + 1) |-> smp[i].v] \o <<>>) IN
  IF Len(c) = 0 THEN Res(0, Z, Z) ELSE Mk(AntiAt(c, env[x]), Z)

(* ---- limits of rational functions at +oo / -oo: exact from degrees and leading coefficients ---- *)
\* RatFun(e, x, env) = [st, n, d]: e as a quotient n / d of polynomials in x (coefficient sequences); subterms without x are
\* evaluated with Ev.  No cancellation of common factors is needed for a limit at infinity.
RF(st, n, d) == [st |-> st, n |-> n, d |-> d]
RFBad(st) == RF(st, <<>>, <<One>>)
RECURSIVE RatFun(_, _, _)
RFPow(a, k) ==            \* a = [st, n, d] with st = 0
  IF k >= 0 THEN RF(0, PPow(a.n, k), PPow(a.d, k))
  ELSE IF Len(a.n) = 0 THEN RFBad(1) ELSE RF(0, PPow(a.d, -k), PPow(a.n, -k))
RatFun(e, x, env) ==
  IF ~Occ(e, x) THEN LET v == Ev(e, env, "") IN IF v.st # 0 THEN RFBad(v.st) ELSE RF(0, Trim(<<v.v>>), <<One>>)
  ELSE CASE e[1] = "var" -> RF(0, <<Z, One>>, <<One>>)
    [] e[1] = "neg" -> (LET g == RatFun(e[2], x, env) IN IF g.st # 0 THEN g ELSE RF(0, PNeg(g.n), g.d))
    [] e[1] = "op" /\ e[2] \in {"+", "-", "*", "/"} ->
         (LET a == RatFun(e[3], x, env)  b == RatFun(e[4], x, env)  st == IF a.st >= b.st THEN a.st ELSE b.st IN
          IF st # 0 THEN RFBad(st)
          ELSE IF e[2] = "+" THEN RF(0, PAdd(PMul(a.n, b.d), PMul(b.n, a.d)), PMul(a.d, b.d))
          ELSE IF e[2] = "-" THEN RF(0, PSub(PMul(a.n, b.d), PMul(b.n, a.d)), PMul(a.d, b.d))
          ELSE IF e[2] = "*" THEN RF(0, PMul(a.n, b.n), PMul(a.d, b.d))
          ELSE IF Len(b.n) = 0 THEN RFBad(1) ELSE RF(0, PMul(a.n, b.d), PMul(a.d, b.n)))
    [] e[1] = "op" /\ e[2] = "^" ->
         (IF Occ(e[4], x) THEN RFBad(2)
          ELSE LET k == Ev(e[4], env, "")  c == RatFun(e[3], x, env) IN
               IF k.st # 0 THEN RFBad(k.st) ELSE IF c.st # 0 THEN c
               ELSE IF ~IsIntQ(k.v) \/ k.v[1] > 6 \/ k.v[1] < -6 THEN RFBad(2) ELSE RFPow(c, k.v[1]))
    [] OTHER -> RFBad(2)
\* x -> -x
PFlip(p) == [i \in 1..Len(p) |-> IF i % 2 = 0 THEN QNeg(p[i]) ELSE p[i]] \o <<>>
\* extended value [st, v, inf]: inf = 0 finite value v; inf = 1 / -1 : +oo / -oo
XR(st, v, inf) == [st |-> st, v |-> v, inf |-> inf]
XBad(st) == XR(st, Z, 0)
SgnQ(q) == IF q[1] > 0 THEN 1 ELSE IF q[1] < 0 THEN -1 ELSE 0
LimAtInf(e, env, s) ==           \* e = <<"lim", x, L, body, drt>>, s = 1 for x -> oo, -1 for x -> -oo
  LET f == RatFun(e[4], e[2], env) IN
  IF f.st # 0 THEN XBad(f.st)
  ELSE LET n == IF s = 1 THEN f.n ELSE PFlip(f.n)  d == IF s = 1 THEN f.d ELSE PFlip(f.d) IN
       IF Len(n) > MaxDeg + 2 \/ Len(d) > MaxDeg + 2 \/ PHasOvf(n) \/ PHasOvf(d) THEN XBad(2)
       ELSE IF Len(d) = 0 THEN XBad(1)
       ELSE IF Len(n) < Len(d) THEN XR(0, Z, 0)
       ELSE IF Len(n) = Len(d) THEN LET q == QDiv(n[Len(n)], d[Len(d)]) IN IF q = ROvf THEN XBad(2) ELSE XR(0, q, 0)
       ELSE XR(0, Z, SgnQ(n[Len(n)]) * SgnQ(d[Len(d)]))
\* the point a limit is taken at: 1 / -1 for oo / -oo, 0 otherwise
RECURSIVE InfSign(_)
InfSign(l) == CASE l[1] = "inf" -> l[2] [] l[1] = "neg" -> -InfSign(l[2]) [] OTHER -> 0
LimVal(e, env) ==
  LET s == InfSign(e[3]) IN
  IF s = 0 THEN XBad(2)                         \* limits at finite points are not examined
  ELSE LimAtInf(e, env, s)

Ev(e, env, dx) ==
  CASE e[1] = "op" -> EvOp(e, env, dx)
    [] e[1] = "const" -> IF e[3] > 0 THEN Res(0, IF e[3] = 1 THEN <<e[2], 1>> ELSE RNorm(e[2], e[3]), Z) ELSE Unk
    [] e[1] = "var" -> IF e[2] \in DOMAIN env THEN Res(0, env[e[2]], IF e[2] = dx THEN One ELSE Z) ELSE Unk
    [] e[1] = "neg" -> LET a == Ev(e[2], env, dx) IN IF a.st # 0 THEN a ELSE Res(0, QNeg(a.v), IF dx = "" THEN Z ELSE QNeg(a.d))
    [] e[1] = "int" -> EvInt(e, env, dx)
    [] e[1] = "evalat" -> EvEvalAt(e, env, dx)
    [] e[1] = "sum" -> EvSum(e, env, dx)
    [] e[1] = "deriv" -> IF dx # "" /\ Occ(e, dx) THEN Unk              \* second derivatives are not examined
                         ELSE LET a == Ev(e[3], env, e[2]) IN IF a.st # 0 THEN a ELSE Res(0, a.d, Z)
    [] e[1] = "iint" -> EvIInt(e, env, dx)
    [] e[1] = "skolem" -> Res(0, Z, Z)             \* an arbitrary constant; only used in the "up to a constant" comparison
    [] e[1] = "lim" -> IF dx # "" /\ Occ(e, dx) THEN Unk        \* a finite limit is a value; an infinite one only at the top (XVal)
                       ELSE LET t == LimVal(e, env) IN IF t.st # 0 THEN Bad(t.st) ELSE IF t.inf # 0 THEN Unk ELSE Res(0, t.v, Z)
    [] e[1] = "fun" -> IF e[2] = "abs" /\ Len(e[3]) = 1
                       THEN LET a == Ev(e[3][1], env, dx) IN
                            IF a.st # 0 THEN a ELSE IF dx # "" /\ a.v[1] = 0 THEN Unk
                            ELSE IF a.v[1] >= 0 THEN a ELSE Res(0, QNeg(a.v), QNeg(a.d))
                       ELSE Unk
    [] OTHER -> Unk

Val(e, env) == Ev(e, env, "")
\* extended value of a whole expression: +oo / -oo only at the top, possibly under a negation
RECURSIVE XVal(_, _)
XVal(e, env) ==
  CASE e[1] = "inf" -> XR(0, Z, IF e[2] > 0 THEN 1 ELSE -1)
    [] e[1] = "neg" -> LET a == XVal(e[2], env) IN IF a.st # 0 THEN a ELSE XR(0, QNeg(a.v), -a.inf)
    [] e[1] = "lim" -> LimVal(e, env)
    [] OTHER -> LET a == Ev(e, env, "") IN XR(a.st, a.v, 0)

(* ------------------------------------------------------------------------------------------------ *)
(* Conditions and grids.                                                                             *)
CondHolds(c, env) ==
  IF c[1] # "op" \/ c[2] \notin Cmps THEN FALSE ELSE
  LET a == Val(c[3], env)  b == Val(c[4], env) IN
  IF a.st # 0 \/ b.st # 0 THEN FALSE ELSE
  LET k == RCmp(a.v, b.v) IN
  CASE c[2] = "=" -> k = 0 [] c[2] = "!=" -> k \in {-1, 1} [] c[2] = "<" -> k = -1
    [] c[2] = "<=" -> k \in {-1, 0} [] c[2] = ">" -> k = 1 [] c[2] = ">=" -> k \in {0, 1}

Grid(n) == CASE n <= 1 -> {<<-2, 1>>, <<-1, 1>>, <<0, 1>>, <<1, 2>>, <<1, 1>>, <<2, 1>>, <<3, 1>>}
             [] n = 2 -> {<<-1, 1>>, <<0, 1>>, <<1, 2>>, <<2, 1>>, <<3, 1>>}
             [] n = 3 -> {<<-1, 1>>, <<1, 2>>, <<2, 1>>}
             [] n = 4 -> {<<-1, 1>>, <<2, 1>>}
             [] OTHER -> {<<2, 1>>, <<3, 1>>}
MaxVars == 5

(* SameValue(e, r, conds) = [fails, cmp] :  cmp (compared) = the two expressions could be evaluated  *)
(* at one admissible grid point at least;  fails = at some admissible point both are defined and the   *)
(* values differ.  With an indefinite integral or a Skolem constant on either side the claim is        *)
(* "equal up to an additive constant": for every assignment of the other variables the difference is  *)
(* the same at all grid values of the integration variable.                                           *)
\* a binder that re-binds the variable of an enclosing binder (Expr.subst does not respect binders; such expressions are not examined)
RECURSIVE Shadows(_, _)
Shadows(e, bs) ==
  CASE e[1] \in {"int", "evalat", "sum"} -> e[2] \in bs \/ Shadows(e[3], bs) \/ Shadows(e[4], bs) \/ Shadows(e[5], bs \cup {e[2]})
    [] e[1] = "iint" -> e[2] \in bs \/ Shadows(e[3], bs \cup {e[2]})
    [] e[1] = "lim" -> e[2] \in bs \/ Shadows(e[3], bs) \/ Shadows(e[4], bs \cup {e[2]})
    [] e[1] = "op" -> Shadows(e[3], bs) \/ Shadows(e[4], bs)
    [] e[1] = "neg" -> Shadows(e[2], bs)
    [] e[1] = "deriv" -> Shadows(e[3], bs)
    [] e[1] = "fun" -> \E i \in 1..Len(e[3]) : Shadows(e[3][i], bs)
    [] OTHER -> FALSE

SameValue(e, r, conds) ==
  LET vs == FV(e) \cup FV(r) \cup FVSeq(conds)
      iv == IVars(e) \cup IVars(r)
      upto == iv # {} \/ HasKind(e, "skolem") \/ HasKind(r, "skolem")
      No == [fails |-> FALSE, cmp |-> FALSE] IN
  IF Cardinality(vs) > MaxVars \/ (upto /\ Cardinality(iv) # 1) \/ Shadows(e, {}) \/ Shadows(r, {}) THEN No ELSE
  LET pts == [vs -> Grid(Cardinality(vs))]
      adm == {env \in pts : \A i \in 1..Len(conds) : CondHolds(conds[i], env)}
      \* [both defined, difference] at one point
      Diff(env) == LET a == XVal(e, env)  b == XVal(r, env) IN
                   IF a.st # 0 \/ b.st # 0 THEN [ok |-> FALSE, d |-> Z]
                   ELSE IF a.inf # 0 \/ b.inf # 0 THEN [ok |-> TRUE, d |-> IF a.inf = b.inf THEN Z ELSE One]     \* +oo / -oo / finite
                   ELSE LET d == QSub(a.v, b.v) IN IF d = ROvf THEN [ok |-> FALSE, d |-> Z] ELSE [ok |-> TRUE, d |-> d] IN
  IF ~upto THEN LET codes == {Diff(env) : env \in adm} IN              \* every point is evaluated once
                [fails |-> \E c \in codes : c.ok /\ c.d # Z, cmp |-> \E c \in codes : c.ok]
  ELSE LET x == CHOOSE y \in iv : TRUE IN
       IF x \notin vs \/ \E i \in 1..Len(conds) : x \in FV(conds[i]) THEN No
       ELSE LET res == {[o |-> [y \in vs \ {x} |-> env[y]] @@ <<>>, x |-> env[x], r |-> Diff(env)] : env \in adm}
                cmp == {t \in res : t.r.ok} IN
            [fails |-> \E p \in cmp : \E q \in cmp : p.o = q.o /\ p.r.d # q.r.d,
             cmp |-> \E p \in cmp : \E q \in cmp : p.o = q.o /\ p.x # q.x]

(* ------------------------------------------------------------------------------------------------ *)
(* Canonical form of numerals for the print / parse comparison: the parser reads  -3  as the constant  *)
(* -3 and  3/4  as the constant 3/4, so  neg(const) , const / const  and  neg(oo)  are identified with  *)
(* the constants they denote; a limit at an infinity has no direction.  Nothing else is identified.   *)
RECURSIVE Canon(_)
CanonSeq(s) == [i \in 1..Len(s) |-> Canon(s[i])] \o <<>>
Canon(e) ==
  CASE e[1] = "neg" -> LET a == Canon(e[2]) IN
                       IF Len(a) = 0 THEN a
                       ELSE IF a[1] = "const" THEN <<"const", -a[2], a[3]>> ELSE IF a[1] = "inf" THEN <<"inf", -a[2]>> ELSE <<"neg", a>>
    [] e[1] = "op" -> LET a == Canon(e[3])  b == Canon(e[4]) IN
                      IF Len(a) = 0 \/ Len(b) = 0 THEN e
                      ELSE IF e[2] = "/" /\ a[1] = "const" /\ b[1] = "const" /\ b[2] # 0 /\ a[3] > 0 /\ b[3] > 0
                      THEN LET q == RDiv(RNorm(a[2], a[3]), RNorm(b[2], b[3])) IN
                           IF q = ROvf THEN <<"bigconst", "", "">> ELSE <<"const", q[1], q[2]>>
                      ELSE <<"op", e[2], a, b>>
    [] e[1] = "const" -> IF e[3] > 0 THEN LET q == RNorm(e[2], e[3]) IN IF q = ROvf THEN e ELSE <<"const", q[1], q[2]>> ELSE e
    [] e[1] = "fun" -> <<"fun", e[2], CanonSeq(e[3])>>
    [] e[1] \in {"int", "evalat", "sum"} -> <<e[1], e[2], Canon(e[3]), Canon(e[4]), Canon(e[5])>>
    [] e[1] = "iint" -> <<"iint", e[2], Canon(e[3]), e[4]>>
    [] e[1] = "deriv" -> <<"deriv", e[2], Canon(e[3])>>
    [] e[1] = "lim" -> LET lm == Canon(e[3]) IN IF Len(lm) = 0 THEN e ELSE <<"lim", e[2], lm, Canon(e[4]), IF lm[1] = "inf" THEN "" ELSE e[5]>>
    [] e[1] = "skolem" -> <<"skolem", e[2], CanonSeq(e[3])>>
    [] e[1] = "diff" -> <<"diff", Canon(e[2])>>
    [] OTHER -> e

\* expressions on which the print / parse identity is not judged: a literal division by zero, a comparison below the
\* top, an un-projectable object, a numeral beyond the codec's range
RECURSIVE Printable(_, _)
Printable(e, top) ==
  CASE e[1] \in {"oth", "bigconst", "symbol", "none"} -> FALSE
    [] e[1] = "op" -> /\ (e[2] \in Cmps => top)
                      /\ ~(e[2] = "/" /\ e[4][1] = "const" /\ e[4][2] = 0)
                      /\ Printable(e[3], FALSE) /\ Printable(e[4], FALSE)
    [] e[1] = "neg" -> Printable(e[2], FALSE)
    [] e[1] = "fun" -> \A i \in 1..Len(e[3]) : Printable(e[3][i], FALSE)
    [] e[1] \in {"int", "evalat", "sum"} -> Printable(e[3], FALSE) /\ Printable(e[4], FALSE) /\ Printable(e[5], FALSE)
    [] e[1] = "iint" -> Printable(e[3], FALSE)
    [] e[1] = "deriv" -> Printable(e[3], FALSE)
    [] e[1] = "lim" -> Printable(e[3], FALSE) /\ Printable(e[4], FALSE)
    [] e[1] = "skolem" -> \A i \in 1..Len(e[3]) : Printable(e[3][i], FALSE)
    [] e[1] = "diff" -> Printable(e[2], FALSE)
    [] OTHER -> TRUE

\* print / parse comparison of an expression value e with its re-parsed value rp (both concrete); not judged when the
\* expression (with its numerals evaluated) is not Printable
SameUpToNumerals(e, rp) ==
  LET a == Canon(e)  b == Canon(rp) IN
  IF Len(a) = 0 \/ Len(b) = 0 THEN [judged |-> FALSE, same |-> TRUE]
  ELSE IF ~Printable(a, TRUE) \/ HasKind(a, "bigconst") \/ HasKind(b, "bigconst") \/ HasKind(b, "oth") THEN [judged |-> FALSE, same |-> TRUE]
  ELSE [judged |-> TRUE, same |-> a = b]
PrintableCanon(e) == LET a == Canon(e) IN Len(a) > 0 /\ Printable(a, TRUE)
=============================================================================
