---------------------------- MODULE C03_Laws ----------------------------
(* Laws and universe shared by the S, emission and T specifications of C03 (algebra).    *)
(* The SEMANTIC LAWS that the term operations of kernel/term.py must satisfy, stated     *)
(* over finite standard models (HolSem), and a machine whose state space is the set of    *)
(* operation vectors (term, operation, arguments): TLC checks that the reference algebra  *)
(* of lib/HolTerms.tla satisfies every law on every vector (design level), and emits the  *)
(* vectors; C03_TermTrace.tla evaluates the SAME laws on the results of the real code.    *)
EXTENDS HolSem, HolGen, FiniteSets, Json, IOUtils

CONSTANTS Depth, N, MaxSize

\* ------------------------------------------------------------------ laws
RECURSIVE Close(_,_)
Close(t, env) == IF env = <<>> THEN t ELSE Close(<<"abs", env[1], t>>, Tail(env))
Sq0(c) == [h |-> {}, c |-> c]
\* two closed terms of the same type have the same denotation in every model with |tyvar| <= N
EqDen(t1, t2) == LET T == TypeOf(t1, <<>>) IN
                 T # Err /\ TypeOf(t2, <<>>) = T /\ Valid(Sq0(App(App(EqC(T), t1), t2)), N)
Exam(t1, t2) == WellTyped(t1) /\ WellTyped(t2) /\ TypeOf(t1, <<>>) = TypeOf(t2, <<>>)
                /\ Examinable(Sq0(App(App(EqC(TypeOf(t1, <<>>)), t1), t2)), N)

\* lazy quantification over assignments; P carries the parameters of the law
LawBody(mode, P, va) ==
  CASE mode = "st" ->   \* type instantiation commutes with evaluation under the induced type assignment
         Eval(P.r, va, <<>>, P.ta) = Eval(P.t, [s \in P.symsT |-> va[STypeTerm(s, P.ti)]], <<>>, P.ta2)
    [] mode = "sb" ->   \* substitution lemma
         Eval(P.r, va, <<>>, P.ta) =
           Eval(P.t, [s \in P.symsT |-> IF s[1] = "svar" /\ s[2] \in Keys(P.sv) THEN Eval(Lookup(P.sv, s[2]), va, <<>>, P.ta)
                                         ELSE va[STypeTerm(s, P.ti)]], <<>>, P.ta2)
RECURSIVE LawAll(_,_,_,_,_)
LawAll(mode, P, symSeq, i, va) ==
  IF i > Len(symSeq) THEN LawBody(mode, P, va)
  ELSE \A d \in Dom(symSeq[i][3], P.ta) : LawAll(mode, P, symSeq, i + 1, (symSeq[i] :> d) @@ va)
AlistTVars(ti) == UNION { TyVarsOf(ti[i][2]) : i \in 1..Len(ti) }
Ta2(tvsT, ti, ta) == [v \in tvsT |-> IF v[1] = "stv" /\ v[2] \in Keys(ti) THEN Dom(Lookup(ti, v[2]), ta) ELSE ta[v]]
\* subst_type: t closed and well-typed, ti an association list  name |-> type, r the result
STypeLaw(t, ti, r) ==
  LET symsT == SymsOf(t)
      symsR == SymsOf(r) \cup { STypeTerm(s, ti) : s \in symsT }
      tvs == TVarsOfTerm(r) \cup AlistTVars(ti) \cup { v \in TVarsOfTerm(t) : ~(v[1] = "stv" /\ v[2] \in Keys(ti)) }
  IN \A ta \in [tvs -> Carriers(N)] :
       LawAll("st", [t |-> t, r |-> r, ti |-> ti, ta |-> ta, ta2 |-> Ta2(TVarsOfTerm(t), ti, ta), symsT |-> symsT],
              SetToSeq(symsR), 1, <<>>)
\* subst: inst = [ty, sv]; tiFull is the type instantiation that makes the instance types fit
SubstLaw(t, inst, tiFull, r) ==
  LET symsT == SymsOf(t)
      keep == { s \in symsT : ~(s[1] = "svar" /\ s[2] \in Keys(inst.sv)) }
      symsR == SymsOf(r) \cup { STypeTerm(s, tiFull) : s \in keep } \cup UNION { SymsOf(inst.sv[k][2]) : k \in 1..Len(inst.sv) }
      tvs == TVarsOfTerm(r) \cup AlistTVars(tiFull) \cup { v \in TVarsOfTerm(t) : ~(v[1] = "stv" /\ v[2] \in Keys(tiFull)) }
             \cup UNION { TVarsOfTerm(inst.sv[k][2]) : k \in 1..Len(inst.sv) }
  IN \A ta \in [tvs -> Carriers(N)] :
       LawAll("sb", [t |-> t, r |-> r, ti |-> tiFull, sv |-> inst.sv, ta |-> ta, ta2 |-> Ta2(TVarsOfTerm(t), tiFull, ta), symsT |-> symsT],
              SetToSeq(symsR), 1, <<>>)
SmallSyms(S) == \A s \in S : OnlyBase(s[3]) /\ DomSize(s[3], N) <= 16
SmallLaw(t, r, extra) == SmallSyms(SymsOf(t) \cup SymsOf(r) \cup extra)
                         /\ ProdSizes(SetToSeq(SymsOf(t) \cup SymsOf(r) \cup extra), 1, N) <= 70000
                         /\ \A T \in TypesIn(t) \cup TypesIn(r) : OnlyBase(T) /\ DomSize(T, N) <= 256

\* ---- the verdict of one operation: set of names of violated laws.  `r` is the result to be judged.
\* vector: [op, t, env, v (variable or <<"none">>), u (term or <<"none">>), ty, sv]
NoneT == <<"none">>
TiFull(vec) == MatchSVTypes(SVarsOf(vec.t), vec.sv, vec.ty)
Judge(vec, r) ==
  LET t == vec.t env == vec.env ct == Close(t, env) IN
  CASE vec.op = "beta_norm" ->
         (IF TypeOf(r, env) = TypeOf(t, env) THEN {} ELSE {"TypePreserved"})
         \cup (IF HasRedex(r) THEN {"BetaNormal"} ELSE {})
         \cup (IF Exam(ct, Close(r, env)) /\ ~EqDen(ct, Close(r, env)) THEN {"Denotation"} ELSE {})
    [] vec.op = "subst_bound" ->     \* t is an abstraction, u the argument (possibly with loose bounds typed by env)
         LET app == <<"comb", t, vec.u>> IN
         (IF TypeOf(r, env) = TypeOf(app, env) THEN {} ELSE {"TypePreserved"})
         \cup (IF Exam(Close(app, env), Close(r, env)) /\ ~EqDen(Close(app, env), Close(r, env)) THEN {"Denotation"} ELSE {})
    [] vec.op = "abstract_over" ->   \* r is the BODY; v the variable
         LET lam == <<"abs", vec.v[3], r>> app == <<"comb", lam, vec.v>> IN
         (IF TypeOf(lam, <<>>) = FunT(vec.v[3], TypeOf(t, <<>>)) THEN {} ELSE {"TypePreserved"})
         \cup (IF Occurs(r, vec.v) THEN {"NotAbstracted"} ELSE {})
         \cup (IF Exam(app, t) /\ ~EqDen(app, t) THEN {"Denotation"} ELSE {})
    [] vec.op = "subst_type" ->
         (IF TypeOf(r, <<>>) = TSubst(TypeOf(t, <<>>), vec.ty) THEN {} ELSE {"TypePreserved"})
         \cup (IF WellTyped(r) /\ SmallLaw(t, r, { STypeTerm(s, vec.ty) : s \in SymsOf(t) }) /\ ~STypeLaw(t, vec.ty, r) THEN {"Denotation"} ELSE {})
    [] vec.op \in {"subst", "subst_norm"} ->
         LET tf == TiFull(vec) IN
         IF vec.op = "subst_norm" /\ HasRedex(r) THEN {"BetaNormal"} ELSE
         IF tf = ErrAL THEN (IF WellTyped(r) THEN {} ELSE {"TypePreserved"})
         ELSE (IF TypeOf(r, <<>>) = TSubst(TypeOf(t, <<>>), tf) THEN {} ELSE {"TypePreserved"})
              \cup (IF WellTyped(r) /\ SmallLaw(t, r, UNION { SymsOf(vec.sv[k][2]) : k \in 1..Len(vec.sv) } \cup { STypeTerm(s, tf) : s \in SymsOf(t) })
                       /\ ~SubstLaw(t, [ty |-> vec.ty, sv |-> vec.sv], tf, r) THEN {"Denotation"} ELSE {})
    [] OTHER -> {}
\* was the denotation clause really evaluated?
Examined(vec, r) ==
  LET t == vec.t env == vec.env IN
  CASE vec.op = "beta_norm" -> Exam(Close(t, env), Close(r, env))
    [] vec.op = "subst_bound" -> Exam(Close(<<"comb", t, vec.u>>, env), Close(r, env))
    [] vec.op = "abstract_over" -> Exam(<<"comb", <<"abs", vec.v[3], r>>, vec.v>>, t)
    [] vec.op = "subst_type" -> WellTyped(r) /\ SmallLaw(t, r, { STypeTerm(s, vec.ty) : s \in SymsOf(t) })
    [] vec.op \in {"subst", "subst_norm"} -> TiFull(vec) # ErrAL /\ WellTyped(r)
    [] OTHER -> FALSE
\* the reference result (lib/HolTerms.tla); Err when the operation does not apply
Ref(vec) ==
  CASE vec.op = "beta_norm" -> BetaNorm(vec.t)
    [] vec.op = "subst_bound" -> SubstBound(vec.t, vec.u)
    [] vec.op = "abstract_over" -> AbsOver(vec.t, vec.v, 0)
    [] vec.op = "subst_type" -> STypeTerm(vec.t, vec.ty)
    [] vec.op = "subst" -> Subst(vec.t, [ty |-> vec.ty, sv |-> vec.sv])
    [] vec.op = "subst_norm" -> LET x == Subst(vec.t, [ty |-> vec.ty, sv |-> vec.sv]) IN IF x = Err THEN Err ELSE BetaNorm(x)
    [] OTHER -> Err

\* ------------------------------------------------------------------ universe
TA == <<"tv","a">>     SB == <<"stv","b">>
vx == <<"var","x",TA>>  vy == <<"var","y",TA>>  vA == <<"var","A",BoolT>>
vf == <<"var","f",FunT(TA,TA)>>  vR == <<"var","R",FunT(TA,BoolT)>>
sx == <<"svar","x",TA>> sP == <<"svar","P",BoolT>> sF == <<"svar","F",FunT(TA,BoolT)>>
sz == <<"svar","z",SB>> sG == <<"svar","G",FunT(SB,BoolT)>>
Sig == {vx, vy, vA, vf, vR, sx, sP, sF, sz, sG, EqC(TA), EqC(BoolT), EqC(SB), ImpC, AllC(TA), AllC(SB)}
ArgTypes == {BoolT, TA, SB, FunT(TA, BoolT), FunT(SB, BoolT)}
TopTypes == {BoolT, TA, FunT(TA, BoolT), FunT(TA, TA), SB}
\* hand-picked deeper terms with NESTED binders (an inner binder whose body refers to the outer one): these are the terms on
\* which substitution under a binder must shift loose bound variables
B0 == <<"bound", 0>>   B1 == <<"bound", 1>>
EqA(a, b) == App(App(EqC(TA), a), b)
Nested == { <<"abs", TA, App(AllC(TA), <<"abs", TA, EqA(B1, B0)>>)>>,                 \* %x. !y. x = y
            <<"abs", TA, App(AllC(TA), <<"abs", TA, App(vR, B1)>>)>>,                 \* %x. !y. R x
            <<"abs", TA, App(<<"abs", TA, EqA(App(vf, B1), B0)>>, B0)>>,              \* %x. (%y. f x = y) x
            <<"abs", TA, <<"abs", TA, EqA(B1, B0)>> >>,                               \* %x y. x = y
            App(AllC(TA), <<"abs", TA, App(AllC(TA), <<"abs", TA, EqA(B1, B0)>>)>>),  \* !x y. x = y
            App(AllC(TA), <<"abs", TA, App(AllC(TA), <<"abs", TA, App(App(ImpC, App(sF, B1)), EqA(B0, sx))>>)>>),  \* !x y. ?F x --> y = ?x
            <<"abs", TA, App(<<"abs", FunT(TA, BoolT), App(B0, B1)>>, vR)>>,          \* %x. (%g. g x) R
            \* the SAME open sub-term (R (Bound 0)) at two binder depths: shared as one object by the "shared" replay route
            <<"abs", TA, App(App(EqC(BoolT), App(vR, B0)), App(AllC(TA), <<"abs", TA, App(vR, B0)>>))>>,      \* %x. R x = (!y. R y)
            <<"abs", TA, App(App(ImpC, App(vR, B0)), App(AllC(TA), <<"abs", TA, App(App(ImpC, App(vR, B0)), App(vR, B1))>>))>> }
Universe == { t \in UNION { Gen(Sig, ArgTypes, T, Depth, <<>>) : T \in TopTypes } : Size(t) <= MaxSize } \cup Nested
\* open terms under one binder of type 'a (for loose-bound arguments)
OpenArgs == { t \in Gen(Sig, {TA}, TA, 1, <<TA>>) : Size(t) <= 3 }
Empty == <<>>
TyInsts == { << <<"b", BoolT>> >>, << <<"b", TA>> >>, << <<"b", FunT(TA, TA)>> >>, << <<"b", SB>> >>, Empty }
SvInsts == { << <<"P", vA>> >>, << <<"P", MkEq(vx, vy)>> >>, << <<"x", vy>> >>, << <<"x", App(vf, vx)>> >>, << <<"F", vR>> >>,
             << <<"F", Lambda(vy, MkEq(vy, vx))>> >>, << <<"z", vx>> >>, << <<"z", vA>> >>, << <<"G", vR>> >>,
             << <<"x", vy>>, <<"P", App(vR, vx)>> >>, << <<"P", vx>> >>, << <<"G", Lambda(vA, vA)>>, <<"z", vA>> >>,
             << <<"x", sx>> >>, << <<"P", sP>>, <<"x", vx>> >> }
AbsVars == {vx, vy, sx, vA, sP, vf, sz}
V(op, t, env, v, u, ty, sv) == [op |-> op, t |-> t, env |-> env, v |-> v, u |-> u, ty |-> ty, sv |-> sv]
VectorsOf(t) ==
     { V("beta_norm", t, Empty, NoneT, NoneT, Empty, Empty) }
  \cup { V("abstract_over", t, Empty, v, NoneT, Empty, Empty) : v \in AbsVars }
  \cup { V("subst_type", t, Empty, NoneT, NoneT, ti, Empty) : ti \in TyInsts }
  \cup { V("subst", t, Empty, NoneT, NoneT, Empty, sv) : sv \in { s \in SvInsts : \E k \in 1..Len(s) : \E q \in SVarsOf(t) : q[2] = s[k][1] } }
  \cup (IF t[1] = "abs" THEN { V("subst_bound", t, Empty, NoneT, u, Empty, Empty) : u \in { u \in Universe : TypeOf(u, <<>>) = t[2] /\ Size(u) <= 3 } }
                              \cup (IF t[2] = TA THEN { V("subst_bound", t, <<TA>>, NoneT, u, Empty, Empty) : u \in OpenArgs } ELSE {})
        ELSE {})
\* an open redex under a binder: beta_norm must shift loose bound variables
OpenVectors == { V("beta_norm", <<"comb", a, u>>, <<TA>>, NoneT, NoneT, Empty, Empty) :
                   a \in { t \in Universe : t[1] = "abs" /\ t[2] = TA }, u \in OpenArgs }
AllVectors == UNION { VectorsOf(t) : t \in Universe } \cup OpenVectors
=============================================================================
