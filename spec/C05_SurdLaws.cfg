SPECIFICATION Spec
CONSTANTS Wide = FALSE
INVARIANTS Numeric Order Squares BigCases
CHECK_DEADLOCK FALSE
