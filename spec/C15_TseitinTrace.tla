--------------------------- MODULE C15_TseitinTrace ---------------------------
(* T-specification for C15, Tseitin part.  Events from harness/drivers/c15.py:                      *)
(*  kind "tseitin": tseitin.encode(F) -> theorem (hyps, concl as propositional structure, read from  *)
(*       the raw term fields), convert_cnf(concl) -> cnf, theory.check_proof(pt.export()) -> chk      *)
(*  kind "prove":   proofrec.solve_cnf(F) (Tseitin of ~F, sat.solve_cnf, resolution replayed in HOL)  *)
(* Clauses:                                                                                          *)
(*   Returns        encode / convert_cnf raised or did not return                                     *)
(*   Checked        the proof checker does not accept the theorem (or returns another sequent, or     *)
(*                  leaves gaps)                                                                      *)
(*   Valid          the theorem is not propositionally valid (truth table over all its atoms)         *)
(*   CnfOfTheorem   the clause list is not the CNF of the theorem (different truth table from the     *)
(*                  theorem's conclusion)                                                             *)
(*   Equisat        the CNF is not equisatisfiable with the formula                                   *)
(*   DefsFresh      the hypotheses other than the formula are not definitions  v <-> rhs  of pairwise   *)
(*                  distinct variables that do not occur in the formula and do not depend on themselves *)
(*                  (then they are not a conservative extension: the theorem is not an encoding)        *)
(*   ProvesFormula  (prove) the returned theorem is not  |- F                                         *)
(* Divergences (informational): number of distinct clauses differs from the reference encoding;       *)
(* the end-to-end prover raised on a tautology.                                                       *)
EXTENDS C15_Prop, TraceLib

MaxAtoms == 12
AllWF(e) == WellFormed(e.concl) /\ \A i \in 1..Len(e.hyps) : WellFormed(e.hyps[i])
Examinable(e) == AllWF(e) /\ Cardinality(SeqAtoms(e.hyps, e.concl)) <= MaxAtoms
SameSequent(e) == e.chk.concl = e.concl /\ { e.chk.hyps[i] : i \in 1..Len(e.chk.hyps) } = { e.hyps[i] : i \in 1..Len(e.hyps) }
CheckedOK(e) == e.chk.outcome = "accepted" /\ e.chk.gaps = 0 /\ SameSequent(e)

\* the hypotheses other than the formula itself
RECURSIVE DefsOf(_, _, _)
DefsOf(hs, f, i) == IF i > Len(hs) THEN <<>> ELSE (IF SameF(hs[i], f) THEN <<>> ELSE <<hs[i]>>) \o DefsOf(hs, f, i + 1)
TseitinClauses(e) ==
  IF e.outcome # "ok" THEN {"Returns"}
  ELSE (IF CheckedOK(e) THEN {} ELSE {"Checked"})
       \cup (IF Examinable(e) /\ ~SeqValid(e.hyps, e.concl) THEN {"Valid"} ELSE {})
       \cup (IF Examinable(e) /\ ~CnfEquivalent(e.cnf, e.concl) THEN {"CnfOfTheorem"} ELSE {})
       \cup (IF Cardinality(VarsOf(e.cnf)) <= MaxAtoms /\ ~Equisatisfiable(e.cnf, e.formula) THEN {"Equisat"} ELSE {})
       \cup (IF AllWF(e) /\ WellFormed(e.formula) /\ ~DefsFresh(DefsOf(e.hyps, e.formula, 1), e.formula) THEN {"DefsFresh"} ELSE {})
\* the prover may refuse (AssertionError "not provable") or not be run; when it returns, it must return |- F, valid and checked
ProveClauses(e) ==
  IF e.outcome # "ok" THEN {}
  ELSE (IF Len(e.hyps) = 0 /\ e.concl = e.formula THEN {} ELSE {"ProvesFormula"})
       \cup (IF CheckedOK(e) THEN {} ELSE {"Checked"})
       \cup (IF Examinable(e) /\ ~SeqValid(e.hyps, e.concl) THEN {"Valid"} ELSE {})
Clauses(e) == IF e.kind = "tseitin" THEN TseitinClauses(e) ELSE ProveClauses(e)
Nontrivial(e) == e.outcome = "ok" /\ Examinable(e)
Diverges(e) == IF e.kind = "tseitin"
               THEN e.outcome = "ok" /\ DistinctClauses(e.cnf) # DistinctClauses(RefEncode(e.formula).cnf)
               ELSE e.outcome # "ok" /\ e.outcome # "notrun_timeout" /\ ValidF(e.formula)
TNext == LET e == Trace[l] IN TStep(e.tid, Clauses(e), Nontrivial(e), Diverges(e))
TSpec == TInit /\ [][TNext]_l
=============================================================================
