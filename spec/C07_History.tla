------------------------------ MODULE C07_History ------------------------------
(* S-specification for C07, histories: "the result does not depend on what was printed earlier".           *)
(* The printer as coded (syntax/printer.py, syntax/pprint.py), at the level of the OBJECTS it hands out:     *)
(*   - pprint.get_ast_term memoises one immutable AST per (term, unicode) in a process-wide table;          *)
(*   - pprint.print_ast builds a NEW output for every call: an (immutable) string without highlighting, a   *)
(*     (mutable) Python list of fragments with highlighting -- modelled as a heap cell;                      *)
(*   - printer.commas_join (hypotheses of a sequent, list / tuple arguments of a proof step, entries of an   *)
(*     instantiation) with highlighting EXTENDS THE LIST OF THE FIRST ITEM IN PLACE and returns it;          *)
(*   - print_thm concatenates with +, which builds a new list.                                               *)
(* A history is a sequence of print operations (object, settings) over a pool of objects that share terms: *)
(* three terms 1, 2, 3; sequents with 0 / 1 / 2 hypotheses over them; argument lists; an instantiation.     *)
(* TLC explores EVERY history of MaxOps operations over the chosen objects and settings (the history is the *)
(* state), checks on each prefix                                                                            *)
(*     PrintStable      the same operation performed again gives the same output                            *)
(*     PrintIsFunction  every output is the reference output Ref(op), a function of the operation alone      *)
(* and emits each complete history as a vector (PrintT <<"HIST", json>>) that harness/drivers/c07.py        *)
(* performs on the real printer; the recorded outputs are judged by the same two statements in               *)
(* C07_SyntaxTrace (clauses PrintStable, RoundTrip).                                                         *)
(* ShareOutput = TRUE is the design in which print_term keeps the printed output with the memoised AST      *)
(* (one entry per remaining setting): the heap cell handed out is then shared between calls, commas_join    *)
(* corrupts it, and both invariants fail -- the specification mutant of the check.                          *)
EXTENDS Naturals, Sequences, FiniteSets, TLC, Json
CONSTANTS MaxOps, ObjNames, CfgNames
ShareOutput == FALSE
\* ---- the pool: <<kind, term ids>>; a sequent lists its hypotheses, then its conclusion
Obj == [ T1 |-> <<"term", <<1>>>>, T2 |-> <<"term", <<2>>>>, T3 |-> <<"term", <<3>>>>,
         S0 |-> <<"thm", <<1>>>>, S1 |-> <<"thm", <<1, 2>>>>, S2 |-> <<"thm", <<1, 2, 3>>>>, S2r |-> <<"thm", <<2, 1, 3>>>>,
         L1 |-> <<"list", <<1>>>>, L2 |-> <<"list", <<1, 2>>>>, L3 |-> <<"list", <<2, 1, 3>>>>, I2 |-> <<"inst", <<1, 2>>>> ]
\* ---- settings <<unicode, highlight>> (a line length is only supported for single terms: driver mode nest)
Cfg == [ ap |-> <<FALSE, FALSE>>, ah |-> <<FALSE, TRUE>>, up |-> <<TRUE, FALSE>>, uh |-> <<TRUE, TRUE>> ]
Ops == { <<o, c>> : o \in ObjNames, c \in CfgNames }
\* ---- tokens of the output
Frag(i, c) == <<"t", i, c[1]>>              \* the text of term i (it depends on the unicode flag only)
Comma == <<"s", 0, FALSE>>
Turnstile(c) == <<"s", 1, c[1]>>
Open == <<"s", 2, FALSE>>
Close == <<"s", 3, FALSE>>
KeyTok(k) == <<"k", k, FALSE>>
\* ---- reference: the output as a function of the operation
RECURSIVE Join(_,_,_)
Join(items, k, acc) == IF k > Len(items) THEN acc ELSE Join(items, k + 1, (IF k = 1 THEN acc ELSE Append(acc, Comma)) \o items[k])
Ref(op) ==
  LET o == Obj[op[1]] c == Cfg[op[2]] ids == o[2] n == Len(ids) IN
  CASE o[1] = "term" -> <<Frag(ids[1], c)>>
    [] o[1] = "thm"  -> (IF n = 1 THEN <<>> ELSE Join([k \in 1..(n-1) |-> <<Frag(ids[k], c)>>], 1, <<>>)) \o <<Turnstile(c), Frag(ids[n], c)>>
    [] o[1] = "list" -> Join([k \in 1..n |-> <<Frag(ids[k], c)>>], 1, <<>>)
    [] o[1] = "inst" -> <<Open>> \o Join([k \in 1..n |-> <<KeyTok(k), Frag(ids[k], c)>>], 1, <<>>) \o <<Close>>
\* ---- the mechanism: st = [heap |-> sequence of cells (token sequences), mo |-> set of <<key, cell>> (outputs kept with the AST)]
PT(st, i, c) ==      \* printer.print_term
  LET key == <<i, c[1], c[2]>> IN
  IF ShareOutput /\ \E p \in st.mo : p[1] = key
  THEN [st |-> st, cell |-> (CHOOSE p \in st.mo : p[1] = key)[2]]
  ELSE LET n == Len(st.heap) + 1 IN
       [st |-> [heap |-> Append(st.heap, <<Frag(i, c)>>), mo |-> IF ShareOutput THEN st.mo \cup {<<key, n>>} ELSE st.mo], cell |-> n]
RECURSIVE PTs(_,_,_,_,_)
PTs(st, ids, c, k, cells) ==    \* print_term on ids[k..]: the generator consumed by commas_join
  IF k > Len(ids) THEN [st |-> st, cells |-> cells]
  ELSE LET r == PT(st, ids[k], c) IN PTs(r.st, ids, c, k + 1, Append(cells, r.cell))
New(st, toks) == [st |-> [st EXCEPT !.heap = Append(@, toks)], cell |-> Len(st.heap) + 1]
RECURSIVE Extend(_,_,_,_)
Extend(heap, res, cells, k) ==   \* res.extend(N(', ')); res.extend(s)  for the items after the first
  IF k > Len(cells) THEN heap ELSE Extend([heap EXCEPT ![res] = @ \o <<Comma>> \o heap[cells[k]]], res, cells, k + 1)
CommasJoin(st, cells, c) ==      \* printer.commas_join: returns [st, cell]
  IF Len(cells) = 0 THEN New(st, <<>>)
  ELSE IF c[2] THEN [st |-> [st EXCEPT !.heap = Extend(st.heap, cells[1], cells, 2)], cell |-> cells[1]]
  ELSE New(st, Join([k \in 1..Len(cells) |-> st.heap[cells[k]]], 1, <<>>))      \* ', '.join(strs): a new string
RECURSIVE Items(_,_,_,_,_)
Items(st, ids, c, k, cells) ==   \* N(key + ': ') + str_val(val): a new list per entry
  IF k > Len(ids) THEN [st |-> st, cells |-> cells]
  ELSE LET r == PT(st, ids[k], c) e == New(r.st, <<KeyTok(k)>> \o r.st.heap[r.cell]) IN Items(e.st, ids, c, k + 1, Append(cells, e.cell))
Do(st, op) ==                    \* one print operation: [st, out]
  LET o == Obj[op[1]] c == Cfg[op[2]] ids == o[2] n == Len(ids) IN
  CASE o[1] = "term" -> LET r == PT(st, ids[1], c) IN [st |-> r.st, out |-> r.st.heap[r.cell]]
    [] o[1] = "thm"  -> IF n = 1 THEN LET r == PT(st, ids[1], c) IN [st |-> r.st, out |-> <<Turnstile(c)>> \o r.st.heap[r.cell]]
                        ELSE LET hs == PTs(st, SubSeq(ids, 1, n - 1), c, 1, <<>>)
                                 j == CommasJoin(hs.st, hs.cells, c)
                                 r == PT(j.st, ids[n], c)
                             IN [st |-> r.st, out |-> r.st.heap[j.cell] \o <<Turnstile(c)>> \o r.st.heap[r.cell]]
    [] o[1] = "list" -> LET hs == PTs(st, ids, c, 1, <<>>) j == CommasJoin(hs.st, hs.cells, c) IN [st |-> j.st, out |-> j.st.heap[j.cell]]
    [] o[1] = "inst" -> LET hs == Items(st, ids, c, 1, <<>>) j == CommasJoin(hs.st, hs.cells, c) IN
                        [st |-> j.st, out |-> <<Open>> \o j.st.heap[j.cell] \o <<Close>>]
\* ---- histories as states
VARIABLES hist, outs, st, done
vars == <<hist, outs, st, done>>
Init == hist = <<>> /\ outs = <<>> /\ st = [heap |-> <<>>, mo |-> {}] /\ done = FALSE
DoPrint(op) == /\ ~done /\ Len(hist) < MaxOps
             /\ LET r == Do(st, op) IN st' = r.st /\ outs' = Append(outs, r.out)
             /\ hist' = Append(hist, op) /\ UNCHANGED done
Finish == /\ ~done /\ Len(hist) = MaxOps /\ done' = TRUE
          /\ PrintT(<<"HIST", ToJson([ops |-> [k \in 1..Len(hist) |-> [o |-> hist[k][1], kind |-> Obj[hist[k][1]][1], ids |-> Obj[hist[k][1]][2],
                                                                       c |-> hist[k][2], uni |-> Cfg[hist[k][2]][1], hl |-> Cfg[hist[k][2]][2]]]])>>)
          /\ UNCHANGED <<hist, outs, st>>
Next == (\E op \in Ops : DoPrint(op)) \/ Finish
Spec == Init /\ [][Next]_vars
PrintStable == \A i \in 1..Len(hist) : \A j \in 1..Len(hist) : hist[i] = hist[j] => outs[i] = outs[j]
PrintIsFunction == \A i \in 1..Len(hist) : outs[i] = Ref(hist[i])
=============================================================================
