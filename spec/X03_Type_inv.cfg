SPECIFICATION Spec
CONSTANTS Depth = 2
 MaxOps = 2
 Pats <- PatsAll
 Targs <- TargsSmall
 Insts <- InstsAll
 CmpSet <- CmpSmall
 Kinds <- KindsAll
 Record = FALSE
 EmitAll = FALSE
INVARIANT StepsLawful
INVARIANT LookLawful
INVARIANT InstsFunctional
INVARIANT ComposeLaw
INVARIANT MatcherIsReference
INVARIANT OrdersLawful
CHECK_DEADLOCK FALSE
