SPECIFICATION Spec
CONSTANTS Atoms = {"a"}
 FullConn = 0
 RepFull = FALSE
 MaxConn = 0
 ClashAtoms = {"a"}
 XAtoms = {"x1", "x2"}
 ClashConn = 2
 ConstAtoms = {"a"}
 ConstConn = 1
 WithConsts = FALSE
 Repeats <- NoFormulas
INVARIANT RefEquisat
POSTCONDITION Emit
CHECK_DEADLOCK FALSE
