SPECIFICATION Spec
CONSTANTS N = 3
 MaxCalls = 3
 FinalOccursCheck = FALSE
INVARIANT TypeOK
INVARIANT Flat
INVARIANT AcyclicOrRejected
INVARIANT SubstTerminates
INVARIANT SubstIsResolve
INVARIANT UnifierOK
CHECK_DEADLOCK FALSE
