---------------------------- MODULE C10_ConvTrace ----------------------------
(* T-specification for C10.  Events come from the real conversions (harness/drivers/c10.py).               *)
(*   kind "norm" / "comb": one conversion cv applied to one term x                                          *)
(*      [tid, kind, cv, ty ("nat"|"int"|"real"|"bool"), mode, x, ax (the abstract vector x was built from), *)
(*       conds (hypotheses of the supplied condition theorems),                                             *)
(*       pt  = [o |-> "ok"|"conv"|"other", exc, th |-> [h, c]]   cv.get_proof_term(x).th                     *)
(*       ev  = the same for cv.eval(x) (o = "none" when the class has no fast evaluation of its own: then     *)
(*       eval IS get_proof_term(x).th);  chk = the same for theory.check_proof(pt.export());                 *)
(*       idem = the same for cv.get_proof_term(rhs)   (normalisers only)]                                   *)
(*   kind "orbit": [tid, kind, cv, ty, mode, ms |-> sequence of [x, rhs]]  the results on one orbit          *)
(*   norm and orbit events carry thy = [add_assoc, mult_comm, binary |-> BOOLEAN]: facts of the theory object  *)
(*   in which the call was made (histories: one theory object extended item by item)                         *)
(* Clauses (names of the property's demands that FAIL on the event):                                        *)
(*   OwnError       get_proof_term raised something else than the conversion's own ConvException             *)
(*   IsEquation, LhsIsInput, HypsFromConds     the parts of ConvOK(x, conds, pt.th)                          *)
(*   Checked        the exported proof is accepted by the checker with the same sequent                      *)
(*   EvalSame       cv.eval(x) reports the same sequent as get_proof_term(x).th                              *)
(*   ValuePreserved PolyOf(rhs) = PolyOf(x) (all atoms variables) resp. equal truth tables (exact counterexample) *)
(*   Idempotent     norm(rhs).rhs = rhs                   (canonical normalisers: CanonCvs)                  *)
(*   Canonical      members of one class (equal polynomial / equal member set) have the same rhs            *)
(*   Binding        machinery: the term the driver built is not the vector                                   *)
(* Divergences (informational, never a failure): canonicity / idempotence of normalisers for which the      *)
(* property does not claim it (integers, nnf), value differences with opaque atoms, eval succeeding where   *)
(* get_proof_term fails with its own error, a result of nnf that is not in negation normal form.            *)
EXTENDS C10_Laws, TraceLib

TyOf(s) == CASE s = "nat" -> NatT [] s = "int" -> IntT [] s = "real" -> RealT [] OTHER -> BoolT
\* the normalisers the property calls canonical (naturals, reals, conjunctions, disjunctions), by the mode of the orbit
CanonCvs(mode, ty) == CASE mode = "arith" /\ ty = "nat" -> {"nat_norm_full"}
                        [] mode = "arith" /\ ty = "real" -> {"real_norm", "real_auto"}
                        [] mode = "arith" /\ ty = "int" -> {"int_norm"}        \* only on LINEAR power-free inputs, see Claimed
                        [] mode = "conj" -> {"prop_norm_full", "sort_conj", "conj_norm"}
                        [] mode = "disj" -> {"prop_norm_full", "sort_disj", "disj_norm"}
                        [] OTHER -> {}
\* the theory in which the call was made has what the FULL mode of the normaliser is documented to need (data/nat.py norm_full: AC of
\* + and *, and the binary-arithmetic theorems to add and multiply numerals); in a partial theory (a theory object that is still
\* being extended) only the contract, the checker replay and value preservation are demanded
TheoryFull(e) == e.thy.add_assoc /\ e.thy.mult_comm /\ e.thy.binary
\* The property names naturals and reals.  For integers the normaliser is the one of linear arithmetic (omega / simplex front end):
\* canonicity and idempotence are demanded of it on inputs without powers whose polynomial is linear (every monomial of degree <= 1);
\* beyond that a disagreement is a divergence.
RECURSIVE NoPow(_)
NoPow(x) == CASE x[1] = "^" -> FALSE [] Bin2(x) -> NoPow(x[2]) /\ NoPow(x[3]) [] x[1] \in {"neg", "S"} -> NoPow(x[2]) [] OTHER -> TRUE
RECURSIVE SumExp(_)
SumExp(m) == IF m = {} THEN 0 ELSE LET pr == CHOOSE q \in m : TRUE IN pr[2] + SumExp(m \ {pr})
Linear(p) == \A pr \in p : SumExp(pr[1]) <= 1
Claimed(mode, ty, t) == (mode = "arith" /\ ty = "int") =>
                           LET a == FromHolA(t, IntT) IN PolyExaminable(a) /\ NoPow(a) /\ VarAtoms(a) /\ Linear(PolyOf(a))
Abstract(mode, ty, t) == IF mode = "arith" THEN FromHolA(t, TyOf(ty)) ELSE FromHolP(t)
Class(mode, ty, t) == CASE mode = "arith" -> PolyOf(FromHolA(t, TyOf(ty)))
                        [] mode = "conj" -> MemberSet(FromHolP(t), "and")
                        [] mode = "disj" -> MemberSet(FromHolP(t), "or")
                        [] OTHER -> {t}
ClassExaminable(mode, ty, t) == Size(t) <= 2000 /\ (mode = "arith" => PolyExaminable(FromHolA(t, TyOf(ty))))

HasTh(r) == r.o = "ok" /\ r.th.c # <<"none">>
\* value preservation: -1 not examined, 0 differs but only with opaque atoms (divergence), 1 holds, 2 exact counterexample
ValueVerdict(e) ==
  IF e.mode = "comb" \/ ~IsEquation(e.pt.th) \/ Size(e.pt.th.c) > 4000 THEN 0 - 1
  ELSE IF e.mode = "arith" THEN
         LET a == FromHolA(LhsOf(e.pt.th), TyOf(e.ty)) b == FromHolA(RhsOf(e.pt.th), TyOf(e.ty)) IN
         IF ~(PolyExaminable(a) /\ PolyExaminable(b)) THEN 0 - 1
         ELSE IF PolyOf(a) = PolyOf(b) THEN 1 ELSE IF VarAtoms(a) /\ VarAtoms(b) THEN 2 ELSE 0
  ELSE LET a == FromHolP(LhsOf(e.pt.th)) b == FromHolP(RhsOf(e.pt.th)) IN
       IF ~PropExaminable(a, b) THEN 0 - 1
       ELSE IF SameTable(a, b) THEN 1 ELSE IF BoolVarAtoms(a) /\ BoolVarAtoms(b) THEN 2 ELSE 0
IdemSame(e) == e.idem.o = "ok" /\ IsEquation(e.idem.th) /\ RhsOf(e.idem.th) = RhsOf(e.pt.th)
ConvClauses(e) ==
  (IF e.ax # <<"none">> /\ Abstract(e.mode, e.ty, e.x) # e.ax THEN {"Binding"} ELSE {})
  \cup (IF e.pt.o = "other" THEN {"OwnError"} ELSE {})
  \cup (IF e.pt.o = "ok" THEN
          (IF IsEquation(e.pt.th) THEN (IF LhsOf(e.pt.th) = e.x THEN {} ELSE {"LhsIsInput"}) ELSE {"IsEquation"})
          \cup (IF SeqSet(e.pt.th.h) \subseteq SeqSet(e.conds) THEN {} ELSE {"HypsFromConds"})
          \cup (IF e.chk.o = "ok" /\ SameSeq(e.chk.th, e.pt.th) THEN {} ELSE {"Checked"})
          \cup (IF e.ev.o = "none" \/ (e.ev.o = "ok" /\ SameSeq(e.ev.th, e.pt.th)) THEN {} ELSE {"EvalSame"})
          \cup (IF ValueVerdict(e) = 2 THEN {"ValuePreserved"} ELSE {})
          \cup (IF e.kind = "norm" /\ e.cv \in CanonCvs(e.mode, e.ty) /\ TheoryFull(e) /\ Claimed(e.mode, e.ty, e.x) /\ IsEquation(e.pt.th) /\ e.idem.o # "conv" /\ ~IdemSame(e) THEN {"Idempotent"} ELSE {})
        ELSE {})
ConvDiverges(e) ==
  \/ (e.pt.o = "conv" /\ e.ev.o = "ok")
  \/ (e.pt.o = "ok" /\ ValueVerdict(e) = 0)
  \/ (e.pt.o = "ok" /\ e.kind = "norm" /\ IsEquation(e.pt.th) /\ ~IdemSame(e) /\ (e.cv \notin CanonCvs(e.mode, e.ty) \/ ~TheoryFull(e) \/ ~Claimed(e.mode, e.ty, e.x) \/ e.idem.o = "conv"))
  \/ (e.pt.o = "ok" /\ e.cv = "nnf" /\ IsEquation(e.pt.th) /\ ~IsNNF(FromHolP(RhsOf(e.pt.th))))
ConvNontrivial(e) == e.pt.o = "ok" /\ IsEquation(e.pt.th) /\ (e.kind = "comb" \/ ValueVerdict(e) >= 0)

\* ---- orbits
OrbitOK(e) == \A i \in 1..Len(e.ms) : ClassExaminable(e.mode, e.ty, e.ms[i].x)
Uncanonical(e) ==
  LET n == Len(e.ms) cl == [i \in 1..n |-> Class(e.mode, e.ty, e.ms[i].x)] IN
  \E i \in 1..n : \E j \in (i + 1)..n : cl[i] = cl[j] /\ e.ms[i].rhs # e.ms[j].rhs
\* the same among the members for which canonicity is demanded
UncanonicalClaimed(e) ==
  LET n == Len(e.ms) cl == [i \in 1..n |-> Class(e.mode, e.ty, e.ms[i].x)] ok == [i \in 1..n |-> Claimed(e.mode, e.ty, e.ms[i].x)] IN
  \E i \in 1..n : \E j \in (i + 1)..n : ok[i] /\ ok[j] /\ cl[i] = cl[j] /\ e.ms[i].rhs # e.ms[j].rhs
\* at least two members of one class were compared
OrbitCompared(e) ==
  LET n == Len(e.ms) cl == [i \in 1..n |-> Class(e.mode, e.ty, e.ms[i].x)] IN \E i \in 1..n : \E j \in (i + 1)..n : cl[i] = cl[j]
ClausesOf(e) == IF e.kind = "orbit"
                THEN (IF e.cv \in CanonCvs(e.mode, e.ty) /\ TheoryFull(e) /\ OrbitOK(e) /\ UncanonicalClaimed(e) THEN {"Canonical"} ELSE {})
                ELSE ConvClauses(e)
NontrivialOf(e) == IF e.kind = "orbit" THEN OrbitOK(e) /\ OrbitCompared(e) ELSE ConvNontrivial(e)
DivergesOf(e) == IF e.kind = "orbit" THEN OrbitOK(e) /\ Uncanonical(e) /\ ~(e.cv \in CanonCvs(e.mode, e.ty) /\ TheoryFull(e) /\ UncanonicalClaimed(e))
                 ELSE ConvDiverges(e)
TNext == LET e == Trace[l] IN TStep(e.tid, ClausesOf(e), NontrivialOf(e), DivergesOf(e))
TSpec == TInit /\ [][TNext]_l
=============================================================================
