---------------------------- MODULE C02_CheckerImpl ----------------------------
(* I-specification for C02: the checker AS CODED (C02_ImplDefs) run on every proof object    *)
(* of the state space of C02_Checker, against the reference RefCheck.                         *)
(* The Fx* constants select the variant of the algorithm and are derived from the code under  *)
(* test (all FALSE = pinned commit).  iv is a ghost variable: the verdicts for the current    *)
(* object (a function of prf, evaluated once per object).  Properties:                        *)
(*   ImplRefines   : Impl accepts => RefCheck accepts, and the sequent returned is one that   *)
(*                   a justified proof may conclude                                           *)
(*   ImplNoGaps    : Impl accepts with no_gaps => the object contains no placeholder          *)
(*   ImplGapsExact : Impl accepts => reported gaps = placeholders present (as multisets)      *)
(*   ExtRefines    : checked_extend installs a theorem offered with this object as its proof  *)
(*                   => RefCheck accepts it gap-free and it concludes the stated theorem      *)
EXTENDS C02_Checker, C02_ImplDefs

CONSTANTS FxIdPos, FxNegIdx, FxEmpty, FxExtNg, FxExtCmp, FxArgSig, FxPosOcc
FX == [idpos |-> FxIdPos, negidx |-> FxNegIdx, empty |-> FxEmpty, extng |-> FxExtNg, extcmp |-> FxExtCmp,
       argsig |-> FxArgSig, posocc |-> FxPosOcc]

VARIABLE iv
Refines(i, r, p) == i.acc => r.ok /\ (IsNone(i.final) \/ \E o \in Finals(r, p) : CanProve(o, i.final))
Verdicts(p, n, g) ==
  LET inn == ImplCheck(p, Opts(TRUE, FALSE), FX)
      ig == ImplCheck(p, Opts(FALSE, FALSE), FX)
      ie == IF FxExtNg THEN inn ELSE ig                              \* the check_proof call made by checked_extend
      plain == \A q \in AllPos(p) : IsNone(ItemAt(p, q).th) IN
  [ refines |-> Refines(inn, n, p) /\ Refines(ig, g, p),
    nogaps |-> inn.acc => Placeholders(p) = <<>>,
    gapsexact |-> (ig.acc => BagEq(ig.gaps, Placeholders(p))) /\ (inn.acc => inn.gaps = <<>>),
    ext |-> Len(p) = 0 \/ \A s \in ExtStated(p) :
              (ie.acc /\ (FxExtCmp => (~IsNone(ie.final) /\ CanProve(ie.final, s))))     \* = ImplExtend(s, p, FX)
              => (n.ok /\ \E f \in Finals(n, p) : CanProve(f, s)),
    co |-> plain => ImplCheck(p, Opts(FALSE, TRUE), FX) = ig,
    accn |-> inn.acc, accg |-> ig.acc ]
IInit == Init /\ iv = Verdicts(<<>>, rn, rg)
INext == Next /\ iv' = Verdicts(prf', rn', rg')
ISpec == IInit /\ [][INext]_<<vars, iv>>

ImplRefines == iv.refines
ImplNoGaps == iv.nogaps
ImplGapsExact == iv.gapsexact
ExtRefines == iv.ext
\* compute_only never looks at an item that states its sequent: on objects that state nothing it is the plain check
ComputeOnlyPlain == iv.co
=============================================================================
