SPECIFICATION Spec
CONSTANT Parts <- PartsSet3x
INVARIANT ResolutionSound
INVARIANT RefutationComplete
INVARIANT CertificateAccepted
INVARIANT CertificateOnlyIfUnsat
INVARIANT ReplayFaithful
POSTCONDITION Emit
CHECK_DEADLOCK FALSE
