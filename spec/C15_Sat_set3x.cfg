SPECIFICATION Spec
CONSTANTS NVars = 3
 MaxLen = 3
 MaxClauses = 4
 Shape = "set"
INVARIANT ResolutionSound
INVARIANT RefutationComplete
INVARIANT CertificateAccepted
INVARIANT CertificateOnlyIfUnsat
INVARIANT ReplayFaithful
POSTCONDITION Emit
CHECK_DEADLOCK FALSE
