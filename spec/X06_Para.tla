------------------------------ MODULE X06_Para ------------------------------
(* S-specification for X06: parameterised guarded-command systems and the subgoal calculus of the verifier as a machine.      *)
(*   universe : small systems over an enumeration {I, T, C}, an array a (b in the two-array family), scalars x : bool, y,     *)
(*              built from pools of guards (equalities, negation, conjunction, disjunction), assignments (cell, scalar,       *)
(*              cell <-> scalar, whole array) and invariants (0..2 parameters); the mutual-exclusion protocol of              *)
(*              paraverifier/examples with every subset of >= 2 of its rules, and two broken variants of it                   *)
(*   state    : mode, the system, a tuple (wp), a concrete state of NProc processes (run), certified or not, the behaviour    *)
(*   modes    : "wp"   every (system, invariant, rule, case, hint): the reference calculus RefGoal means, at every state and   *)
(*                     every valuation of the case, exactly  hypothesis => invariant after the rule instance   (WpExact)      *)
(*              "run"  a system is CERTIFIED when every (invariant, rule, case) has a hint whose reference subgoal is valid   *)
(*                     on the scope (the classification the verifier's hint files record); started in every state that        *)
(*                     satisfies the invariants, rules fire (Fire)                                                            *)
(*              "emit" writes the universe with all its (invariant, rule, case, hint) tuples as vectors for the driver         *)
(*   property : WpExact; Consistent -- every state a certified system reaches satisfies its invariants;                       *)
(*              Classified -- the example protocol is certified, the broken variants are not                                  *)
(* With Record = TRUE behaviours are kept in hist and printed by Finish (simulation mode: vectors for step-by-step replay).   *)
EXTENDS X06_Sem, Json, IOUtils

CONSTANTS NProc, NGuards, NAsgs, NInvs, TwoArr, Record, MaxSteps, WpMulti, RunSet, DoEmit, DoWp, DoRun

\* ---------------------------------------------------------------- constructors (the encoding of harness/codec.py)
V(nm, T) == <<"var", nm, T>>
En(nm) == <<"const", nm, NatT>>
At(a, p) == <<"comb", a, p>>
TrueC == <<"const","true",BoolT>>
FalseC == <<"const","false",BoolT>>
EqN(a, b) == App(App(EqC(NatT), a), b)
EqB(a, b) == App(App(EqC(BoolT), a), b)
Not(p) == App(<<"const","neg",FunT(BoolT, BoolT)>>, p)
And(p, q) == App(App(<<"const","conj",FunT(BoolT, FunT(BoolT, BoolT))>>, p), q)
Or(p, q) == App(App(<<"const","disj",FunT(BoolT, FunT(BoolT, BoolT))>>, p), q)
Take(sq, n) == [i \in 1..(IF n < Len(sq) THEN n ELSE Len(sq)) |-> sq[i]]
A == V("a", ArrT(NatT))   B == V("b", ArrT(NatT))   X == V("x", BoolT)   Y == V("y", NatT)
K == V("k", NatT)   PI == V("i", NatT)   PJ == V("j", NatT)
Rule(g, as) == [param |-> "k", guard |-> g, asg |-> as]
Inv(vs, p) == [vars |-> vs, prop |-> p]

\* ---------------------------------------------------------------- pools of the generated family
GenVars == IF TwoArr THEN << <<"a", ArrT(NatT)>>, <<"b", ArrT(NatT)>>, <<"x", BoolT>> >>
           ELSE << <<"a", ArrT(NatT)>>, <<"x", BoolT>>, <<"y", NatT>> >>
GenEnum == <<"I", "T", "C">>
GuardSeq == IF TwoArr THEN
            << EqN(At(A, K), En("T")),                                        \* a k = T
               And(EqN(At(B, K), En("I")), EqB(X, TrueC)),                    \* b k = I & x = true
               Not(EqN(At(A, K), At(B, K))) >>                                \* ~(a k = b k)
            ELSE
            << EqN(At(A, K), En("I")),                                        \* a k = I
               And(EqN(At(A, K), En("T")), EqB(X, TrueC)),                    \* a k = T & x = true
               EqN(At(A, K), En("C")),                                        \* a k = C
               Or(EqN(Y, En("T")), Not(EqN(At(A, K), En("I")))),              \* y = T | ~(a k = I)
               EqB(X, FalseC),                                                \* x = false
               Not(EqN(At(A, K), Y)) >>                                       \* ~(a k = y)
AsgSeq == IF TwoArr THEN
          << << <<B, A>> >>,                                                  \* b := a          (whole array)
             << <<At(A, K), En("I")>>, <<At(B, K), At(A, K)>> >>,             \* a k := I, b k := a k   (simultaneous: b k gets the old a k)
             << <<At(A, K), En("C")>>, <<X, FalseC>> >>,                      \* a k := C, x := false
             << <<A, B>>, <<X, TrueC>> >> >>                                  \* a := b, x := true
          ELSE
          << << <<At(A, K), En("T")>> >>,                                     \* a k := T
             << <<At(A, K), En("C")>>, <<X, FalseC>> >>,                      \* a k := C, x := false
             << <<Y, En("I")>>, <<At(A, K), Y>> >>,                           \* y := I, a k := y   (simultaneous: a k gets the old y)
             << <<Y, At(A, K)>> >>,                                           \* y := a k
             << <<At(A, K), En("I")>>, <<X, TrueC>> >>,                       \* a k := I, x := true
             << <<X, FalseC>>, <<Y, En("C")>> >> >>                           \* x := false, y := C
InvSeq == IF TwoArr THEN
          << Inv(<<"i", "j">>, Not(And(EqN(At(B, PI), En("C")), EqN(At(A, PJ), En("T"))))),   \* ~(b i = C & a j = T)
             Inv(<<"i">>, Or(EqN(At(B, PI), At(A, PI)), EqB(X, FalseC))),                       \* b i = a i | x = false
             Inv(<<"i">>, Not(And(EqN(At(A, PI), En("C")), EqB(X, TrueC)))) >>                  \* ~(a i = C & x = true)
          ELSE
          << Inv(<<"i", "j">>, Not(And(EqN(At(A, PI), En("C")), EqN(At(A, PJ), En("C"))))),   \* ~(a i = C & a j = C)
             Inv(<<"i">>, Not(And(EqN(At(A, PI), En("C")), EqB(X, TrueC)))),                    \* ~(a i = C & x = true)
             Inv(<<"i">>, Or(Not(EqN(At(A, PI), En("C"))), EqN(Y, En("T")))),                   \* ~(a i = C) | y = T
             Inv(<< >>, Not(And(EqB(X, TrueC), EqN(Y, En("C"))))),                              \* ~(x = true & y = C)
             Inv(<<"j", "i">>, Not(And(EqN(At(A, PJ), En("T")), EqN(At(A, PI), Y)))) >>         \* ~(a j = T & a i = y)
Sys(nm, vs, en, rs, ivs) == [name |-> nm, vars |-> vs, enum |-> en, rules |-> rs, invs |-> ivs]
GenRules == { Rule(g, as) : g \in Rng(Take(GuardSeq, NGuards)), as \in Rng(Take(AsgSeq, NAsgs)) }
GenInvs == Rng(Take(InvSeq, NInvs))
Singles == { Sys("gen", GenVars, GenEnum, <<r>>, <<iv>>) : r \in GenRules, iv \in GenInvs }
           \cup { Sys("gen", GenVars, GenEnum, <<r>>, <<p[1], p[2]>>) : r \in GenRules, p \in { q \in GenInvs \X GenInvs : q[1] # q[2] } }

\* ---------------------------------------------------------------- the mutual-exclusion protocol (paraverifier/examples/mutual_ex.json)
MN == V("n", ArrT(NatT))
MVars == << <<"n", ArrT(NatT)>>, <<"x", BoolT>> >>
MEnum == <<"I", "T", "C", "E">>
MRules == << Rule(EqN(At(MN, K), En("I")), << <<At(MN, K), En("T")>> >>),
             Rule(And(EqN(At(MN, K), En("T")), EqB(X, TrueC)), << <<At(MN, K), En("C")>>, <<X, FalseC>> >>),
             Rule(EqN(At(MN, K), En("C")), << <<At(MN, K), En("E")>> >>),
             Rule(EqN(At(MN, K), En("E")), << <<At(MN, K), En("I")>>, <<X, TrueC>> >>) >>
MInvs == << Inv(<<"i", "j">>, Not(And(EqN(At(MN, PI), En("C")), EqN(At(MN, PJ), En("C"))))),
            Inv(<<"i">>, Not(And(EqN(At(MN, PI), En("C")), EqB(X, TrueC)))),
            Inv(<<"i", "j">>, Not(And(EqN(At(MN, PI), En("C")), EqN(At(MN, PJ), En("E"))))),
            Inv(<<"i">>, Not(And(EqN(At(MN, PI), En("E")), EqB(X, TrueC)))),
            Inv(<<"i", "j">>, Not(And(EqN(At(MN, PI), En("E")), EqN(At(MN, PJ), En("E"))))) >>
\* broken variants: entering the critical section without testing the flag; leaving it without clearing the cell
BadEnter == Rule(EqN(At(MN, K), En("T")), << <<At(MN, K), En("C")>>, <<X, FalseC>> >>)
BadExit == Rule(EqN(At(MN, K), En("E")), << <<X, TrueC>> >>)
IncSeqs(sq) == { s \in UNION { [1..m -> 1..Len(sq)] : m \in 2..Len(sq) } : \A i \in 1..(Len(s) - 1) : s[i] < s[i + 1] }
Multi == { Sys("mutual_ex", MVars, MEnum, [i \in 1..Len(s) |-> MRules[s[i]]], MInvs) : s \in IncSeqs(MRules) }
         \cup { Sys("mutual_bad", MVars, MEnum, <<MRules[1], BadEnter, MRules[3], MRules[4]>>, MInvs),
                Sys("mutual_bad", MVars, MEnum, <<MRules[1], MRules[2], MRules[3], BadExit>>, MInvs) }
FullMutex == Sys("mutual_ex", MVars, MEnum, MRules, MInvs)

\* ---------------------------------------------------------------- scope, hints, tuples
SigOf(sy) == [vars |-> sy.vars, enum |-> sy.enum, eidx |-> EIdx(sy.enum), N |-> NProc, sup |-> { sy.vars[i][1] : i \in 1..Len(sy.vars) },
              vals |-> 0..(Len(sy.enum) - 1)]
InjSeqs(S, n) == { s \in [1..n -> S] : \A i, j \in 1..n : i # j => s[i] # s[j] }
Hint(k, inst) == [k |-> k, inst |-> inst]
\* instantiations by pairwise different processes of the case: the parameters of the invariant and of the rule, never both
\* the rule parameter and the invariant parameter it equals
HintsFor(sy, i, r, c) ==
  LET iv == sy.invs[i]  rl == sy.rules[r]
      names == Rng(iv.vars) \cup {rl.param} IN
  { [h |-> i, hint |-> Hint("GUARD", <<>>)], [h |-> i, hint |-> Hint("PRE", <<>>)] }
  \cup UNION { { [h |-> h, hint |-> Hint("INV", s)]
                 : s \in { q \in InjSeqs(names, Len(sy.invs[h].vars)) :
                             ~(c < Len(iv.vars) /\ {rl.param, iv.vars[c + 1]} \subseteq Rng(q)) } }
               : h \in (1..Len(sy.invs)) \ {i} }
Tuples(sy) == UNION { UNION { UNION { { [inv |-> i, rule |-> r, case |-> c, h |-> x.h, hint |-> x.hint] : x \in HintsFor(sy, i, r, c) }
                                      : c \in 0..Len(sy.invs[i].vars) } : r \in 1..Len(sy.rules) } : i \in 1..Len(sy.invs) }
GoalOf(sy, t) == RefGoal(sy.rules[t.rule], sy.invs[t.inv], t.case, t.hint, sy.invs[t.h], SigOf(sy))
GoalParamsOf(sy, t) == GoalParams(sy.rules[t.rule], sy.invs[t.inv], t.hint, {GoalOf(sy, t)}, SigOf(sy))
ValidOn(sy, t) == LET g == GoalOf(sy, t)  sig == SigOf(sy) IN
                  \A s \in States(sig), v \in [GoalParamsOf(sy, t) -> 1..NProc] : EvalB(g, Env(sig, s, v))
Certified(sy) == \A iv \in 1..Len(sy.invs), r \in 1..Len(sy.rules) : \A c \in 0..Len(sy.invs[iv].vars) :
                    \E x \in HintsFor(sy, iv, r, c) : ValidOn(sy, [inv |-> iv, rule |-> r, case |-> c, h |-> x.h, hint |-> x.hint])
WpExactFor(sy, t) ==
  LET sig == SigOf(sy)  rl == sy.rules[t.rule]  iv == sy.invs[t.inv]  hv == sy.invs[t.h]  g == GoalOf(sy, t)
      P == GoalParamsOf(sy, t) IN
  \A s \in States(sig), v \in [P -> 1..NProc] :
      CaseOK(v, rl, iv, t.case) =>
        LET e == Env(sig, s, v) IN
        EvalB(g, e) = (HypDoc(rl, iv, t.hint, hv, e, EvalB(rl.guard, e)) => EvalB(iv.prop, Env(sig, Exec(rl, e), v)))
SysOK(sy) == LET sig == SigOf(sy) IN
             /\ VarTypesOK(sig)
             /\ \A i \in 1..Len(sy.rules) : SupRule(sy.rules[i], sig)
             /\ \A j \in 1..Len(sy.invs) : SupInv(sy.invs[j], sig)

\* ---------------------------------------------------------------- vectors
TupJ(t) == [inv |-> t.inv - 1, rule |-> t.rule - 1, case |-> t.case, h |-> t.h - 1, hint |-> t.hint]
SysJ(sy) == [name |-> sy.name, vars |-> sy.vars, enum |-> sy.enum, rules |-> sy.rules, invs |-> sy.invs,
             tuples |-> LET ts == SetToSeq(Tuples(sy)) IN [i \in 1..Len(ts) |-> TupJ(ts[i])]]
Universe == Singles \cup Multi
EmitAll == /\ \A sy \in Universe : SysOK(sy)
           /\ ndJsonSerialize(IOEnv.VECTOR_FILE, LET us == SetToSeq(Universe) IN [i \in 1..Len(us) |-> SysJ(us[i])])
           /\ PrintT(<<"X06stats", Cardinality(Singles), Cardinality(Multi)>>)

\* ---------------------------------------------------------------- the machine
VARIABLES mode, sys, tup, cert, st, hist
vars == <<mode, sys, tup, cert, st, hist>>
NoTup == [inv |-> 0, rule |-> 0, case |-> 0, h |-> 0, hint |-> Hint("GUARD", <<>>)]
NoSys == Sys("none", << >>, << >>, << >>, << >>)
Init == \/ DoEmit /\ mode = "emit" /\ sys = NoSys /\ tup = NoTup /\ cert = FALSE /\ st = << >> /\ hist = << >> /\ EmitAll
        \/ /\ DoWp /\ mode = "wp" /\ cert = FALSE /\ hist = << >>
           /\ sys \in Singles \cup (IF WpMulti = 2 THEN Multi ELSE IF WpMulti = 1 THEN {FullMutex} ELSE {})
           /\ tup \in Tuples(sys)
           /\ st = << >>
        \/ /\ DoRun /\ mode = "run" /\ hist = << >> /\ tup = NoTup
           /\ sys \in (IF RunSet = 0 THEN Multi ELSE { m \in Multi : Len(m.rules) = 4 })
           /\ cert = Certified(sys)
           /\ st \in { s \in States(SigOf(sys)) : AllInvAt(sys.invs, SigOf(sys), s) }
Fire == /\ mode = "run" /\ (Record => Len(hist) < MaxSteps)
        /\ \E r \in 1..Len(sys.rules), k \in 1..NProc :
             LET e == Env(SigOf(sys), st, (sys.rules[r].param :> k)) IN
             /\ Enabled(sys.rules[r], e)
             /\ st' = Exec(sys.rules[r], e)
             /\ hist' = IF Record THEN Append(hist, [rule |-> r - 1, k |-> k, pre |-> st, post |-> st']) ELSE hist
        /\ UNCHANGED <<mode, sys, tup, cert>>
Finish == /\ mode = "run" /\ Record /\ Len(hist) > 0
          /\ mode' = "done"
          /\ PrintT(<<"X06B", ToJson([name |-> sys.name, vars |-> sys.vars, enum |-> sys.enum, rules |-> sys.rules, steps |-> hist])>>)
          /\ UNCHANGED <<sys, tup, cert, st, hist>>
Next == Fire \/ Finish
Spec == Init /\ [][Next]_vars

\* ---------------------------------------------------------------- properties
WpExact == mode = "wp" => WpExactFor(sys, tup)
Consistent == (mode \in {"run", "done"} /\ cert) => AllInvAt(sys.invs, SigOf(sys), st)
Classified == mode = "run" => (cert <=> sys.name = "mutual_ex")
=============================================================================
