SPECIFICATION Spec
CONSTANTS Wide = FALSE
INVARIANTS NativeAgrees RingLaws RatLaws
CHECK_DEADLOCK FALSE
