--------------------------- MODULE C05_ArithTrace ---------------------------
(* T-specification for C05.  Events come from the real checker (harness/drivers/c05.py): a goal handed to      *)
(* every trusted (level-0) arithmetic step as a one-step proof through theory.check_proof at the default       *)
(* trust level:                                                                                                *)
(*   [tid, key, src, goal (applied form), acc : accepted runs <<[m, h (hypotheses), c (conclusion)]>>,         *)
(*    rej : steps that refused the goal, raised : <<<<m, exception class>>>> steps that raised a foreign one]   *)
(* Clause (one per step, named True_<step>):                                                                   *)
(*   the sequent the checker accepted is TRUE under the meaning C05_HolArith!Val at the types that occur in   *)
(*   it, decided with exact arithmetic; a statement with free variables is refuted by one grid point           *)
(*   where it is false (agreement on the whole grid is only "not refuted").                                    *)
(*   Comparisons of irrational constants of the form  q + c * sqrt r  (sqrt (10^40 + 1) = sqrt (10^40), ...)    *)
(*   are inside the exact fragment: C05_HolArith!SVal / C05_Surd!SCmp decide them by squaring in rational        *)
(*   limb arithmetic, so a step that accepts one on the strength of a floating-point evaluation is judged.       *)
(* Not examined (never judged): statements outside the exact fragment (NA).                                    *)
(* Divergence (informational): a TRUE statement asserted by a step it is not meant for (wrong type/shape),     *)
(*   a conclusion that is not the goal asked (or its documented form), a foreign exception.                    *)
EXTENDS C05_HolArith, TraceLib

\* the truth of the goal is computed once per event; conclusions that are the goal, its negation, the comparison under the goal's
\* negation, or `goal <--> true/false` are read off it (negations only for closed statements: on a grid "not refuted" has no negation)
NegT(t) == CASE t = "T" -> "F" [] t = "F" -> "T" [] OTHER -> "NA"
Verdict(e, tg, r) ==
  IF Len(r.h) > 0 THEN SeqTruth(r.h, r.c)
  ELSE IF r.c = e.goal THEN tg
  ELSE IF ~Closed(e.goal) THEN Truth(r.c)
  ELSE IF r.c = Not(e.goal) \/ e.goal = Not(r.c) \/ r.c = Rel("equals", "bool", e.goal, FalseC) THEN NegT(tg)
  ELSE IF r.c = Rel("equals", "bool", e.goal, TrueC) THEN tg
  ELSE Truth(r.c)
\* an explicit (eagerly evaluated) set of pairs <<index of the accepted run, truth of its sequent>>
Verdicts(e) == LET tg == Truth(e.goal) IN { <<i, Verdict(e, tg, e.acc[i])>> : i \in 1..Len(e.acc) }
ClausesOf(e, vs) == { "True_" \o e.acc[p[1]].m : p \in { q \in vs : q[2] = "F" } }
NontrivialOf(e, vs) == \E p \in vs : p[2] \in {"T", "F"}
OffLabel(e, p) == LET r == e.acc[p[1]] IN (p[2] = "T" /\ ~InDomain(r.m, e.goal)) \/ ~Asked(r.m, e.goal, r.c) \/ Len(r.h) > 0
DivergesOf(e, vs) == (\E p \in vs : OffLabel(e, p)) \/ Len(e.raised) > 0
TNext == LET e == Trace[l]  vs == Verdicts(e) IN TStep(e.tid, ClausesOf(e, vs), NontrivialOf(e, vs), DivergesOf(e, vs))
TSpec == TInit /\ [][TNext]_l
=============================================================================
