SPECIFICATION Spec
CONSTANTS MaxOps = 3
 MaxLines = 11
 MaxDepth = 4
 Emit = TRUE
INVARIANTS ShapeOK ArithmeticIsPosition NewLinesNumbered DependsIsVisibility VisibilityPreserved IdsDistinct Numbered DecrUndoesIncr
CHECK_DEADLOCK FALSE
