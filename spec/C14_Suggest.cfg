SPECIFICATION Spec
CONSTANTS Props = {1,2,3,4}
 Trivial = {4}
INVARIANT GoalsAdvertised
INVARIANT SolvesLeavesNone
INVARIANT ClosedOnesAreProved
INVARIANT FactAppears
CHECK_DEADLOCK FALSE
