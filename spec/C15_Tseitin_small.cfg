SPECIFICATION Spec
CONSTANTS Atoms = {"a", "b", "c"}
 FullConn = 2
 RepFull = FALSE
 MaxConn = 2
INVARIANT RefTheoremValid
INVARIANT RefEquisat
INVARIANT RefDefinitional
POSTCONDITION Emit
CHECK_DEADLOCK FALSE
