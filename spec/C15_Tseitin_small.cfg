SPECIFICATION Spec
CONSTANTS Atoms = {"a", "b", "c"}
 FullConn = 2
 RepFull = FALSE
 MaxConn = 2
 ClashAtoms = {"a"}
 XAtoms = {"x1", "x2"}
 ClashConn = 2
 ConstAtoms = {"a", "b"}
 ConstConn = 1
 WithConsts = FALSE
INVARIANT RefTheoremValid
INVARIANT RefEquisat
INVARIANT RefTopIsVariable
INVARIANT RefDefinitional
INVARIANT RefConservative
POSTCONDITION Emit
CHECK_DEADLOCK FALSE
