\* default configuration for manual runs: slice f2, the algorithm of the pinned commit (expected: ImplRefines violated).
\* ./check C02 generates the configurations it runs (variant derived from the code) under .work/C02/.
SPECIFICATION ISpec
CONSTANTS MaxItems = 2
 MaxSub = 0
 MaxBlocks = 0
 MaxDepth = 1
 MaxLeaves = 99
 Lean = FALSE
 Budget = 2
 IdOffs <- IdOffs3
 Rules = {"assume", "implies_intr", "implies_elim", "substitution", "theorem", "sorry", "", "subproof", "verif_gap1"}
 ArgKinds = {}
 ArityOffs <- ArityOffs1
 MaxAlias = 0
 Emit = FALSE
 FxIdPos = FALSE
 FxNegIdx = FALSE
 FxEmpty = FALSE
 FxExtNg = FALSE
 FxExtCmp = FALSE
 FxArgSig = FALSE
 FxPosOcc = FALSE
INVARIANT ImplRefines
INVARIANT ImplNoGaps
INVARIANT ImplGapsExact
INVARIANT ComputeOnlyPlain
CHECK_DEADLOCK FALSE
