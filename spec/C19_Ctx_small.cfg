SPECIFICATION Spec
CONSTANTS MaxH = 2
 HPairs <- HP3
 NBodies = 2
 Idents <- I123
INVARIANT StepsSameValue
INVARIANT FactsUnchanged
INVARIANT IdentCompared
POSTCONDITION Emit
CHECK_DEADLOCK FALSE
