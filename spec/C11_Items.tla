------------------------------ MODULE C11_Items ------------------------------
(* S-specification for C11: definitional extension of a theory.                                            *)
(*   state    thy   = [types, consts, thms]   the theory (signature + axioms/definitions)                    *)
(*            d     = the candidate definition offered to the theory  [name, T, args, rhs]                  *)
(*            phase = "offered" | "added" | "refused"                                                       *)
(*            queue = the candidates still to be offered (histories of definitions in ONE theory)            *)
(*   init     every candidate of the universe below is offered to the base theory (one initial state each);  *)
(*            every HISTORY (sequence of definitions of one name at instance types that are equal, more      *)
(*            general, crossing or disjoint) is offered item by item to the growing theory                   *)
(*   actions  Add     the candidate satisfies the literal conditions, its name is new and the equation is       *)
(*                    well-typed over the extended signature: constant + equation are added                  *)
(*            Refuse  otherwise                                                                              *)
(*   property ConservativeIfOK   SyntacticOK(d) => Conservative(d, N)     (the two readings of the statement) *)
(*            AddedWellTyped     everything in an extended theory is well-typed over ITS signature           *)
(*            OnlyOKAdded        a theory only grows by candidates that satisfy the conditions                *)
(*            AllExaminable      every acceptable candidate can be judged semantically (no vacuous implication)   *)
(*            UniqueGround       no ground instance of a constant is defined twice in a theory (enumeration of   *)
(*                               ground instances; independent of the unification that decides overlap)          *)
(* The universe: names new ("c"), overloadable ("ov" :: 'a) and already declared ("neg"); constant types of    *)
(* arity <= 2 over bool / 'a; left-hand sides with variables, REPEATED variables, constants and applications  *)
(* as arguments, partial application; right-hand sides = all well-typed terms of depth <= Depth over the      *)
(* arguments, EXTRA free and schematic variables, the logical constants, the constant being defined (self-    *)
(* reference), the same name at OTHER types (overlapping or not), and closed polymorphic formulas whose type  *)
(* variable ('b or schematic ?'b) is absent from the constant's type.                                        *)
(* The post-condition writes every candidate with both verdicts as a vector for replay into server/items.py. *)
EXTENDS C11_Def, FiniteSets, Json, IOUtils

CONSTANTS Depth, N, Rich

B == BoolT
TA == <<"tv","a">>
TB == <<"tv","b">>
cTrue == <<"const","true",B>>
Neg == <<"const","neg",FunT(B,B)>>
Conj == <<"const","conj",FunT(B,FunT(B,B))>>
\* closed polymorphic formula "the type T has exactly one element", used as an atom of the generator (a macro)
One(T) == App(AllC(T), <<"abs", T, App(AllC(T), <<"abs", T, App(App(EqC(T), <<"bound",1>>), <<"bound",0>>)>>)>>)
MacroA == <<"const","$one_a",B>>
MacroB == <<"const","$one_b",B>>
MacroS == <<"const","$one_sb",B>>          \* the same formula over the SCHEMATIC type variable ?'b
SB == <<"stv","b">>
\* a polymorphic constant first at a GROUND type, then at a type with the extra variable (and the other way round)
OvAt(T) == <<"const","ov",T>>
MacroGP == <<"const","$ground_poly",B>>
MacroPG == <<"const","$poly_ground",B>>
EqOv(T) == App(App(EqC(T), OvAt(T)), OvAt(T))
RECURSIVE Expand(_)
Expand(t) == IF t = MacroA THEN One(TA) ELSE IF t = MacroB THEN One(TB) ELSE IF t = MacroS THEN One(SB)
             ELSE IF t = MacroGP THEN App(App(EqC(B), EqOv(B)), EqOv(TB))
             ELSE IF t = MacroPG THEN App(App(EqC(B), EqOv(TB)), EqOv(B))
             ELSE CASE t[1] = "comb" -> <<"comb", Expand(t[2]), Expand(t[3])>>
                    [] t[1] = "abs" -> <<"abs", t[2], Expand(t[3])>>
                    [] OTHER -> t

\* ---------------------------------------------------------------- the base theory (logic_base restricted, plus an overloaded constant)
Decl(T, ov) == [T |-> T, ov |-> ov, insts |-> {}]      \* insts: the instance types at which an overloadable name has been defined
BaseConsts == ("equals" :> Decl(FunT(TA,FunT(TA,B)), FALSE)) @@ ("implies" :> Decl(FunT(B,FunT(B,B)), FALSE))
              @@ ("all" :> Decl(FunT(FunT(TA,B),B), FALSE)) @@ ("true" :> Decl(B, FALSE)) @@ ("false" :> Decl(B, FALSE))
              @@ ("neg" :> Decl(FunT(B,B), FALSE)) @@ ("conj" :> Decl(FunT(B,FunT(B,B)), FALSE)) @@ ("ov" :> Decl(TA, TRUE)) @@ ("ov2" :> Decl(FunT(TA,FunT(TB,B)), TRUE))
BaseThy == [types |-> << <<"bool",0>>, <<"fun",2>> >>, consts |-> BaseConsts, thms |-> {}, defs |-> <<>>]

\* ---------------------------------------------------------------- the universe of candidates
Names == {"c", "ov", "neg", "ov2"}
\* instance types of ov2 :: 'a => 'b => bool : polymorphic/ground, ground/polymorphic (CROSSES the first: neither is an
\* instance of the other, yet they have a common instance), their common instance, a disjoint one, a generalisation
T2L == FunT(FunT(TA,B), FunT(FunT(B,B), B))
T2R == FunT(FunT(B,B), FunT(FunT(TA,B), B))
T2G == FunT(FunT(B,B), FunT(FunT(B,B), B))
T2D == FunT(B, FunT(FunT(TA,B), B))
T2P == FunT(FunT(TA,B), FunT(FunT(TB,B), B))
\* DISJOINT from all of the above although its two type variables are instantiated with the same type constructors (fun, fun) as
\* in T2L / T2R / T2G / T2P: a record of instances must not be keyed by constructor names
T2E == FunT(FunT(B,FunT(B,B)), FunT(FunT(B,B), B))
Ov2Types == {T2L, T2R, T2G, T2D, T2P, T2E}
BaseTypes == {B, FunT(B,B), FunT(TA,B), FunT(TA,TA)}
ConstTypes(nm) == IF nm = "neg" THEN {FunT(B,B)}
                  ELSE IF nm = "ov2" THEN {T2L}
                  ELSE IF nm = "c" THEN BaseTypes \cup {FunT(TA,FunT(TA,B))} \cup (IF Rich THEN {FunT(B,FunT(B,B)), FunT(FunT(TA,B),B)} ELSE {})
                  ELSE BaseTypes \cup (IF Rich THEN {FunT(B,FunT(B,B)), FunT(TA,FunT(TA,B))} ELSE {})
RECURSIVE ArgTys(_)
ArgTys(T) == IF IsFun(T) THEN <<T[3][1]>> \o ArgTys(T[3][2]) ELSE <<>>
RECURSIVE RestT(_,_)
RestT(T, j) == IF j = 0 THEN T ELSE RestT(T[3][2], j - 1)
VarAt(i, A) == <<"var", IF i = 1 THEN "x" ELSE "y", A>>
\* arguments offered at position i: the variable, and adversarial ones
Pool(As, i) == LET A == As[i] IN
   {VarAt(i, A)}
   \cup (IF i = 2 /\ As[1] = A THEN {VarAt(1, A)} ELSE {})                      \* repeated variable
   \cup (IF A = B THEN {cTrue, App(Neg, VarAt(1, B))} ELSE {})                  \* constant / application as argument
   \cup (IF A = TA THEN {<<"const","ov",TA>>} ELSE {})                           \* constant of variable type
ArgSeqs(T) == LET As == ArgTys(T) IN
   {<<>>} \cup (IF Len(As) >= 1 THEN { <<a>> : a \in Pool(As, 1) } ELSE {})
          \cup (IF Len(As) >= 2 THEN { <<a, b>> : a \in Pool(As, 1), b \in Pool(As, 2) } ELSE {})
\* atoms of right-hand sides
OtherInst(nm, T) == IF nm = "neg" THEN {}
                    ELSE IF nm = "ov2" THEN Ov2Types \ {T}
                    ELSE IF Rich THEN {B, TA, FunT(B,B)} \ {T}
                    ELSE IF nm = "ov" THEN {B, TA} \ {T}
                    ELSE IF T = FunT(B,B) THEN {B} ELSE {FunT(B,B)}
SigOf(nm, T, args) ==
   UNION { FreeVarsOf(args[i]) : i \in 1..Len(args) }
   \cup {<<"var","z",B>>, <<"svar","z",B>>}                                       \* extra free variables
   \cup {cTrue, Neg, EqC(TA), MacroB, MacroS}
   \cup {<<"const", nm, T>>}                                                     \* self-reference
   \cup { <<"const",nm,T2>> : T2 \in OtherInst(nm, T) }                          \* the same name at other types (overlapping or not)
   \cup (IF Rich THEN {EqC(B), Conj, MacroA, AllC(TA)} ELSE {})
GenArgTypes(nm) == {B, TA, FunT(TA,B)} \cup (IF Rich \/ nm = "ov2" THEN {FunT(B,B)} ELSE {})
\* a second, shallow family of right-hand sides over formulas in which the ORDER of occurrences of a constant matters
SigX == {Neg, MacroGP, MacroPG}
Cand(nm, T, args, rhs) == [name |-> nm, T |-> T, args |-> args, rhs |-> rhs]
CandsFor(nm, T, args) == { Cand(nm, T, args, Expand(r)) : r \in Gen(SigOf(nm, T, args), GenArgTypes(nm), RestT(T, Len(args)), Depth, <<>>)
                                                              \cup Gen(SigX, {B}, RestT(T, Len(args)), 1, <<>>) }
Candidates == UNION { UNION { UNION { CandsFor(nm, T, args) : args \in ArgSeqs(T) } : T \in ConstTypes(nm) } : nm \in Names }

\* ---------------------------------------------------------------- histories: several definitions of ONE name in one theory
VarsFor(T) == LET As == ArgTys(T) IN [i \in 1..Len(As) |-> VarAt(i, As[i])]
HistTypes(nm) == IF nm = "ov2" THEN Ov2Types ELSE IF nm = "ov" THEN {B, FunT(B,B), FunT(TA,TA), FunT(TA,B)} ELSE {B, FunT(B,B)}
HistCands(nm) == { Cand(nm, T, VarsFor(T), r) : T \in { T \in HistTypes(nm) : RestT(T, Len(ArgTys(T))) = B }, r \in {cTrue, App(Neg, cTrue)} }
                 \cup { Cand(nm, T, <<VarAt(1, TA)>>, VarAt(1, TA)) : T \in HistTypes(nm) \cap {FunT(TA,TA)} }
HistCands1 == { x \in HistCands("ov2") : x.rhs = cTrue }      \* three definitions in a row: every triple of instance types
Histories == UNION { { <<a, b>> : a \in HistCands(nm), b \in HistCands(nm) } : nm \in {"ov2", "ov", "c"} }
             \cup (IF Rich THEN { <<a, b, c>> : a \in HistCands("ov2"), b \in HistCands("ov2"), c \in HistCands("ov2") }
                         ELSE { <<a, b, c>> : a \in HistCands1, b \in HistCands1, c \in HistCands1 })

\* ---------------------------------------------------------------- the machine
VARIABLES thy, d, phase, queue
vars == <<thy, d, phase, queue>>
DefProp(x) == App(App(EqC(TypeOf(Lhs(x), <<>>)), Lhs(x)), x.rhs)
\* the name is new: not declared; or declared overloadable, the type is an instance of the declared one by type constructors,
\* and it does not OVERLAP any instance type at which the name has been defined already
NewName(t, x) == IF x.name \notin DOMAIN t.consts THEN TRUE
                 ELSE LET dcl == t.consts[x.name] m == TMatch(ToStv(dcl.T), x.T, <<>>) IN
                      /\ dcl.ov /\ m # ErrAL /\ \A i \in 1..Len(m) : m[i][2][1] = "tc"
                      /\ \A p \in dcl.insts : ~Overlaps(p, x.T)
\* the signature after the definition: a new name is declared at the type given; an instance of an overloaded name is recorded
ExtConsts(t, x) == IF x.name \in DOMAIN t.consts
                   THEN [t.consts EXCEPT ![x.name] = [@ EXCEPT !.insts = @ \cup {x.T}]]
                   ELSE (x.name :> Decl(x.T, FALSE)) @@ t.consts
Extend(t, x) == [types |-> t.types, consts |-> ExtConsts(t, x), thms |-> t.thms \cup {DefProp(x)}, defs |-> Append(t.defs, x)]
CSigOf(cs) == LET ks == SetToSeq(DOMAIN cs) IN [i \in 1..Len(ks) |-> <<ks[i], cs[ks[i]].T>>]
CSig(t) == CSigOf(t.consts)
\* the defining equation is well-typed over the signature extended by the constant (a NEW name must not occur at a non-instance type)
WellFormed(t, x) == PropOK(DefProp(x), CSigOf(ExtConsts(t, x)), t.types)
Acceptable(t, x) == SyntacticOK(x) /\ NewName(t, x) /\ WellFormed(t, x)
Init == /\ thy = BaseThy /\ phase = "offered"
        /\ \/ d \in Candidates /\ queue = <<>>
           \/ \E h \in Histories : d = h[1] /\ queue = Tail(h)
Add == /\ phase = "offered" /\ Acceptable(thy, d)
       /\ thy' = Extend(thy, d) /\ phase' = "added" /\ UNCHANGED <<d, queue>>
Refuse == /\ phase = "offered" /\ ~Acceptable(thy, d)
          /\ phase' = "refused" /\ UNCHANGED <<thy, d, queue>>
OfferNext == /\ phase \in {"added", "refused"} /\ queue # <<>>
             /\ d' = Head(queue) /\ queue' = Tail(queue) /\ phase' = "offered" /\ UNCHANGED thy
Next == Add \/ Refuse \/ OfferNext
Spec == Init /\ [][Next]_vars

\* ---------------------------------------------------------------- properties
Small(x) == OnlyBase(x.T) /\ DomSize(x.T, N) <= 16
ConservativeIfOK == (SyntacticOK(d) /\ NewName(BaseThy, d) /\ CExaminable(d, N)) => Conservative(d, N)
AllExaminable == (SyntacticOK(d) /\ NewName(BaseThy, d) /\ Small(d)) => CExaminable(d, N)
AddedWellTyped == \A p \in thy.thms : PropOK(p, CSig(thy), thy.types)
OnlyOKAdded == /\ thy.thms = { DefProp(thy.defs[i]) : i \in 1..Len(thy.defs) }
               /\ \A i \in 1..Len(thy.defs) : SyntacticOK(thy.defs[i])
               /\ phase = "added" => Len(thy.defs) > 0 /\ thy.defs[Len(thy.defs)] = d
\* ground instances of a type: its type variables replaced by bool / bool => bool in all ways
RECURSIVE TvSubst(_,_)
TvSubst(T, f) == IF T[1] = "tv" THEN f[<<"tv",T[2]>>] ELSE IF T[1] = "stv" THEN T
                 ELSE <<"tc", T[2], [i \in 1..Len(T[3]) |-> TvSubst(T[3][i], f)]>>
GroundInsts(T) == { TvSubst(T, f) : f \in [TyVarsOf(T) -> {B, FunT(B,B)}] }
UniqueGround == \A i, j \in 1..Len(thy.defs) : (i < j /\ thy.defs[i].name = thy.defs[j].name)
                                                => GroundInsts(thy.defs[i].T) \cap GroundInsts(thy.defs[j].T) = {}
\* ---------------------------------------------------------------- vectors
ToJ(x) == LET ex == CExaminable(x, N) IN
          [name |-> x.name, T |-> x.T, args |-> x.args, rhs |-> x.rhs,
           sok |-> SyntacticOK(x), exam |-> ex, cons |-> IF ex THEN Conservative(x, N) ELSE FALSE, newname |-> NewName(BaseThy, x), wf |-> WellFormed(BaseThy, x)]
\* a history with the reference outcome of every step
RECURSIVE Run(_,_)
Run(t, h) == IF h = <<>> THEN <<>>
             ELSE LET ok == Acceptable(t, Head(h)) IN
                  <<[name |-> Head(h).name, T |-> Head(h).T, args |-> Head(h).args, rhs |-> Head(h).rhs, accept |-> ok]>>
                  \o Run(IF ok THEN Extend(t, Head(h)) ELSE t, Tail(h))
Post == LET cs == SetToSeq(Candidates) hs == SetToSeq(Histories) IN
        /\ ndJsonSerialize(IOEnv.VECTOR_FILE, [i \in 1..Len(cs) |-> ToJ(cs[i])])
        /\ ndJsonSerialize(IOEnv.HIST_FILE, [i \in 1..Len(hs) |-> [steps |-> Run(BaseThy, hs[i])]])
        /\ PrintT(<<"candidates", Len(cs), "histories", Len(hs)>>)
=============================================================================
