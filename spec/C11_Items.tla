------------------------------ MODULE C11_Items ------------------------------
(* S-specification for C11: definitional extension of a theory.                                            *)
(*   state    thy   = [types, consts, thms]   the theory (signature + axioms/definitions)                    *)
(*            d     = the candidate definition offered to the theory  [name, T, args, rhs]                  *)
(*            phase = "offered" | "added" | "refused"                                                       *)
(*   init     every candidate of the universe below is offered to the base theory (one initial state each) *)
(*   actions  Add     the candidate satisfies the literal conditions, its name is new and the equation is       *)
(*                    well-typed over the extended signature: constant + equation are added                  *)
(*            Refuse  otherwise                                                                              *)
(*   property ConservativeIfOK   SyntacticOK(d) => Conservative(d, N)     (the two readings of the statement) *)
(*            AddedWellTyped     everything in an extended theory is well-typed over ITS signature           *)
(*            OnlyOKAdded        a theory only grows by candidates that satisfy the conditions                *)
(*            AllExaminable      every acceptable candidate can be judged semantically (no vacuous implication)   *)
(* The universe: names new ("c"), overloadable ("ov" :: 'a) and already declared ("neg"); constant types of    *)
(* arity <= 2 over bool / 'a; left-hand sides with variables, REPEATED variables, constants and applications  *)
(* as arguments, partial application; right-hand sides = all well-typed terms of depth <= Depth over the      *)
(* arguments, EXTRA free and schematic variables, the logical constants, the constant being defined (self-    *)
(* reference), the same name at OTHER types (overlapping or not), and closed polymorphic formulas whose type  *)
(* variable ('b or schematic ?'b) is absent from the constant's type.                                        *)
(* The post-condition writes every candidate with both verdicts as a vector for replay into server/items.py. *)
EXTENDS C11_Def, FiniteSets, Json, IOUtils

CONSTANTS Depth, N, Rich

B == BoolT
TA == <<"tv","a">>
TB == <<"tv","b">>
cTrue == <<"const","true",B>>
Neg == <<"const","neg",FunT(B,B)>>
Conj == <<"const","conj",FunT(B,FunT(B,B))>>
\* closed polymorphic formula "the type T has exactly one element", used as an atom of the generator (a macro)
One(T) == App(AllC(T), <<"abs", T, App(AllC(T), <<"abs", T, App(App(EqC(T), <<"bound",1>>), <<"bound",0>>)>>)>>)
MacroA == <<"const","$one_a",B>>
MacroB == <<"const","$one_b",B>>
MacroS == <<"const","$one_sb",B>>          \* the same formula over the SCHEMATIC type variable ?'b
SB == <<"stv","b">>
RECURSIVE Expand(_)
Expand(t) == IF t = MacroA THEN One(TA) ELSE IF t = MacroB THEN One(TB) ELSE IF t = MacroS THEN One(SB)
             ELSE CASE t[1] = "comb" -> <<"comb", Expand(t[2]), Expand(t[3])>>
                    [] t[1] = "abs" -> <<"abs", t[2], Expand(t[3])>>
                    [] OTHER -> t

\* ---------------------------------------------------------------- the base theory (logic_base restricted, plus an overloaded constant)
Decl(T, ov) == [T |-> T, ov |-> ov]
BaseConsts == ("equals" :> Decl(FunT(TA,FunT(TA,B)), FALSE)) @@ ("implies" :> Decl(FunT(B,FunT(B,B)), FALSE))
              @@ ("all" :> Decl(FunT(FunT(TA,B),B), FALSE)) @@ ("true" :> Decl(B, FALSE)) @@ ("false" :> Decl(B, FALSE))
              @@ ("neg" :> Decl(FunT(B,B), FALSE)) @@ ("conj" :> Decl(FunT(B,FunT(B,B)), FALSE)) @@ ("ov" :> Decl(TA, TRUE))
BaseThy == [types |-> << <<"bool",0>>, <<"fun",2>> >>, consts |-> BaseConsts, thms |-> {}]

\* ---------------------------------------------------------------- the universe of candidates
Names == {"c", "ov", "neg"}
BaseTypes == {B, FunT(B,B), FunT(TA,B), FunT(TA,TA)}
ConstTypes(nm) == IF nm = "neg" THEN {FunT(B,B)}
                  ELSE IF nm = "c" THEN BaseTypes \cup {FunT(TA,FunT(TA,B))} \cup (IF Rich THEN {FunT(B,FunT(B,B)), FunT(FunT(TA,B),B)} ELSE {})
                  ELSE BaseTypes \cup (IF Rich THEN {FunT(B,FunT(B,B)), FunT(TA,FunT(TA,B))} ELSE {})
RECURSIVE ArgTys(_)
ArgTys(T) == IF IsFun(T) THEN <<T[3][1]>> \o ArgTys(T[3][2]) ELSE <<>>
RECURSIVE RestT(_,_)
RestT(T, j) == IF j = 0 THEN T ELSE RestT(T[3][2], j - 1)
VarAt(i, A) == <<"var", IF i = 1 THEN "x" ELSE "y", A>>
\* arguments offered at position i: the variable, and adversarial ones
Pool(As, i) == LET A == As[i] IN
   {VarAt(i, A)}
   \cup (IF i = 2 /\ As[1] = A THEN {VarAt(1, A)} ELSE {})                      \* repeated variable
   \cup (IF A = B THEN {cTrue, App(Neg, VarAt(1, B))} ELSE {})                  \* constant / application as argument
   \cup (IF A = TA THEN {<<"const","ov",TA>>} ELSE {})                           \* constant of variable type
ArgSeqs(T) == LET As == ArgTys(T) IN
   {<<>>} \cup (IF Len(As) >= 1 THEN { <<a>> : a \in Pool(As, 1) } ELSE {})
          \cup (IF Len(As) >= 2 THEN { <<a, b>> : a \in Pool(As, 1), b \in Pool(As, 2) } ELSE {})
\* atoms of right-hand sides
OtherInst(nm, T) == IF nm = "neg" THEN {}
                    ELSE IF Rich THEN {B, TA, FunT(B,B)} \ {T}
                    ELSE IF nm = "ov" THEN {B, TA} \ {T}
                    ELSE IF T = FunT(B,B) THEN {B} ELSE {FunT(B,B)}
SigOf(nm, T, args) ==
   UNION { FreeVarsOf(args[i]) : i \in 1..Len(args) }
   \cup {<<"var","z",B>>, <<"svar","z",B>>}                                       \* extra free variables
   \cup {cTrue, Neg, EqC(TA), MacroB, MacroS}
   \cup {<<"const", nm, T>>}                                                     \* self-reference
   \cup { <<"const",nm,T2>> : T2 \in OtherInst(nm, T) }                          \* the same name at other types (overlapping or not)
   \cup (IF Rich THEN {EqC(B), Conj, MacroA, AllC(TA)} ELSE {})
GenArgTypes == {B, TA, FunT(TA,B)} \cup (IF Rich THEN {FunT(B,B)} ELSE {})
Cand(nm, T, args, rhs) == [name |-> nm, T |-> T, args |-> args, rhs |-> rhs]
CandsFor(nm, T, args) == { Cand(nm, T, args, Expand(r)) : r \in Gen(SigOf(nm, T, args), GenArgTypes, RestT(T, Len(args)), Depth, <<>>) }
Candidates == UNION { UNION { UNION { CandsFor(nm, T, args) : args \in ArgSeqs(T) } : T \in ConstTypes(nm) } : nm \in Names }

\* ---------------------------------------------------------------- the machine
VARIABLES thy, d, phase
vars == <<thy, d, phase>>
DefProp(x) == App(App(EqC(TypeOf(Lhs(x), <<>>)), Lhs(x)), x.rhs)
\* the name is new: not declared, or declared overloadable and the type is a closed instance of the declared one
RECURSIVE Closed(_)
Closed(T) == IF T[1] \in {"tv","stv"} THEN FALSE ELSE \A i \in 1..Len(T[3]) : Closed(T[3][i])
NewName(t, x) == IF x.name \notin DOMAIN t.consts THEN TRUE
                 ELSE t.consts[x.name].ov /\ LET m == TMatch(ToStv(t.consts[x.name].T), x.T, <<>>) IN
                                             m # ErrAL /\ \A i \in 1..Len(m) : Closed(m[i][2])
\* the signature after the definition: a new name is declared at the type given (an instance of an overloaded name is not)
ExtConsts(t, x) == IF x.name \in DOMAIN t.consts THEN t.consts ELSE (x.name :> Decl(x.T, FALSE)) @@ t.consts
Extend(t, x) == [types |-> t.types, consts |-> ExtConsts(t, x), thms |-> t.thms \cup {DefProp(x)}]
CSigOf(cs) == LET ks == SetToSeq(DOMAIN cs) IN [i \in 1..Len(ks) |-> <<ks[i], cs[ks[i]].T>>]
CSig(t) == CSigOf(t.consts)
\* the defining equation is well-typed over the signature extended by the constant (a NEW name must not occur at a non-instance type)
WellFormed(t, x) == PropOK(DefProp(x), CSigOf(ExtConsts(t, x)), t.types)
Acceptable(t, x) == SyntacticOK(x) /\ NewName(t, x) /\ WellFormed(t, x)
Init == thy = BaseThy /\ d \in Candidates /\ phase = "offered"
Add == /\ phase = "offered" /\ Acceptable(thy, d)
       /\ thy' = Extend(thy, d) /\ phase' = "added" /\ UNCHANGED d
Refuse == /\ phase = "offered" /\ ~Acceptable(thy, d)
          /\ phase' = "refused" /\ UNCHANGED <<thy, d>>
Next == Add \/ Refuse
Spec == Init /\ [][Next]_vars

\* ---------------------------------------------------------------- properties
ConservativeIfOK == (SyntacticOK(d) /\ NewName(BaseThy, d) /\ CExaminable(d, N)) => Conservative(d, N)
AllExaminable == (SyntacticOK(d) /\ NewName(BaseThy, d)) => CExaminable(d, N)
AddedWellTyped == \A p \in thy.thms : PropOK(p, CSig(thy), thy.types)
OnlyOKAdded == thy.thms # {} => phase = "added" /\ thy.thms = {DefProp(d)} /\ SyntacticOK(d)
\* ---------------------------------------------------------------- vectors
ToJ(x) == LET ex == CExaminable(x, N) IN
          [name |-> x.name, T |-> x.T, args |-> x.args, rhs |-> x.rhs,
           sok |-> SyntacticOK(x), exam |-> ex, cons |-> IF ex THEN Conservative(x, N) ELSE FALSE, newname |-> NewName(BaseThy, x), wf |-> WellFormed(BaseThy, x)]
Post == LET cs == SetToSeq(Candidates) IN
        /\ ndJsonSerialize(IOEnv.VECTOR_FILE, [i \in 1..Len(cs) |-> ToJ(cs[i])])
        /\ PrintT(<<"candidates", Len(cs)>>)
=============================================================================
