SPECIFICATION Spec
CONSTANTS MaxOps = 8
 MaxObjs = 3
 Fams = {"all"}
 Record = TRUE
 EmitAll = FALSE
 ExtReadd = "refuse"
 PutMode = "refuse"
 TypeMode = "refuse"
 CopyMode = "deep1"
 AttrMode = "tuple"
INVARIANT CopyIsolation
INVARIANT CacheCoherent
INVARIANT InstalledInOrder
INVARIANT PrefixOnRaise
INVARIANT ReaddRefused
INVARIANT DeterminedByExtensions
INVARIANT NoDivergence
CHECK_DEADLOCK FALSE
