----------------------------- MODULE C13_LineEdit -----------------------------
(* S-specification for the line-edit layer of C13 (server/method.py ProofState.add_line_before / remove_line /      *)
(* set_line / replace_id over kernel/proof.py incr_id_after / decr_id), on proofs with blocks nested to any depth.    *)
(* A proof is the pre-order sequence of its lines <<id, uid, prevs>> (C13_Lines); a line is a block iff the next line *)
(* is its child 0.  Actions: Add(id) (a blank line in front of line id, or at the end of a block / of the proof),     *)
(* Remove(id) (the line and, for a block, its lines), Cite(src, tgt) (what set_line does with prevs), and            *)
(* Replace(old, new) = replace_id: every citation of old ANYWHERE in the proof - later lines of its level, lines in   *)
(* later sibling blocks, in blocks nested in those - goes to new, then old is removed with renumbering.              *)
(* Invariants: Contiguous, CitationsTrackItems, NoDangling (C13_Lines, the same definitions the T spec applies to the  *)
(* real code).  With Record = TRUE the behaviour is kept in `hist` and printed by Finish (vectors for the driver       *)
(* mode `lineedit`): EmitAll = TRUE prints every behaviour of 1..MaxOps actions (the driver logs its last step, the     *)
(* earlier ones are the last steps of shorter behaviours), EmitAll = FALSE only those of MaxOps actions (-simulate).   *)
EXTENDS C13_Lines, TLC, Json
CONSTANTS MaxOps, MaxLines, MaxPrevs, Shape, Record, EmitAll
IncrAfter(self, start, n) == LET k == Len(start) IN
   IF Len(self) >= k /\ SubSeq(self, 1, k-1) = SubSeq(start, 1, k-1) /\ self[k] >= start[k]
   THEN [self EXCEPT ![k] = @ + n] ELSE self
DecrId(self, rem) == LET k == Len(rem) IN
   IF Len(self) >= k /\ SubSeq(self, 1, k-1) = SubSeq(rem, 1, k-1) /\ self[k] > rem[k]
   THEN [self EXCEPT ![k] = @ - 1] ELSE self
IsPrefix(a, b) == Len(a) <= Len(b) /\ SubSeq(b, 1, Len(a)) = a
Parent(id) == SubSeq(id, 1, Len(id) - 1)
\* textual order of ids: a block before its lines, then by the first differing number
LexLess(a, b) == \/ Len(a) < Len(b) /\ IsPrefix(a, b)
                 \/ \E j \in 1..(IF Len(a) < Len(b) THEN Len(a) ELSE Len(b)) : SubSeq(a, 1, j-1) = SubSeq(b, 1, j-1) /\ a[j] < b[j]
Kids(p, par) == { x \in LIds(p) : Len(x) = Len(par) + 1 /\ IsPrefix(par, x) }
IsBlock(p, id) == Append(id, 0) \in LIds(p)
AddSlots(p) == LIds(p) \cup { Append(par, Cardinality(Kids(p, par))) : par \in {<<>>} \cup { id \in LIds(p) : IsBlock(p, id) } }
\* incr_proof_item / decr_proof_item touch exactly the later siblings and the lines inside them: the lines whose own id moves
MapLine(ln, f(_)) == IF f(LId(ln)) # LId(ln) THEN << f(LId(ln)), LUid(ln), [k \in 1..Len(LPrevs(ln)) |-> f(LPrevs(ln)[k])] >> ELSE ln
AddLine(p, id, u) ==
  LET inc(x) == IncrAfter(x, id, 1)
      q == [i \in 1..Len(p) |-> MapLine(p[i], inc)]
      n == Cardinality({ i \in 1..Len(p) : LexLess(LId(p[i]), id) })
  IN SubSeq(q, 1, n) \o << <<id, u, <<>> >> >> \o SubSeq(q, n + 1, Len(q))
RemoveLine(p, id) ==
  LET dec(x) == DecrId(x, id)
      r == SelectSeq(p, LAMBDA ln : ~IsPrefix(id, LId(ln)))
  IN [i \in 1..Len(r) |-> MapLine(r[i], dec)]
Redirect(p, old, new) == [i \in 1..Len(p) |-> << LId(p[i]), LUid(p[i]), [k \in 1..Len(LPrevs(p[i])) |-> IF LPrevs(p[i])[k] = old THEN new ELSE LPrevs(p[i])[k]] >>]
AddCite(p, src, tgt) == [i \in 1..Len(p) |-> IF LId(p[i]) = src THEN << LId(p[i]), LUid(p[i]), Append(LPrevs(p[i]), tgt) >> ELSE p[i]]
\* ---- initial proofs (uids 1..n) ----
Shape1 == << << <<0>>, 1, <<>> >>,
             << <<1>>, 2, <<>> >>, << <<1,0>>, 3, << <<0>> >> >>,
                << <<1,1>>, 4, <<>> >>, << <<1,1,0>>, 5, << <<1,0>> >> >>, << <<1,1,1>>, 6, << <<1,1,0>>, <<0>> >> >>,
                << <<1,2>>, 7, << <<1,0>>, <<1,1>> >> >>,
             << <<2>>, 8, << <<0>> >> >>,
             << <<3>>, 9, <<>> >>, << <<3,0>>, 10, << <<2>> >> >>, << <<3,1>>, 11, << <<3,0>>, <<2>> >> >>,
             << <<4>>, 12, << <<1>>, <<3>> >> >> >>
Shape2 == << << <<0>>, 1, <<>> >>, << <<1>>, 2, << <<0>> >> >>,
             << <<2>>, 3, <<>> >>, << <<2,0>>, 4, << <<1>> >> >>, << <<2,1>>, 5, << <<2,0>>, <<1>> >> >>,
             << <<3>>, 6, << <<2>>, <<0>> >> >> >>
InitPrf == IF Shape = 1 THEN Shape1 ELSE Shape2
VARIABLES prf, nextUid, ops, before, lastop, hist, done
vars == <<prf, nextUid, ops, before, lastop, hist, done>>
Init == prf = InitPrf /\ nextUid = Len(InitPrf) + 1 /\ ops = 0 /\ before = InitPrf /\ lastop = <<"none", <<>>, <<>> >> /\ hist = <<>> /\ done = FALSE
PrevsOf(p, id) == LPrevs(p[CHOOSE i \in 1..Len(p) : LId(p[i]) = id])
Step(op, new) == /\ prf' = new /\ before' = prf /\ lastop' = op /\ ops' = ops + 1 /\ UNCHANGED done
                 /\ hist' = IF Record THEN Append(hist, [op |-> op, after |-> new]) ELSE hist
Add(id) == Len(prf) < MaxLines /\ Step(<<"add", id, <<>> >>, AddLine(prf, id, nextUid)) /\ nextUid' = nextUid + 1
Remove(id) == Cardinality(Kids(prf, Parent(id))) > 1 /\ Step(<<"remove", id, <<>> >>, RemoveLine(prf, id)) /\ UNCHANGED nextUid
Cite(s, t) == /\ LCanDependOn(s, t) /\ Len(PrevsOf(prf, s)) < MaxPrevs /\ \A k \in 1..Len(PrevsOf(prf, s)) : PrevsOf(prf, s)[k] # t
              /\ Step(<<"cite", s, t>>, AddCite(prf, s, t)) /\ UNCHANGED nextUid
Replace(old, new) == /\ LCanDependOn(old, new) /\ Cardinality(Kids(prf, Parent(old))) > 1
                     /\ Step(<<"replace", old, new>>, RemoveLine(Redirect(prf, old, new), old)) /\ UNCHANGED nextUid
Finish == /\ Record /\ ~done /\ (IF EmitAll THEN ops >= 1 ELSE ops = MaxOps) /\ done' = TRUE
          /\ PrintT(<<"LE", ToJson([init |-> InitPrf, steps |-> hist, log |-> IF EmitAll THEN "last" ELSE "all"])>>)
          /\ UNCHANGED <<prf, nextUid, ops, before, lastop, hist>>
Edit == /\ ~done /\ ops < MaxOps
        /\ \/ \E id \in AddSlots(prf) : Add(id)
           \/ \E id \in LIds(prf) : Remove(id)
           \/ \E s \in LIds(prf), t \in LIds(prf) : Cite(s, t)
           \/ \E o \in LIds(prf), n \in LIds(prf) : Replace(o, n)
Next == Edit \/ Finish
Spec == Init /\ [][Next]_vars
\* ---- the property, on every step (the definitions of C13_Lines) ----
Contiguous == LContiguous(prf)
CitationsTrackItems == TrackOK(before, prf, lastop)
NoDangling == NoDanglingOK(before, prf, lastop)
\* uids are identities: never two lines with one uid
UidsDistinct == Cardinality(LUids(prf)) = Len(prf)
=============================================================================
