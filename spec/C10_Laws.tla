------------------------------ MODULE C10_Laws ------------------------------
(* Laws shared by the S and T specifications of C10.                                                    *)
(* Expressions are ABSTRACT (small tuples); HOL terms in the codec encoding of lib/HolTerms.tla are      *)
(* mapped to them by FromHolA / FromHolP, so that the SAME operators judge the states of the             *)
(* rearrangement machine (C10_Rearr) and the results of the real code (C10_ConvTrace).                   *)
(*   arithmetic (at one numeric type T):                                                                 *)
(*     <<"v",name>>  <<"n",k>> (k >= 0)  <<"+",a,b>>  <<"*",a,b>>  <<"-",a,b>>  <<"neg",a>>  (ring       *)
(*     subtraction: int, real only)  <<"^",a,k>>  <<"S",a>> (Suc, nat only)  <<"o",payload>> opaque atom *)
(*     (everything else; in particular TRUNCATED subtraction on nat: payload <<"tsub",a,b>>)             *)
(*   propositional:  <<"v",name>> <<"T">> <<"F">> <<"not",a>> <<"and",a,b>> <<"or",a,b>> <<"imp",a,b>>   *)
(*     <<"iff",a,b>> <<"o",payload>>                                                                     *)
(*   PolyOf(e)      the polynomial denoted by e as a canonical finite map monomial -> non-zero integer   *)
(*                  coefficient (a SET of <<mono, coeff>>, mono a SET of <<atom, exponent>>)             *)
(*   MemberSet(e,c) the set of members of a nested conjunction / disjunction                             *)
(*   SameTable(a,b) equal truth tables over the propositional atoms                                      *)
(*   ConvOK(x, conds, r) the conversion contract                                                         *)
EXTENDS HolTerms, Integers

\* ------------------------------------------------------------------ saturating arithmetic (TLC integers are 32 bit)
Cap == 1000000
SatAdd(a, b) == IF a + b > Cap THEN Cap ELSE a + b
SatMul(a, b) == IF a = 0 \/ b = 0 THEN 0 ELSE IF a > Cap \div b THEN Cap ELSE a * b
RECURSIVE SatPow(_,_)
SatPow(a, k) == IF k = 0 THEN 1 ELSE SatMul(a, SatPow(a, k - 1))
MaxExp == 6

\* ------------------------------------------------------------------ polynomials
PConst(c) == IF c = 0 THEN {} ELSE { <<{}, c>> }
PAtom(a) == { << { <<a, 1>> }, 1 >> }
Monos(p) == { pr[1] : pr \in p }
Coef(p, m) == IF m \in Monos(p) THEN (CHOOSE pr \in p : pr[1] = m)[2] ELSE 0
NonZero(S) == { pr \in S : pr[2] # 0 }
PAdd(p, q) == NonZero({ <<m, Coef(p, m) + Coef(q, m)>> : m \in Monos(p) \cup Monos(q) })
PNeg(p) == { <<pr[1], 0 - pr[2]>> : pr \in p }
MAtoms(m) == { pr[1] : pr \in m }
MExp(m, a) == IF a \in MAtoms(m) THEN (CHOOSE pr \in m : pr[1] = a)[2] ELSE 0
MMul(m1, m2) == { <<a, MExp(m1, a) + MExp(m2, a)>> : a \in MAtoms(m1) \cup MAtoms(m2) }
RECURSIVE SumC(_)
SumC(S) == IF S = {} THEN 0 ELSE LET x == CHOOSE y \in S : TRUE IN x[3] + SumC(S \ {x})
PMul(p, q) == LET prods == { <<a[1], b[1], a[2] * b[2]>> : a \in p, b \in q }
                  ms == { MMul(x[1], x[2]) : x \in prods } IN
              NonZero({ <<m, SumC({ x \in prods : MMul(x[1], x[2]) = m })>> : m \in ms })
RECURSIVE PPow(_,_)
PPow(p, k) == IF k = 0 THEN PConst(1) ELSE PMul(PPow(p, k - 1), p)

Bin2(e) == e[1] \in {"+", "*", "-"}
RECURSIVE PolyOf(_), Mag(_), AtomsOf(_), LeafCount(_), ESize(_)
PolyOf(e) == CASE e[1] = "n" -> PConst(e[2])
               [] e[1] = "+" -> PAdd(PolyOf(e[2]), PolyOf(e[3]))
               [] e[1] = "*" -> PMul(PolyOf(e[2]), PolyOf(e[3]))
               [] e[1] = "-" -> PAdd(PolyOf(e[2]), PNeg(PolyOf(e[3])))
               [] e[1] = "neg" -> PNeg(PolyOf(e[2]))
               [] e[1] = "^" -> PPow(PolyOf(e[2]), e[3])
               [] e[1] = "S" -> PAdd(PolyOf(e[2]), PConst(1))
               [] OTHER -> PAtom(e)
\* an upper bound of the sum of the absolute values of all coefficients met while computing PolyOf (saturating)
Mag(e) == CASE e[1] = "n" -> IF e[2] > Cap THEN Cap ELSE e[2]
            [] e[1] \in {"+", "-"} -> SatAdd(Mag(e[2]), Mag(e[3]))
            [] e[1] = "*" -> SatMul(Mag(e[2]), Mag(e[3]))
            [] e[1] = "neg" -> Mag(e[2])
            [] e[1] = "^" -> IF e[3] > MaxExp THEN Cap ELSE SatPow(Mag(e[2]), e[3])
            [] e[1] = "S" -> SatAdd(Mag(e[2]), 1)
            [] OTHER -> 1
AtomsOf(e) == CASE e[1] = "n" -> {}
                [] Bin2(e) -> AtomsOf(e[2]) \cup AtomsOf(e[3])
                [] e[1] \in {"neg", "^", "S"} -> AtomsOf(e[2])
                [] OTHER -> {e}
LeafCount(e) == CASE Bin2(e) -> LeafCount(e[2]) + LeafCount(e[3])
                  [] e[1] = "neg" -> LeafCount(e[2])
                  [] e[1] \in {"^", "S"} -> LeafCount(e[2]) + 1
                  [] OTHER -> 1
ESize(e) == CASE Bin2(e) -> 1 + ESize(e[2]) + ESize(e[3])
              [] e[1] \in {"neg", "^", "S"} -> 1 + ESize(e[2])
              [] OTHER -> 1
\* PolyOf can be evaluated without overflow
PolyExaminable(e) == ESize(e) <= 300 /\ Mag(e) < Cap
\* all atoms are variables: formal polynomial identity is then EQUIVALENT to equality of the denoted functions
\* (nat, int, real are infinite); with opaque atoms it is only sufficient
VarAtoms(e) == \A a \in AtomsOf(e) : a[1] = "v"

\* ------------------------------------------------------------------ propositional structure
PBin(e) == e[1] \in {"and", "or", "imp", "iff"}
RECURSIVE MemberSet(_,_), PropAtoms(_), PEval(_,_), PSize(_), IsNNF(_)
MemberSet(e, c) == IF e[1] = c THEN MemberSet(e[2], c) \cup MemberSet(e[3], c) ELSE {e}
PropAtoms(e) == CASE e[1] \in {"T", "F"} -> {} [] PBin(e) -> PropAtoms(e[2]) \cup PropAtoms(e[3])
                  [] e[1] = "not" -> PropAtoms(e[2]) [] OTHER -> {e}
PEval(e, v) == CASE e[1] = "T" -> TRUE [] e[1] = "F" -> FALSE
                 [] e[1] = "and" -> PEval(e[2], v) /\ PEval(e[3], v)
                 [] e[1] = "or" -> PEval(e[2], v) \/ PEval(e[3], v)
                 [] e[1] = "imp" -> PEval(e[2], v) => PEval(e[3], v)
                 [] e[1] = "iff" -> PEval(e[2], v) = PEval(e[3], v)
                 [] e[1] = "not" -> ~PEval(e[2], v)
                 [] OTHER -> v[e]
PSize(e) == CASE PBin(e) -> 1 + PSize(e[2]) + PSize(e[3]) [] e[1] = "not" -> 1 + PSize(e[2]) [] OTHER -> 1
PropExaminable(a, b) == PSize(a) <= 300 /\ PSize(b) <= 300 /\ Cardinality(PropAtoms(a) \cup PropAtoms(b)) <= 8
SameTable(a, b) == LET at == PropAtoms(a) \cup PropAtoms(b) IN \A v \in [at -> BOOLEAN] : PEval(a, v) = PEval(b, v)
BoolVarAtoms(a) == \A x \in PropAtoms(a) : x[1] = "v"
\* negation normal form: negations only on atoms
IsNNF(e) == CASE e[1] = "not" -> ~(PBin(e[2]) \/ e[2][1] \in {"not", "T", "F"})
              [] e[1] \in {"and", "or"} -> IsNNF(e[2]) /\ IsNNF(e[3])
              [] OTHER -> TRUE

\* ------------------------------------------------------------------ HOL terms (codec encoding) -> abstract expressions
NatT == <<"tc","nat",<<>>>>   IntT == <<"tc","int",<<>>>>   RealT == <<"tc","real",<<>>>>
NumTypes == {NatT, IntT, RealT}
F2(A, B, C) == FunT(A, FunT(B, C))
PlusC(T) == <<"const","plus",F2(T,T,T)>>        TimesC(T) == <<"const","times",F2(T,T,T)>>
MinusC(T) == <<"const","minus",F2(T,T,T)>>      UminusC(T) == <<"const","uminus",FunT(T,T)>>
PowerC(T) == <<"const","power",F2(T,NatT,T)>>   OfNatC(T) == <<"const","of_nat",FunT(NatT,T)>>
ZeroC(T) == <<"const","zero",T>>                OneC(T) == <<"const","one",T>>
Bit0C == <<"const","bit0",FunT(NatT,NatT)>>     Bit1C == <<"const","bit1",FunT(NatT,NatT)>>
SucC == <<"const","Suc",FunT(NatT,NatT)>>
ConjC == <<"const","conj",F2(BoolT,BoolT,BoolT)>>  DisjC == <<"const","disj",F2(BoolT,BoolT,BoolT)>>
NegC == <<"const","neg",FunT(BoolT,BoolT)>>     TrueC == <<"const","true",BoolT>>   FalseC == <<"const","false",BoolT>>
IffC == EqC(BoolT)
IsOp2(t, c) == t[1] = "comb" /\ t[2][1] = "comb" /\ t[2][2] = c
IsOp1(t, c) == t[1] = "comb" /\ t[2] = c
A1(t) == t[2][3]
A2(t) == t[3]
\* numerals (kernel/term.py: Number, Binary): zero, one, of_nat applied to a bit string (at most 20 bits here)
RECURSIVE IsBits(_), BitsVal(_), BitsLen(_)
IsBits(t) == t = ZeroC(NatT) \/ t = OneC(NatT) \/ (t[1] = "comb" /\ (t[2] = Bit0C \/ t[2] = Bit1C) /\ IsBits(t[3]))
BitsLen(t) == IF t[1] = "comb" THEN 1 + BitsLen(t[3]) ELSE 1
BitsVal(t) == IF t = ZeroC(NatT) THEN 0 ELSE IF t = OneC(NatT) THEN 1
              ELSE IF t[2] = Bit0C THEN 2 * BitsVal(t[3]) ELSE 2 * BitsVal(t[3]) + 1
IsNum(t, T) == t = ZeroC(T) \/ t = OneC(T) \/ (IsOp1(t, OfNatC(T)) /\ IsBits(t[3]) /\ BitsLen(t[3]) <= 20)
NumVal(t, T) == IF t = ZeroC(T) THEN 0 ELSE IF t = OneC(T) THEN 1 ELSE BitsVal(t[3])
\* closed natural-number expressions (exponents): numerals, + * Suc and truncated -; the value saturates at Cap
RECURSIVE ClosedNat(_), NatEval(_)
ClosedNat(t) == \/ IsNum(t, NatT)
                \/ ((IsOp2(t, PlusC(NatT)) \/ IsOp2(t, TimesC(NatT)) \/ IsOp2(t, MinusC(NatT))) /\ ClosedNat(A1(t)) /\ ClosedNat(A2(t)))
                \/ (IsOp1(t, SucC) /\ ClosedNat(t[3]))
NatEval(t) == IF IsNum(t, NatT) THEN NumVal(t, NatT)
              ELSE IF IsOp2(t, PlusC(NatT)) THEN SatAdd(NatEval(A1(t)), NatEval(A2(t)))
              ELSE IF IsOp2(t, TimesC(NatT)) THEN SatMul(NatEval(A1(t)), NatEval(A2(t)))
              ELSE IF IsOp2(t, MinusC(NatT)) THEN (LET a == NatEval(A1(t)) b == NatEval(A2(t)) IN IF a <= b THEN 0 ELSE a - b)
              ELSE SatAdd(NatEval(t[3]), 1)
RECURSIVE FromHolA(_,_), FromHolP(_)
FromHolA(t, T) ==
  IF IsNum(t, T) THEN <<"n", NumVal(t, T)>>
  ELSE IF t[1] = "var" /\ t[3] = T THEN <<"v", t[2]>>
  ELSE IF IsOp2(t, PlusC(T)) THEN <<"+", FromHolA(A1(t), T), FromHolA(A2(t), T)>>
  ELSE IF IsOp2(t, TimesC(T)) THEN <<"*", FromHolA(A1(t), T), FromHolA(A2(t), T)>>
  ELSE IF T # NatT /\ IsOp2(t, MinusC(T)) THEN <<"-", FromHolA(A1(t), T), FromHolA(A2(t), T)>>
  ELSE IF T = NatT /\ IsOp2(t, MinusC(T)) THEN <<"o", <<"tsub", FromHolA(A1(t), T), FromHolA(A2(t), T)>> >>
  ELSE IF T # NatT /\ IsOp1(t, UminusC(T)) THEN <<"neg", FromHolA(t[3], T)>>
  ELSE IF IsOp2(t, PowerC(T)) /\ ClosedNat(A2(t)) /\ NatEval(A2(t)) <= MaxExp THEN <<"^", FromHolA(A1(t), T), NatEval(A2(t))>>
  ELSE IF T = NatT /\ IsOp1(t, SucC) THEN <<"S", FromHolA(t[3], T)>>
  ELSE <<"o", <<"hol", t>> >>
FromHolP(t) ==
  IF t = TrueC THEN <<"T">> ELSE IF t = FalseC THEN <<"F">>
  ELSE IF t[1] = "var" /\ t[3] = BoolT THEN <<"v", t[2]>>
  ELSE IF IsOp1(t, NegC) THEN <<"not", FromHolP(t[3])>>
  ELSE IF IsOp2(t, ConjC) THEN <<"and", FromHolP(A1(t)), FromHolP(A2(t))>>
  ELSE IF IsOp2(t, DisjC) THEN <<"or", FromHolP(A1(t)), FromHolP(A2(t))>>
  ELSE IF IsOp2(t, ImpC) THEN <<"imp", FromHolP(A1(t)), FromHolP(A2(t))>>
  ELSE IF IsOp2(t, IffC) THEN <<"iff", FromHolP(A1(t)), FromHolP(A2(t))>>
  ELSE <<"o", <<"hol", t>> >>

\* ------------------------------------------------------------------ the conversion contract
\* r = [h |-> sequence of hypotheses, c |-> proposition]; conds = sequence of the hypotheses of the supplied condition theorems
SeqSet(s) == { s[i] : i \in 1..Len(s) }
IsEquation(r) == IsEq(r.c) /\ WellTyped(r.c)
LhsOf(r) == A1(r.c)
RhsOf(r) == A2(r.c)
ConvOK(x, conds, r) == IsEquation(r) /\ LhsOf(r) = x /\ SeqSet(r.h) \subseteq SeqSet(conds)
\* two sequents are the same theorem: same proposition, same SET of hypotheses
SameSeq(r1, r2) == r1.c = r2.c /\ SeqSet(r1.h) = SeqSet(r2.h)
=============================================================================
