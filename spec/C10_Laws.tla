------------------------------ MODULE C10_Laws ------------------------------
(* Laws shared by the S, emission and T specifications of C10.                                        *)
(* Everything is stated on HOL terms in the codec encoding of lib/HolTerms.tla, so that the SAME        *)
(* operators judge the states of the rearrangement machine (C10_Rearr) and the results of the real code *)
(* (C10_ConvTrace).                                                                                     *)
(*   PolyOf(t, T)      the polynomial denoted by an arithmetic term of numeric type T, as a canonical    *)
(*                     finite map  monomial -> non-zero integer coefficient  (a SET of <<mono, coeff>>,   *)
(*                     mono a SET of <<atom, exponent>>); anything that is not + * - uminus ^ Suc or a    *)
(*                     numeral is an opaque ATOM (in particular truncated subtraction on nat)             *)
(*   MemberSet(t, op)  the set of members of a nested conjunction / disjunction                          *)
(*   SameTable(a, b)   equal truth tables over the propositional atoms                                   *)
(*   ConvOK(x, conds, r) the conversion contract                                                         *)
EXTENDS HolTerms, Integers

NatT == <<"tc","nat",<<>>>>   IntT == <<"tc","int",<<>>>>   RealT == <<"tc","real",<<>>>>
NumTypes == {NatT, IntT, RealT}
F2(A, B, C) == FunT(A, FunT(B, C))
PlusC(T) == <<"const","plus",F2(T,T,T)>>        TimesC(T) == <<"const","times",F2(T,T,T)>>
MinusC(T) == <<"const","minus",F2(T,T,T)>>      UminusC(T) == <<"const","uminus",FunT(T,T)>>
PowerC(T) == <<"const","power",F2(T,NatT,T)>>   OfNatC(T) == <<"const","of_nat",FunT(NatT,T)>>
ZeroC(T) == <<"const","zero",T>>                OneC(T) == <<"const","one",T>>
Bit0C == <<"const","bit0",FunT(NatT,NatT)>>     Bit1C == <<"const","bit1",FunT(NatT,NatT)>>
SucC == <<"const","Suc",FunT(NatT,NatT)>>
ConjC == <<"const","conj",F2(BoolT,BoolT,BoolT)>>  DisjC == <<"const","disj",F2(BoolT,BoolT,BoolT)>>
NegC == <<"const","neg",FunT(BoolT,BoolT)>>     TrueC == <<"const","true",BoolT>>   FalseC == <<"const","false",BoolT>>
IffC == EqC(BoolT)

Op2(c, a, b) == App(App(c, a), b)
Op1(c, a) == App(c, a)
IsOp2(t, c) == t[1] = "comb" /\ t[2][1] = "comb" /\ t[2][2] = c
IsOp1(t, c) == t[1] = "comb" /\ t[2] = c
A1(t) == t[2][3]
A2(t) == t[3]
Neg(a) == Op1(NegC, a)

\* ------------------------------------------------------------------ numerals (kernel/term.py: Number, Binary)
RECURSIVE IsBits(_), BitsVal(_), BitsLen(_), Bits(_)
IsBits(t) == t = ZeroC(NatT) \/ t = OneC(NatT) \/ (t[1] = "comb" /\ (t[2] = Bit0C \/ t[2] = Bit1C) /\ IsBits(t[3]))
BitsLen(t) == IF t[1] = "comb" THEN 1 + BitsLen(t[3]) ELSE 1
BitsVal(t) == IF t = ZeroC(NatT) THEN 0 ELSE IF t = OneC(NatT) THEN 1
              ELSE IF t[2] = Bit0C THEN 2 * BitsVal(t[3]) ELSE 2 * BitsVal(t[3]) + 1
Bits(n) == IF n = 0 THEN ZeroC(NatT) ELSE IF n = 1 THEN OneC(NatT)
           ELSE IF n % 2 = 0 THEN Op1(Bit0C, Bits(n \div 2)) ELSE Op1(Bit1C, Bits(n \div 2))
\* non-negative numeral of type T (zero, one, of_nat bits); values are capped to 20 bits
IsNum(t, T) == t = ZeroC(T) \/ t = OneC(T) \/ (IsOp1(t, OfNatC(T)) /\ IsBits(t[3]) /\ BitsLen(t[3]) <= 20)
NumVal(t, T) == IF t = ZeroC(T) THEN 0 ELSE IF t = OneC(T) THEN 1 ELSE BitsVal(t[3])
\* Number(T, n): negative numerals (T # nat) are uminus applied to the positive numeral
Num(T, n) == IF n = 0 THEN ZeroC(T) ELSE IF n = 1 THEN OneC(T)
             ELSE IF n < 0 THEN Op1(UminusC(T), IF n = 0 - 1 THEN OneC(T) ELSE Op1(OfNatC(T), Bits(0 - n)))
             ELSE Op1(OfNatC(T), Bits(n))

\* ------------------------------------------------------------------ saturating arithmetic (TLC integers are 32 bit)
Cap == 1000000
SatAdd(a, b) == IF a + b > Cap THEN Cap ELSE a + b
SatMul(a, b) == IF a = 0 \/ b = 0 THEN 0 ELSE IF a > Cap \div b THEN Cap ELSE a * b
RECURSIVE SatPow(_,_)
SatPow(a, k) == IF k = 0 THEN 1 ELSE SatMul(a, SatPow(a, k - 1))
\* closed natural-number expressions (exponents): numerals, + * Suc and truncated -; value saturates at Cap
RECURSIVE ClosedNat(_), NatEval(_)
ClosedNat(t) == \/ IsNum(t, NatT)
                \/ ((IsOp2(t, PlusC(NatT)) \/ IsOp2(t, TimesC(NatT)) \/ IsOp2(t, MinusC(NatT))) /\ ClosedNat(A1(t)) /\ ClosedNat(A2(t)))
                \/ (IsOp1(t, SucC) /\ ClosedNat(t[3]))
NatEval(t) == IF IsNum(t, NatT) THEN NumVal(t, NatT)
              ELSE IF IsOp2(t, PlusC(NatT)) THEN SatAdd(NatEval(A1(t)), NatEval(A2(t)))
              ELSE IF IsOp2(t, TimesC(NatT)) THEN SatMul(NatEval(A1(t)), NatEval(A2(t)))
              ELSE IF IsOp2(t, MinusC(NatT)) THEN (LET a == NatEval(A1(t)) b == NatEval(A2(t)) IN IF a <= b THEN 0 ELSE a - b)
              ELSE SatAdd(NatEval(t[3]), 1)
MaxExp == 6
IsPow(t, T) == IsOp2(t, PowerC(T)) /\ ClosedNat(A2(t)) /\ NatEval(A2(t)) <= MaxExp
HasSub(T) == T # NatT
\* ------------------------------------------------------------------ polynomials
PConst(c) == IF c = 0 THEN {} ELSE { <<{}, c>> }
PAtom(a) == { << { <<a, 1>> }, 1 >> }
Monos(p) == { pr[1] : pr \in p }
Coef(p, m) == IF m \in Monos(p) THEN (CHOOSE pr \in p : pr[1] = m)[2] ELSE 0
NonZero(S) == { pr \in S : pr[2] # 0 }
PAdd(p, q) == NonZero({ <<m, Coef(p, m) + Coef(q, m)>> : m \in Monos(p) \cup Monos(q) })
PNeg(p) == { <<pr[1], 0 - pr[2]>> : pr \in p }
MAtoms(m) == { pr[1] : pr \in m }
MExp(m, a) == IF a \in MAtoms(m) THEN (CHOOSE pr \in m : pr[1] = a)[2] ELSE 0
MMul(m1, m2) == { <<a, MExp(m1, a) + MExp(m2, a)>> : a \in MAtoms(m1) \cup MAtoms(m2) }
RECURSIVE SumC(_)
SumC(S) == IF S = {} THEN 0 ELSE LET x == CHOOSE y \in S : TRUE IN x[3] + SumC(S \ {x})
PMul(p, q) == LET prods == { <<a[1], b[1], a[2] * b[2]>> : a \in p, b \in q }
                  ms == { MMul(x[1], x[2]) : x \in prods } IN
              NonZero({ <<m, SumC({ x \in prods : MMul(x[1], x[2]) = m })>> : m \in ms })
RECURSIVE PPow(_,_)
PPow(p, k) == IF k = 0 THEN PConst(1) ELSE PMul(PPow(p, k - 1), p)

RECURSIVE PolyOf(_,_), Mag(_,_), AtomsOf(_,_), LeafCount(_,_)
PolyOf(t, T) ==
  IF IsNum(t, T) THEN PConst(NumVal(t, T))
  ELSE IF IsOp2(t, PlusC(T)) THEN PAdd(PolyOf(A1(t), T), PolyOf(A2(t), T))
  ELSE IF IsOp2(t, TimesC(T)) THEN PMul(PolyOf(A1(t), T), PolyOf(A2(t), T))
  ELSE IF HasSub(T) /\ IsOp2(t, MinusC(T)) THEN PAdd(PolyOf(A1(t), T), PNeg(PolyOf(A2(t), T)))
  ELSE IF HasSub(T) /\ IsOp1(t, UminusC(T)) THEN PNeg(PolyOf(t[3], T))
  ELSE IF IsPow(t, T) THEN PPow(PolyOf(A1(t), T), NatEval(A2(t)))
  ELSE IF T = NatT /\ IsOp1(t, SucC) THEN PAdd(PolyOf(t[3], T), PConst(1))
  ELSE PAtom(t)
\* an upper bound of the sum of the absolute values of all coefficients met while computing PolyOf (saturating)
Mag(t, T) ==
  IF IsNum(t, T) THEN NumVal(t, T)
  ELSE IF IsOp2(t, PlusC(T)) THEN SatAdd(Mag(A1(t), T), Mag(A2(t), T))
  ELSE IF IsOp2(t, TimesC(T)) THEN SatMul(Mag(A1(t), T), Mag(A2(t), T))
  ELSE IF HasSub(T) /\ IsOp2(t, MinusC(T)) THEN SatAdd(Mag(A1(t), T), Mag(A2(t), T))
  ELSE IF HasSub(T) /\ IsOp1(t, UminusC(T)) THEN Mag(t[3], T)
  ELSE IF IsPow(t, T) THEN SatPow(Mag(A1(t), T), NatEval(A2(t)))
  ELSE IF T = NatT /\ IsOp1(t, SucC) THEN SatAdd(Mag(t[3], T), 1)
  ELSE 1
AtomsOf(t, T) ==
  IF IsNum(t, T) THEN {}
  ELSE IF IsOp2(t, PlusC(T)) \/ IsOp2(t, TimesC(T)) \/ (HasSub(T) /\ IsOp2(t, MinusC(T))) THEN AtomsOf(A1(t), T) \cup AtomsOf(A2(t), T)
  ELSE IF HasSub(T) /\ IsOp1(t, UminusC(T)) THEN AtomsOf(t[3], T)
  ELSE IF IsPow(t, T) THEN AtomsOf(A1(t), T)
  ELSE IF T = NatT /\ IsOp1(t, SucC) THEN AtomsOf(t[3], T)
  ELSE {t}
LeafCount(t, T) ==
  IF IsNum(t, T) THEN 1
  ELSE IF IsOp2(t, PlusC(T)) \/ IsOp2(t, TimesC(T)) \/ (HasSub(T) /\ IsOp2(t, MinusC(T))) THEN LeafCount(A1(t), T) + LeafCount(A2(t), T)
  ELSE IF HasSub(T) /\ IsOp1(t, UminusC(T)) THEN LeafCount(t[3], T)
  ELSE IF IsPow(t, T) THEN LeafCount(A1(t), T) + 1
  ELSE IF T = NatT /\ IsOp1(t, SucC) THEN LeafCount(t[3], T) + 1
  ELSE 1
\* PolyOf can be evaluated without overflow
PolyExaminable(t, T) == T \in NumTypes /\ Size(t) <= 600 /\ Mag(t, T) < Cap
\* all atoms are variables of type T: formal polynomial identity is then EQUIVALENT to equality of the denoted functions
\* (nat, int, real are infinite integral domains / semirings embedded in one); with opaque atoms only => holds
VarAtoms(t, T) == \A a \in AtomsOf(t, T) : a[1] = "var" /\ a[3] = T

\* ------------------------------------------------------------------ propositional structure
RECURSIVE MemberSet(_,_)
MemberSet(t, c) == IF IsOp2(t, c) THEN MemberSet(A1(t), c) \cup MemberSet(A2(t), c) ELSE {t}
IsConn2(t) == IsOp2(t, ConjC) \/ IsOp2(t, DisjC) \/ IsOp2(t, ImpC) \/ IsOp2(t, IffC)
RECURSIVE PropAtoms(_), PEval(_,_)
PropAtoms(t) == IF t = TrueC \/ t = FalseC THEN {}
                ELSE IF IsConn2(t) THEN PropAtoms(A1(t)) \cup PropAtoms(A2(t))
                ELSE IF IsOp1(t, NegC) THEN PropAtoms(t[3]) ELSE {t}
PEval(t, v) == IF t = TrueC THEN TRUE ELSE IF t = FalseC THEN FALSE
               ELSE IF IsOp2(t, ConjC) THEN PEval(A1(t), v) /\ PEval(A2(t), v)
               ELSE IF IsOp2(t, DisjC) THEN PEval(A1(t), v) \/ PEval(A2(t), v)
               ELSE IF IsOp2(t, ImpC) THEN PEval(A1(t), v) => PEval(A2(t), v)
               ELSE IF IsOp2(t, IffC) THEN PEval(A1(t), v) = PEval(A2(t), v)
               ELSE IF IsOp1(t, NegC) THEN ~PEval(t[3], v) ELSE v[t]
PropExaminable(a, b) == Size(a) <= 400 /\ Size(b) <= 400 /\ Cardinality(PropAtoms(a) \cup PropAtoms(b)) <= 8
SameTable(a, b) == LET at == PropAtoms(a) \cup PropAtoms(b) IN \A v \in [at -> BOOLEAN] : PEval(a, v) = PEval(b, v)
BoolVarAtoms(a) == \A x \in PropAtoms(a) : x[1] = "var" /\ x[3] = BoolT
\* negation normal form: negations only on atoms
RECURSIVE IsNNF(_)
IsNNF(t) == IF IsOp1(t, NegC) THEN ~(IsConn2(t[3]) \/ IsOp1(t[3], NegC) \/ t[3] = TrueC \/ t[3] = FalseC)
            ELSE IF IsOp2(t, ConjC) \/ IsOp2(t, DisjC) THEN IsNNF(A1(t)) /\ IsNNF(A2(t)) ELSE TRUE

\* ------------------------------------------------------------------ the conversion contract
\* r = [h |-> sequence of hypotheses, c |-> proposition]; conds = sequence of the propositions of the supplied conditions
SeqSet(s) == { s[i] : i \in 1..Len(s) }
IsEquation(r) == IsEq(r.c) /\ WellTyped(r.c)
LhsOf(r) == A1(r.c)
RhsOf(r) == A2(r.c)
ConvOK(x, conds, r) == IsEquation(r) /\ LhsOf(r) = x /\ SeqSet(r.h) \subseteq SeqSet(conds)
\* two sequents are the same theorem: same proposition, same SET of hypotheses
SameSeq(r1, r2) == r1.c = r2.c /\ SeqSet(r1.h) = SeqSet(r2.h)
=============================================================================
