SPECIFICATION Spec
CONSTANTS
  Theories <- fTheories
  Imports <- fImports
  Modules = {}
  LazyImport <- fLazy
  ModuleBody <- eBody
  OpTheories = {"A", "B"}
  OpModules = {}
  Present0 <- fPresent
  Origin <- fOrigin
  Items0 <- fItems0
  LimitsOf <- fLimits
  FileOps <- fFileOps
  Variants <- fVariants
  GoodVariants <- Fixed
  PrintGood = FALSE
  MaxOps = 4
  MaxDepth = 40
  AllowFault = FALSE
  defaultInitValue = defaultInitValue
INVARIANT Good
CHECK_DEADLOCK FALSE
