SPECIFICATION Spec
CONSTANTS MaxNodes = 6
 HostIds = {"H0", "H1", "H2"}
 Emit = TRUE
 WithSubst = TRUE
INVARIANTS TypeOK Contiguous CitationsEarlierVisible LastLineIsSequent LineProvesItsNode SharedOnce GapsAreSorries
 WholeContiguous WholeCitations WholeChecks GoalStillStated
CHECK_DEADLOCK FALSE
