--------------------------- MODULE C09_MatcherEmit ---------------------------
(* Writes the input vectors of C09_Matcher as ndjson (spec -> code direction) and prints the composition of the universe. *)
EXTENDS C09_MatchUniverse, Json, IOUtils
AllVectors == UNION { VectorsOf(p) : p \in Patterns }
VARIABLE emitted
Count(k) == Cardinality({ v \in AllVectors : v.kind = k })
EInit == emitted = FALSE
ENext == /\ ~emitted /\ emitted' = TRUE
         /\ LET vs == SetToSeq(AllVectors) IN
            /\ ndJsonSerialize(IOEnv.VECTOR_FILE, vs)
            /\ PrintT(<<"vectors", Len(vs), "patterns", Cardinality(Patterns), "first-order", Cardinality({ p \in Patterns : FOFragment(<<p>>) }),
                       "polymorphic", Cardinality({ p \in Patterns : STVNames(p) # {} }),
                       "pos", Count("pos"), "raw", Count("raw"), "etac", Count("etac"), "etax", Count("etax"), "neg", Count("neg"), "unrel", Count("unrel"), "self", Count("self"), "mixed patterns", Cardinality(Mixed)>>)
ESpec == EInit /\ [][ENext]_emitted
=============================================================================
