SPECIFICATION Spec
CONSTANT Parts <- PartsSeq3
INVARIANT ResolutionSound
INVARIANT RefutationComplete
INVARIANT CertificateAccepted
INVARIANT CertificateOnlyIfUnsat
INVARIANT ReplayFaithful
POSTCONDITION Emit
CHECK_DEADLOCK FALSE
