SPECIFICATION Spec
CONSTANTS NVars = 3
 MaxLen = 2
 MaxClauses = 3
 Shape = "seq"
INVARIANT ResolutionSound
INVARIANT RefutationComplete
INVARIANT CertificateAccepted
INVARIANT CertificateOnlyIfUnsat
INVARIANT ReplayFaithful
POSTCONDITION Emit
CHECK_DEADLOCK FALSE
