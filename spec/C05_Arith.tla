------------------------------- MODULE C05_Arith -------------------------------
(* S-specification for C05: trusted arithmetic evaluation steps only assert true arithmetic facts.            *)
(*                                                                                                            *)
(* State space = the input space of the trusted (level-0) arithmetic steps: every goal `l REL r` over the      *)
(* universe below, at EACH numeric type, handed to EACH step (so int- and real-typed goals reach the natural-  *)
(* number step and vice versa).  A step is modelled as the checker sees it: a shape/type discipline            *)
(* (C05_HolArith!InDomain) followed by the step's own TYPE-BLIND evaluator (NatEv / IntEv / RealEv: models of  *)
(* nat_eval, int_eval, real_eval and of Term.is_number / dest_number, which look at constant NAMES only).      *)
(* Invariants: the meaning Val is total on the universe and obeys the library's defining equations; on terms   *)
(* of its own type each type-blind evaluator agrees with the meaning; hence a guarded step only asserts        *)
(* true statements (Sound).  Without the type discipline (Guarded <- FALSE, how nat_eval & co. are coded       *)
(* before the repair) Sound is violated: `(2::int) - 3 = 0` is asserted by the natural-number step.            *)
(* The universe also contains comparisons of SURDS (sqrt of the leaves, negated, shifted and scaled by the     *)
(* leaves): the meaning decides each of them (ValTotal), exactly (C05_Surd: squaring, no approximation).       *)
EXTENDS C05_HolArith, TLC, Json, IOUtils, SequencesExt

CONSTANTS LeafVals,     \* numerals at the leaves, e.g. {0,1,2,3,7}
          RhsVals,      \* numerals on the right-hand side of the goals l REL r with a simple right-hand side
          FullEq,       \* TRUE: equations l = r between compound terms for every r that is a numeral, a sum or a difference (and wider
                        \* right-hand sides / relation sets elsewhere); always: every pair l, r that SOME evaluator model equates
          Guarded       \* TRUE: steps check the type discipline InDomain (the reference)

\* ---------------------------------------------------------------- universe
Leaves(T) == { Num(T, k) : k \in LeafVals }
Ops(T) == CASE T = "nat" -> {"plus", "minus", "times", "nat_divide", "nat_modulus"}
            [] T = "int" -> {"plus", "minus", "times"}
            [] OTHER -> {"plus", "minus", "times", "real_divide"}
D2(T) == Leaves(T)
         \cup { Bin(op, T, a, b) : op \in Ops(T), a \in Leaves(T), b \in Leaves(T) }
         \cup { Pow(T, "nat", a, b) : a \in Leaves(T), b \in Leaves("nat") }
         \cup (IF T = "nat" THEN { Un("Suc", "nat", "nat", a) : a \in Leaves(T) } \cup { Un("of_nat", "nat", "nat", a) : a \in Leaves(T) }
               ELSE { UMinus(T, a) : a \in Leaves(T) } \cup { Un("of_nat", "nat", T, a) : a \in Leaves("nat") })
         \cup (IF T = "real" THEN { Un("real_inverse", T, T, a) : a \in Leaves(T) } \cup { Un("of_int", "int", T, a) : a \in Leaves("int") }
                                  \cup { Pow(T, "real", a, b) : a \in Leaves(T), b \in Leaves(T) \cup {NegNum(T, 1), NegNum(T, 2)} }
               ELSE {})
\* casts of compound terms: this is where a real-/int-typed statement contains truncated subtraction
Casts(T) == (IF T \in {"int", "real"} THEN { Un("of_nat", "nat", T, a) : a \in D2("nat") \ Leaves("nat") } ELSE {})
            \cup (IF T = "real" THEN { Un("of_int", "int", T, a) : a \in D2("int") \ Leaves("int") } ELSE {})
\* one level deeper below a subtraction: (a - b) + c, (a - b) * c -- where untruncated evaluation of a nat term goes wrong
Deep(T) == { Bin(op, T, Bin("minus", T, a, b), c) : op \in {"plus", "times"}, a \in Leaves(T), b \in Leaves(T), c \in Leaves(T) }
Rhs(T) == { Num(T, k) : k \in RhsVals } \cup (IF T = "nat" THEN {} ELSE { NegNum(T, k) : k \in RhsVals \cap {1, 2} })
                    \cup (IF T = "real" THEN {Frac(T, 1, 2)} \cup (IF FullEq THEN {UMinus(T, Frac(T, 1, 2)), Frac(T, 3, 2)} ELSE {}) ELSE {})

\* ---------------------------------------------------------------- type-blind models of the code's evaluators
EvFail == ROvf
TypeOf(e) == IF e[1] = "#var" THEN e[2][1] ELSE IF Len(e[2]) = 0 THEN "" ELSE e[2][Len(e[2])]
IsBinary(e) == e[1] = "#bin" \/ (e[1] \in {"zero", "one"} /\ Len(e[3]) = 0)
BinVal(e) == IF e[1] = "#bin" THEN e[4] ELSE IF e[1] = "zero" THEN 0 ELSE 1
IsNatNumber(e) == (e[1] \in {"zero", "one"} /\ Len(e[3]) = 0) \/ (e[1] = "of_nat" /\ Len(e[3]) = 1 /\ IsBinary(e[3][1]))
NatNumVal(e) == IF e[1] = "of_nat" THEN BinVal(e[3][1]) ELSE BinVal(e)
IsFracNumber(e) == IF e[1] = "real_divide" /\ Len(e[3]) = 2
                   THEN IsNatNumber(e[3][1]) /\ IsNatNumber(e[3][2])
                        /\ LET m == NatNumVal(e[3][1]) n == NatNumVal(e[3][2]) IN n # 1 /\ RGcd(m, n) = 1
                   ELSE IsNatNumber(e)
FracVal(e) == IF e[1] = "real_divide" THEN (IF NatNumVal(e[3][2]) = 0 THEN <<0, 1>> ELSE RNorm(NatNumVal(e[3][1]), NatNumVal(e[3][2])))
              ELSE <<NatNumVal(e), 1>>
IsNumber(e) == IF e[1] = "uminus" /\ Len(e[3]) = 1 THEN IsFracNumber(e[3][1]) /\ e[3][1][1] # "zero" ELSE IsFracNumber(e)
NumberVal(e) == IF e[1] = "uminus" THEN RNeg(FracVal(e[3][1])) ELSE FracVal(e)
RECURSIVE IsConstant(_)
IsConstant(e) == IF IsNumber(e) THEN TRUE
                 ELSE IF e[1] = "uminus" /\ Len(e[3]) = 1 THEN IsConstant(e[3][1])
                 ELSE IF e[1] \in {"plus", "minus", "times", "real_divide", "power"} /\ Len(e[3]) = 2 THEN IsConstant(e[3][1]) /\ IsConstant(e[3][2])
                 ELSE FALSE
RECURSIVE NatEv(_), IntEv(_), RealEv(_)
NatEv(e) == IF IsNumber(e) THEN NumberVal(e)
            ELSE CASE e[1] = "Suc" /\ Len(e[3]) = 1 -> RAdd(NatEv(e[3][1]), <<1, 1>>)
                   [] e[1] = "plus" /\ Len(e[3]) = 2 -> RAdd(NatEv(e[3][1]), NatEv(e[3][2]))
                   [] e[1] = "minus" /\ Len(e[3]) = 2 -> NatMinus(NatEv(e[3][1]), NatEv(e[3][2]))
                   [] e[1] = "times" /\ Len(e[3]) = 2 -> RMul(NatEv(e[3][1]), NatEv(e[3][2]))
                   [] OTHER -> EvFail
IntEv(e) == IF IsNumber(e) THEN NumberVal(e)
            ELSE CASE e[1] = "plus" /\ Len(e[3]) = 2 -> RAdd(IntEv(e[3][1]), IntEv(e[3][2]))
                   [] e[1] = "minus" /\ Len(e[3]) = 2 -> RSub(IntEv(e[3][1]), IntEv(e[3][2]))
                   [] e[1] = "uminus" /\ Len(e[3]) = 1 -> RNeg(IntEv(e[3][1]))
                   [] e[1] = "times" /\ Len(e[3]) = 2 -> RMul(IntEv(e[3][1]), IntEv(e[3][2]))
                   [] OTHER -> EvFail
RealEv(e) ==
  IF IsNumber(e) THEN NumberVal(e)
  ELSE CASE e[1] = "of_nat" /\ Len(e[3]) = 1 -> NatEv(e[3][1])
         [] e[1] = "of_int" /\ Len(e[3]) = 1 -> IntEv(e[3][1])
         [] e[1] = "plus" /\ Len(e[3]) = 2 -> RAdd(RealEv(e[3][1]), RealEv(e[3][2]))
         [] e[1] = "minus" /\ Len(e[3]) = 2 -> RSub(RealEv(e[3][1]), RealEv(e[3][2]))
         [] e[1] = "uminus" /\ Len(e[3]) = 1 -> RNeg(RealEv(e[3][1]))
         [] e[1] = "times" /\ Len(e[3]) = 2 -> RMul(RealEv(e[3][1]), RealEv(e[3][2]))
         [] e[1] = "real_divide" /\ Len(e[3]) = 2 ->
              LET d == RealEv(e[3][2]) IN IF RIsOvf(d) \/ d[1] = 0 THEN EvFail ELSE RDiv(RealEv(e[3][1]), d)
         [] e[1] = "real_inverse" /\ Len(e[3]) = 1 /\ TypeOf(e[3][1]) = "real" ->
              LET d == RealEv(e[3][1]) IN IF RIsOvf(d) \/ d[1] = 0 THEN EvFail ELSE RInv(d)
         [] e[1] = "power" /\ Len(e[3]) = 2 /\ TypeOf(e[3][2]) = "nat" ->
              LET n == NatEv(e[3][2]) IN IF RIsOvf(n) \/ n[2] # 1 \/ n[1] < 0 THEN EvFail ELSE RPow(RealEv(e[3][1]), n[1])
         [] e[1] = "power" /\ Len(e[3]) = 2 /\ TypeOf(e[3][2]) = "real" ->
              LET x == RealEv(e[3][1])  p == RealEv(e[3][2]) IN
              IF RIsOvf(x) \/ RIsOvf(p) THEN EvFail
              ELSE IF p[1] = 0 THEN <<1, 1>> ELSE IF x[1] = 0 THEN <<0, 1>> ELSE IF x = <<1, 1>> THEN x
              ELSE IF p[2] # 1 THEN EvFail
              ELSE IF p[1] > 0 THEN RPow(x, p[1]) ELSE RInv(RPow(x, -p[1]))
         [] OTHER -> EvFail
Ev(T, e) == CASE T = "nat" -> NatEv(e) [] T = "int" -> IntEv(e) [] OTHER -> RealEv(e)

Holds(r, c) == CASE r = "equals" -> c = 0 [] r = "less" -> c = -1 [] r = "less_eq" -> c \in {-1, 0}
                 [] r = "greater" -> c = 1 [] OTHER -> c \in {0, 1}
EvalRel(T, g) == LET a == Ev(T, g[3][1])  b == Ev(T, g[3][2]) IN
                 IF RIsOvf(a) \/ RIsOvf(b) THEN 2 ELSE IF Holds(g[1], RCmp(a, b)) THEN 1 ELSE 0      \* 2: the evaluator fails
Reject == <<FALSE, NoneN>>
Asserts(stmt) == <<TRUE, stmt>>
ModelSteps == Steps \ {"real_norm", "real_eq_comparison"}
\* what the step does on a goal, as coded, behind the type discipline when Guarded
RefStep(s, g) ==
  IF Guarded /\ ~InDomain(s, g) THEN Reject
  ELSE CASE s \in {"nat_eval", "int_eval", "real_eval"} ->
              LET T == CASE s = "nat_eval" -> "nat" [] s = "int_eval" -> "int" [] OTHER -> "real" IN
              IF g[1] = "equals" /\ IsRel(g) /\ EvalRel(T, g) = 1 THEN Asserts(g) ELSE Reject
         [] s \in {"int_const_ineq", "real_const_ineq"} ->
              LET T == IF s = "int_const_ineq" THEN "int" ELSE "real"  c == Strip(g) IN
              IF IsRel(c) /\ IsConstant(c[3][1]) /\ IsConstant(c[3][2]) /\ TypeOf(c[3][1]) = T /\ EvalRel(T, c) # 2
              THEN (IF EvalRel(T, c) = 1 THEN Asserts(c) ELSE Asserts(Not(c))) ELSE Reject
         [] s = "real_const_eq" ->
              IF IsRel(g) /\ Closed(g) /\ EvalRel("real", g) # 2
              THEN Asserts(Rel("equals", "bool", g, IF EvalRel("real", g) = 1 THEN TrueC ELSE FalseC)) ELSE Reject
         [] s = "real_compare" -> IF IsRel(g) /\ g[1] # "equals" /\ EvalRel("real", g) = 1 THEN Asserts(g) ELSE Reject
         [] s = "const_inequality" ->
              LET c == Strip(g) IN
              IF IsRel(c) /\ (g[1] = "neg" => c[1] = "equals") /\ EvalRel("real", c) # 2
                 /\ (IF g[1] = "neg" THEN EvalRel("real", c) = 0 ELSE EvalRel("real", c) = 1) THEN Asserts(g) ELSE Reject
         [] OTHER -> Reject

\* ---------------------------------------------------------------- goals
CastRels == IF FullEq THEN {"equals", "less", "greater_eq"} ELSE {"equals", "less"}
GoalsA == UNION { UNION { { Rel(rel, T, l, r) : rel \in Rels, r \in Rhs(T) } : l \in D2(T) } : T \in NumT }
          \cup UNION { UNION { { Rel(rel, T, l, r) : rel \in CastRels, r \in Rhs(T) } : l \in Casts(T) \cup Deep(T) } : T \in NumT }
\* equations between two compound terms: those that SOME evaluator model equates at SOME type (the goals a type-blind
\* step would accept: the interesting ones) and, when FullEq, every right-hand side that is a numeral, a sum or a difference
WithEv(T) == { <<e, <<NatEv(e), IntEv(e), RealEv(e)>>>> : e \in D2(T) }
EqByModel(a, b) == \E i \in 1..3 : ~RIsOvf(a[i]) /\ a[i] = b[i]
SimpleHead(e) == e[1] \in {"zero", "one", "of_nat", "plus", "minus"}
GoalsB == UNION { { Rel("equals", T, pq[1][1], pq[2][1]) :
                    pq \in { x \in WithEv(T) \X WithEv(T) : (FullEq /\ SimpleHead(x[2][1])) \/ EqByModel(x[1][2], x[2][2]) } } : T \in NumT }
GoalsN == { Not(g) : g \in { x \in GoalsA : x[3][2] \in { Num(ArgT(x), 0) } \cup (IF FullEq THEN { Num(ArgT(x), 2) } ELSE {}) /\ x[3][1] \in D2(ArgT(x)) } }
\* real powers whose natural-number exponent is itself a nested (possibly underflowing) truncated subtraction b - (c - d),
\* against the powers of the same base, the base and 1: the exponent must be computed with the arithmetic of naturals
ExpDeep == { Pow("real", "nat", a, Bin("minus", "nat", b, Bin("minus", "nat", c, d))) :
             a \in Leaves("real"), b \in Leaves("nat"), c \in Leaves("nat"), d \in Leaves("nat") }
GoalsX == UNION { { Rel("equals", "real", l, r) : r \in { Pow("real", "nat", l[3][1], k) : k \in Leaves("nat") } \cup { l[3][1], Num("real", 1) } } : l \in ExpDeep }
\* comparisons of surds (C05_Surd): sqrt k, sqrt (-2), - sqrt k, j + sqrt k, j * sqrt k against each other, against roots and numerals,
\* in both orders, and as disequalities.  No step model evaluates a root (RealEv fails), so every model rejects them; the real
\* const_inequality decides them through floating point.  ValTotal: the meaning decides every one of them; BigAgrees: where the root
\* is rational (sqrt 0, sqrt 1, sqrt 4, ...) the native evaluation and the comparison by squaring agree.
Sq(a) == Un("sqrt", "real", "real", a)
Roots == { Sq(a) : a \in Leaves("real") \cup {NegNum("real", 2)} }
SurdTerms == Roots \cup { UMinus("real", Sq(a)) : a \in Leaves("real") }
             \cup { Bin(op, "real", j, Sq(a)) : op \in {"plus", "times"}, j \in Leaves("real"), a \in Leaves("real") }
GoalsS == LET pairs == (SurdTerms \X (Roots \cup Leaves("real"))) \cup (Leaves("real") \X Roots) IN
          { Rel(rel, "real", p[1], p[2]) : rel \in Rels, p \in pairs } \cup { Not(Rel("equals", "real", p[1], p[2])) : p \in pairs }
Goals == GoalsA \cup GoalsB \cup GoalsN \cup GoalsX \cup GoalsS

\* ---------------------------------------------------------------- the machine
VARIABLES goal, step, out
vars == <<goal, step, out>>
\* spec -> code: the goals are written as vectors when the harness asks for them
Emit == IF "VECTOR_FILE" \in DOMAIN IOEnv
        THEN ndJsonSerialize(IOEnv.VECTOR_FILE, SetToSeq({ [g |-> x] : x \in Goals }))
        ELSE TRUE
Init == Emit /\ goal \in Goals /\ step = "-" /\ out = Reject
Next == /\ step = "-"
        /\ \E s \in ModelSteps : step' = s /\ out' = RefStep(s, goal)
        /\ UNCHANGED goal
Spec == Init /\ [][Next]_vars

\* ---------------------------------------------------------------- invariants
TypeOK == step \in ModelSteps \cup {"-"} /\ out[1] \in BOOLEAN
\* the meaning is total on the universe: every goal is true or false
ValTotal == step = "-" => Truth(goal) \in {"T", "F"}
\* the arbitrary-precision evaluator (the fallback of SeqTruth beyond 31 bits) gives the same verdict as the native one
BigAgrees == step = "-" => BTruth(goal) = Truth(goal)
\* THE property at design level
Sound == out[1] => Truth(out[2]) = "T"
\* the evaluator of type T agrees with the meaning on terms of type T (whenever it returns at all)
Core(g) == Strip(g)
EvAgrees == step = "-" =>
            LET c == Core(goal)  T == ArgT(c) IN
            \A i \in 1..2 : LET v == Ev(T, c[3][i]) IN RIsOvf(v) \/ (CVal(c[3][i])[1] = T /\ Q(CVal(c[3][i])) = v)
\* the library's defining equations hold for the meaning (examples: truncation, division, DIV/MOD, powers)
RECURSIVE Subterms(_)
Subterms(e) == {e} \cup UNION { Subterms(e[3][i]) : i \in 1..Len(e[3]) }
Max2(a, b) == IF RCmp(a, b) = -1 THEN b ELSE a
Laws == step = "-" => \A e \in Subterms(goal) :
          LET v == Q(CVal(e))  a == IF Len(e[3]) >= 1 THEN Q(CVal(e[3][1])) ELSE <<0, 1>>  b == IF Len(e[3]) >= 2 THEN Q(CVal(e[3][2])) ELSE <<0, 1>> IN
          /\ e[1] = "minus" /\ e[2][1] = "nat" => RAdd(v, b) = Max2(a, b) /\ v[1] >= 0                 \* truncated subtraction
          /\ e[1] = "minus" /\ e[2][1] # "nat" => RAdd(v, b) = a
          /\ e[1] = "real_divide" => (IF b[1] = 0 THEN v = <<0, 1>> ELSE RMul(v, b) = a)            \* x / 0 = 0
          /\ e[1] = "real_inverse" => (IF a[1] = 0 THEN v = <<0, 1>> ELSE RMul(v, a) = <<1, 1>>)
          /\ e[1] = "nat_divide" => (IF b[1] = 0 THEN v[1] = 0 ELSE v[1] * b[1] <= a[1] /\ a[1] < (v[1] + 1) * b[1])   \* division_0
          /\ e[1] = "nat_modulus" => (IF b[1] = 0 THEN v = a ELSE v[1] < b[1] /\ (a[1] - v[1]) % b[1] = 0)
          /\ e[1] = "power" /\ e[2][2] = "nat" => (IF b[1] = 0 THEN v = <<1, 1>> ELSE v = RMul(a, RPow(a, b[1] - 1)))
          /\ e[1] = "power" /\ e[2][2] = "real" /\ b[2] = 1 /\ b[1] < 0 => v = RInv(RPow(a, -b[1]))    \* rpow_neg
          /\ e[2][Len(e[2])] = "nat" => v[1] >= 0 /\ v[2] = 1
          /\ e[2][Len(e[2])] = "int" => v[2] = 1
=============================================================================
