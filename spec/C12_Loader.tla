------------------------------ MODULE C12_Loader ------------------------------
(* I-specification for C12: the theory loader of logic/basic.py, one label per critical    *)
(* section, with the process-wide state it manipulates:                                    *)
(*   thy       the global current theory (theory.thy): set of <<theory, "full"|"partial">>  *)
(*   cached    theories whose cache entry carries a current timestamp                       *)
(*   content   [theory -> "none" | "partial" | "full"]  what cache['content'] holds          *)
(*   imported  python modules in sys.modules                                                 *)
(* Python modules may load theories when first imported (ModuleBody), and load_theory_cache  *)
(* imports some modules lazily (LazyImport): both are generated from the repository.        *)
(* Variants (constants):                                                                     *)
(*   RestoreThy    : the lazy import is wrapped so that theory.thy is restored afterwards    *)
(*   TimestampLast : cache['timestamp'] / cache['content'] are stored only when complete      *)
(* Operations of a history: load(t), load with an injected failure while t's own items are   *)
(* parsed (fault), import of a module.  TLC explores all histories of <= MaxOps operations.  *)
(* Invariant Good: every load without injected fault returns normally with thy = Expected.   *)
EXTENDS Naturals, Sequences, FiniteSets, TLC

CONSTANTS Theories, Imports, Modules, LazyImport, ModuleBody,
          OpTheories, OpModules, MaxOps, RestoreThy, TimestampLast, AllowFault

RECURSIVE DepOrder(_, _)
\* get_import_order: dfs over a list of names, appending each name after its imports
DepOrder(names, acc) ==
  IF names = <<>> THEN acc
  ELSE LET n == Head(names)
           acc1 == IF \E i \in 1..Len(acc) : acc[i] = n THEN acc
                   ELSE Append(DepOrder(Imports[n], acc), n)
       IN DepOrder(Tail(names), acc1)
RangeS(s) == { s[i] : i \in 1..Len(s) }
Expected(th) == { <<t, "full">> : t \in RangeS(DepOrder(Imports[th], <<>>)) \cup {th} }
HasTheory(S, t) == \E k \in {"full", "partial"} : <<t, k>> \in S

(* --algorithm Loader
variables
  thy = {};
  cached = {};
  content = [t \in Theories |-> "none"];
  imported = {};
  exc = "none";
  faultAt = "none";
  ops = 0;
  good = TRUE;
  hist = <<>>;

procedure ImportModule(m)
variables pcidx = 1;
begin
im0: if m \in imported then return; end if;
im1: imported := imported \cup {m};
im2: while pcidx <= Len(ModuleBody[m]) /\ exc = "none" do
       if ModuleBody[m][pcidx][1] = "import" then
         call ImportModule(ModuleBody[m][pcidx][2]);
       else
         call LoadTheory(ModuleBody[m][pcidx][2]);
       end if;
im3:   pcidx := pcidx + 1;
     end while;
im4: if exc # "none" then imported := imported \ {m}; end if;
     return;
end procedure;

procedure LoadCache(f)
variables deps = <<>>; i = 1; saved = {}; keep = {};
begin
lc0: if f \in cached then return; end if;
lc1: keep := thy;
     if LazyImport[f] # "none" then call ImportModule(LazyImport[f]); end if;
lc2: if RestoreThy then thy := keep; end if;
     if exc # "none" then return; end if;
lc2b: if RestoreThy /\ f \in cached then return; end if;      \* cache was filled while importing
lc3: deps := DepOrder(Imports[f], <<>>);
     saved := thy;
     thy := {};
lc4: while i <= Len(deps) /\ exc = "none" do
       call LoadCache(deps[i]);
lc5:   if exc = "none" then
         if HasTheory(thy, deps[i]) then exc := "exists";
         else thy := thy \cup {<<deps[i], content[deps[i]]>>}; end if;
       end if;
       i := i + 1;
     end while;
lc6: if exc = "none" then
       if f = faultAt then
         \* an exception while the items of f are being parsed
         if ~TimestampLast then cached := cached \cup {f}; content[f] := "partial"; end if;
         exc := "fault";
       elsif HasTheory(thy, f) then
         if ~TimestampLast then cached := cached \cup {f}; content[f] := "partial"; end if;
         exc := "exists";
       else
         cached := cached \cup {f}; content[f] := "full";
         thy := thy \cup {<<f, "full">>};
       end if;
     end if;
lc7: thy := saved;
     return;
end procedure;

procedure LoadTheory(g)
variables deps2 = <<>>; j = 1;
begin
lt0: call LoadCache(g);
lt1: if exc # "none" then return; end if;
lt2: deps2 := DepOrder(Imports[g], <<>>);
     thy := {};
lt3: while j <= Len(deps2) /\ exc = "none" do
       call LoadCache(deps2[j]);
lt4:   if exc = "none" then
         if HasTheory(thy, deps2[j]) then exc := "exists"; else thy := thy \cup {<<deps2[j], content[deps2[j]]>>}; end if;
       end if;
       j := j + 1;
     end while;
lt5: if exc = "none" then
       if HasTheory(thy, g) then exc := "exists"; else thy := thy \cup {<<g, content[g]>>}; end if;
     end if;
lt6: return;
end procedure;

process main = "main"
variables target = "none"; kind = "none";
begin
m0: while ops < MaxOps do
      either
        with t \in OpTheories do target := t; end with;
        kind := "load"; exc := "none"; faultAt := "none";
        call LoadTheory(target);
      or
        await AllowFault;
        with t \in OpTheories do target := t; end with;
        kind := "fault"; exc := "none"; faultAt := target;
        call LoadTheory(target);
      or
        with mm \in OpModules do target := mm; end with;
        kind := "import"; exc := "none"; faultAt := "none";
        call ImportModule(target);
      end either;
m1:   print <<"H", hist, kind, target, exc, (exc = "none" /\ kind = "load") => thy = Expected(target)>>;
      good := good /\ (kind = "load" => (exc = "none" /\ thy = Expected(target)));
      hist := Append(hist, <<kind, target>>);
      faultAt := "none";
m2:   ops := ops + 1;
    end while;
end process;
end algorithm; *)
\* BEGIN TRANSLATION
CONSTANT defaultInitValue
VARIABLES pc, thy, cached, content, imported, exc, faultAt, ops, good, hist, 
          stack, m, pcidx, f, deps, i, saved, keep, g, deps2, j, target, kind

vars == << pc, thy, cached, content, imported, exc, faultAt, ops, good, hist, 
           stack, m, pcidx, f, deps, i, saved, keep, g, deps2, j, target, 
           kind >>

ProcSet == {"main"}

Init == (* Global variables *)
        /\ thy = {}
        /\ cached = {}
        /\ content = [t \in Theories |-> "none"]
        /\ imported = {}
        /\ exc = "none"
        /\ faultAt = "none"
        /\ ops = 0
        /\ good = TRUE
        /\ hist = <<>>
        (* Procedure ImportModule *)
        /\ m = [ self \in ProcSet |-> defaultInitValue]
        /\ pcidx = [ self \in ProcSet |-> 1]
        (* Procedure LoadCache *)
        /\ f = [ self \in ProcSet |-> defaultInitValue]
        /\ deps = [ self \in ProcSet |-> <<>>]
        /\ i = [ self \in ProcSet |-> 1]
        /\ saved = [ self \in ProcSet |-> {}]
        /\ keep = [ self \in ProcSet |-> {}]
        (* Procedure LoadTheory *)
        /\ g = [ self \in ProcSet |-> defaultInitValue]
        /\ deps2 = [ self \in ProcSet |-> <<>>]
        /\ j = [ self \in ProcSet |-> 1]
        (* Process main *)
        /\ target = "none"
        /\ kind = "none"
        /\ stack = [self \in ProcSet |-> << >>]
        /\ pc = [self \in ProcSet |-> "m0"]

im0(self) == /\ pc[self] = "im0"
             /\ IF m[self] \in imported
                   THEN /\ pc' = [pc EXCEPT ![self] = Head(stack[self]).pc]
                        /\ pcidx' = [pcidx EXCEPT ![self] = Head(stack[self]).pcidx]
                        /\ m' = [m EXCEPT ![self] = Head(stack[self]).m]
                        /\ stack' = [stack EXCEPT ![self] = Tail(stack[self])]
                   ELSE /\ pc' = [pc EXCEPT ![self] = "im1"]
                        /\ UNCHANGED << stack, m, pcidx >>
             /\ UNCHANGED << thy, cached, content, imported, exc, faultAt, ops, 
                             good, hist, f, deps, i, saved, keep, g, deps2, j, 
                             target, kind >>

im1(self) == /\ pc[self] = "im1"
             /\ imported' = (imported \cup {m[self]})
             /\ pc' = [pc EXCEPT ![self] = "im2"]
             /\ UNCHANGED << thy, cached, content, exc, faultAt, ops, good, 
                             hist, stack, m, pcidx, f, deps, i, saved, keep, g, 
                             deps2, j, target, kind >>

im2(self) == /\ pc[self] = "im2"
             /\ IF pcidx[self] <= Len(ModuleBody[m[self]]) /\ exc = "none"
                   THEN /\ IF ModuleBody[m[self]][pcidx[self]][1] = "import"
                              THEN /\ /\ m' = [m EXCEPT ![self] = ModuleBody[m[self]][pcidx[self]][2]]
                                      /\ stack' = [stack EXCEPT ![self] = << [ procedure |->  "ImportModule",
                                                                               pc        |->  "im3",
                                                                               pcidx     |->  pcidx[self],
                                                                               m         |->  m[self] ] >>
                                                                           \o stack[self]]
                                   /\ pcidx' = [pcidx EXCEPT ![self] = 1]
                                   /\ pc' = [pc EXCEPT ![self] = "im0"]
                                   /\ UNCHANGED << g, deps2, j >>
                              ELSE /\ /\ g' = [g EXCEPT ![self] = ModuleBody[m[self]][pcidx[self]][2]]
                                      /\ stack' = [stack EXCEPT ![self] = << [ procedure |->  "LoadTheory",
                                                                               pc        |->  "im3",
                                                                               deps2     |->  deps2[self],
                                                                               j         |->  j[self],
                                                                               g         |->  g[self] ] >>
                                                                           \o stack[self]]
                                   /\ deps2' = [deps2 EXCEPT ![self] = <<>>]
                                   /\ j' = [j EXCEPT ![self] = 1]
                                   /\ pc' = [pc EXCEPT ![self] = "lt0"]
                                   /\ UNCHANGED << m, pcidx >>
                   ELSE /\ pc' = [pc EXCEPT ![self] = "im4"]
                        /\ UNCHANGED << stack, m, pcidx, g, deps2, j >>
             /\ UNCHANGED << thy, cached, content, imported, exc, faultAt, ops, 
                             good, hist, f, deps, i, saved, keep, target, kind >>

im3(self) == /\ pc[self] = "im3"
             /\ pcidx' = [pcidx EXCEPT ![self] = pcidx[self] + 1]
             /\ pc' = [pc EXCEPT ![self] = "im2"]
             /\ UNCHANGED << thy, cached, content, imported, exc, faultAt, ops, 
                             good, hist, stack, m, f, deps, i, saved, keep, g, 
                             deps2, j, target, kind >>

im4(self) == /\ pc[self] = "im4"
             /\ IF exc # "none"
                   THEN /\ imported' = imported \ {m[self]}
                   ELSE /\ TRUE
                        /\ UNCHANGED imported
             /\ pc' = [pc EXCEPT ![self] = Head(stack[self]).pc]
             /\ pcidx' = [pcidx EXCEPT ![self] = Head(stack[self]).pcidx]
             /\ m' = [m EXCEPT ![self] = Head(stack[self]).m]
             /\ stack' = [stack EXCEPT ![self] = Tail(stack[self])]
             /\ UNCHANGED << thy, cached, content, exc, faultAt, ops, good, 
                             hist, f, deps, i, saved, keep, g, deps2, j, 
                             target, kind >>

ImportModule(self) == im0(self) \/ im1(self) \/ im2(self) \/ im3(self)
                         \/ im4(self)

lc0(self) == /\ pc[self] = "lc0"
             /\ IF f[self] \in cached
                   THEN /\ pc' = [pc EXCEPT ![self] = Head(stack[self]).pc]
                        /\ deps' = [deps EXCEPT ![self] = Head(stack[self]).deps]
                        /\ i' = [i EXCEPT ![self] = Head(stack[self]).i]
                        /\ saved' = [saved EXCEPT ![self] = Head(stack[self]).saved]
                        /\ keep' = [keep EXCEPT ![self] = Head(stack[self]).keep]
                        /\ f' = [f EXCEPT ![self] = Head(stack[self]).f]
                        /\ stack' = [stack EXCEPT ![self] = Tail(stack[self])]
                   ELSE /\ pc' = [pc EXCEPT ![self] = "lc1"]
                        /\ UNCHANGED << stack, f, deps, i, saved, keep >>
             /\ UNCHANGED << thy, cached, content, imported, exc, faultAt, ops, 
                             good, hist, m, pcidx, g, deps2, j, target, kind >>

lc1(self) == /\ pc[self] = "lc1"
             /\ keep' = [keep EXCEPT ![self] = thy]
             /\ IF LazyImport[f[self]] # "none"
                   THEN /\ /\ m' = [m EXCEPT ![self] = LazyImport[f[self]]]
                           /\ stack' = [stack EXCEPT ![self] = << [ procedure |->  "ImportModule",
                                                                    pc        |->  "lc2",
                                                                    pcidx     |->  pcidx[self],
                                                                    m         |->  m[self] ] >>
                                                                \o stack[self]]
                        /\ pcidx' = [pcidx EXCEPT ![self] = 1]
                        /\ pc' = [pc EXCEPT ![self] = "im0"]
                   ELSE /\ pc' = [pc EXCEPT ![self] = "lc2"]
                        /\ UNCHANGED << stack, m, pcidx >>
             /\ UNCHANGED << thy, cached, content, imported, exc, faultAt, ops, 
                             good, hist, f, deps, i, saved, g, deps2, j, 
                             target, kind >>

lc2(self) == /\ pc[self] = "lc2"
             /\ IF RestoreThy
                   THEN /\ thy' = keep[self]
                   ELSE /\ TRUE
                        /\ thy' = thy
             /\ IF exc # "none"
                   THEN /\ pc' = [pc EXCEPT ![self] = Head(stack[self]).pc]
                        /\ deps' = [deps EXCEPT ![self] = Head(stack[self]).deps]
                        /\ i' = [i EXCEPT ![self] = Head(stack[self]).i]
                        /\ saved' = [saved EXCEPT ![self] = Head(stack[self]).saved]
                        /\ keep' = [keep EXCEPT ![self] = Head(stack[self]).keep]
                        /\ f' = [f EXCEPT ![self] = Head(stack[self]).f]
                        /\ stack' = [stack EXCEPT ![self] = Tail(stack[self])]
                   ELSE /\ pc' = [pc EXCEPT ![self] = "lc2b"]
                        /\ UNCHANGED << stack, f, deps, i, saved, keep >>
             /\ UNCHANGED << cached, content, imported, exc, faultAt, ops, 
                             good, hist, m, pcidx, g, deps2, j, target, kind >>

lc2b(self) == /\ pc[self] = "lc2b"
              /\ IF RestoreThy /\ f[self] \in cached
                    THEN /\ pc' = [pc EXCEPT ![self] = Head(stack[self]).pc]
                         /\ deps' = [deps EXCEPT ![self] = Head(stack[self]).deps]
                         /\ i' = [i EXCEPT ![self] = Head(stack[self]).i]
                         /\ saved' = [saved EXCEPT ![self] = Head(stack[self]).saved]
                         /\ keep' = [keep EXCEPT ![self] = Head(stack[self]).keep]
                         /\ f' = [f EXCEPT ![self] = Head(stack[self]).f]
                         /\ stack' = [stack EXCEPT ![self] = Tail(stack[self])]
                    ELSE /\ pc' = [pc EXCEPT ![self] = "lc3"]
                         /\ UNCHANGED << stack, f, deps, i, saved, keep >>
              /\ UNCHANGED << thy, cached, content, imported, exc, faultAt, 
                              ops, good, hist, m, pcidx, g, deps2, j, target, 
                              kind >>

lc3(self) == /\ pc[self] = "lc3"
             /\ deps' = [deps EXCEPT ![self] = DepOrder(Imports[f[self]], <<>>)]
             /\ saved' = [saved EXCEPT ![self] = thy]
             /\ thy' = {}
             /\ pc' = [pc EXCEPT ![self] = "lc4"]
             /\ UNCHANGED << cached, content, imported, exc, faultAt, ops, 
                             good, hist, stack, m, pcidx, f, i, keep, g, deps2, 
                             j, target, kind >>

lc4(self) == /\ pc[self] = "lc4"
             /\ IF i[self] <= Len(deps[self]) /\ exc = "none"
                   THEN /\ /\ f' = [f EXCEPT ![self] = deps[self][i[self]]]
                           /\ stack' = [stack EXCEPT ![self] = << [ procedure |->  "LoadCache",
                                                                    pc        |->  "lc5",
                                                                    deps      |->  deps[self],
                                                                    i         |->  i[self],
                                                                    saved     |->  saved[self],
                                                                    keep      |->  keep[self],
                                                                    f         |->  f[self] ] >>
                                                                \o stack[self]]
                        /\ deps' = [deps EXCEPT ![self] = <<>>]
                        /\ i' = [i EXCEPT ![self] = 1]
                        /\ saved' = [saved EXCEPT ![self] = {}]
                        /\ keep' = [keep EXCEPT ![self] = {}]
                        /\ pc' = [pc EXCEPT ![self] = "lc0"]
                   ELSE /\ pc' = [pc EXCEPT ![self] = "lc6"]
                        /\ UNCHANGED << stack, f, deps, i, saved, keep >>
             /\ UNCHANGED << thy, cached, content, imported, exc, faultAt, ops, 
                             good, hist, m, pcidx, g, deps2, j, target, kind >>

lc5(self) == /\ pc[self] = "lc5"
             /\ IF exc = "none"
                   THEN /\ IF HasTheory(thy, deps[self][i[self]])
                              THEN /\ exc' = "exists"
                                   /\ thy' = thy
                              ELSE /\ thy' = (thy \cup {<<deps[self][i[self]], content[deps[self][i[self]]]>>})
                                   /\ exc' = exc
                   ELSE /\ TRUE
                        /\ UNCHANGED << thy, exc >>
             /\ i' = [i EXCEPT ![self] = i[self] + 1]
             /\ pc' = [pc EXCEPT ![self] = "lc4"]
             /\ UNCHANGED << cached, content, imported, faultAt, ops, good, 
                             hist, stack, m, pcidx, f, deps, saved, keep, g, 
                             deps2, j, target, kind >>

lc6(self) == /\ pc[self] = "lc6"
             /\ IF exc = "none"
                   THEN /\ IF f[self] = faultAt
                              THEN /\ IF ~TimestampLast
                                         THEN /\ cached' = (cached \cup {f[self]})
                                              /\ content' = [content EXCEPT ![f[self]] = "partial"]
                                         ELSE /\ TRUE
                                              /\ UNCHANGED << cached, content >>
                                   /\ exc' = "fault"
                                   /\ thy' = thy
                              ELSE /\ IF HasTheory(thy, f[self])
                                         THEN /\ IF ~TimestampLast
                                                    THEN /\ cached' = (cached \cup {f[self]})
                                                         /\ content' = [content EXCEPT ![f[self]] = "partial"]
                                                    ELSE /\ TRUE
                                                         /\ UNCHANGED << cached, 
                                                                         content >>
                                              /\ exc' = "exists"
                                              /\ thy' = thy
                                         ELSE /\ cached' = (cached \cup {f[self]})
                                              /\ content' = [content EXCEPT ![f[self]] = "full"]
                                              /\ thy' = (thy \cup {<<f[self], "full">>})
                                              /\ exc' = exc
                   ELSE /\ TRUE
                        /\ UNCHANGED << thy, cached, content, exc >>
             /\ pc' = [pc EXCEPT ![self] = "lc7"]
             /\ UNCHANGED << imported, faultAt, ops, good, hist, stack, m, 
                             pcidx, f, deps, i, saved, keep, g, deps2, j, 
                             target, kind >>

lc7(self) == /\ pc[self] = "lc7"
             /\ thy' = saved[self]
             /\ pc' = [pc EXCEPT ![self] = Head(stack[self]).pc]
             /\ deps' = [deps EXCEPT ![self] = Head(stack[self]).deps]
             /\ i' = [i EXCEPT ![self] = Head(stack[self]).i]
             /\ saved' = [saved EXCEPT ![self] = Head(stack[self]).saved]
             /\ keep' = [keep EXCEPT ![self] = Head(stack[self]).keep]
             /\ f' = [f EXCEPT ![self] = Head(stack[self]).f]
             /\ stack' = [stack EXCEPT ![self] = Tail(stack[self])]
             /\ UNCHANGED << cached, content, imported, exc, faultAt, ops, 
                             good, hist, m, pcidx, g, deps2, j, target, kind >>

LoadCache(self) == lc0(self) \/ lc1(self) \/ lc2(self) \/ lc2b(self)
                      \/ lc3(self) \/ lc4(self) \/ lc5(self) \/ lc6(self)
                      \/ lc7(self)

lt0(self) == /\ pc[self] = "lt0"
             /\ /\ f' = [f EXCEPT ![self] = g[self]]
                /\ stack' = [stack EXCEPT ![self] = << [ procedure |->  "LoadCache",
                                                         pc        |->  "lt1",
                                                         deps      |->  deps[self],
                                                         i         |->  i[self],
                                                         saved     |->  saved[self],
                                                         keep      |->  keep[self],
                                                         f         |->  f[self] ] >>
                                                     \o stack[self]]
             /\ deps' = [deps EXCEPT ![self] = <<>>]
             /\ i' = [i EXCEPT ![self] = 1]
             /\ saved' = [saved EXCEPT ![self] = {}]
             /\ keep' = [keep EXCEPT ![self] = {}]
             /\ pc' = [pc EXCEPT ![self] = "lc0"]
             /\ UNCHANGED << thy, cached, content, imported, exc, faultAt, ops, 
                             good, hist, m, pcidx, g, deps2, j, target, kind >>

lt1(self) == /\ pc[self] = "lt1"
             /\ IF exc # "none"
                   THEN /\ pc' = [pc EXCEPT ![self] = Head(stack[self]).pc]
                        /\ deps2' = [deps2 EXCEPT ![self] = Head(stack[self]).deps2]
                        /\ j' = [j EXCEPT ![self] = Head(stack[self]).j]
                        /\ g' = [g EXCEPT ![self] = Head(stack[self]).g]
                        /\ stack' = [stack EXCEPT ![self] = Tail(stack[self])]
                   ELSE /\ pc' = [pc EXCEPT ![self] = "lt2"]
                        /\ UNCHANGED << stack, g, deps2, j >>
             /\ UNCHANGED << thy, cached, content, imported, exc, faultAt, ops, 
                             good, hist, m, pcidx, f, deps, i, saved, keep, 
                             target, kind >>

lt2(self) == /\ pc[self] = "lt2"
             /\ deps2' = [deps2 EXCEPT ![self] = DepOrder(Imports[g[self]], <<>>)]
             /\ thy' = {}
             /\ pc' = [pc EXCEPT ![self] = "lt3"]
             /\ UNCHANGED << cached, content, imported, exc, faultAt, ops, 
                             good, hist, stack, m, pcidx, f, deps, i, saved, 
                             keep, g, j, target, kind >>

lt3(self) == /\ pc[self] = "lt3"
             /\ IF j[self] <= Len(deps2[self]) /\ exc = "none"
                   THEN /\ /\ f' = [f EXCEPT ![self] = deps2[self][j[self]]]
                           /\ stack' = [stack EXCEPT ![self] = << [ procedure |->  "LoadCache",
                                                                    pc        |->  "lt4",
                                                                    deps      |->  deps[self],
                                                                    i         |->  i[self],
                                                                    saved     |->  saved[self],
                                                                    keep      |->  keep[self],
                                                                    f         |->  f[self] ] >>
                                                                \o stack[self]]
                        /\ deps' = [deps EXCEPT ![self] = <<>>]
                        /\ i' = [i EXCEPT ![self] = 1]
                        /\ saved' = [saved EXCEPT ![self] = {}]
                        /\ keep' = [keep EXCEPT ![self] = {}]
                        /\ pc' = [pc EXCEPT ![self] = "lc0"]
                   ELSE /\ pc' = [pc EXCEPT ![self] = "lt5"]
                        /\ UNCHANGED << stack, f, deps, i, saved, keep >>
             /\ UNCHANGED << thy, cached, content, imported, exc, faultAt, ops, 
                             good, hist, m, pcidx, g, deps2, j, target, kind >>

lt4(self) == /\ pc[self] = "lt4"
             /\ IF exc = "none"
                   THEN /\ IF HasTheory(thy, deps2[self][j[self]])
                              THEN /\ exc' = "exists"
                                   /\ thy' = thy
                              ELSE /\ thy' = (thy \cup {<<deps2[self][j[self]], content[deps2[self][j[self]]]>>})
                                   /\ exc' = exc
                   ELSE /\ TRUE
                        /\ UNCHANGED << thy, exc >>
             /\ j' = [j EXCEPT ![self] = j[self] + 1]
             /\ pc' = [pc EXCEPT ![self] = "lt3"]
             /\ UNCHANGED << cached, content, imported, faultAt, ops, good, 
                             hist, stack, m, pcidx, f, deps, i, saved, keep, g, 
                             deps2, target, kind >>

lt5(self) == /\ pc[self] = "lt5"
             /\ IF exc = "none"
                   THEN /\ IF HasTheory(thy, g[self])
                              THEN /\ exc' = "exists"
                                   /\ thy' = thy
                              ELSE /\ thy' = (thy \cup {<<g[self], content[g[self]]>>})
                                   /\ exc' = exc
                   ELSE /\ TRUE
                        /\ UNCHANGED << thy, exc >>
             /\ pc' = [pc EXCEPT ![self] = "lt6"]
             /\ UNCHANGED << cached, content, imported, faultAt, ops, good, 
                             hist, stack, m, pcidx, f, deps, i, saved, keep, g, 
                             deps2, j, target, kind >>

lt6(self) == /\ pc[self] = "lt6"
             /\ pc' = [pc EXCEPT ![self] = Head(stack[self]).pc]
             /\ deps2' = [deps2 EXCEPT ![self] = Head(stack[self]).deps2]
             /\ j' = [j EXCEPT ![self] = Head(stack[self]).j]
             /\ g' = [g EXCEPT ![self] = Head(stack[self]).g]
             /\ stack' = [stack EXCEPT ![self] = Tail(stack[self])]
             /\ UNCHANGED << thy, cached, content, imported, exc, faultAt, ops, 
                             good, hist, m, pcidx, f, deps, i, saved, keep, 
                             target, kind >>

LoadTheory(self) == lt0(self) \/ lt1(self) \/ lt2(self) \/ lt3(self)
                       \/ lt4(self) \/ lt5(self) \/ lt6(self)

m0 == /\ pc["main"] = "m0"
      /\ IF ops < MaxOps
            THEN /\ \/ /\ \E t \in OpTheories:
                            target' = t
                       /\ kind' = "load"
                       /\ exc' = "none"
                       /\ faultAt' = "none"
                       /\ /\ g' = [g EXCEPT !["main"] = target']
                          /\ stack' = [stack EXCEPT !["main"] = << [ procedure |->  "LoadTheory",
                                                                     pc        |->  "m1",
                                                                     deps2     |->  deps2["main"],
                                                                     j         |->  j["main"],
                                                                     g         |->  g["main"] ] >>
                                                                 \o stack["main"]]
                       /\ deps2' = [deps2 EXCEPT !["main"] = <<>>]
                       /\ j' = [j EXCEPT !["main"] = 1]
                       /\ pc' = [pc EXCEPT !["main"] = "lt0"]
                       /\ UNCHANGED <<m, pcidx>>
                    \/ /\ AllowFault
                       /\ \E t \in OpTheories:
                            target' = t
                       /\ kind' = "fault"
                       /\ exc' = "none"
                       /\ faultAt' = target'
                       /\ /\ g' = [g EXCEPT !["main"] = target']
                          /\ stack' = [stack EXCEPT !["main"] = << [ procedure |->  "LoadTheory",
                                                                     pc        |->  "m1",
                                                                     deps2     |->  deps2["main"],
                                                                     j         |->  j["main"],
                                                                     g         |->  g["main"] ] >>
                                                                 \o stack["main"]]
                       /\ deps2' = [deps2 EXCEPT !["main"] = <<>>]
                       /\ j' = [j EXCEPT !["main"] = 1]
                       /\ pc' = [pc EXCEPT !["main"] = "lt0"]
                       /\ UNCHANGED <<m, pcidx>>
                    \/ /\ \E mm \in OpModules:
                            target' = mm
                       /\ kind' = "import"
                       /\ exc' = "none"
                       /\ faultAt' = "none"
                       /\ /\ m' = [m EXCEPT !["main"] = target']
                          /\ stack' = [stack EXCEPT !["main"] = << [ procedure |->  "ImportModule",
                                                                     pc        |->  "m1",
                                                                     pcidx     |->  pcidx["main"],
                                                                     m         |->  m["main"] ] >>
                                                                 \o stack["main"]]
                       /\ pcidx' = [pcidx EXCEPT !["main"] = 1]
                       /\ pc' = [pc EXCEPT !["main"] = "im0"]
                       /\ UNCHANGED <<g, deps2, j>>
            ELSE /\ pc' = [pc EXCEPT !["main"] = "Done"]
                 /\ UNCHANGED << exc, faultAt, stack, m, pcidx, g, deps2, j, 
                                 target, kind >>
      /\ UNCHANGED << thy, cached, content, imported, ops, good, hist, f, deps, 
                      i, saved, keep >>

m1 == /\ pc["main"] = "m1"
      /\ PrintT(<<"H", hist, kind, target, exc, (exc = "none" /\ kind = "load") => thy = Expected(target)>>)
      /\ good' = (good /\ (kind = "load" => (exc = "none" /\ thy = Expected(target))))
      /\ hist' = Append(hist, <<kind, target>>)
      /\ faultAt' = "none"
      /\ pc' = [pc EXCEPT !["main"] = "m2"]
      /\ UNCHANGED << thy, cached, content, imported, exc, ops, stack, m, 
                      pcidx, f, deps, i, saved, keep, g, deps2, j, target, 
                      kind >>

m2 == /\ pc["main"] = "m2"
      /\ ops' = ops + 1
      /\ pc' = [pc EXCEPT !["main"] = "m0"]
      /\ UNCHANGED << thy, cached, content, imported, exc, faultAt, good, hist, 
                      stack, m, pcidx, f, deps, i, saved, keep, g, deps2, j, 
                      target, kind >>

main == m0 \/ m1 \/ m2

(* Allow infinite stuttering to prevent deadlock on termination. *)
Terminating == /\ \A self \in ProcSet: pc[self] = "Done"
               /\ UNCHANGED vars

Next == main
           \/ (\E self \in ProcSet:  \/ ImportModule(self) \/ LoadCache(self)
                                     \/ LoadTheory(self))
           \/ Terminating

Spec == Init /\ [][Next]_vars

Termination == <>(\A self \in ProcSet: pc[self] = "Done")

\* END TRANSLATION

Good == good
=============================================================================
