------------------------------ MODULE C12_Loader ------------------------------
(* I-specification for C12: the theory loader of logic/basic.py, one label per critical    *)
(* section, with the process-wide state it manipulates and the library files it reads:      *)
(*   files     fexists (set of existing files), fimports, fitems (sequence of item ids),     *)
(*             fver (modification time: a counter that grows with every new version)         *)
(*   meta      theory_cache[user]: per name  known? / imports as remembered (and the file's   *)
(*             modification time when they were read) / timestamp of the content /             *)
(*             content = <<file of origin, item id, parsed without error?>> (an item parses   *)
(*             without error iff the theory it is parsed in has what its file needed originally) *)
(*   thy       the global current theory (theory.thy): set of <<file, item id>>               *)
(*   imported  python modules in sys.modules                                                 *)
(* Python modules may load theories when first imported (ModuleBody), and load_theory_cache  *)
(* imports some modules lazily (LazyImport): both are generated from the repository.        *)
(* Mechanism variants: var, chosen in Init from Variants, is a set of deviations from the     *)
(* mechanism that has the property (var = {}):                                               *)
(*   "norestore"  theory.thy is not restored after the lazy import                            *)
(*   "tsfirst"    cache timestamp / content are stored before the content is complete         *)
(*   "stalemeta"  the imports of a known file are not re-read when the file has changed       *)
(*   "keepentry"  the cache entry of a file that does not exist is kept (without content)     *)
(*   "limitpos"   a limit is remembered by the position it had when it was first used         *)
(*   "staledeps"  the import walk trusts the remembered imports of every known file, also of  *)
(*                files that have changed since (only the file being loaded is re-read)       *)
(* Operations of a history: load(t, limit), load with an injected failure while t's own      *)
(* items are parsed (fault), import of a module, and operations on the files between loads:  *)
(* create / remove a file, another import list, insert / delete an item at a position.       *)
(* TLC explores all histories of <= MaxOps operations.  Invariant Good: for the mechanisms   *)
(* in GoodVariants every load ends as the FILES say: an error iff a file of the import closure is   *)
(* missing, the closure has a cycle or the limit names no item; otherwise thy = Expected.    *)
EXTENDS Naturals, Sequences, FiniteSets, TLC

CONSTANTS Theories, Imports, Modules, LazyImport, ModuleBody,
          OpTheories, OpModules, MaxOps, AllowFault, Variants, GoodVariants, PrintGood,
          Present0,        \* files that exist initially
          Items0,          \* [Theories -> Seq(Nat)] item ids of a file when it is (re)created
          Origin,          \* [Theories -> Theories] a file created as a copy declares the names of the file it copies (else itself)
          FileOps,         \* set of <<kind, file, position, imports>>, kind in create/remove/reimport/ins/del
          LimitsOf,        \* [Theories -> SUBSET Nat] limits used in loads of a theory (0 = no limit)
          MaxDepth         \* recursion bound of the import walk (python's recursion limit)

RangeS(s) == { s[i] : i \in 1..Len(s) }
InSeq(s, x) == \E i \in 1..Len(s) : s[i] = x
Min(S) == CHOOSE x \in S : \A y \in S : x <= y

RECURSIVE DepOrderF(_, _, _)
\* get_import_order over a table of import lists: dfs over a list of names, appending each name after its imports
DepOrderF(imp, names, acc) ==
  IF names = <<>> THEN acc
  ELSE LET n == Head(names)
           acc1 == IF InSeq(acc, n) THEN acc ELSE Append(DepOrderF(imp, imp[n], acc), n)
       IN DepOrderF(imp, Tail(names), acc1)

\* ------------------------------------------------------------------ what the FILES say (reference)
FImp(fe, fi, n) == IF n \in fe THEN RangeS(fi[n]) ELSE {}
RECURSIVE FReach(_, _, _)
FReach(fe, fi, S) == LET S2 == S \cup UNION { FImp(fe, fi, n) : n \in S } IN IF S2 = S THEN S ELSE FReach(fe, fi, S2)
FBelow(fe, fi, n) == FReach(fe, fi, FImp(fe, fi, n))
FClosure(fe, fi, n) == FBelow(fe, fi, n) \cup {n}
RECURSIVE FPeel(_, _, _)
FPeel(fe, fi, C) == LET R == { x \in C : FImp(fe, fi, x) \cap C = {} } IN IF R = {} THEN C ELSE FPeel(fe, fi, C \ R)
SaneLib(fe, fi) == (\A x \in fe : RangeS(fi[x]) \subseteq fe) /\ FPeel(fe, fi, fe) = {}
ExpectOK(fe, fi, fit, t, lim) == /\ FClosure(fe, fi, t) \subseteq fe
                                 /\ FPeel(fe, fi, FClosure(fe, fi, t)) = {}
                                 /\ (lim = 0 \/ lim \in RangeS(fit[t]))
Toks(fit, d) == { <<Origin[d], id>> : id \in RangeS(fit[d]) }
PosIn(s, x) == IF InSeq(s, x) THEN Min({ k \in 1..Len(s) : s[k] = x }) ELSE 0
ExpectedToks(fe, fi, fit, t, lim) ==
  UNION { Toks(fit, d) : d \in FBelow(fe, fi, t) }
  \cup { <<Origin[t], fit[t][k]>> : k \in 1..(IF lim = 0 THEN Len(fit[t]) ELSE PosIn(fit[t], lim) - 1) }
\* The items of file f were written against the library as it was: they parse without error iff the theory they are parsed in has
\* the original items (those that are still there) of the files that were below f originally.  More imports do no harm.
CtxGood(fe, fi, fit, f, ctx) ==
  UNION { { <<Origin[d], id>> : id \in RangeS(Items0[d]) \cap RangeS(fit[d]) } : d \in FBelow(Theories, Imports, f) } \subseteq ctx

\* ------------------------------------------------------------------ what the PROCESS remembers
\* its: modification time of the file when its imports were read (0: never); ts: when its content was complete
AbsentRec == [known |-> FALSE, imports |-> <<>>, its |-> 0, hasTs |-> FALSE, ts |-> 0, content |-> <<>>]
EmptyRec == [AbsentRec EXCEPT !.known = TRUE]
MImp(mt, n) == RangeS(mt[n].imports)
RECURSIVE MReach(_, _)
MReach(mt, S) == LET S2 == S \cup UNION { MImp(mt, n) : n \in S } IN IF S2 = S THEN S ELSE MReach(mt, S2)
MClosure(mt, n) == MReach(mt, {n})
RECURSIVE MPeel(_, _)
MPeel(mt, C) == LET R == { x \in C : MImp(mt, x) \cap C = {} } IN IF R = {} THEN C ELSE MPeel(mt, C \ R)
Current(mt, fe, fv, n) == n \in fe /\ mt[n].known /\ mt[n].hasTs /\ mt[n].ts = fv[n]
\* everything the walk from n can reach is cached and current: the walk has no side effect and is the pure order
Settled(mt, fe, fv, n) == LET C == MClosure(mt, n) IN (\A x \in C : Current(mt, fe, fv, x)) /\ MPeel(mt, C) = {}
GoodToks(c, n) == { <<c[k][1], c[k][2]>> : k \in { k2 \in 1..n : c[k2][3] } }
AllToks(c) == { <<c[k][1], c[k][2]>> : k \in 1..Len(c) }
Parsed(fit, f, n, ok) == [k \in 1..n |-> <<Origin[f], fit[f][k], ok>>]
PosOfLimit(c, lim) == LET K == { k \in 1..Len(c) : c[k][2] = lim } IN IF K = {} THEN 0 ELSE Min(K)
InsertAt(s, p, x) == SubSeq(s, 1, p) \o <<x>> \o SubSeq(s, p + 1, Len(s))
RemoveAt(s, p) == SubSeq(s, 1, p) \o SubSeq(s, p + 2, Len(s))

(* --algorithm Loader
variables
  var \in Variants;
  fexists = Present0;
  fimports = Imports;
  fitems = Items0;
  fver = [t \in Theories |-> 1];
  meta = [t \in Theories |-> AbsentRec];
  metaLoaded = FALSE;
  limMemo = [t \in Theories |-> {}];
  order = <<>>;
  thy = {};
  imported = {};
  exc = "none";
  faultAt = "none";
  ops = 0;
  good = TRUE;
  hist = <<>>;

define
  RestoreThy == "norestore" \notin var
  TimestampLast == "tsfirst" \notin var
  RefreshMeta == "stalemeta" \notin var
  DropMissing == "keepentry" \notin var
  LimitById == "limitpos" \notin var
  RefreshDeps == "staledeps" \notin var
  IsCurrent(n) == metaLoaded /\ Current(meta, fexists, fver, n)
  IsSettled(n) == metaLoaded /\ Settled(meta, fexists, fver, n)
  ImportsCurrent(n) == n \in fexists /\ meta[n].known /\ meta[n].its = fver[n]
  MetaImports == [t \in Theories |-> meta[t].imports]
  FileOpEnabled(o) ==
    CASE o[1] = "create" -> o[2] \notin fexists
      [] o[1] = "remove" -> o[2] \in fexists
      [] o[1] = "reimport" -> o[2] \in fexists /\ fimports[o[2]] # o[4]
      [] o[1] = "ins" -> o[2] \in fexists /\ o[3] <= Len(fitems[o[2]])
      [] o[1] = "del" -> o[2] \in fexists /\ o[3] < Len(fitems[o[2]])
      [] OTHER -> FALSE
end define;

\* add the error-free items of the cached theory d to the current theory (a name that is already there is an error)
macro Extend(d) begin
  if GoodToks(meta[d].content, Len(meta[d].content)) \cap thy # {} then exc := "exists";
  else thy := thy \cup GoodToks(meta[d].content, Len(meta[d].content)); end if;
end macro;

procedure ImportModule(m)
variables pcidx = 1;
begin
im0: if m \in imported then return; end if;
im1: imported := imported \cup {m};
im2: while pcidx <= Len(ModuleBody[m]) /\ exc = "none" do
       if ModuleBody[m][pcidx][1] = "import" then
         call ImportModule(ModuleBody[m][pcidx][2]);
       else
         call LoadTheory(ModuleBody[m][pcidx][2], 0);
       end if;
im3:   pcidx := pcidx + 1;
     end while;
im4: if exc # "none" then imported := imported \ {m}; end if;
     return;
end procedure;

\* dfs of get_import_order; the list being built is the global `order`
procedure Dfs(dn)
variables dk = 1; dimps = <<>>;
begin
d0: if InSeq(order, dn) then return;
    elsif IsSettled(dn) then order := DepOrderF(MetaImports, <<dn>>, order); return;
    elsif Len(stack[self]) > MaxDepth then exc := "recursion"; return;
    end if;
d1: if ~meta[dn].known \/ (RefreshDeps /\ ~ImportsCurrent(dn)) then
      \* an unknown name (file created later) is read first; the mechanism with the property also re-reads a file that was
      \* removed or has changed since its imports were read
      call LoadCache(dn);
    end if;
d2: if exc # "none" then return; end if;
d2a: dimps := meta[dn].imports;
d3: while dk <= Len(dimps) /\ exc = "none" do
      call Dfs(dimps[dk]);
d4:   dk := dk + 1;
    end while;
d5: if exc = "none" then order := Append(order, dn); end if;
    return;
end procedure;

procedure GetOrder(names)
variables q = 1;
begin
go1: while q <= Len(names) /\ exc = "none" do
       call Dfs(names[q]);
go2:   q := q + 1;
     end while;
go3: return;
end procedure;

procedure LoadCache(f)
variables deps = <<>>; i = 1; saved = {}; keep = {}; sorder = <<>>;
begin
lc0: if IsCurrent(f) then return; end if;
lcm: if ~metaLoaded then
       \* load_metadata: the imports of every file there is; then the cycle check (a dangling import is a KeyError)
       meta := [t \in Theories |-> IF t \in fexists THEN [EmptyRec EXCEPT !.imports = fimports[t], !.its = fver[t]] ELSE AbsentRec];
       metaLoaded := TRUE;
       if ~SaneLib(fexists, fimports) then exc := "metadata"; end if;
     end if;
lce: if exc # "none" then return;
     elsif f \notin fexists then
       \* the file was never there or has been removed
       if DropMissing then meta[f] := AbsentRec;
       else meta[f] := [(IF meta[f].known THEN meta[f] ELSE EmptyRec) EXCEPT !.hasTs = FALSE, !.content = <<>>]; end if;
       exc := "notfound";
       return;
     elsif IsCurrent(f) then return;
     else
       \* the file is new or has changed: its imports may have changed as well
       meta[f] := [(IF meta[f].known THEN meta[f] ELSE EmptyRec) EXCEPT !.imports = IF RefreshMeta \/ ~meta[f].known THEN fimports[f] ELSE @,
                                                                        !.its = IF RefreshMeta \/ ~meta[f].known THEN fver[f] ELSE @];
     end if;
lc1: if LazyImport[f] # "none" then
       keep := thy;
       call ImportModule(LazyImport[f]);
lc2:   if RestoreThy then thy := keep; end if;
       if exc # "none" \/ (RestoreThy /\ IsCurrent(f)) then return; end if;      \* cache was filled while importing
     end if;
lc3: sorder := order;
     if \A x \in RangeS(meta[f].imports) : IsSettled(x) then
       order := DepOrderF(MetaImports, meta[f].imports, <<>>);
     else
       order := <<>>;
       call GetOrder(meta[f].imports);
     end if;
lc3a: if exc # "none" then order := sorder; return;
      else deps := order; order := sorder; saved := thy; thy := {}; end if;
lc4: while i <= Len(deps) /\ exc = "none" do
       if \A k \in i..Len(deps) : IsCurrent(deps[k]) then
         \* all remaining imports are cached: no side effect but the extension of the theory being built
         if \E k \in i..Len(deps) : GoodToks(meta[deps[k]].content, Len(meta[deps[k]].content)) \cap thy # {} then exc := "exists";
         else thy := thy \cup UNION { GoodToks(meta[deps[k]].content, Len(meta[deps[k]].content)) : k \in i..Len(deps) }; end if;
         i := Len(deps) + 1;
       else
         call LoadCache(deps[i]);
lc5:     if exc = "none" then Extend(deps[i]); end if;
         i := i + 1;
       end if;
     end while;
lc6: if exc = "none" then
       if f = faultAt then
         \* an exception while the items of f are being parsed
         if ~TimestampLast then
           meta[f] := [meta[f] EXCEPT !.hasTs = TRUE, !.ts = fver[f],
                                      !.content = Parsed(fitems, f, Len(fitems[f]) \div 2, CtxGood(fexists, fimports, fitems, f, thy))];
         end if;
         exc := "fault";
       elsif Toks(fitems, f) \cap thy # {} then
         if ~TimestampLast then
           meta[f] := [meta[f] EXCEPT !.hasTs = TRUE, !.ts = fver[f],
                                      !.content = Parsed(fitems, f, Len(fitems[f]) \div 2, CtxGood(fexists, fimports, fitems, f, thy))];
         end if;
         exc := "exists";
       else
         meta[f] := [meta[f] EXCEPT !.hasTs = TRUE, !.ts = fver[f],
                                    !.content = Parsed(fitems, f, Len(fitems[f]), CtxGood(fexists, fimports, fitems, f, thy))];
       end if;
     end if;
     thy := saved;
     return;
end procedure;

procedure LoadTheory(g, glim)
variables deps2 = <<>>; j = 1; sorder2 = <<>>;
begin
lt0: if ~IsCurrent(g) then call LoadCache(g); end if;
lt1: if exc # "none" then return; end if;
lt1a: sorder2 := order;
     if \A x \in RangeS(meta[g].imports) : IsSettled(x) then
       order := DepOrderF(MetaImports, meta[g].imports, <<>>);
     else
       order := <<>>;
       call GetOrder(meta[g].imports);
     end if;
lt2: if exc # "none" then order := sorder2; return;
     else deps2 := order; order := sorder2; thy := {}; end if;
lt3: while j <= Len(deps2) /\ exc = "none" do
       if \A k \in j..Len(deps2) : IsCurrent(deps2[k]) then
         if \E k \in j..Len(deps2) : GoodToks(meta[deps2[k]].content, Len(meta[deps2[k]].content)) \cap thy # {} then exc := "exists";
         else thy := thy \cup UNION { GoodToks(meta[deps2[k]].content, Len(meta[deps2[k]].content)) : k \in j..Len(deps2) }; end if;
         j := Len(deps2) + 1;
       else
         call LoadCache(deps2[j]);
lt4:     if exc = "none" then Extend(deps2[j]); end if;
         j := j + 1;
       end if;
     end while;
lt5: if exc = "none" then
       \* the portion of the own content up to (and not including) the limit
       with c = meta[g].content,
            memo = { x \in limMemo[g] : x[1] = glim },
            p = IF glim = 0 THEN Len(c) + 1
                ELSE IF ~LimitById /\ memo # {} THEN (CHOOSE x \in memo : TRUE)[2]
                ELSE PosOfLimit(c, glim) do
         if p = 0 then
           exc := "nolimit";
         else
           if ~LimitById /\ glim # 0 then limMemo[g] := limMemo[g] \cup {<<glim, p>>}; end if;
           if GoodToks(c, IF p - 1 <= Len(c) THEN p - 1 ELSE Len(c)) \cap thy # {} then exc := "exists";
           else thy := thy \cup GoodToks(c, IF p - 1 <= Len(c) THEN p - 1 ELSE Len(c)); end if;
         end if;
       end with;
     end if;
     return;
end procedure;

process main = "main"
variables target = "none"; kind = "none"; lim = 0; arg = <<>>;
begin
m0: while ops < MaxOps do
      either
        with t \in OpTheories, lm \in LimitsOf[t] do target := t; lim := lm; end with;
        kind := "load"; exc := "none"; faultAt := "none"; arg := <<>>;
        call LoadTheory(target, lim);
      or
        await AllowFault;
        with t \in OpTheories do target := t; end with;
        kind := "fault"; exc := "none"; faultAt := target; lim := 0; arg := <<>>;
        call LoadTheory(target, 0);
      or
        with mm \in OpModules do target := mm; end with;
        kind := "import"; exc := "none"; faultAt := "none"; lim := 0; arg := <<>>;
        call ImportModule(target);
      or
        \* the library changes between two operations of the process
        with o \in { x \in FileOps : FileOpEnabled(x) } do
          kind := o[1]; target := o[2]; lim := o[3]; arg := o[4]; exc := "none"; faultAt := "none";
          if o[1] = "create" then
            fexists := fexists \cup {o[2]};
            fimports[o[2]] := o[4];
            fitems[o[2]] := Items0[o[2]];
            fver[o[2]] := fver[o[2]] + 1;
          elsif o[1] = "remove" then
            fexists := fexists \ {o[2]};
          elsif o[1] = "reimport" then
            fimports[o[2]] := o[4];
            fver[o[2]] := fver[o[2]] + 1;
          elsif o[1] = "ins" then
            fitems[o[2]] := InsertAt(fitems[o[2]], o[3], 100 + ops);
            fver[o[2]] := fver[o[2]] + 1;
          else
            fitems[o[2]] := RemoveAt(fitems[o[2]], o[3]);
            fver[o[2]] := fver[o[2]] + 1;
          end if;
        end with;
      end either;
m1:   with okf = IF kind # "load" THEN TRUE
                 ELSE IF ExpectOK(fexists, fimports, fitems, target, lim)
                      THEN (IF SaneLib(fexists, fimports) THEN exc = "none" ELSE TRUE)
                           /\ (exc = "none" => thy = ExpectedToks(fexists, fimports, fitems, target, lim))
                      ELSE exc # "none" do
        \* the history ends that the harness replays on the real code: those that go wrong, and every one of the good mechanisms
        if ~okf \/ (PrintGood /\ var \in GoodVariants) then print <<"H", var, hist, <<kind, target, lim, arg>>, exc, okf>>; end if;
        good := good /\ okf;
      end with;
      hist := Append(hist, <<kind, target, lim, arg>>);
      faultAt := "none";
      ops := ops + 1;
    end while;
end process;
end algorithm; *)
\* BEGIN TRANSLATION
CONSTANT defaultInitValue
VARIABLES pc, var, fexists, fimports, fitems, fver, meta, metaLoaded, limMemo, 
          order, thy, imported, exc, faultAt, ops, good, hist, stack

(* define statement *)
RestoreThy == "norestore" \notin var
TimestampLast == "tsfirst" \notin var
RefreshMeta == "stalemeta" \notin var
DropMissing == "keepentry" \notin var
LimitById == "limitpos" \notin var
RefreshDeps == "staledeps" \notin var
IsCurrent(n) == metaLoaded /\ Current(meta, fexists, fver, n)
IsSettled(n) == metaLoaded /\ Settled(meta, fexists, fver, n)
ImportsCurrent(n) == n \in fexists /\ meta[n].known /\ meta[n].its = fver[n]
MetaImports == [t \in Theories |-> meta[t].imports]
FileOpEnabled(o) ==
  CASE o[1] = "create" -> o[2] \notin fexists
    [] o[1] = "remove" -> o[2] \in fexists
    [] o[1] = "reimport" -> o[2] \in fexists /\ fimports[o[2]] # o[4]
    [] o[1] = "ins" -> o[2] \in fexists /\ o[3] <= Len(fitems[o[2]])
    [] o[1] = "del" -> o[2] \in fexists /\ o[3] < Len(fitems[o[2]])
    [] OTHER -> FALSE

VARIABLES m, pcidx, dn, dk, dimps, names, q, f, deps, i, saved, keep, sorder, 
          g, glim, deps2, j, sorder2, target, kind, lim, arg

vars == << pc, var, fexists, fimports, fitems, fver, meta, metaLoaded, 
           limMemo, order, thy, imported, exc, faultAt, ops, good, hist, 
           stack, m, pcidx, dn, dk, dimps, names, q, f, deps, i, saved, keep, 
           sorder, g, glim, deps2, j, sorder2, target, kind, lim, arg >>

ProcSet == {"main"}

Init == (* Global variables *)
        /\ var \in Variants
        /\ fexists = Present0
        /\ fimports = Imports
        /\ fitems = Items0
        /\ fver = [t \in Theories |-> 1]
        /\ meta = [t \in Theories |-> AbsentRec]
        /\ metaLoaded = FALSE
        /\ limMemo = [t \in Theories |-> {}]
        /\ order = <<>>
        /\ thy = {}
        /\ imported = {}
        /\ exc = "none"
        /\ faultAt = "none"
        /\ ops = 0
        /\ good = TRUE
        /\ hist = <<>>
        (* Procedure ImportModule *)
        /\ m = [ self \in ProcSet |-> defaultInitValue]
        /\ pcidx = [ self \in ProcSet |-> 1]
        (* Procedure Dfs *)
        /\ dn = [ self \in ProcSet |-> defaultInitValue]
        /\ dk = [ self \in ProcSet |-> 1]
        /\ dimps = [ self \in ProcSet |-> <<>>]
        (* Procedure GetOrder *)
        /\ names = [ self \in ProcSet |-> defaultInitValue]
        /\ q = [ self \in ProcSet |-> 1]
        (* Procedure LoadCache *)
        /\ f = [ self \in ProcSet |-> defaultInitValue]
        /\ deps = [ self \in ProcSet |-> <<>>]
        /\ i = [ self \in ProcSet |-> 1]
        /\ saved = [ self \in ProcSet |-> {}]
        /\ keep = [ self \in ProcSet |-> {}]
        /\ sorder = [ self \in ProcSet |-> <<>>]
        (* Procedure LoadTheory *)
        /\ g = [ self \in ProcSet |-> defaultInitValue]
        /\ glim = [ self \in ProcSet |-> defaultInitValue]
        /\ deps2 = [ self \in ProcSet |-> <<>>]
        /\ j = [ self \in ProcSet |-> 1]
        /\ sorder2 = [ self \in ProcSet |-> <<>>]
        (* Process main *)
        /\ target = "none"
        /\ kind = "none"
        /\ lim = 0
        /\ arg = <<>>
        /\ stack = [self \in ProcSet |-> << >>]
        /\ pc = [self \in ProcSet |-> "m0"]

im0(self) == /\ pc[self] = "im0"
             /\ IF m[self] \in imported
                   THEN /\ pc' = [pc EXCEPT ![self] = Head(stack[self]).pc]
                        /\ pcidx' = [pcidx EXCEPT ![self] = Head(stack[self]).pcidx]
                        /\ m' = [m EXCEPT ![self] = Head(stack[self]).m]
                        /\ stack' = [stack EXCEPT ![self] = Tail(stack[self])]
                   ELSE /\ pc' = [pc EXCEPT ![self] = "im1"]
                        /\ UNCHANGED << stack, m, pcidx >>
             /\ UNCHANGED << var, fexists, fimports, fitems, fver, meta, 
                             metaLoaded, limMemo, order, thy, imported, exc, 
                             faultAt, ops, good, hist, dn, dk, dimps, names, q, 
                             f, deps, i, saved, keep, sorder, g, glim, deps2, 
                             j, sorder2, target, kind, lim, arg >>

im1(self) == /\ pc[self] = "im1"
             /\ imported' = (imported \cup {m[self]})
             /\ pc' = [pc EXCEPT ![self] = "im2"]
             /\ UNCHANGED << var, fexists, fimports, fitems, fver, meta, 
                             metaLoaded, limMemo, order, thy, exc, faultAt, 
                             ops, good, hist, stack, m, pcidx, dn, dk, dimps, 
                             names, q, f, deps, i, saved, keep, sorder, g, 
                             glim, deps2, j, sorder2, target, kind, lim, arg >>

im2(self) == /\ pc[self] = "im2"
             /\ IF pcidx[self] <= Len(ModuleBody[m[self]]) /\ exc = "none"
                   THEN /\ IF ModuleBody[m[self]][pcidx[self]][1] = "import"
                              THEN /\ /\ m' = [m EXCEPT ![self] = ModuleBody[m[self]][pcidx[self]][2]]
                                      /\ stack' = [stack EXCEPT ![self] = << [ procedure |->  "ImportModule",
                                                                               pc        |->  "im3",
                                                                               pcidx     |->  pcidx[self],
                                                                               m         |->  m[self] ] >>
                                                                           \o stack[self]]
                                   /\ pcidx' = [pcidx EXCEPT ![self] = 1]
                                   /\ pc' = [pc EXCEPT ![self] = "im0"]
                                   /\ UNCHANGED << g, glim, deps2, j, sorder2 >>
                              ELSE /\ /\ g' = [g EXCEPT ![self] = ModuleBody[m[self]][pcidx[self]][2]]
                                      /\ glim' = [glim EXCEPT ![self] = 0]
                                      /\ stack' = [stack EXCEPT ![self] = << [ procedure |->  "LoadTheory",
                                                                               pc        |->  "im3",
                                                                               deps2     |->  deps2[self],
                                                                               j         |->  j[self],
                                                                               sorder2   |->  sorder2[self],
                                                                               g         |->  g[self],
                                                                               glim      |->  glim[self] ] >>
                                                                           \o stack[self]]
                                   /\ deps2' = [deps2 EXCEPT ![self] = <<>>]
                                   /\ j' = [j EXCEPT ![self] = 1]
                                   /\ sorder2' = [sorder2 EXCEPT ![self] = <<>>]
                                   /\ pc' = [pc EXCEPT ![self] = "lt0"]
                                   /\ UNCHANGED << m, pcidx >>
                   ELSE /\ pc' = [pc EXCEPT ![self] = "im4"]
                        /\ UNCHANGED << stack, m, pcidx, g, glim, deps2, j, 
                                        sorder2 >>
             /\ UNCHANGED << var, fexists, fimports, fitems, fver, meta, 
                             metaLoaded, limMemo, order, thy, imported, exc, 
                             faultAt, ops, good, hist, dn, dk, dimps, names, q, 
                             f, deps, i, saved, keep, sorder, target, kind, 
                             lim, arg >>

im3(self) == /\ pc[self] = "im3"
             /\ pcidx' = [pcidx EXCEPT ![self] = pcidx[self] + 1]
             /\ pc' = [pc EXCEPT ![self] = "im2"]
             /\ UNCHANGED << var, fexists, fimports, fitems, fver, meta, 
                             metaLoaded, limMemo, order, thy, imported, exc, 
                             faultAt, ops, good, hist, stack, m, dn, dk, dimps, 
                             names, q, f, deps, i, saved, keep, sorder, g, 
                             glim, deps2, j, sorder2, target, kind, lim, arg >>

im4(self) == /\ pc[self] = "im4"
             /\ IF exc # "none"
                   THEN /\ imported' = imported \ {m[self]}
                   ELSE /\ TRUE
                        /\ UNCHANGED imported
             /\ pc' = [pc EXCEPT ![self] = Head(stack[self]).pc]
             /\ pcidx' = [pcidx EXCEPT ![self] = Head(stack[self]).pcidx]
             /\ m' = [m EXCEPT ![self] = Head(stack[self]).m]
             /\ stack' = [stack EXCEPT ![self] = Tail(stack[self])]
             /\ UNCHANGED << var, fexists, fimports, fitems, fver, meta, 
                             metaLoaded, limMemo, order, thy, exc, faultAt, 
                             ops, good, hist, dn, dk, dimps, names, q, f, deps, 
                             i, saved, keep, sorder, g, glim, deps2, j, 
                             sorder2, target, kind, lim, arg >>

ImportModule(self) == im0(self) \/ im1(self) \/ im2(self) \/ im3(self)
                         \/ im4(self)

d0(self) == /\ pc[self] = "d0"
            /\ IF InSeq(order, dn[self])
                  THEN /\ pc' = [pc EXCEPT ![self] = Head(stack[self]).pc]
                       /\ dk' = [dk EXCEPT ![self] = Head(stack[self]).dk]
                       /\ dimps' = [dimps EXCEPT ![self] = Head(stack[self]).dimps]
                       /\ dn' = [dn EXCEPT ![self] = Head(stack[self]).dn]
                       /\ stack' = [stack EXCEPT ![self] = Tail(stack[self])]
                       /\ UNCHANGED << order, exc >>
                  ELSE /\ IF IsSettled(dn[self])
                             THEN /\ order' = DepOrderF(MetaImports, <<dn[self]>>, order)
                                  /\ pc' = [pc EXCEPT ![self] = Head(stack[self]).pc]
                                  /\ dk' = [dk EXCEPT ![self] = Head(stack[self]).dk]
                                  /\ dimps' = [dimps EXCEPT ![self] = Head(stack[self]).dimps]
                                  /\ dn' = [dn EXCEPT ![self] = Head(stack[self]).dn]
                                  /\ stack' = [stack EXCEPT ![self] = Tail(stack[self])]
                                  /\ exc' = exc
                             ELSE /\ IF Len(stack[self]) > MaxDepth
                                        THEN /\ exc' = "recursion"
                                             /\ pc' = [pc EXCEPT ![self] = Head(stack[self]).pc]
                                             /\ dk' = [dk EXCEPT ![self] = Head(stack[self]).dk]
                                             /\ dimps' = [dimps EXCEPT ![self] = Head(stack[self]).dimps]
                                             /\ dn' = [dn EXCEPT ![self] = Head(stack[self]).dn]
                                             /\ stack' = [stack EXCEPT ![self] = Tail(stack[self])]
                                        ELSE /\ pc' = [pc EXCEPT ![self] = "d1"]
                                             /\ UNCHANGED << exc, stack, dn, 
                                                             dk, dimps >>
                                  /\ order' = order
            /\ UNCHANGED << var, fexists, fimports, fitems, fver, meta, 
                            metaLoaded, limMemo, thy, imported, faultAt, ops, 
                            good, hist, m, pcidx, names, q, f, deps, i, saved, 
                            keep, sorder, g, glim, deps2, j, sorder2, target, 
                            kind, lim, arg >>

d1(self) == /\ pc[self] = "d1"
            /\ IF ~meta[dn[self]].known \/ (RefreshDeps /\ ~ImportsCurrent(dn[self]))
                  THEN /\ /\ f' = [f EXCEPT ![self] = dn[self]]
                          /\ stack' = [stack EXCEPT ![self] = << [ procedure |->  "LoadCache",
                                                                   pc        |->  "d2",
                                                                   deps      |->  deps[self],
                                                                   i         |->  i[self],
                                                                   saved     |->  saved[self],
                                                                   keep      |->  keep[self],
                                                                   sorder    |->  sorder[self],
                                                                   f         |->  f[self] ] >>
                                                               \o stack[self]]
                       /\ deps' = [deps EXCEPT ![self] = <<>>]
                       /\ i' = [i EXCEPT ![self] = 1]
                       /\ saved' = [saved EXCEPT ![self] = {}]
                       /\ keep' = [keep EXCEPT ![self] = {}]
                       /\ sorder' = [sorder EXCEPT ![self] = <<>>]
                       /\ pc' = [pc EXCEPT ![self] = "lc0"]
                  ELSE /\ pc' = [pc EXCEPT ![self] = "d2"]
                       /\ UNCHANGED << stack, f, deps, i, saved, keep, sorder >>
            /\ UNCHANGED << var, fexists, fimports, fitems, fver, meta, 
                            metaLoaded, limMemo, order, thy, imported, exc, 
                            faultAt, ops, good, hist, m, pcidx, dn, dk, dimps, 
                            names, q, g, glim, deps2, j, sorder2, target, kind, 
                            lim, arg >>

d2(self) == /\ pc[self] = "d2"
            /\ IF exc # "none"
                  THEN /\ pc' = [pc EXCEPT ![self] = Head(stack[self]).pc]
                       /\ dk' = [dk EXCEPT ![self] = Head(stack[self]).dk]
                       /\ dimps' = [dimps EXCEPT ![self] = Head(stack[self]).dimps]
                       /\ dn' = [dn EXCEPT ![self] = Head(stack[self]).dn]
                       /\ stack' = [stack EXCEPT ![self] = Tail(stack[self])]
                  ELSE /\ pc' = [pc EXCEPT ![self] = "d2a"]
                       /\ UNCHANGED << stack, dn, dk, dimps >>
            /\ UNCHANGED << var, fexists, fimports, fitems, fver, meta, 
                            metaLoaded, limMemo, order, thy, imported, exc, 
                            faultAt, ops, good, hist, m, pcidx, names, q, f, 
                            deps, i, saved, keep, sorder, g, glim, deps2, j, 
                            sorder2, target, kind, lim, arg >>

d2a(self) == /\ pc[self] = "d2a"
             /\ dimps' = [dimps EXCEPT ![self] = meta[dn[self]].imports]
             /\ pc' = [pc EXCEPT ![self] = "d3"]
             /\ UNCHANGED << var, fexists, fimports, fitems, fver, meta, 
                             metaLoaded, limMemo, order, thy, imported, exc, 
                             faultAt, ops, good, hist, stack, m, pcidx, dn, dk, 
                             names, q, f, deps, i, saved, keep, sorder, g, 
                             glim, deps2, j, sorder2, target, kind, lim, arg >>

d3(self) == /\ pc[self] = "d3"
            /\ IF dk[self] <= Len(dimps[self]) /\ exc = "none"
                  THEN /\ /\ dn' = [dn EXCEPT ![self] = dimps[self][dk[self]]]
                          /\ stack' = [stack EXCEPT ![self] = << [ procedure |->  "Dfs",
                                                                   pc        |->  "d4",
                                                                   dk        |->  dk[self],
                                                                   dimps     |->  dimps[self],
                                                                   dn        |->  dn[self] ] >>
                                                               \o stack[self]]
                       /\ dk' = [dk EXCEPT ![self] = 1]
                       /\ dimps' = [dimps EXCEPT ![self] = <<>>]
                       /\ pc' = [pc EXCEPT ![self] = "d0"]
                  ELSE /\ pc' = [pc EXCEPT ![self] = "d5"]
                       /\ UNCHANGED << stack, dn, dk, dimps >>
            /\ UNCHANGED << var, fexists, fimports, fitems, fver, meta, 
                            metaLoaded, limMemo, order, thy, imported, exc, 
                            faultAt, ops, good, hist, m, pcidx, names, q, f, 
                            deps, i, saved, keep, sorder, g, glim, deps2, j, 
                            sorder2, target, kind, lim, arg >>

d4(self) == /\ pc[self] = "d4"
            /\ dk' = [dk EXCEPT ![self] = dk[self] + 1]
            /\ pc' = [pc EXCEPT ![self] = "d3"]
            /\ UNCHANGED << var, fexists, fimports, fitems, fver, meta, 
                            metaLoaded, limMemo, order, thy, imported, exc, 
                            faultAt, ops, good, hist, stack, m, pcidx, dn, 
                            dimps, names, q, f, deps, i, saved, keep, sorder, 
                            g, glim, deps2, j, sorder2, target, kind, lim, arg >>

d5(self) == /\ pc[self] = "d5"
            /\ IF exc = "none"
                  THEN /\ order' = Append(order, dn[self])
                  ELSE /\ TRUE
                       /\ order' = order
            /\ pc' = [pc EXCEPT ![self] = Head(stack[self]).pc]
            /\ dk' = [dk EXCEPT ![self] = Head(stack[self]).dk]
            /\ dimps' = [dimps EXCEPT ![self] = Head(stack[self]).dimps]
            /\ dn' = [dn EXCEPT ![self] = Head(stack[self]).dn]
            /\ stack' = [stack EXCEPT ![self] = Tail(stack[self])]
            /\ UNCHANGED << var, fexists, fimports, fitems, fver, meta, 
                            metaLoaded, limMemo, thy, imported, exc, faultAt, 
                            ops, good, hist, m, pcidx, names, q, f, deps, i, 
                            saved, keep, sorder, g, glim, deps2, j, sorder2, 
                            target, kind, lim, arg >>

Dfs(self) == d0(self) \/ d1(self) \/ d2(self) \/ d2a(self) \/ d3(self)
                \/ d4(self) \/ d5(self)

go1(self) == /\ pc[self] = "go1"
             /\ IF q[self] <= Len(names[self]) /\ exc = "none"
                   THEN /\ /\ dn' = [dn EXCEPT ![self] = names[self][q[self]]]
                           /\ stack' = [stack EXCEPT ![self] = << [ procedure |->  "Dfs",
                                                                    pc        |->  "go2",
                                                                    dk        |->  dk[self],
                                                                    dimps     |->  dimps[self],
                                                                    dn        |->  dn[self] ] >>
                                                                \o stack[self]]
                        /\ dk' = [dk EXCEPT ![self] = 1]
                        /\ dimps' = [dimps EXCEPT ![self] = <<>>]
                        /\ pc' = [pc EXCEPT ![self] = "d0"]
                   ELSE /\ pc' = [pc EXCEPT ![self] = "go3"]
                        /\ UNCHANGED << stack, dn, dk, dimps >>
             /\ UNCHANGED << var, fexists, fimports, fitems, fver, meta, 
                             metaLoaded, limMemo, order, thy, imported, exc, 
                             faultAt, ops, good, hist, m, pcidx, names, q, f, 
                             deps, i, saved, keep, sorder, g, glim, deps2, j, 
                             sorder2, target, kind, lim, arg >>

go2(self) == /\ pc[self] = "go2"
             /\ q' = [q EXCEPT ![self] = q[self] + 1]
             /\ pc' = [pc EXCEPT ![self] = "go1"]
             /\ UNCHANGED << var, fexists, fimports, fitems, fver, meta, 
                             metaLoaded, limMemo, order, thy, imported, exc, 
                             faultAt, ops, good, hist, stack, m, pcidx, dn, dk, 
                             dimps, names, f, deps, i, saved, keep, sorder, g, 
                             glim, deps2, j, sorder2, target, kind, lim, arg >>

go3(self) == /\ pc[self] = "go3"
             /\ pc' = [pc EXCEPT ![self] = Head(stack[self]).pc]
             /\ q' = [q EXCEPT ![self] = Head(stack[self]).q]
             /\ names' = [names EXCEPT ![self] = Head(stack[self]).names]
             /\ stack' = [stack EXCEPT ![self] = Tail(stack[self])]
             /\ UNCHANGED << var, fexists, fimports, fitems, fver, meta, 
                             metaLoaded, limMemo, order, thy, imported, exc, 
                             faultAt, ops, good, hist, m, pcidx, dn, dk, dimps, 
                             f, deps, i, saved, keep, sorder, g, glim, deps2, 
                             j, sorder2, target, kind, lim, arg >>

GetOrder(self) == go1(self) \/ go2(self) \/ go3(self)

lc0(self) == /\ pc[self] = "lc0"
             /\ IF IsCurrent(f[self])
                   THEN /\ pc' = [pc EXCEPT ![self] = Head(stack[self]).pc]
                        /\ deps' = [deps EXCEPT ![self] = Head(stack[self]).deps]
                        /\ i' = [i EXCEPT ![self] = Head(stack[self]).i]
                        /\ saved' = [saved EXCEPT ![self] = Head(stack[self]).saved]
                        /\ keep' = [keep EXCEPT ![self] = Head(stack[self]).keep]
                        /\ sorder' = [sorder EXCEPT ![self] = Head(stack[self]).sorder]
                        /\ f' = [f EXCEPT ![self] = Head(stack[self]).f]
                        /\ stack' = [stack EXCEPT ![self] = Tail(stack[self])]
                   ELSE /\ pc' = [pc EXCEPT ![self] = "lcm"]
                        /\ UNCHANGED << stack, f, deps, i, saved, keep, sorder >>
             /\ UNCHANGED << var, fexists, fimports, fitems, fver, meta, 
                             metaLoaded, limMemo, order, thy, imported, exc, 
                             faultAt, ops, good, hist, m, pcidx, dn, dk, dimps, 
                             names, q, g, glim, deps2, j, sorder2, target, 
                             kind, lim, arg >>

lcm(self) == /\ pc[self] = "lcm"
             /\ IF ~metaLoaded
                   THEN /\ meta' = [t \in Theories |-> IF t \in fexists THEN [EmptyRec EXCEPT !.imports = fimports[t], !.its = fver[t]] ELSE AbsentRec]
                        /\ metaLoaded' = TRUE
                        /\ IF ~SaneLib(fexists, fimports)
                              THEN /\ exc' = "metadata"
                              ELSE /\ TRUE
                                   /\ exc' = exc
                   ELSE /\ TRUE
                        /\ UNCHANGED << meta, metaLoaded, exc >>
             /\ pc' = [pc EXCEPT ![self] = "lce"]
             /\ UNCHANGED << var, fexists, fimports, fitems, fver, limMemo, 
                             order, thy, imported, faultAt, ops, good, hist, 
                             stack, m, pcidx, dn, dk, dimps, names, q, f, deps, 
                             i, saved, keep, sorder, g, glim, deps2, j, 
                             sorder2, target, kind, lim, arg >>

lce(self) == /\ pc[self] = "lce"
             /\ IF exc # "none"
                   THEN /\ pc' = [pc EXCEPT ![self] = Head(stack[self]).pc]
                        /\ deps' = [deps EXCEPT ![self] = Head(stack[self]).deps]
                        /\ i' = [i EXCEPT ![self] = Head(stack[self]).i]
                        /\ saved' = [saved EXCEPT ![self] = Head(stack[self]).saved]
                        /\ keep' = [keep EXCEPT ![self] = Head(stack[self]).keep]
                        /\ sorder' = [sorder EXCEPT ![self] = Head(stack[self]).sorder]
                        /\ f' = [f EXCEPT ![self] = Head(stack[self]).f]
                        /\ stack' = [stack EXCEPT ![self] = Tail(stack[self])]
                        /\ UNCHANGED << meta, exc >>
                   ELSE /\ IF f[self] \notin fexists
                              THEN /\ IF DropMissing
                                         THEN /\ meta' = [meta EXCEPT ![f[self]] = AbsentRec]
                                         ELSE /\ meta' = [meta EXCEPT ![f[self]] = [(IF meta[f[self]].known THEN meta[f[self]] ELSE EmptyRec) EXCEPT !.hasTs = FALSE, !.content = <<>>]]
                                   /\ exc' = "notfound"
                                   /\ pc' = [pc EXCEPT ![self] = Head(stack[self]).pc]
                                   /\ deps' = [deps EXCEPT ![self] = Head(stack[self]).deps]
                                   /\ i' = [i EXCEPT ![self] = Head(stack[self]).i]
                                   /\ saved' = [saved EXCEPT ![self] = Head(stack[self]).saved]
                                   /\ keep' = [keep EXCEPT ![self] = Head(stack[self]).keep]
                                   /\ sorder' = [sorder EXCEPT ![self] = Head(stack[self]).sorder]
                                   /\ f' = [f EXCEPT ![self] = Head(stack[self]).f]
                                   /\ stack' = [stack EXCEPT ![self] = Tail(stack[self])]
                              ELSE /\ IF IsCurrent(f[self])
                                         THEN /\ pc' = [pc EXCEPT ![self] = Head(stack[self]).pc]
                                              /\ deps' = [deps EXCEPT ![self] = Head(stack[self]).deps]
                                              /\ i' = [i EXCEPT ![self] = Head(stack[self]).i]
                                              /\ saved' = [saved EXCEPT ![self] = Head(stack[self]).saved]
                                              /\ keep' = [keep EXCEPT ![self] = Head(stack[self]).keep]
                                              /\ sorder' = [sorder EXCEPT ![self] = Head(stack[self]).sorder]
                                              /\ f' = [f EXCEPT ![self] = Head(stack[self]).f]
                                              /\ stack' = [stack EXCEPT ![self] = Tail(stack[self])]
                                              /\ meta' = meta
                                         ELSE /\ meta' = [meta EXCEPT ![f[self]] = [(IF meta[f[self]].known THEN meta[f[self]] ELSE EmptyRec) EXCEPT !.imports = IF RefreshMeta \/ ~meta[f[self]].known THEN fimports[f[self]] ELSE @,
                                                                                                                                                     !.its = IF RefreshMeta \/ ~meta[f[self]].known THEN fver[f[self]] ELSE @]]
                                              /\ pc' = [pc EXCEPT ![self] = "lc1"]
                                              /\ UNCHANGED << stack, f, deps, 
                                                              i, saved, keep, 
                                                              sorder >>
                                   /\ exc' = exc
             /\ UNCHANGED << var, fexists, fimports, fitems, fver, metaLoaded, 
                             limMemo, order, thy, imported, faultAt, ops, good, 
                             hist, m, pcidx, dn, dk, dimps, names, q, g, glim, 
                             deps2, j, sorder2, target, kind, lim, arg >>

lc1(self) == /\ pc[self] = "lc1"
             /\ IF LazyImport[f[self]] # "none"
                   THEN /\ keep' = [keep EXCEPT ![self] = thy]
                        /\ /\ m' = [m EXCEPT ![self] = LazyImport[f[self]]]
                           /\ stack' = [stack EXCEPT ![self] = << [ procedure |->  "ImportModule",
                                                                    pc        |->  "lc2",
                                                                    pcidx     |->  pcidx[self],
                                                                    m         |->  m[self] ] >>
                                                                \o stack[self]]
                        /\ pcidx' = [pcidx EXCEPT ![self] = 1]
                        /\ pc' = [pc EXCEPT ![self] = "im0"]
                   ELSE /\ pc' = [pc EXCEPT ![self] = "lc3"]
                        /\ UNCHANGED << stack, m, pcidx, keep >>
             /\ UNCHANGED << var, fexists, fimports, fitems, fver, meta, 
                             metaLoaded, limMemo, order, thy, imported, exc, 
                             faultAt, ops, good, hist, dn, dk, dimps, names, q, 
                             f, deps, i, saved, sorder, g, glim, deps2, j, 
                             sorder2, target, kind, lim, arg >>

lc2(self) == /\ pc[self] = "lc2"
             /\ IF RestoreThy
                   THEN /\ thy' = keep[self]
                   ELSE /\ TRUE
                        /\ thy' = thy
             /\ IF exc # "none" \/ (RestoreThy /\ IsCurrent(f[self]))
                   THEN /\ pc' = [pc EXCEPT ![self] = Head(stack[self]).pc]
                        /\ deps' = [deps EXCEPT ![self] = Head(stack[self]).deps]
                        /\ i' = [i EXCEPT ![self] = Head(stack[self]).i]
                        /\ saved' = [saved EXCEPT ![self] = Head(stack[self]).saved]
                        /\ keep' = [keep EXCEPT ![self] = Head(stack[self]).keep]
                        /\ sorder' = [sorder EXCEPT ![self] = Head(stack[self]).sorder]
                        /\ f' = [f EXCEPT ![self] = Head(stack[self]).f]
                        /\ stack' = [stack EXCEPT ![self] = Tail(stack[self])]
                   ELSE /\ pc' = [pc EXCEPT ![self] = "lc3"]
                        /\ UNCHANGED << stack, f, deps, i, saved, keep, sorder >>
             /\ UNCHANGED << var, fexists, fimports, fitems, fver, meta, 
                             metaLoaded, limMemo, order, imported, exc, 
                             faultAt, ops, good, hist, m, pcidx, dn, dk, dimps, 
                             names, q, g, glim, deps2, j, sorder2, target, 
                             kind, lim, arg >>

lc3(self) == /\ pc[self] = "lc3"
             /\ sorder' = [sorder EXCEPT ![self] = order]
             /\ IF \A x \in RangeS(meta[f[self]].imports) : IsSettled(x)
                   THEN /\ order' = DepOrderF(MetaImports, meta[f[self]].imports, <<>>)
                        /\ pc' = [pc EXCEPT ![self] = "lc3a"]
                        /\ UNCHANGED << stack, names, q >>
                   ELSE /\ order' = <<>>
                        /\ /\ names' = [names EXCEPT ![self] = meta[f[self]].imports]
                           /\ stack' = [stack EXCEPT ![self] = << [ procedure |->  "GetOrder",
                                                                    pc        |->  "lc3a",
                                                                    q         |->  q[self],
                                                                    names     |->  names[self] ] >>
                                                                \o stack[self]]
                        /\ q' = [q EXCEPT ![self] = 1]
                        /\ pc' = [pc EXCEPT ![self] = "go1"]
             /\ UNCHANGED << var, fexists, fimports, fitems, fver, meta, 
                             metaLoaded, limMemo, thy, imported, exc, faultAt, 
                             ops, good, hist, m, pcidx, dn, dk, dimps, f, deps, 
                             i, saved, keep, g, glim, deps2, j, sorder2, 
                             target, kind, lim, arg >>

lc3a(self) == /\ pc[self] = "lc3a"
              /\ IF exc # "none"
                    THEN /\ order' = sorder[self]
                         /\ pc' = [pc EXCEPT ![self] = Head(stack[self]).pc]
                         /\ deps' = [deps EXCEPT ![self] = Head(stack[self]).deps]
                         /\ i' = [i EXCEPT ![self] = Head(stack[self]).i]
                         /\ saved' = [saved EXCEPT ![self] = Head(stack[self]).saved]
                         /\ keep' = [keep EXCEPT ![self] = Head(stack[self]).keep]
                         /\ sorder' = [sorder EXCEPT ![self] = Head(stack[self]).sorder]
                         /\ f' = [f EXCEPT ![self] = Head(stack[self]).f]
                         /\ stack' = [stack EXCEPT ![self] = Tail(stack[self])]
                         /\ thy' = thy
                    ELSE /\ deps' = [deps EXCEPT ![self] = order]
                         /\ order' = sorder[self]
                         /\ saved' = [saved EXCEPT ![self] = thy]
                         /\ thy' = {}
                         /\ pc' = [pc EXCEPT ![self] = "lc4"]
                         /\ UNCHANGED << stack, f, i, keep, sorder >>
              /\ UNCHANGED << var, fexists, fimports, fitems, fver, meta, 
                              metaLoaded, limMemo, imported, exc, faultAt, ops, 
                              good, hist, m, pcidx, dn, dk, dimps, names, q, g, 
                              glim, deps2, j, sorder2, target, kind, lim, arg >>

lc4(self) == /\ pc[self] = "lc4"
             /\ IF i[self] <= Len(deps[self]) /\ exc = "none"
                   THEN /\ IF \A k \in i[self]..Len(deps[self]) : IsCurrent(deps[self][k])
                              THEN /\ IF \E k \in i[self]..Len(deps[self]) : GoodToks(meta[deps[self][k]].content, Len(meta[deps[self][k]].content)) \cap thy # {}
                                         THEN /\ exc' = "exists"
                                              /\ thy' = thy
                                         ELSE /\ thy' = (thy \cup UNION { GoodToks(meta[deps[self][k]].content, Len(meta[deps[self][k]].content)) : k \in i[self]..Len(deps[self]) })
                                              /\ exc' = exc
                                   /\ i' = [i EXCEPT ![self] = Len(deps[self]) + 1]
                                   /\ pc' = [pc EXCEPT ![self] = "lc4"]
                                   /\ UNCHANGED << stack, f, deps, saved, keep, 
                                                   sorder >>
                              ELSE /\ /\ f' = [f EXCEPT ![self] = deps[self][i[self]]]
                                      /\ stack' = [stack EXCEPT ![self] = << [ procedure |->  "LoadCache",
                                                                               pc        |->  "lc5",
                                                                               deps      |->  deps[self],
                                                                               i         |->  i[self],
                                                                               saved     |->  saved[self],
                                                                               keep      |->  keep[self],
                                                                               sorder    |->  sorder[self],
                                                                               f         |->  f[self] ] >>
                                                                           \o stack[self]]
                                   /\ deps' = [deps EXCEPT ![self] = <<>>]
                                   /\ i' = [i EXCEPT ![self] = 1]
                                   /\ saved' = [saved EXCEPT ![self] = {}]
                                   /\ keep' = [keep EXCEPT ![self] = {}]
                                   /\ sorder' = [sorder EXCEPT ![self] = <<>>]
                                   /\ pc' = [pc EXCEPT ![self] = "lc0"]
                                   /\ UNCHANGED << thy, exc >>
                   ELSE /\ pc' = [pc EXCEPT ![self] = "lc6"]
                        /\ UNCHANGED << thy, exc, stack, f, deps, i, saved, 
                                        keep, sorder >>
             /\ UNCHANGED << var, fexists, fimports, fitems, fver, meta, 
                             metaLoaded, limMemo, order, imported, faultAt, 
                             ops, good, hist, m, pcidx, dn, dk, dimps, names, 
                             q, g, glim, deps2, j, sorder2, target, kind, lim, 
                             arg >>

lc5(self) == /\ pc[self] = "lc5"
             /\ IF exc = "none"
                   THEN /\ IF GoodToks(meta[(deps[self][i[self]])].content, Len(meta[(deps[self][i[self]])].content)) \cap thy # {}
                              THEN /\ exc' = "exists"
                                   /\ thy' = thy
                              ELSE /\ thy' = (thy \cup GoodToks(meta[(deps[self][i[self]])].content, Len(meta[(deps[self][i[self]])].content)))
                                   /\ exc' = exc
                   ELSE /\ TRUE
                        /\ UNCHANGED << thy, exc >>
             /\ i' = [i EXCEPT ![self] = i[self] + 1]
             /\ pc' = [pc EXCEPT ![self] = "lc4"]
             /\ UNCHANGED << var, fexists, fimports, fitems, fver, meta, 
                             metaLoaded, limMemo, order, imported, faultAt, 
                             ops, good, hist, stack, m, pcidx, dn, dk, dimps, 
                             names, q, f, deps, saved, keep, sorder, g, glim, 
                             deps2, j, sorder2, target, kind, lim, arg >>

lc6(self) == /\ pc[self] = "lc6"
             /\ IF exc = "none"
                   THEN /\ IF f[self] = faultAt
                              THEN /\ IF ~TimestampLast
                                         THEN /\ meta' = [meta EXCEPT ![f[self]] = [meta[f[self]] EXCEPT !.hasTs = TRUE, !.ts = fver[f[self]],
                                                                                                         !.content = Parsed(fitems, f[self], Len(fitems[f[self]]) \div 2, CtxGood(fexists, fimports, fitems, f[self], thy))]]
                                         ELSE /\ TRUE
                                              /\ meta' = meta
                                   /\ exc' = "fault"
                              ELSE /\ IF Toks(fitems, f[self]) \cap thy # {}
                                         THEN /\ IF ~TimestampLast
                                                    THEN /\ meta' = [meta EXCEPT ![f[self]] = [meta[f[self]] EXCEPT !.hasTs = TRUE, !.ts = fver[f[self]],
                                                                                                                    !.content = Parsed(fitems, f[self], Len(fitems[f[self]]) \div 2, CtxGood(fexists, fimports, fitems, f[self], thy))]]
                                                    ELSE /\ TRUE
                                                         /\ meta' = meta
                                              /\ exc' = "exists"
                                         ELSE /\ meta' = [meta EXCEPT ![f[self]] = [meta[f[self]] EXCEPT !.hasTs = TRUE, !.ts = fver[f[self]],
                                                                                                         !.content = Parsed(fitems, f[self], Len(fitems[f[self]]), CtxGood(fexists, fimports, fitems, f[self], thy))]]
                                              /\ exc' = exc
                   ELSE /\ TRUE
                        /\ UNCHANGED << meta, exc >>
             /\ thy' = saved[self]
             /\ pc' = [pc EXCEPT ![self] = Head(stack[self]).pc]
             /\ deps' = [deps EXCEPT ![self] = Head(stack[self]).deps]
             /\ i' = [i EXCEPT ![self] = Head(stack[self]).i]
             /\ saved' = [saved EXCEPT ![self] = Head(stack[self]).saved]
             /\ keep' = [keep EXCEPT ![self] = Head(stack[self]).keep]
             /\ sorder' = [sorder EXCEPT ![self] = Head(stack[self]).sorder]
             /\ f' = [f EXCEPT ![self] = Head(stack[self]).f]
             /\ stack' = [stack EXCEPT ![self] = Tail(stack[self])]
             /\ UNCHANGED << var, fexists, fimports, fitems, fver, metaLoaded, 
                             limMemo, order, imported, faultAt, ops, good, 
                             hist, m, pcidx, dn, dk, dimps, names, q, g, glim, 
                             deps2, j, sorder2, target, kind, lim, arg >>

LoadCache(self) == lc0(self) \/ lcm(self) \/ lce(self) \/ lc1(self)
                      \/ lc2(self) \/ lc3(self) \/ lc3a(self) \/ lc4(self)
                      \/ lc5(self) \/ lc6(self)

lt0(self) == /\ pc[self] = "lt0"
             /\ IF ~IsCurrent(g[self])
                   THEN /\ /\ f' = [f EXCEPT ![self] = g[self]]
                           /\ stack' = [stack EXCEPT ![self] = << [ procedure |->  "LoadCache",
                                                                    pc        |->  "lt1",
                                                                    deps      |->  deps[self],
                                                                    i         |->  i[self],
                                                                    saved     |->  saved[self],
                                                                    keep      |->  keep[self],
                                                                    sorder    |->  sorder[self],
                                                                    f         |->  f[self] ] >>
                                                                \o stack[self]]
                        /\ deps' = [deps EXCEPT ![self] = <<>>]
                        /\ i' = [i EXCEPT ![self] = 1]
                        /\ saved' = [saved EXCEPT ![self] = {}]
                        /\ keep' = [keep EXCEPT ![self] = {}]
                        /\ sorder' = [sorder EXCEPT ![self] = <<>>]
                        /\ pc' = [pc EXCEPT ![self] = "lc0"]
                   ELSE /\ pc' = [pc EXCEPT ![self] = "lt1"]
                        /\ UNCHANGED << stack, f, deps, i, saved, keep, sorder >>
             /\ UNCHANGED << var, fexists, fimports, fitems, fver, meta, 
                             metaLoaded, limMemo, order, thy, imported, exc, 
                             faultAt, ops, good, hist, m, pcidx, dn, dk, dimps, 
                             names, q, g, glim, deps2, j, sorder2, target, 
                             kind, lim, arg >>

lt1(self) == /\ pc[self] = "lt1"
             /\ IF exc # "none"
                   THEN /\ pc' = [pc EXCEPT ![self] = Head(stack[self]).pc]
                        /\ deps2' = [deps2 EXCEPT ![self] = Head(stack[self]).deps2]
                        /\ j' = [j EXCEPT ![self] = Head(stack[self]).j]
                        /\ sorder2' = [sorder2 EXCEPT ![self] = Head(stack[self]).sorder2]
                        /\ g' = [g EXCEPT ![self] = Head(stack[self]).g]
                        /\ glim' = [glim EXCEPT ![self] = Head(stack[self]).glim]
                        /\ stack' = [stack EXCEPT ![self] = Tail(stack[self])]
                   ELSE /\ pc' = [pc EXCEPT ![self] = "lt1a"]
                        /\ UNCHANGED << stack, g, glim, deps2, j, sorder2 >>
             /\ UNCHANGED << var, fexists, fimports, fitems, fver, meta, 
                             metaLoaded, limMemo, order, thy, imported, exc, 
                             faultAt, ops, good, hist, m, pcidx, dn, dk, dimps, 
                             names, q, f, deps, i, saved, keep, sorder, target, 
                             kind, lim, arg >>

lt1a(self) == /\ pc[self] = "lt1a"
              /\ sorder2' = [sorder2 EXCEPT ![self] = order]
              /\ IF \A x \in RangeS(meta[g[self]].imports) : IsSettled(x)
                    THEN /\ order' = DepOrderF(MetaImports, meta[g[self]].imports, <<>>)
                         /\ pc' = [pc EXCEPT ![self] = "lt2"]
                         /\ UNCHANGED << stack, names, q >>
                    ELSE /\ order' = <<>>
                         /\ /\ names' = [names EXCEPT ![self] = meta[g[self]].imports]
                            /\ stack' = [stack EXCEPT ![self] = << [ procedure |->  "GetOrder",
                                                                     pc        |->  "lt2",
                                                                     q         |->  q[self],
                                                                     names     |->  names[self] ] >>
                                                                 \o stack[self]]
                         /\ q' = [q EXCEPT ![self] = 1]
                         /\ pc' = [pc EXCEPT ![self] = "go1"]
              /\ UNCHANGED << var, fexists, fimports, fitems, fver, meta, 
                              metaLoaded, limMemo, thy, imported, exc, faultAt, 
                              ops, good, hist, m, pcidx, dn, dk, dimps, f, 
                              deps, i, saved, keep, sorder, g, glim, deps2, j, 
                              target, kind, lim, arg >>

lt2(self) == /\ pc[self] = "lt2"
             /\ IF exc # "none"
                   THEN /\ order' = sorder2[self]
                        /\ pc' = [pc EXCEPT ![self] = Head(stack[self]).pc]
                        /\ deps2' = [deps2 EXCEPT ![self] = Head(stack[self]).deps2]
                        /\ j' = [j EXCEPT ![self] = Head(stack[self]).j]
                        /\ sorder2' = [sorder2 EXCEPT ![self] = Head(stack[self]).sorder2]
                        /\ g' = [g EXCEPT ![self] = Head(stack[self]).g]
                        /\ glim' = [glim EXCEPT ![self] = Head(stack[self]).glim]
                        /\ stack' = [stack EXCEPT ![self] = Tail(stack[self])]
                        /\ thy' = thy
                   ELSE /\ deps2' = [deps2 EXCEPT ![self] = order]
                        /\ order' = sorder2[self]
                        /\ thy' = {}
                        /\ pc' = [pc EXCEPT ![self] = "lt3"]
                        /\ UNCHANGED << stack, g, glim, j, sorder2 >>
             /\ UNCHANGED << var, fexists, fimports, fitems, fver, meta, 
                             metaLoaded, limMemo, imported, exc, faultAt, ops, 
                             good, hist, m, pcidx, dn, dk, dimps, names, q, f, 
                             deps, i, saved, keep, sorder, target, kind, lim, 
                             arg >>

lt3(self) == /\ pc[self] = "lt3"
             /\ IF j[self] <= Len(deps2[self]) /\ exc = "none"
                   THEN /\ IF \A k \in j[self]..Len(deps2[self]) : IsCurrent(deps2[self][k])
                              THEN /\ IF \E k \in j[self]..Len(deps2[self]) : GoodToks(meta[deps2[self][k]].content, Len(meta[deps2[self][k]].content)) \cap thy # {}
                                         THEN /\ exc' = "exists"
                                              /\ thy' = thy
                                         ELSE /\ thy' = (thy \cup UNION { GoodToks(meta[deps2[self][k]].content, Len(meta[deps2[self][k]].content)) : k \in j[self]..Len(deps2[self]) })
                                              /\ exc' = exc
                                   /\ j' = [j EXCEPT ![self] = Len(deps2[self]) + 1]
                                   /\ pc' = [pc EXCEPT ![self] = "lt3"]
                                   /\ UNCHANGED << stack, f, deps, i, saved, 
                                                   keep, sorder >>
                              ELSE /\ /\ f' = [f EXCEPT ![self] = deps2[self][j[self]]]
                                      /\ stack' = [stack EXCEPT ![self] = << [ procedure |->  "LoadCache",
                                                                               pc        |->  "lt4",
                                                                               deps      |->  deps[self],
                                                                               i         |->  i[self],
                                                                               saved     |->  saved[self],
                                                                               keep      |->  keep[self],
                                                                               sorder    |->  sorder[self],
                                                                               f         |->  f[self] ] >>
                                                                           \o stack[self]]
                                   /\ deps' = [deps EXCEPT ![self] = <<>>]
                                   /\ i' = [i EXCEPT ![self] = 1]
                                   /\ saved' = [saved EXCEPT ![self] = {}]
                                   /\ keep' = [keep EXCEPT ![self] = {}]
                                   /\ sorder' = [sorder EXCEPT ![self] = <<>>]
                                   /\ pc' = [pc EXCEPT ![self] = "lc0"]
                                   /\ UNCHANGED << thy, exc, j >>
                   ELSE /\ pc' = [pc EXCEPT ![self] = "lt5"]
                        /\ UNCHANGED << thy, exc, stack, f, deps, i, saved, 
                                        keep, sorder, j >>
             /\ UNCHANGED << var, fexists, fimports, fitems, fver, meta, 
                             metaLoaded, limMemo, order, imported, faultAt, 
                             ops, good, hist, m, pcidx, dn, dk, dimps, names, 
                             q, g, glim, deps2, sorder2, target, kind, lim, 
                             arg >>

lt4(self) == /\ pc[self] = "lt4"
             /\ IF exc = "none"
                   THEN /\ IF GoodToks(meta[(deps2[self][j[self]])].content, Len(meta[(deps2[self][j[self]])].content)) \cap thy # {}
                              THEN /\ exc' = "exists"
                                   /\ thy' = thy
                              ELSE /\ thy' = (thy \cup GoodToks(meta[(deps2[self][j[self]])].content, Len(meta[(deps2[self][j[self]])].content)))
                                   /\ exc' = exc
                   ELSE /\ TRUE
                        /\ UNCHANGED << thy, exc >>
             /\ j' = [j EXCEPT ![self] = j[self] + 1]
             /\ pc' = [pc EXCEPT ![self] = "lt3"]
             /\ UNCHANGED << var, fexists, fimports, fitems, fver, meta, 
                             metaLoaded, limMemo, order, imported, faultAt, 
                             ops, good, hist, stack, m, pcidx, dn, dk, dimps, 
                             names, q, f, deps, i, saved, keep, sorder, g, 
                             glim, deps2, sorder2, target, kind, lim, arg >>

lt5(self) == /\ pc[self] = "lt5"
             /\ IF exc = "none"
                   THEN /\ LET c == meta[g[self]].content IN
                             LET memo == { x \in limMemo[g[self]] : x[1] = glim[self] } IN
                               LET p == IF glim[self] = 0 THEN Len(c) + 1
                                        ELSE IF ~LimitById /\ memo # {} THEN (CHOOSE x \in memo : TRUE)[2]
                                        ELSE PosOfLimit(c, glim[self]) IN
                                 IF p = 0
                                    THEN /\ exc' = "nolimit"
                                         /\ UNCHANGED << limMemo, thy >>
                                    ELSE /\ IF ~LimitById /\ glim[self] # 0
                                               THEN /\ limMemo' = [limMemo EXCEPT ![g[self]] = limMemo[g[self]] \cup {<<glim[self], p>>}]
                                               ELSE /\ TRUE
                                                    /\ UNCHANGED limMemo
                                         /\ IF GoodToks(c, IF p - 1 <= Len(c) THEN p - 1 ELSE Len(c)) \cap thy # {}
                                               THEN /\ exc' = "exists"
                                                    /\ thy' = thy
                                               ELSE /\ thy' = (thy \cup GoodToks(c, IF p - 1 <= Len(c) THEN p - 1 ELSE Len(c)))
                                                    /\ exc' = exc
                   ELSE /\ TRUE
                        /\ UNCHANGED << limMemo, thy, exc >>
             /\ pc' = [pc EXCEPT ![self] = Head(stack[self]).pc]
             /\ deps2' = [deps2 EXCEPT ![self] = Head(stack[self]).deps2]
             /\ j' = [j EXCEPT ![self] = Head(stack[self]).j]
             /\ sorder2' = [sorder2 EXCEPT ![self] = Head(stack[self]).sorder2]
             /\ g' = [g EXCEPT ![self] = Head(stack[self]).g]
             /\ glim' = [glim EXCEPT ![self] = Head(stack[self]).glim]
             /\ stack' = [stack EXCEPT ![self] = Tail(stack[self])]
             /\ UNCHANGED << var, fexists, fimports, fitems, fver, meta, 
                             metaLoaded, order, imported, faultAt, ops, good, 
                             hist, m, pcidx, dn, dk, dimps, names, q, f, deps, 
                             i, saved, keep, sorder, target, kind, lim, arg >>

LoadTheory(self) == lt0(self) \/ lt1(self) \/ lt1a(self) \/ lt2(self)
                       \/ lt3(self) \/ lt4(self) \/ lt5(self)

m0 == /\ pc["main"] = "m0"
      /\ IF ops < MaxOps
            THEN /\ \/ /\ \E t \in OpTheories:
                            \E lm \in LimitsOf[t]:
                              /\ target' = t
                              /\ lim' = lm
                       /\ kind' = "load"
                       /\ exc' = "none"
                       /\ faultAt' = "none"
                       /\ arg' = <<>>
                       /\ /\ g' = [g EXCEPT !["main"] = target']
                          /\ glim' = [glim EXCEPT !["main"] = lim']
                          /\ stack' = [stack EXCEPT !["main"] = << [ procedure |->  "LoadTheory",
                                                                     pc        |->  "m1",
                                                                     deps2     |->  deps2["main"],
                                                                     j         |->  j["main"],
                                                                     sorder2   |->  sorder2["main"],
                                                                     g         |->  g["main"],
                                                                     glim      |->  glim["main"] ] >>
                                                                 \o stack["main"]]
                       /\ deps2' = [deps2 EXCEPT !["main"] = <<>>]
                       /\ j' = [j EXCEPT !["main"] = 1]
                       /\ sorder2' = [sorder2 EXCEPT !["main"] = <<>>]
                       /\ pc' = [pc EXCEPT !["main"] = "lt0"]
                       /\ UNCHANGED <<fexists, fimports, fitems, fver, m, pcidx>>
                    \/ /\ AllowFault
                       /\ \E t \in OpTheories:
                            target' = t
                       /\ kind' = "fault"
                       /\ exc' = "none"
                       /\ faultAt' = target'
                       /\ lim' = 0
                       /\ arg' = <<>>
                       /\ /\ g' = [g EXCEPT !["main"] = target']
                          /\ glim' = [glim EXCEPT !["main"] = 0]
                          /\ stack' = [stack EXCEPT !["main"] = << [ procedure |->  "LoadTheory",
                                                                     pc        |->  "m1",
                                                                     deps2     |->  deps2["main"],
                                                                     j         |->  j["main"],
                                                                     sorder2   |->  sorder2["main"],
                                                                     g         |->  g["main"],
                                                                     glim      |->  glim["main"] ] >>
                                                                 \o stack["main"]]
                       /\ deps2' = [deps2 EXCEPT !["main"] = <<>>]
                       /\ j' = [j EXCEPT !["main"] = 1]
                       /\ sorder2' = [sorder2 EXCEPT !["main"] = <<>>]
                       /\ pc' = [pc EXCEPT !["main"] = "lt0"]
                       /\ UNCHANGED <<fexists, fimports, fitems, fver, m, pcidx>>
                    \/ /\ \E mm \in OpModules:
                            target' = mm
                       /\ kind' = "import"
                       /\ exc' = "none"
                       /\ faultAt' = "none"
                       /\ lim' = 0
                       /\ arg' = <<>>
                       /\ /\ m' = [m EXCEPT !["main"] = target']
                          /\ stack' = [stack EXCEPT !["main"] = << [ procedure |->  "ImportModule",
                                                                     pc        |->  "m1",
                                                                     pcidx     |->  pcidx["main"],
                                                                     m         |->  m["main"] ] >>
                                                                 \o stack["main"]]
                       /\ pcidx' = [pcidx EXCEPT !["main"] = 1]
                       /\ pc' = [pc EXCEPT !["main"] = "im0"]
                       /\ UNCHANGED <<fexists, fimports, fitems, fver, g, glim, deps2, j, sorder2>>
                    \/ /\ \E o \in { x \in FileOps : FileOpEnabled(x) }:
                            /\ kind' = o[1]
                            /\ target' = o[2]
                            /\ lim' = o[3]
                            /\ arg' = o[4]
                            /\ exc' = "none"
                            /\ faultAt' = "none"
                            /\ IF o[1] = "create"
                                  THEN /\ fexists' = (fexists \cup {o[2]})
                                       /\ fimports' = [fimports EXCEPT ![o[2]] = o[4]]
                                       /\ fitems' = [fitems EXCEPT ![o[2]] = Items0[o[2]]]
                                       /\ fver' = [fver EXCEPT ![o[2]] = fver[o[2]] + 1]
                                  ELSE /\ IF o[1] = "remove"
                                             THEN /\ fexists' = fexists \ {o[2]}
                                                  /\ UNCHANGED << fimports, 
                                                                  fitems, fver >>
                                             ELSE /\ IF o[1] = "reimport"
                                                        THEN /\ fimports' = [fimports EXCEPT ![o[2]] = o[4]]
                                                             /\ fver' = [fver EXCEPT ![o[2]] = fver[o[2]] + 1]
                                                             /\ UNCHANGED fitems
                                                        ELSE /\ IF o[1] = "ins"
                                                                   THEN /\ fitems' = [fitems EXCEPT ![o[2]] = InsertAt(fitems[o[2]], o[3], 100 + ops)]
                                                                        /\ fver' = [fver EXCEPT ![o[2]] = fver[o[2]] + 1]
                                                                   ELSE /\ fitems' = [fitems EXCEPT ![o[2]] = RemoveAt(fitems[o[2]], o[3])]
                                                                        /\ fver' = [fver EXCEPT ![o[2]] = fver[o[2]] + 1]
                                                             /\ UNCHANGED fimports
                                                  /\ UNCHANGED fexists
                       /\ pc' = [pc EXCEPT !["main"] = "m1"]
                       /\ UNCHANGED <<stack, m, pcidx, g, glim, deps2, j, sorder2>>
            ELSE /\ pc' = [pc EXCEPT !["main"] = "Done"]
                 /\ UNCHANGED << fexists, fimports, fitems, fver, exc, faultAt, 
                                 stack, m, pcidx, g, glim, deps2, j, sorder2, 
                                 target, kind, lim, arg >>
      /\ UNCHANGED << var, meta, metaLoaded, limMemo, order, thy, imported, 
                      ops, good, hist, dn, dk, dimps, names, q, f, deps, i, 
                      saved, keep, sorder >>

m1 == /\ pc["main"] = "m1"
      /\ LET okf == IF kind # "load" THEN TRUE
                    ELSE IF ExpectOK(fexists, fimports, fitems, target, lim)
                         THEN (IF SaneLib(fexists, fimports) THEN exc = "none" ELSE TRUE)
                              /\ (exc = "none" => thy = ExpectedToks(fexists, fimports, fitems, target, lim))
                         ELSE exc # "none" IN
           /\ IF ~okf \/ (PrintGood /\ var \in GoodVariants)
                 THEN /\ PrintT(<<"H", var, hist, <<kind, target, lim, arg>>, exc, okf>>)
                 ELSE /\ TRUE
           /\ good' = (good /\ okf)
      /\ hist' = Append(hist, <<kind, target, lim, arg>>)
      /\ faultAt' = "none"
      /\ ops' = ops + 1
      /\ pc' = [pc EXCEPT !["main"] = "m0"]
      /\ UNCHANGED << var, fexists, fimports, fitems, fver, meta, metaLoaded, 
                      limMemo, order, thy, imported, exc, stack, m, pcidx, dn, 
                      dk, dimps, names, q, f, deps, i, saved, keep, sorder, g, 
                      glim, deps2, j, sorder2, target, kind, lim, arg >>

main == m0 \/ m1

(* Allow infinite stuttering to prevent deadlock on termination. *)
Terminating == /\ \A self \in ProcSet: pc[self] = "Done"
               /\ UNCHANGED vars

Next == main
           \/ (\E self \in ProcSet:  \/ ImportModule(self) \/ Dfs(self)
                                     \/ GetOrder(self) \/ LoadCache(self)
                                     \/ LoadTheory(self))
           \/ Terminating

Spec == Init /\ [][Next]_vars

Termination == <>(\A self \in ProcSet: pc[self] = "Done")

\* END TRANSLATION

Good == (var \in GoodVariants) => good
=============================================================================
