--------------------------- MODULE C14_SuggestTrace ---------------------------
(* T-specification for C14.  One event per suggestion returned by ProofState.search_method    *)
(* at a reachable proof state, applied on a copy (harness/drivers/c13.py suggest):             *)
(*   outcome  "success" | "query" | "fail" | "notapplied" (open declared parameters that the   *)
(*            driver could not supply: not judged)                                            *)
(*   sig, given            declared parameters of the method, parameters fixed by the suggestion *)
(*   has_goal, adv_goal    the suggestion advertises subgoals (term ids)                         *)
(*   has_fact, adv_fact    the suggestion advertises new facts (term ids)                        *)
(*   new_gaps              propositions of gaps of the new state that were not open before      *)
(*   after_props           <<proved?, prop>> of every stated line of the new state               *)
(*   query_other           queried parameter names that are not instantiation parameters         *)
(*   recheck_before/after  (success only) the full check (every derived step expanded, gaps allowed) of the state   *)
(*                         before the step and of the state it leaves: a step that "succeeds" on a checking state *)
(*                         leaves a checking state (StepChecks): its closed subgoals are really proved              *)
EXTENDS Naturals, Sequences, FiniteSets, TLC, TraceLib
SetOf(s) == { s[i] : i \in 1..Len(s) }
Proved(e) == { e.after_props[i][2] : i \in { i \in 1..Len(e.after_props) : e.after_props[i][1] } }
OpenAfter(e) == { e.after_props[i][2] : i \in { i \in 1..Len(e.after_props) : ~e.after_props[i][1] } }
ClausesOf(e) ==
  IF e.kind # "suggest" \/ e.outcome = "notapplied" THEN {}
  ELSE (IF e.outcome = "fail" THEN {"NeverFailsOutright"} ELSE {})
       \cup (IF e.outcome = "success" /\ e.has_goal /\ ~(SetOf(e.new_gaps) \subseteq SetOf(e.adv_goal)) THEN {"GoalsAdvertised"} ELSE {})
       \cup (IF e.outcome = "success" /\ e.has_goal /\ e.adv_goal = <<>> /\ e.new_gaps # <<>> THEN {"SolvesLeavesNone"} ELSE {})
       \cup (IF e.outcome = "success" /\ e.has_goal /\ ~(\A p \in SetOf(e.adv_goal) : p \in OpenAfter(e) \/ p \in Proved(e)) THEN {"ClosedOnesAreProved"} ELSE {})
       \cup (IF e.outcome = "success" /\ e.has_fact /\ ~(SetOf(e.adv_fact) \subseteq Proved(e)) THEN {"FactAppears"} ELSE {})
       \cup (IF e.outcome = "success" /\ e.recheck_before /\ ~e.recheck_after THEN {"StepChecks"} ELSE {})
       \cup (IF ~e.orig_unchanged THEN {"CopyIsolated"} ELSE {})
\* informational: a query for a parameter that the method does not declare (the property allows "further named parameters")
\* also informational: search_method itself raised (no suggestion was returned, so the property does not speak about it)
DivergesOf(e) == (e.kind = "search_fail") \/ (e.kind = "suggest" /\ e.outcome = "query" /\ ~(SetOf(e.query_other) \subseteq (SetOf(e.sig) \ SetOf(e.given))))
TNext == LET e == Trace[l] IN TStep(e.tid, ClausesOf(e), e.kind = "suggest" /\ e.outcome \in {"success", "query", "fail"}, DivergesOf(e))
TSpec == TInit /\ [][TNext]_l
=============================================================================
