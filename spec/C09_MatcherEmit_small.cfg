SPECIFICATION ESpec
CONSTANTS Depth = 2
 MaxSize = 6
 Rich = FALSE
CHECK_DEADLOCK FALSE
