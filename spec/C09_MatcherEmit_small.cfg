SPECIFICATION ESpec
CONSTANTS Depth = 2
 MaxSize = 7
 Rich = FALSE
CHECK_DEADLOCK FALSE
