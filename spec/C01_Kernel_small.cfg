SPECIFICATION Spec
CONSTANTS MaxRound = 2
 MaxSize = 9
 MaxHyps = 2
 N = 2
 EmitRejected = TRUE
 ExtraInst = FALSE
 Focus = FALSE
INVARIANT AllWellTyped

INVARIANT AllValid
INVARIANT NoFalse
INVARIANT NonVacuous
CHECK_DEADLOCK FALSE
