------------------------------- MODULE C18_Rules -------------------------------
(* Reference rule schemas of C18 (Alethe rules as sets of intended instances over small pools), explicit near misses, *)
(* and the generic one-point mutations producing the near-miss candidates.  See C18_Alethe.tla.                       *)
EXTENDS C18_Sem
CONSTANTS Level,       \* 1..3: size of the seed pools
          MutDepth,    \* depth to which one-point mutations descend into terms
          WrapMuts     \* mutation kinds of the candidates that are also closed into whole proofs

\* ------------------------------------------------------------------ signature
TA == <<"tv","a">>
vp == <<"var","p",BoolT>>   vq == <<"var","q",BoolT>>   vr == <<"var","r",BoolT>>   vs == <<"var","s",BoolT>>
ca == <<"var","a",TA>>      cb == <<"var","b",TA>>      cc == <<"var","c",TA>>      cd == <<"var","d",TA>>
w0 == <<"var","v0",TA>>     \* a free variable named like the outermost binder the driver creates
ff == <<"var","f",FunT(TA,TA)>>         fh == <<"var","h",FunT(TA,TA)>>
fg == <<"var","g",FunT(TA,FunT(TA,TA))>>
pP == <<"var","P",FunT(TA,BoolT)>>      pR == <<"var","R",FunT(TA,BoolT)>>
pQ == <<"var","Q",FunT(TA,FunT(TA,BoolT))>>
pT == <<"var","T",FunT(TA,FunT(TA,FunT(TA,BoolT)))>>
F3(f, a, b, c) == App(App(App(f, a), b), c)
ix == <<"var","x",IntT>>    iy == <<"var","y",IntT>>
ru == <<"var","u",RealT>>   rv == <<"var","v",RealT>>
AtomPool == {vp, vq, vr, ca, cb, cc, ff, fh, pP, pR, ix, iy, ru, rv}
B0 == <<"bound",0>>   B1x == <<"bound",1>>
F1(f, a) == App(f, a)
F2(f, a, b) == App(App(f, a), b)
All(T, body) == App(AllC(T), <<"abs", T, body>>)
Ex(T, body) == App(ExC(T), <<"abs", T, body>>)
Eqa(a, b) == EqT(TA, a, b)
\* numerals and arithmetic
RECURSIVE MkNat(_)
MkNat(n) == IF n = 1 THEN <<"const","one",NatT>>
            ELSE IF n % 2 = 0 THEN App(<<"const","bit0",FunT(NatT,NatT)>>, MkNat(n \div 2))
            ELSE App(<<"const","bit1",FunT(NatT,NatT)>>, MkNat(n \div 2))
N2(T) == FunT(T, FunT(T, T))
C2(T) == FunT(T, FunT(T, BoolT))
UMinus(T, a) == App(<<"const","uminus",FunT(T,T)>>, a)
Num(T, n) == IF n = 0 THEN <<"const","zero",T>> ELSE IF n = 1 THEN <<"const","one",T>>
             ELSE IF n > 1 THEN App(<<"const","of_nat",FunT(NatT,T)>>, MkNat(n))
             ELSE IF n = 0 - 1 THEN UMinus(T, <<"const","one",T>>) ELSE UMinus(T, App(<<"const","of_nat",FunT(NatT,T)>>, MkNat(0 - n)))
Bin(n, Ty, a, b) == App(App(<<"const", n, Ty>>, a), b)
Plus(T, a, b) == Bin("plus", N2(T), a, b)
Minus(T, a, b) == Bin("minus", N2(T), a, b)
Times(T, a, b) == Bin("times", N2(T), a, b)
RDivide(a, b) == Bin("real_divide", N2(RealT), a, b)
Lt(T, a, b) == Bin("less", C2(T), a, b)
Le(T, a, b) == Bin("less_eq", C2(T), a, b)
Gt(T, a, b) == Bin("greater", C2(T), a, b)
Ge(T, a, b) == Bin("greater_eq", C2(T), a, b)

\* ------------------------------------------------------------------ instances
\* names: binder names by nesting depth (default v0, v1, ..) for the steps in which the NAME of a bound variable matters
NoX == [sizes |-> <<>>, coeffs |-> <<>>, inst |-> <<>>, ctx |-> <<>>, names |-> <<>>]
BX(ns) == [NoX EXCEPT !.names = ns]
PS(c) == [h |-> <<>>, c |-> c]
PH(h, c) == [h |-> h, c |-> c]
I(rule, prems, cl) == [rule |-> rule, mut |-> "correct", prems |-> prems, cl |-> cl, x |-> NoX]
IX(rule, prems, cl, x) == [rule |-> rule, mut |-> "correct", prems |-> prems, cl |-> cl, x |-> x]
NM(i, tag) == [i EXCEPT !.mut = tag]      \* an explicit near miss
Neg1(s) == [k \in 1..Len(s) |-> Neg(s[k])]
Eqv(l, r) == <<Iff(l, r)>>                 \* clause of a simplification step

\* seed pools
FS1 == {vp, Neg(vq)} \cup (IF Level >= 2 THEN {Conj(vp, vq)} ELSE {}) \cup (IF Level >= 3 THEN {Iff(vp, vq), Eqa(ca, cb), Imp(vp, vr), TrueC} ELSE {})
FS2 == {<<Neg(vp), Conj(vq, vr)>>} \cup (IF Level >= 2 THEN {<<vp, vq>>, <<Disj(vp, vq), Imp(vq, vr)>>} ELSE {})
       \cup (IF Level >= 3 THEN {<<vp, vp>>, <<Conj(vp, vr), Disj(vq, vr)>>, <<Disj(vp, vq), Neg(vq)>>, <<Iff(vp, vq), vr>>, <<Eqa(ca, cb), F1(pP, ca)>>, <<vp, FalseC>>} ELSE {})
FS3 == {<<Neg(vp), vq, Conj(vp, vr)>>} \cup (IF Level >= 2 THEN {<<vp, vq, vr>>} ELSE {})
       \cup (IF Level >= 3 THEN {<<vp, vq, vp>>, <<Iff(vp, vq), Neg(vr), vq>>, <<F1(pP, ca), vq, Eqa(ca, cb)>>} ELSE {})
\* n-ary lists: a literal / conjunct may itself be a disjunction, conjunction, implication or negated disjunction, in first, middle and
\* last position (a compound LAST item merges syntactically with the enclosing right-nested disjunction / conjunction)
FSN == {<<Neg(vp), Disj(vq, vr), vr>>, <<Conj(vp, vq), Imp(vq, vr), Disj(vp, vr)>>}
       \cup (IF Level >= 2 THEN {<<vp, vq>>, <<vp, vq, vr>>, <<vr, Disj(vp, vq)>>, <<Disj(vp, vq), vr, Conj(vq, vr)>>} ELSE {})
       \cup (IF Level >= 3 THEN {<<vp, vq, vr, vs>>, <<Neg(Disj(vp, vq)), Imp(vp, vr)>>, <<vp, vp, vq>>, <<Conj(vp, vq), vr, Neg(vr)>>} ELSE {})

\* ------------------------------------------------------------------ schemas: clausification / tautologies (no premise)
R_false == { I("verit_false", <<>>, <<Neg(FalseC)>>) }
R_not_not == { I("verit_not_not", <<>>, <<Neg(Neg(Neg(A))), A>>) : A \in FS1 }
             \cup { NM(I("verit_not_not", <<>>, <<Conj(vp, Conj(vq, Neg(vr))), vr>>), "nm.shape") }
R_and_pos == UNION { { I("verit_and_pos", <<>>, <<Neg(AndN(fs)), fs[k]>>) : k \in 1..Len(fs) } : fs \in FSN }
R_and_neg == { I("verit_and_neg", <<>>, <<AndN(fs)>> \o Neg1(fs)) : fs \in FSN }
R_or_pos == { I("verit_or_pos", <<>>, <<Neg(OrN(fs))>> \o fs) : fs \in FSN }
            \cup { NM(I("verit_or_pos", <<>>, <<Conj(vp, vq), vq>>), "nm.shape"), NM(I("verit_or_pos", <<>>, <<Imp(vp, Disj(vq, vr)), vq, vr>>), "nm.shape") }
R_or_neg == UNION { { I("verit_or_neg", <<>>, <<OrN(fs), Neg(fs[k])>>) : k \in 1..Len(fs) } : fs \in FSN }
R_implies_pos == { I("verit_implies_pos", <<>>, <<Neg(Imp(s[1], s[2])), Neg(s[1]), s[2]>>) : s \in FS2 }
R_implies_neg1 == { I("verit_implies_neg1", <<>>, <<Imp(s[1], s[2]), s[1]>>) : s \in FS2 }
R_implies_neg2 == { I("verit_implies_neg2", <<>>, <<Imp(s[1], s[2]), Neg(s[2])>>) : s \in FS2 }
R_equiv_pos1 == { I("verit_equiv_pos1", <<>>, <<Neg(Iff(s[1], s[2])), s[1], Neg(s[2])>>) : s \in FS2 }
R_equiv_pos2 == { I("verit_equiv_pos2", <<>>, <<Neg(Iff(s[1], s[2])), Neg(s[1]), s[2]>>) : s \in FS2 }
R_equiv_neg1 == { I("verit_equiv_neg1", <<>>, <<Iff(s[1], s[2]), Neg(s[1]), Neg(s[2])>>) : s \in FS2 }
R_equiv_neg2 == { I("verit_equiv_neg2", <<>>, <<Iff(s[1], s[2]), s[1], s[2]>>) : s \in FS2 }
R_xor_pos1 == { I("verit_xor_pos1", <<>>, <<Neg(Xor(s[1], s[2])), s[1], s[2]>>) : s \in FS2 }
R_xor_pos2 == { I("verit_xor_pos2", <<>>, <<Neg(Xor(s[1], s[2])), Neg(s[1]), Neg(s[2])>>) : s \in FS2 }
R_xor_neg1 == { I("verit_xor_neg1", <<>>, <<Xor(s[1], s[2]), s[1], Neg(s[2])>>) : s \in FS2 }
R_xor_neg2 == { I("verit_xor_neg2", <<>>, <<Xor(s[1], s[2]), Neg(s[1]), s[2]>>) : s \in FS2 }
IteB(s) == Ite(BoolT, s[1], s[2], s[3])
R_ite_pos1 == { I("verit_ite_pos1", <<>>, <<Neg(IteB(s)), s[1], s[3]>>) : s \in FS3 }
R_ite_pos2 == { I("verit_ite_pos2", <<>>, <<Neg(IteB(s)), Neg(s[1]), s[2]>>) : s \in FS3 }
R_ite_neg1 == { I("verit_ite_neg1", <<>>, <<IteB(s), s[1], Neg(s[3])>>) : s \in FS3 }
R_ite_neg2 == { I("verit_ite_neg2", <<>>, <<IteB(s), Neg(s[1]), Neg(s[2])>>) : s \in FS3 }

\* ------------------------------------------------------------------ schemas: one premise
R_not_or == UNION { { I("verit_not_or", <<PS(Neg(OrN(fs)))>>, <<Neg(fs[k])>>) : k \in 1..Len(fs) } : fs \in FSN }
R_not_and == { I("verit_not_and", <<PS(Neg(AndN(fs)))>>, Neg1(fs)) : fs \in FSN }
R_and == UNION { { I("verit_and", <<PS(AndN(fs))>>, <<fs[k]>>) : k \in 1..Len(fs) } : fs \in FSN }
R_or == { I("verit_or", <<PS(OrN(fs))>>, fs) : fs \in FSN }
R_implies == { I("verit_implies", <<PS(Imp(s[1], s[2]))>>, <<Neg(s[1]), s[2]>>) : s \in FS2 }
R_not_implies1 == { I("verit_not_implies1", <<PS(Neg(Imp(s[1], s[2])))>>, <<s[1]>>) : s \in FS2 }
R_not_implies2 == { I("verit_not_implies2", <<PS(Neg(Imp(s[1], s[2])))>>, <<Neg(s[2])>>) : s \in FS2 }
R_equiv1 == { I("verit_equiv1", <<PS(Iff(s[1], s[2]))>>, <<Neg(s[1]), s[2]>>) : s \in FS2 }
R_equiv2 == { I("verit_equiv2", <<PS(Iff(s[1], s[2]))>>, <<s[1], Neg(s[2])>>) : s \in FS2 }
R_not_equiv1 == { I("verit_not_equiv1", <<PS(Neg(Iff(s[1], s[2])))>>, <<s[1], s[2]>>) : s \in FS2 }
R_not_equiv2 == { I("verit_not_equiv2", <<PS(Neg(Iff(s[1], s[2])))>>, <<Neg(s[1]), Neg(s[2])>>) : s \in FS2 }
R_ite1 == { I("verit_ite1", <<PS(IteB(s))>>, <<s[1], s[3]>>) : s \in FS3 }
R_ite2 == { I("verit_ite2", <<PS(IteB(s))>>, <<Neg(s[1]), s[2]>>) : s \in FS3 }
R_not_ite1 == { I("verit_not_ite1", <<PS(Neg(IteB(s)))>>, <<s[1], Neg(s[3])>>) : s \in FS3 }
R_not_ite2 == { I("verit_not_ite2", <<PS(Neg(IteB(s)))>>, <<Neg(s[1]), Neg(s[2])>>) : s \in FS3 }
R_contraction == { I("verit_contraction", <<PS(OrN(<<vp, vq, vp>>))>>, <<vp, vq>>),
                   I("verit_contraction", <<PS(OrN(<<vp, vp>>))>>, <<vp>>),
                   I("verit_contraction", <<PS(OrN(<<Neg(vp), vq, vq, Neg(vp), vr>>))>>, <<Neg(vp), vq, vr>>) }
                 \cup (IF Level >= 2 THEN { I("verit_contraction", <<PS(OrN(<<Conj(vp, vq), vr, Conj(vp, vq)>>))>>, <<Conj(vp, vq), vr>>),
                                            I("verit_contraction", <<PS(OrN(<<Disj(vp, vq), vr, Disj(vp, vq)>>))>>, <<Disj(vp, vq), vr>>),
                                            I("verit_contraction", <<PS(OrN(<<vr, Imp(vp, vq), vr, Imp(vp, vq)>>))>>, <<vr, Imp(vp, vq)>>) } ELSE {})

\* ------------------------------------------------------------------ schemas: resolution (args = clause, clause sizes of the premises)
RX(sz) == [NoX EXCEPT !.sizes = sz]
R_th_resolution ==
  { IX("verit_th_resolution", <<PS(Disj(vp, vq)), PS(Disj(Neg(vp), vr))>>, <<vq, vr>>, RX(<<2, 2>>)),
    IX("verit_th_resolution", <<PS(vp), PS(Neg(vp))>>, <<>>, RX(<<1, 1>>)),
    IX("verit_th_resolution", <<PS(Disj(vp, vq)), PS(Neg(vp)), PS(Neg(vq))>>, <<>>, RX(<<2, 1, 1>>)),
    IX("verit_th_resolution", <<PS(Disj(vp, vq)), PS(Disj(Neg(vq), vr)), PS(Neg(vr))>>, <<vp>>, RX(<<2, 2, 1>>)),
    IX("verit_th_resolution", <<PS(Disj(Neg(vp), vq)), PS(Disj(Neg(Neg(vp)), vr))>>, <<vq, vr>>, RX(<<2, 2>>)),
    IX("verit_th_resolution", <<PS(Disj(vp, vq)), PS(Disj(Neg(vp), vq))>>, <<vq>>, RX(<<2, 2>>)),
    IX("verit_th_resolution", <<PS(Disj(vp, vq)), PS(Disj(Neg(vp), vr))>>, <<vr, vs, vq>>, RX(<<2, 2>>)),
    IX("verit_th_resolution", <<PS(Disj(Conj(vp, vq), vr)), PS(Neg(Conj(vp, vq)))>>, <<vr>>, RX(<<2, 1>>)),
    IX("verit_th_resolution", <<PS(Disj(vp, vq)), PS(Neg(Disj(vp, vq)))>>, <<>>, RX(<<1, 1>>)),
    IX("verit_th_resolution", <<PS(Neg(TrueC))>>, <<>>, RX(<<1>>)),
    IX("verit_th_resolution", <<PS(vp), PS(Iff(Neg(Neg(vp)), vq))>>, <<vq>>, RX(<<1, 1>>)) }
  \cup (IF Level >= 3 THEN
  { IX("verit_th_resolution", <<PS(OrN(<<vp, vq, vr>>)), PS(Disj(Neg(vq), vs)), PS(Disj(Neg(vr), vs))>>, <<vp, vs>>, RX(<<3, 2, 2>>)),
    IX("verit_th_resolution", <<PS(Disj(F1(pP, ca), Eqa(ca, cb))), PS(Neg(F1(pP, ca)))>>, <<Eqa(ca, cb)>>, RX(<<2, 1>>)),
    IX("verit_th_resolution", <<PS(Disj(vp, vq)), PS(Disj(vr, vs))>>, <<vp, vq>>, RX(<<2, 2>>)),
    IX("verit_th_resolution", <<PS(Neg(Neg(vp))), PS(Neg(vp))>>, <<>>, RX(<<1, 1>>)) } ELSE {})

\* resolution on COMPOUND literals: the pivot L (a disjunction, conjunction, negated disjunction, implication) stands at every position of
\* the first clause (first / middle / LAST), its negation at every position of the second; the other literals are atoms and compound formulas
Ins(s, k, x) == [j \in 1..(Len(s) + 1) |-> IF j < k THEN s[j] ELSE IF j = k THEN x ELSE s[j - 1]]
RECURSIVE Dedup(_)
Dedup(s) == IF Len(s) = 0 THEN <<>>
            ELSE LET r == Dedup(SubSeq(s, 1, Len(s) - 1)) IN IF \E j \in 1..Len(r) : r[j] = s[Len(s)] THEN r ELSE Append(r, s[Len(s)])
ResPivots == {Disj(vp, vq), Neg(Disj(vp, vq))} \cup (IF Level >= 2 THEN {Conj(vp, vq), Imp(vp, vq)} ELSE {}) \cup (IF Level >= 3 THEN {vp} ELSE {})
ResOthers1 == IF Level = 1 THEN {<<vr>>} ELSE IF Level = 2 THEN {<<vr, Disj(vs, vr)>>} ELSE {<<vr>>, <<vr, Disj(vs, vr)>>}
ResOthers2 == IF Level = 1 THEN {<<>>, <<Imp(vr, vs)>>} ELSE IF Level = 2 THEN {<<Imp(vr, vs)>>} ELSE {<<>>, <<Imp(vr, vs)>>}
R_resolution_compound ==
  UNION { UNION { UNION { UNION { { IX("verit_th_resolution", <<PS(OrN(Ins(o1, i, L))), PS(OrN(Ins(o2, j, Neg(L))))>>, Dedup(o1 \o o2),
                                       RX(<<Len(o1) + 1, Len(o2) + 1>>))
                                    : j \in 1..(Len(o2) + 1) } : i \in 1..(Len(o1) + 1) } : o2 \in ResOthers2 } : o1 \in ResOthers1 } : L \in ResPivots }

\* ------------------------------------------------------------------ schemas: equality and congruence
R_eq_reflexive == { I("verit_eq_reflexive", <<>>, <<Eqa(ca, ca)>>), I("verit_eq_reflexive", <<>>, <<Eqa(F1(ff, ca), F1(ff, ca))>>),
                    I("verit_eq_reflexive", <<>>, <<Iff(vp, vp)>>) }
R_eq_transitive == { I("verit_eq_transitive", <<>>, <<Neg(Eqa(ca, cb)), Neg(Eqa(cb, cc)), Eqa(ca, cc)>>),
                     I("verit_eq_transitive", <<>>, <<Neg(Eqa(ca, cb)), Neg(Eqa(cc, cb)), Eqa(ca, cc)>>),
                     I("verit_eq_transitive", <<>>, <<Neg(Eqa(cb, ca)), Neg(Eqa(cb, cc)), Eqa(cc, ca)>>),
                     I("verit_eq_transitive", <<>>, <<Neg(Eqa(ca, cb)), Neg(Eqa(cb, cc)), Neg(Eqa(cc, cd)), Eqa(ca, cd)>>) }
R_eq_congruent == { I("verit_eq_congruent", <<>>, <<Neg(Eqa(ca, cb)), Eqa(F1(ff, ca), F1(ff, cb))>>),
                    I("verit_eq_congruent", <<>>, <<Neg(Eqa(cb, ca)), Eqa(F1(ff, ca), F1(ff, cb))>>),
                    I("verit_eq_congruent", <<>>, <<Neg(Eqa(ca, cb)), Neg(Eqa(cc, cd)), Eqa(F2(fg, ca, cc), F2(fg, cb, cd))>>) }
R_eq_congruent_pred == { I("verit_eq_congruent_pred", <<>>, <<Neg(Eqa(ca, cb)), Neg(F1(pP, ca)), F1(pP, cb)>>),
                         I("verit_eq_congruent_pred", <<>>, <<Neg(Eqa(ca, cb)), F1(pP, ca), Neg(F1(pP, cb))>>),
                         I("verit_eq_congruent_pred", <<>>, <<Neg(Eqa(ca, cb)), Neg(Eqa(cc, cd)), Neg(F2(pQ, ca, cc)), F2(pQ, cb, cd)>>),
                         NM(I("verit_eq_congruent_pred", <<>>, <<Neg(Eqa(ca, cb)), Neg(Eqa(cc, cd)), Neg(F3(pT, ca, cc, ca)), F3(pT, cb, cd, cc)>>), "nm.arity"),
                         NM(I("verit_eq_congruent_pred", <<>>, <<Neg(Eqa(ca, cb)), Neg(F2(pQ, ca, ca)), F2(pQ, cb, cc)>>), "nm.arity"),
                         NM(I("verit_eq_congruent_pred", <<>>, <<Neg(F2(pQ, ca, cb)), Neg(F1(pP, ca)), F1(pP, cb)>>), "nm.noteq") }
R_trans == { I("verit_trans", <<PS(Eqa(ca, cb)), PS(Eqa(cb, cc))>>, <<Eqa(ca, cc)>>),
             I("verit_trans", <<PS(Eqa(ca, cb)), PS(Eqa(cb, cc)), PS(Eqa(cc, cd))>>, <<Eqa(ca, cd)>>),
             I("verit_trans", <<PS(Iff(vp, vq)), PS(Iff(vq, vr))>>, <<Iff(vp, vr)>>) }
R_cong == { I("verit_cong", <<PS(Eqa(ca, cb))>>, <<Eqa(F1(ff, ca), F1(ff, cb))>>),
            I("verit_cong", <<PS(Eqa(ca, cb)), PS(Eqa(cc, cd))>>, <<Eqa(F2(fg, ca, cc), F2(fg, cb, cd))>>),
            I("verit_cong", <<PS(Eqa(ca, cb))>>, <<Iff(F1(pP, ca), F1(pP, cb))>>),
            I("verit_cong", <<PS(Iff(vp, vq))>>, <<Iff(Neg(vp), Neg(vq))>>),
            I("verit_cong", <<PS(Iff(vp, vq))>>, <<Iff(Conj(vp, vr), Conj(vq, vr))>>),
            I("verit_cong", <<PS(Iff(vp, vq)), PS(Iff(vr, vs))>>, <<Iff(Disj(vp, vr), Disj(vq, vs))>>),
            I("verit_cong", <<PS(Eqa(ca, cb))>>, <<Iff(Eqa(ca, cc), Eqa(cb, cc))>>) }
\* congruence with QUANTIFIED arguments: the bound variable is named like a free symbol of a premise (bx) or not (default v0);
\* a premise about the free symbol must never rewrite the bound variable
bx == <<"var","bx",TA>>
kB == <<"var","k",FunT(BoolT,TA)>>
R_cong_binder ==
  UNION { { IX("verit_cong", <<PS(Iff(vp, vq))>>, <<Iff(Conj(vp, All(TA, F1(pP, B0))), Conj(vq, All(TA, F1(pP, B0))))>>, BX(ns)),
            IX("verit_cong", <<PS(Eqa(bx, ca))>>, <<Iff(Conj(F1(pR, bx), Ex(TA, F1(pP, B0))), Conj(F1(pR, bx), Ex(TA, F1(pP, B0))))>>, BX(ns)),
            IX("verit_cong", <<PS(Eqa(bx, ca)), PS(Iff(All(TA, F1(pP, B0)), vq))>>, <<Eqa(F1(kB, All(TA, F1(pP, B0))), F1(kB, vq))>>, BX(ns)),
            NM(IX("verit_cong", <<PS(Eqa(bx, ca))>>, <<Iff(All(TA, F1(pP, B0)), All(TA, F1(pP, ca)))>>, BX(ns)), "nm.capture"),
            NM(IX("verit_cong", <<PS(Eqa(bx, ca))>>, <<Iff(Ex(TA, F1(pP, B0)), Ex(TA, F1(pP, ca)))>>, BX(ns)), "nm.capture"),
            NM(IX("verit_cong", <<PS(Eqa(ca, bx))>>, <<Iff(Conj(vr, All(TA, F2(pQ, B0, cb))), Conj(vr, All(TA, F2(pQ, ca, cb))))>>, BX(ns)), "nm.capture"),
            NM(IX("verit_cong", <<PS(Eqa(bx, ca))>>, <<Eqa(F1(kB, All(TA, F1(pP, B0))), F1(kB, All(TA, F1(pP, ca))))>>, BX(ns)), "nm.capture"),
            IX("verit_eq_congruent", <<>>, <<Neg(Iff(All(TA, F1(pP, B0)), vq)), Eqa(F1(kB, All(TA, F1(pP, B0))), F1(kB, vq))>>, BX(ns)),
            NM(IX("verit_eq_congruent", <<>>, <<Neg(Eqa(bx, ca)), Eqa(F1(kB, All(TA, F1(pP, B0))), F1(kB, All(TA, F1(pP, ca))))>>, BX(ns)), "nm.capture") }
          : ns \in {<<>>, <<"bx">>} }
R_subproof == { I("verit_subproof", <<PH(<<vp>>, vp), PH(<<vp>>, vq)>>, <<Neg(vp), vq>>),
                I("verit_subproof", <<PH(<<vp>>, vp), PH(<<vr>>, vr), PH(<<vp, vr>>, Conj(vp, vr))>>, <<Neg(vp), Neg(vr), Conj(vp, vr)>>),
                NM(I("verit_subproof", <<PH(<<vp>>, vp), PH(<<vp, vs>>, vq)>>, <<Neg(vp), vq>>), "nm.outerhyp") }

\* ------------------------------------------------------------------ schemas: boolean simplification (clause = one equivalence)
S(rule, l, r) == I(rule, <<>>, Eqv(l, r))
R_not_simplify == { S("verit_not_simplify", Neg(Neg(A)), A) : A \in FS1 }
                  \cup { S("verit_not_simplify", Neg(FalseC), TrueC), S("verit_not_simplify", Neg(TrueC), FalseC) }
R_and_simplify == UNION { { S("verit_and_simplify", AndN(<<s[1], TrueC, s[2]>>), AndN(<<s[1], s[2]>>)),
                            S("verit_and_simplify", AndN(<<s[1], s[2], s[1]>>), AndN(<<s[1], s[2]>>)),
                            S("verit_and_simplify", AndN(<<s[1], FalseC, s[2]>>), FalseC),
                            S("verit_and_simplify", AndN(<<s[1], s[2], Neg(s[1])>>), FalseC),
                            S("verit_and_simplify", AndN(<<Neg(s[1]), s[2], s[1]>>), FalseC) } : s \in FS2 }
R_or_simplify == UNION { { S("verit_or_simplify", OrN(<<s[1], FalseC, s[2]>>), OrN(<<s[1], s[2]>>)),
                           S("verit_or_simplify", OrN(<<s[1], s[2], s[1]>>), OrN(<<s[1], s[2]>>)),
                           S("verit_or_simplify", OrN(<<s[1], TrueC, s[2]>>), TrueC),
                           S("verit_or_simplify", OrN(<<s[1], s[2], Neg(s[1])>>), TrueC),
                           S("verit_or_simplify", OrN(<<Neg(s[1]), s[2], s[1]>>), TrueC) } : s \in FS2 }
R_implies_simplify == UNION { { S("verit_implies_simplify", Imp(Neg(s[1]), Neg(s[2])), Imp(s[2], s[1])),
                                S("verit_implies_simplify", Imp(FalseC, s[1]), TrueC),
                                S("verit_implies_simplify", Imp(s[1], TrueC), TrueC),
                                S("verit_implies_simplify", Imp(TrueC, s[1]), s[1]),
                                S("verit_implies_simplify", Imp(s[1], FalseC), Neg(s[1])),
                                S("verit_implies_simplify", Imp(s[1], s[1]), TrueC),
                                S("verit_implies_simplify", Imp(Neg(s[1]), s[1]), s[1]),
                                S("verit_implies_simplify", Imp(s[1], Neg(s[1])), Neg(s[1])),
                                S("verit_implies_simplify", Imp(Imp(s[1], s[2]), s[2]), Disj(s[1], s[2])),
                                NM(S("verit_implies_simplify", Imp(Imp(Imp(s[1], s[2]), s[2]), vs), Disj(s[1], s[2])), "nm.case9") } : s \in FS2 }
R_equiv_simplify == UNION { { S("verit_equiv_simplify", Iff(Neg(s[1]), Neg(s[2])), Iff(s[1], s[2])),
                              S("verit_equiv_simplify", Iff(s[1], s[1]), TrueC),
                              S("verit_equiv_simplify", Iff(s[1], Neg(s[1])), FalseC),
                              S("verit_equiv_simplify", Iff(Neg(s[1]), s[1]), FalseC),
                              S("verit_equiv_simplify", Iff(TrueC, s[1]), s[1]),
                              S("verit_equiv_simplify", Iff(s[1], TrueC), s[1]),
                              S("verit_equiv_simplify", Iff(FalseC, s[1]), Neg(s[1])),
                              S("verit_equiv_simplify", Iff(s[1], FalseC), Neg(s[1])) } : s \in FS2 }
R_bool_simplify == UNION { { S("verit_bool_simplify", Neg(Imp(s[1], s[2])), Conj(s[1], Neg(s[2]))),
                             S("verit_bool_simplify", Neg(Disj(s[1], s[2])), Conj(Neg(s[1]), Neg(s[2]))),
                             S("verit_bool_simplify", Neg(Conj(s[1], s[2])), Disj(Neg(s[1]), Neg(s[2]))),
                             S("verit_bool_simplify", Imp(s[1], Imp(s[2], s[3])), Imp(Conj(s[1], s[2]), s[3])),
                             S("verit_bool_simplify", Imp(Imp(s[1], s[2]), s[2]), Disj(s[1], s[2])),
                             S("verit_bool_simplify", Conj(s[1], Imp(s[1], s[2])), Conj(s[1], s[2])),
                             S("verit_bool_simplify", Conj(Imp(s[1], s[2]), s[1]), Conj(s[1], s[2])) } : s \in FS3 }
R_ite_simplify == UNION { { S("verit_ite_simplify", Ite(BoolT, TrueC, s[1], s[2]), s[1]),
                            S("verit_ite_simplify", Ite(BoolT, FalseC, s[1], s[2]), s[2]),
                            S("verit_ite_simplify", Ite(BoolT, s[1], s[2], s[2]), s[2]),
                            S("verit_ite_simplify", Ite(BoolT, Neg(s[1]), s[2], s[3]), Ite(BoolT, s[1], s[3], s[2])),
                            S("verit_ite_simplify", Ite(BoolT, s[1], Ite(BoolT, s[1], s[2], s[3]), s[3]), Ite(BoolT, s[1], s[2], s[3])),
                            S("verit_ite_simplify", Ite(BoolT, s[1], s[2], Ite(BoolT, s[1], s[3], s[2])), Ite(BoolT, s[1], s[2], s[2])),
                            S("verit_ite_simplify", Ite(BoolT, s[1], TrueC, FalseC), s[1]),
                            S("verit_ite_simplify", Ite(BoolT, s[1], FalseC, TrueC), Neg(s[1])),
                            S("verit_ite_simplify", Ite(BoolT, s[1], TrueC, s[2]), Disj(s[1], s[2])),
                            S("verit_ite_simplify", Ite(BoolT, s[1], s[2], FalseC), Conj(s[1], s[2])),
                            S("verit_ite_simplify", Ite(BoolT, s[1], FalseC, s[2]), Conj(Neg(s[1]), s[2])),
                            S("verit_ite_simplify", Ite(BoolT, s[1], s[2], TrueC), Disj(Neg(s[1]), s[2])) } : s \in FS3 }
                  \cup { I("verit_ite_simplify", <<>>, <<Eqa(Ite(TA, TrueC, ca, cb), ca)>>),
                         I("verit_ite_simplify", <<>>, <<Eqa(Ite(TA, vp, ca, ca), ca)>>),
                         I("verit_ite_simplify", <<>>, <<Eqa(Ite(TA, Neg(vp), ca, cb), Ite(TA, vp, cb, ca))>>),
                         I("verit_ite_simplify", <<>>, <<Eqa(Ite(TA, vp, Ite(TA, vp, ca, cb), cc), Ite(TA, vp, ca, cc))>>),
                         I("verit_ite_simplify", <<>>, <<Eqa(Ite(TA, vp, ca, Ite(TA, vp, cb, cc)), Ite(TA, vp, ca, cc))>>) }
R_eq_simplify == { S("verit_eq_simplify", Eqa(ca, ca), TrueC), S("verit_eq_simplify", Neg(Eqa(ca, ca)), FalseC),
                   S("verit_eq_simplify", EqT(IntT, ix, ix), TrueC), S("verit_eq_simplify", EqT(IntT, Num(IntT, 1), Num(IntT, 2)), FalseC),
                   S("verit_eq_simplify", EqT(RealT, Num(RealT, 0), Num(RealT, 2)), FalseC),
                   S("verit_eq_simplify", Neg(EqT(IntT, Num(IntT, 2), Num(IntT, 2))), FalseC),
                   S("verit_eq_simplify", EqT(IntT, Num(IntT, 2), Num(IntT, 2)), TrueC),
                   NM(S("verit_eq_simplify", Eqa(ca, cb), FalseC), "nm.vars"), NM(S("verit_eq_simplify", EqT(IntT, ix, iy), FalseC), "nm.vars"),
                   NM(S("verit_eq_simplify", Neg(Eqa(ca, cb)), FalseC), "nm.vars") }
R_ac_simp == UNION { { S("verit_ac_simp", Conj(Conj(s[1], s[2]), s[1]), Conj(s[1], s[2])),
                       S("verit_ac_simp", Disj(s[1], Disj(s[2], s[1])), Disj(s[1], s[2])),
                       S("verit_ac_simp", Disj(Disj(s[1], s[2]), Disj(s[3], s[2])), OrN(<<s[1], s[2], s[3]>>)),
                       S("verit_ac_simp", Conj(s[1], Conj(Conj(s[2], s[3]), s[1])), AndN(<<s[1], s[2], s[3]>>)) } : s \in {<<vp, vq, vr>>, <<Neg(vp), vq, Imp(vp, vr)>>} }
             \cup { S("verit_ac_simp", Conj(vp, EqT(IntT, Plus(IntT, ix, iy), Num(IntT, 0))), Conj(vp, EqT(IntT, Plus(IntT, ix, iy), Num(IntT, 0)))),
                    NM(S("verit_ac_simp", Conj(vp, EqT(IntT, Plus(IntT, ix, iy), Num(IntT, 0))), Conj(vp, EqT(IntT, Minus(IntT, ix, iy), Num(IntT, 0)))), "nm.arith"),
                    NM(S("verit_ac_simp", Disj(vp, Lt(IntT, Times(IntT, ix, iy), Num(IntT, 1))), Disj(vp, Lt(IntT, Plus(IntT, ix, iy), Num(IntT, 1)))), "nm.arith") }
R_connective_def == UNION { { S("verit_connective_def", Iff(s[1], s[2]), Conj(Imp(s[1], s[2]), Imp(s[2], s[1]))),
                              S("verit_connective_def", IteB(s), Conj(Imp(s[1], s[2]), Imp(Neg(s[1]), s[3]))),
                              S("verit_connective_def", Xor(s[1], s[2]), Disj(Conj(Neg(s[1]), s[2]), Conj(s[1], Neg(s[2])))) } : s \in FS3 }
                    \cup { S("verit_connective_def", Ex(TA, F1(pP, B0)), Neg(All(TA, Neg(F1(pP, B0))))) }

IteA == Ite(TA, vp, ca, cb)
R_ite_intro == { S("verit_ite_intro", F1(pP, IteA), Conj(F1(pP, IteA), Ite(BoolT, vp, Eqa(ca, IteA), Eqa(cb, IteA)))),
                 S("verit_ite_intro", F1(pP, ca), F1(pP, ca)),
                 S("verit_ite_intro", Eqa(IteA, cc), Conj(Eqa(IteA, cc), Ite(BoolT, vp, Eqa(ca, IteA), Eqa(cb, IteA)))) }

\* ------------------------------------------------------------------ schemas: linear arithmetic
CX(cs) == [NoX EXCEPT !.coeffs = cs]
LA(T, cl, cs) == IX("verit_la_generic", <<>>, cl, CX([k \in 1..Len(cs) |-> Num(T, cs[k])]))
R_la_generic ==
  { LA(IntT, <<Neg(Lt(IntT, ix, iy)), Neg(Lt(IntT, iy, ix))>>, <<1, 1>>),
    LA(IntT, <<Le(IntT, ix, iy), Le(IntT, iy, ix)>>, <<1, 1>>),
    LA(IntT, <<Neg(Le(IntT, ix, iy)), Le(IntT, ix, Plus(IntT, iy, Num(IntT, 1)))>>, <<1, 1>>),
    LA(IntT, <<Le(IntT, ix, Num(IntT, 0)), Le(IntT, Num(IntT, 1), ix)>>, <<1, 1>>),
    LA(IntT, <<Neg(Lt(IntT, ix, ix))>>, <<1>>),
    LA(IntT, <<Le(IntT, ix, ix)>>, <<>>),
    LA(IntT, <<Neg(EqT(IntT, ix, iy)), Le(IntT, ix, iy)>>, <<1, 1>>),
    LA(IntT, <<Neg(Le(IntT, Times(IntT, Num(IntT, 2), ix), Num(IntT, 1))), Le(IntT, ix, Num(IntT, 0))>>, <<1, 2>>),
    LA(IntT, <<Lt(IntT, ix, iy), Lt(IntT, iy, ix), Neg(Lt(IntT, ix, Num(IntT, 0))), Lt(IntT, iy, Num(IntT, 0))>>, <<1, 1, 1, 1>>),
    LA(IntT, <<Neg(Le(IntT, Num(IntT, 1), Times(IntT, Num(IntT, 2), ix))), Le(IntT, Num(IntT, 1), ix)>>, <<1, 2>>),
    LA(IntT, <<Neg(Le(IntT, Times(IntT, Num(IntT, 3), ix), Num(IntT, 2))), Le(IntT, ix, Num(IntT, 0))>>, <<1, 3>>),
    LA(IntT, <<Neg(EqT(IntT, ix, iy)), Neg(Lt(IntT, ix, iy))>>, <<1, 1>>),
    LA(IntT, <<Neg(EqT(IntT, Plus(IntT, ix, Num(IntT, 1)), iy)), Lt(IntT, ix, iy)>>, <<1, 1>>),
    LA(RealT, <<Neg(EqT(RealT, ru, rv)), Le(RealT, rv, ru)>>, <<1, 1>>),
    LA(RealT, <<Neg(Lt(RealT, Times(RealT, Num(RealT, 2), ru), rv)), Neg(Le(RealT, rv, ru)), Lt(RealT, ru, Num(RealT, 0))>>, <<1, 1, 1>>),
    LA(RealT, <<Neg(Lt(RealT, ru, rv)), Neg(Lt(RealT, rv, ru))>>, <<1, 1>>),
    LA(RealT, <<Le(RealT, ru, rv), Le(RealT, rv, ru)>>, <<1, 1>>),
    LA(RealT, <<Neg(Le(RealT, Times(RealT, Num(RealT, 2), ru), Num(RealT, 1))), Le(RealT, ru, Num(RealT, 1))>>, <<1, 2>>),
    LA(RealT, <<Neg(Le(RealT, ru, Num(RealT, 0))), Neg(Le(RealT, rv, ru)), Le(RealT, rv, Num(RealT, 0))>>, <<1, 1, 1>>),
    NM(LA(RealT, <<Le(RealT, ru, Num(RealT, 0)), Le(RealT, Num(RealT, 1), ru)>>, <<1, 1>>), "nm.intonly"),
    NM(LA(IntT, <<Lt(IntT, ix, iy), Lt(IntT, iy, ix)>>, <<1, 1>>), "nm.strict"),
    NM(LA(RealT, <<Le(RealT, ru, rv), Neg(Le(RealT, ru, ru))>>, <<0, 1>>), "nm.zerocoeff"),
    NM(LA(RealT, <<Lt(RealT, rv, rv), Neg(Lt(RealT, ru, rv))>>, <<1, 0>>), "nm.zerocoeff"),
    NM(LA(IntT, <<Le(IntT, ix, iy), Neg(Le(IntT, ix, ix))>>, <<0, 1>>), "nm.zerocoeff"),
    NM(LA(RealT, <<Lt(RealT, ru, rv), Lt(RealT, rv, ru)>>, <<1, 1>>), "nm.strict"),
    NM(LA(IntT, <<Neg(Le(IntT, ix, iy)), Le(IntT, ix, Minus(IntT, iy, Num(IntT, 1)))>>, <<1, 1>>), "nm.offbyone") }
R_la_disequality == { I("verit_la_disequality", <<>>, <<OrN(<<EqT(IntT, ix, iy), Neg(Le(IntT, ix, iy)), Neg(Le(IntT, iy, ix))>>)>>),
                      I("verit_la_disequality", <<>>, <<OrN(<<EqT(RealT, ru, rv), Neg(Le(RealT, ru, rv)), Neg(Le(RealT, rv, ru))>>)>>) }
R_la_rw_eq == { S("verit_la_rw_eq", EqT(IntT, ix, iy), Conj(Le(IntT, ix, iy), Le(IntT, iy, ix))),
                S("verit_la_rw_eq", EqT(RealT, ru, Num(RealT, 1)), Conj(Le(RealT, ru, Num(RealT, 1)), Le(RealT, Num(RealT, 1), ru))) }
R_comp_simplify == UNION { { S("verit_comp_simplify", Lt(T, Num(T, 1), Num(T, 2)), TrueC), S("verit_comp_simplify", Lt(T, Num(T, 2), Num(T, 1)), FalseC),
                             S("verit_comp_simplify", Lt(T, Num(T, 2), Num(T, 2)), FalseC), S("verit_comp_simplify", Le(T, Num(T, 2), Num(T, 2)), TrueC),
                             S("verit_comp_simplify", Le(T, Num(T, 2), Num(T, 0 - 1)), FalseC), S("verit_comp_simplify", Le(T, Num(T, 0 - 1), Num(T, 0)), TrueC) } : T \in NumT }
                   \cup { S("verit_comp_simplify", Lt(IntT, ix, ix), FalseC), S("verit_comp_simplify", Le(IntT, ix, ix), TrueC),
                          S("verit_comp_simplify", Ge(IntT, ix, iy), Le(IntT, iy, ix)), S("verit_comp_simplify", Lt(IntT, ix, iy), Neg(Le(IntT, iy, ix))),
                          S("verit_comp_simplify", Gt(IntT, ix, iy), Neg(Le(IntT, ix, iy))), S("verit_comp_simplify", Ge(RealT, ru, rv), Le(RealT, rv, ru)),
                          S("verit_comp_simplify", Lt(RealT, ru, rv), Neg(Le(RealT, rv, ru))), S("verit_comp_simplify", Gt(RealT, ru, Num(RealT, 1)), Neg(Le(RealT, ru, Num(RealT, 1)))) }
SE(rule, T, l, r) == I(rule, <<>>, <<EqT(T, l, r)>>)
R_sum_simplify == { SE("verit_sum_simplify", IntT, Plus(IntT, Plus(IntT, Num(IntT, 1), ix), Num(IntT, 2)), Plus(IntT, Num(IntT, 3), ix)),
                    SE("verit_sum_simplify", IntT, Plus(IntT, ix, Num(IntT, 0)), ix),
                    SE("verit_sum_simplify", IntT, Plus(IntT, Num(IntT, 1), Num(IntT, 2)), Num(IntT, 3)),
                    SE("verit_sum_simplify", IntT, Plus(IntT, Plus(IntT, ix, Num(IntT, 2)), iy), Plus(IntT, Num(IntT, 2), Plus(IntT, ix, iy))),
                    SE("verit_sum_simplify", RealT, Plus(RealT, Plus(RealT, Num(RealT, 1), ru), Num(RealT, 1)), Plus(RealT, Num(RealT, 2), ru)),
                    SE("verit_sum_simplify", RealT, Plus(RealT, Num(RealT, 0), ru), ru) }
R_prod_simplify == { SE("verit_prod_simplify", IntT, Times(IntT, Num(IntT, 2), Num(IntT, 3)), Num(IntT, 6)),
                     SE("verit_prod_simplify", IntT, Times(IntT, ix, Num(IntT, 0)), Num(IntT, 0)),
                     SE("verit_prod_simplify", IntT, Times(IntT, Times(IntT, Num(IntT, 2), ix), Num(IntT, 3)), Times(IntT, Num(IntT, 6), ix)),
                     SE("verit_prod_simplify", IntT, Times(IntT, Num(IntT, 1), ix), ix),
                     SE("verit_prod_simplify", RealT, Times(RealT, Num(RealT, 2), Times(RealT, ru, Num(RealT, 2))), Times(RealT, Num(RealT, 4), ru)),
                     SE("verit_prod_simplify", RealT, Times(RealT, Num(RealT, 0), ru), Num(RealT, 0)) }
R_minus_simplify == UNION { { SE("verit_minus_simplify", T, Minus(T, t, t), Num(T, 0)), SE("verit_minus_simplify", T, Minus(T, t, Num(T, 0)), t),
                              SE("verit_minus_simplify", T, Minus(T, Num(T, 0), t), UMinus(T, t)),
                              SE("verit_minus_simplify", T, Minus(T, Num(T, 3), Num(T, 1)), Num(T, 2)) } : <<T, t>> \in {<<IntT, ix>>, <<RealT, ru>>} }
R_unary_minus_simplify == UNION { { SE("verit_unary_minus_simplify", T, UMinus(T, UMinus(T, t)), t),
                                    SE("verit_unary_minus_simplify", T, UMinus(T, Num(T, 2)), Num(T, 0 - 2)),
                                    NM(SE("verit_unary_minus_simplify", T, UMinus(T, Minus(T, t, t2)), t2), "nm.binminus") }
                                  : <<T, t, t2>> \in {<<IntT, ix, iy>>, <<RealT, ru, rv>>} }
R_div_simplify == { SE("verit_div_simplify", RealT, RDivide(Num(RealT, 2), Num(RealT, 2)), Num(RealT, 1)),
                    SE("verit_div_simplify", RealT, RDivide(ru, Num(RealT, 1)), ru),
                    SE("verit_div_simplify", RealT, RDivide(Num(RealT, 4), Num(RealT, 2)), Num(RealT, 2)),
                    SE("verit_div_simplify", RealT, RDivide(Num(RealT, 1), Num(RealT, 2)), RDivide(Num(RealT, 2), Num(RealT, 4))),
                    NM(SE("verit_div_simplify", RealT, RDivide(ru, ru), Num(RealT, 1)), "nm.zerodiv"),
                    NM(SE("verit_div_simplify", RealT, RDivide(Num(RealT, 0), Num(RealT, 0)), Num(RealT, 1)), "nm.zerodiv") }

\* ------------------------------------------------------------------ schemas: quantifiers (binders are named v0, v1.. by depth in the driver)
QX(ins) == [NoX EXCEPT !.inst = ins]
R_forall_inst == { IX("verit_forall_inst", <<>>, <<Disj(Neg(All(TA, F1(pP, B0))), F1(pP, t))>>, QX(<< <<"v0", t>> >>)) : t \in {ca, F1(ff, ca)} }
                 \cup { IX("verit_forall_inst", <<>>, <<Disj(Neg(All(TA, F2(pQ, B0, cb))), F2(pQ, ca, cb))>>, QX(<< <<"v0", ca>> >>)),
                        IX("verit_forall_inst", <<>>, <<Disj(Neg(All(TA, All(TA, F2(pQ, B1x, B0)))), F2(pQ, ca, cb))>>, QX(<< <<"v0", ca>>, <<"v1", cb>> >>)),
                        IX("verit_forall_inst", <<>>, <<Disj(Neg(All(TA, Eqa(F1(ff, B0), cb))), Eqa(cb, F1(ff, ca)))>>, QX(<< <<"v0", ca>> >>)),
                        IX("verit_forall_inst", <<>>, <<Disj(Neg(All(TA, Imp(F1(pP, B0), F1(pR, B0)))), Imp(F1(pP, cc), F1(pR, cc)))>>, QX(<< <<"v0", cc>> >>)) }
R_qnt_simplify == { S("verit_qnt_simplify", All(TA, TrueC), TrueC), S("verit_qnt_simplify", All(TA, FalseC), FalseC),
                    S("verit_qnt_simplify", Ex(TA, FalseC), FalseC), S("verit_qnt_simplify", All(TA, F1(pP, ca)), F1(pP, ca)),
                    NM(S("verit_qnt_simplify", All(TA, F1(pP, B0)), F1(pP, w0)), "nm.freevar"),
                    NM(S("verit_qnt_simplify", Ex(TA, F1(pP, B0)), F1(pP, w0)), "nm.freevar") }
R_qnt_rm_unused == { S("verit_qnt_rm_unused", All(TA, All(TA, F1(pP, B1x))), All(TA, F1(pP, B0))),
                     S("verit_qnt_rm_unused", All(TA, F1(pP, ca)), F1(pP, ca)),
                     S("verit_qnt_rm_unused", Ex(TA, Ex(TA, F1(pP, B1x))), Ex(TA, F1(pP, B0))),
                     S("verit_qnt_rm_unused", All(TA, All(TA, F2(pQ, B1x, B0))), All(TA, All(TA, F2(pQ, B1x, B0)))),
                     S("verit_qnt_rm_unused", All(TA, Ex(TA, All(TA, F2(pQ, <<"bound", 2>>, B0)))), All(TA, All(TA, F2(pQ, B1x, B0)))),
                     NM(S("verit_qnt_rm_unused", All(TA, F1(pP, B0)), Ex(TA, F1(pP, B0))), "nm.quant"),
                     NM(S("verit_qnt_rm_unused", All(TA, Ex(TA, F2(pQ, B1x, B0))), Ex(TA, All(TA, F2(pQ, B1x, B0)))), "nm.quant") }
R_qnt_join == { S("verit_qnt_join", All(TA, All(TA, F2(pQ, B1x, B0))), All(TA, All(TA, F2(pQ, B1x, B0)))) }
R_qnt_cnf == { I("verit_qnt_cnf", <<>>, <<Disj(Neg(All(TA, Conj(F1(pP, B0), F1(pR, B0)))), All(TA, F1(pP, B0)))>>),
               I("verit_qnt_cnf", <<>>, <<Disj(Neg(All(TA, Imp(F1(pP, B0), F1(pR, B0)))), All(TA, Disj(Neg(F1(pP, B0)), F1(pR, B0))))>>),
               I("verit_qnt_cnf", <<>>, <<Disj(Neg(All(TA, Neg(Disj(F1(pP, B0), F1(pR, B0))))), All(TA, Neg(F1(pR, B0))))>>),
               I("verit_qnt_cnf", <<>>, <<Disj(Neg(All(TA, Conj(F1(pP, B0), vq))), vq)>>),
               NM(I("verit_qnt_cnf", <<>>, <<Disj(Neg(F1(pP, w0)), All(TA, F1(pP, B0)))>>), "nm.freevar"),
               NM(I("verit_qnt_cnf", <<>>, <<Disj(Neg(Conj(F1(pP, w0), vq)), All(TA, F1(pP, B0)))>>), "nm.freevar") }

\* ------------------------------------------------------------------ schemas: context rules (recorded, never judged: see C18_AletheTrace)
KX(cx) == [NoX EXCEPT !.ctx = cx]
R_context == { IX("verit_refl", <<>>, <<Eqa(w0, ca)>>, KX(<< <<"v0", ca>> >>)),
               IX("verit_refl", <<>>, <<Eqa(ca, w0)>>, KX(<< <<"v0", ca>> >>)),
               NM(IX("verit_refl", <<>>, <<Eqa(w0, cb)>>, KX(<< <<"v0", ca>> >>)), "nm.ctx"),
               IX("verit_bind", <<PH(<<Eqa(w0, w0)>>, Iff(F1(pP, w0), F1(pP, w0)))>>, <<Iff(All(TA, F1(pP, B0)), All(TA, F1(pP, B0)))>>, KX(<< <<"v0", w0>> >>)),
               NM(IX("verit_bind", <<PS(Iff(F1(pP, w0), F1(pR, w0)))>>, <<Iff(All(TA, F1(pP, B0)), All(TA, F1(pR, B0)))>>, KX(<< <<"v0", w0>> >>)), "nm.ctx"),
               IX("verit_onepoint", <<>>, <<Iff(All(TA, Imp(Eqa(B0, ca), F1(pP, B0))), F1(pP, ca))>>, KX(<< <<"v0", ca>> >>)),
               NM(IX("verit_onepoint", <<>>, <<Iff(All(TA, Imp(Eqa(B0, cb), F1(pP, B0))), F1(pP, ca))>>, KX(<< <<"v0", ca>> >>)), "nm.onepoint") }
\* onepoint: the conclusion  (Q x. phi) <--> phi[t/x]  is closed and the evaluation consults no premise: it must be valid as it stands
K2 == KX(<< <<"v0", ca>>, <<"v1", cb>> >>)
R_onepoint ==
  { IX("verit_onepoint", <<>>, <<Iff(All(TA, Imp(Eqa(B0, ca), F1(pP, B0))), Imp(Eqa(ca, ca), F1(pP, ca)))>>, KX(<< <<"v0", ca>> >>)),
    IX("verit_onepoint", <<>>, <<Iff(Ex(TA, Conj(Eqa(B0, ca), F1(pP, B0))), Conj(Eqa(ca, ca), F1(pP, ca)))>>, KX(<< <<"v0", ca>> >>)),
    IX("verit_onepoint", <<>>, <<Iff(All(TA, All(TA, Imp(Conj(Eqa(B1x, ca), Eqa(B0, cb)), F2(pQ, B1x, B0)))),
                                      Imp(Conj(Eqa(ca, ca), Eqa(cb, cb)), F2(pQ, ca, cb)))>>, K2),
    IX("verit_onepoint", <<>>, <<Iff(Ex(TA, Ex(TA, AndN(<<Eqa(B1x, ca), Eqa(B0, cb), F2(pQ, B1x, B0)>>))),
                                      AndN(<<Eqa(ca, ca), Eqa(cb, cb), F2(pQ, ca, cb)>>))>>, K2),
    NM(IX("verit_onepoint", <<>>, <<Iff(All(TA, All(TA, Imp(F2(pQ, B1x, B0), Neg(Eqa(B1x, ca))))), Imp(F2(pQ, ca, cb), Neg(Eqa(ca, ca))))>>, K2), "nm.onepoint"),
    NM(IX("verit_onepoint", <<>>, <<Iff(All(TA, All(TA, Imp(Eqa(B1x, ca), F2(pQ, B1x, B0)))), Imp(Eqa(ca, ca), F2(pQ, ca, cb)))>>, K2), "nm.onepoint"),
    NM(IX("verit_onepoint", <<>>, <<Iff(Ex(TA, Ex(TA, Conj(Eqa(B1x, ca), F2(pQ, B1x, B0)))), Conj(Eqa(ca, ca), F2(pQ, ca, cb)))>>, K2), "nm.onepoint"),
    NM(IX("verit_onepoint", <<>>, <<Iff(All(TA, Imp(F1(pR, B0), F1(pP, B0))), Imp(F1(pR, ca), F1(pP, ca)))>>, KX(<< <<"v0", ca>> >>)), "nm.onepoint") }
\* let: premises  t = s ..  and the last step  u = u'  derived under  x = s ;  conclusion  (let x = t in u) = u'  without that hypothesis
LetC(T1, T2) == <<"const","Let",FunT(T1, FunT(FunT(T1, T2), T2))>>
LetB(t, body) == App(App(LetC(TA, BoolT), t), <<"abs", TA, body>>)
R_let ==
  { I("verit_let", <<PS(Eqa(ca, cb)), PH(<<Eqa(w0, cb)>>, Iff(F1(pP, w0), F1(pP, cb)))>>, <<Iff(LetB(ca, F1(pP, B0)), F1(pP, cb))>>),
    I("verit_let", <<PH(<<Eqa(w0, ca)>>, Iff(F1(pP, w0), F1(pP, ca)))>>, <<Iff(LetB(ca, F1(pP, B0)), F1(pP, ca))>>),
    I("verit_let", <<PS(Eqa(cb, ca)), PH(<<Eqa(w0, cb), vs>>, Iff(F2(pQ, w0, w0), F2(pQ, cb, cb)))>>, <<Iff(LetB(ca, F2(pQ, B0, B0)), F2(pQ, cb, cb))>>),
    NM(I("verit_let", <<PH(<<Eqa(w0, cb)>>, Iff(F1(pP, w0), F1(pP, cb)))>>, <<Iff(LetB(ca, F1(pP, B0)), F1(pP, cb))>>), "nm.let"),
    NM(I("verit_let", <<PS(Eqa(ca, cc)), PH(<<Eqa(w0, cb)>>, Iff(F1(pP, w0), F1(pP, cb)))>>, <<Iff(LetB(ca, F1(pP, B0)), F1(pP, cb))>>), "nm.let") }

\* ------------------------------------------------------------------ all intended instances and explicit near misses
Schemas ==
  R_false \cup R_not_not \cup R_and_pos \cup R_and_neg \cup R_or_pos \cup R_or_neg \cup R_implies_pos \cup R_implies_neg1 \cup R_implies_neg2
  \cup R_equiv_pos1 \cup R_equiv_pos2 \cup R_equiv_neg1 \cup R_equiv_neg2 \cup R_xor_pos1 \cup R_xor_pos2 \cup R_xor_neg1 \cup R_xor_neg2
  \cup R_ite_pos1 \cup R_ite_pos2 \cup R_ite_neg1 \cup R_ite_neg2
  \cup R_not_or \cup R_not_and \cup R_and \cup R_or \cup R_implies \cup R_not_implies1 \cup R_not_implies2 \cup R_equiv1 \cup R_equiv2
  \cup R_not_equiv1 \cup R_not_equiv2 \cup R_ite1 \cup R_ite2 \cup R_not_ite1 \cup R_not_ite2 \cup R_contraction \cup R_th_resolution \cup R_resolution_compound
  \cup R_eq_reflexive \cup R_eq_transitive \cup R_eq_congruent \cup R_eq_congruent_pred \cup R_trans \cup R_cong \cup R_subproof
  \cup R_not_simplify \cup R_and_simplify \cup R_or_simplify \cup R_implies_simplify \cup R_equiv_simplify \cup R_bool_simplify
  \cup R_ite_simplify \cup R_ite_intro \cup R_eq_simplify \cup R_ac_simp \cup R_connective_def
  \cup R_la_generic \cup R_la_disequality \cup R_la_rw_eq \cup R_comp_simplify \cup R_sum_simplify \cup R_prod_simplify
  \cup R_minus_simplify \cup R_unary_minus_simplify \cup R_div_simplify
  \cup R_cong_binder \cup R_onepoint \cup R_let \cup R_forall_inst \cup R_qnt_simplify \cup R_qnt_rm_unused \cup R_qnt_join \cup R_qnt_cnf \cup R_context
Rules == { i.rule : i \in Schemas }
\* rules whose conclusion is claimed under the variable mapping of an enclosing anchor: recorded, never judged
\* (onepoint is judged as it stands; let is judged with the universal closure of C18_Sem)
ContextRules == {"verit_refl", "verit_bind", "verit_sko_ex", "verit_sko_forall"}

\* ------------------------------------------------------------------ near misses: one-point mutations
BoolConn == {"conj", "disj", "implies", "equals", "xor"}
IsBoolBin(t) == IsBinOf(t, {"conj","disj","implies","xor"}) \/ (IsApp2(t, "equals") /\ ArgT2(t) = BoolT)
MkBool(n, a, b) == IF n = "conj" THEN Conj(a, b) ELSE IF n = "disj" THEN Disj(a, b) ELSE IF n = "implies" THEN Imp(a, b)
                   ELSE IF n = "equals" THEN Iff(a, b) ELSE Xor(a, b)
HeadName(t) == t[2][2][2]
CmpSwap(n) == IF n = "less" THEN "less_eq" ELSE IF n = "less_eq" THEN "less" ELSE IF n = "greater" THEN "greater_eq" ELSE "greater"
IsNumeral(t) == (t[1] = "const" /\ t[2] \in {"zero","one"} /\ t[3] \in NumT) \/ IsPosLit(t)
NumeralVal(t) == IF t[1] = "const" THEN (IF t[2] = "zero" THEN 0 ELSE 1) ELSE NatVal(A2(t))
NumeralT(t) == IF t[1] = "const" THEN t[3] ELSE t[2][3][3][2]
\* mutations at the root of t: set of <<kind, term>>
LocalMuts(t) ==
  LET T == TypeOf(t, <<>>) IN
  (IF T = BoolT /\ IsBoolBin(t)
     THEN { <<"conn", MkBool(n, A1(t), A2(t))>> : n \in BoolConn \ {HeadName(t)} }
          \cup { <<"argswap", MkBool(HeadName(t), A2(t), A1(t))>> } \cup { <<"proj", A1(t)>>, <<"proj", A2(t)>> }
     ELSE {})
  \cup (IF T = BoolT THEN (IF IsApp1(t, "neg") THEN {<<"neg", A2(t)>>} ELSE {<<"neg", Neg(t)>>}) ELSE {})
  \cup (IF T = BoolT /\ t \in {TrueC, FalseC} THEN {<<"const", IF t = TrueC THEN FalseC ELSE TrueC>>} ELSE {})
  \cup (IF t[1] = "var" THEN { <<"atom", v>> : v \in { v \in AtomPool : v[3] = t[3] /\ v # t } } ELSE {})
  \cup (IF IsBinOf(t, CmpBin) THEN { <<"cmp", Bin(CmpSwap(HeadName(t)), t[2][2][3], A1(t), A2(t))>>, <<"argswap", App(App(t[2][2], A2(t)), A1(t))>> } ELSE {})
  \cup (IF IsApp2(t, "equals") /\ ArgT2(t) # BoolT THEN { <<"argswap", App(App(t[2][2], A2(t)), A1(t))>> } ELSE {})
  \cup (IF IsApp2(t, "equals") /\ ArgT2(t) \in NumT THEN { <<"cmp", Le(ArgT2(t), A1(t), A2(t))>> } ELSE {})
  \cup (IF IsBinOf(t, {"plus","minus"}) THEN { <<"arith", Bin(IF HeadName(t) = "plus" THEN "minus" ELSE "plus", t[2][2][3], A1(t), A2(t))>> } ELSE {})
  \cup (IF IsNumeral(t) THEN { <<"num", Num(NumeralT(t), NumeralVal(t) + 1)>> } ELSE {})
RECURSIVE Muts(_,_)
Muts(t, d) == LocalMuts(t)
              \cup (IF d > 0 /\ t[1] = "comb" /\ ~IsNumeral(t)
                    THEN { <<m[1], App(m[2], t[3])>> : m \in Muts(t[2], d) } \cup { <<m[1], App(t[2], m[2])>> : m \in Muts(t[3], d - 1) }
                    ELSE {})
\* boolean subformulas to a depth (for the "wrong component" near miss: a literal replaced by another formula of the step)
RECURSIVE Parts(_,_)
Parts(t, d) == (IF TypeOf(t, <<>>) = BoolT THEN {t} ELSE {})
               \cup (IF d > 0 /\ t[1] = "comb" THEN Parts(t[2], d) \cup Parts(t[3], d - 1) ELSE {})
PartsOf(i) == UNION { Parts(i.prems[j].c, 2) : j \in 1..Len(i.prems) } \cup UNION { Parts(i.cl[k], 2) : k \in 1..Len(i.cl) }
DelAt(s, k) == [j \in 1..(Len(s) - 1) |-> IF j < k THEN s[j] ELSE s[j + 1]]
SwapAt(s, k) == [j \in 1..Len(s) |-> IF j = k THEN s[k + 1] ELSE IF j = k + 1 THEN s[k] ELSE s[j]]
SetAt(s, k, v) == [s EXCEPT ![k] = v]
WithHyp(ps, hs) == [j \in 1..Len(ps) |-> [h |-> ps[j].h \o hs, c |-> ps[j].c]]
NearMisses(i) ==
  LET n == Len(i.cl) m == Len(i.prems) IN
     { [i EXCEPT !.mut = "droplit", !.cl = DelAt(i.cl, k)] : k \in 1..n }
  \cup { [i EXCEPT !.mut = "addlit", !.cl = Append(i.cl, x)] : x \in {vr, Neg(vp)} }
  \cup { [i EXCEPT !.mut = "swaplit", !.cl = SwapAt(i.cl, k)] : k \in 1..(n - 1) }
  \cup UNION { { [i EXCEPT !.mut = "sib", !.cl = SetAt(i.cl, k, x)] : x \in PartsOf(i) \ {i.cl[k]} } : k \in 1..n }
  \cup UNION { { [i EXCEPT !.mut = "L." \o mu[1], !.cl = SetAt(i.cl, k, mu[2])] : mu \in Muts(i.cl[k], MutDepth) } : k \in 1..n }
  \cup UNION { { [i EXCEPT !.mut = "P." \o mu[1], !.prems = SetAt(i.prems, j, [h |-> i.prems[j].h, c |-> mu[2]])] : mu \in Muts(i.prems[j].c, MutDepth) } : j \in 1..m }
  \cup { [i EXCEPT !.mut = "dropprem", !.prems = DelAt(i.prems, j), !.x.sizes = IF Len(i.x.sizes) = m THEN DelAt(i.x.sizes, j) ELSE i.x.sizes] : j \in 1..m }
  \cup (IF m > 0 THEN { [i EXCEPT !.mut = "addprem", !.prems = Append(i.prems, PS(x)), !.x.sizes = IF Len(i.x.sizes) = m THEN Append(i.x.sizes, 1) ELSE i.x.sizes] : x \in {vr, Neg(vp)} } ELSE {})
  \cup { [i EXCEPT !.mut = "swapprem", !.prems = SwapAt(i.prems, j), !.x.sizes = IF Len(i.x.sizes) = m THEN SwapAt(i.x.sizes, j) ELSE i.x.sizes] : j \in 1..(m - 1) }
  \cup (IF m > 0 /\ i.rule # "verit_subproof" THEN { [i EXCEPT !.mut = "hyp", !.prems = WithHyp(i.prems, <<vs>>)],
                       [i EXCEPT !.mut = "hyp", !.prems = SetAt(i.prems, 1, [h |-> <<vs, vr>>, c |-> i.prems[1].c])] } ELSE {})
  \cup UNION { { [i EXCEPT !.mut = "size", !.x.sizes = SetAt(i.x.sizes, j, z)] : z \in {i.x.sizes[j] - 1, i.x.sizes[j] + 1} \cap 1..3 } : j \in 1..Len(i.x.sizes) }
  \cup UNION { { [i EXCEPT !.mut = "coeff", !.x.coeffs = SetAt(i.x.coeffs, j, Num(NumeralT(i.x.coeffs[j]), z))] : z \in {0, 1, 2, 3} \ {NumeralVal(i.x.coeffs[j])} } : j \in 1..Len(i.x.coeffs) }
  \cup { [i EXCEPT !.mut = "coeff", !.x.coeffs = DelAt(i.x.coeffs, j)] : j \in 1..Len(i.x.coeffs) }
  \cup UNION { { [i EXCEPT !.mut = "inst", !.x.inst = SetAt(i.x.inst, j, <<i.x.inst[j][1], v>>)] : v \in {ca, cb, cc} \ {i.x.inst[j][2]} } : j \in 1..Len(i.x.inst) }
  \cup UNION { { [i EXCEPT !.mut = "ctx", !.x.ctx = SetAt(i.x.ctx, j, <<i.x.ctx[j][1], v>>)] : v \in {ca, cb} \ {i.x.ctx[j][2]} } : j \in 1..Len(i.x.ctx) }
Intended == { i \in Schemas : i.mut = "correct" }
Candidates == Schemas \cup UNION { NearMisses(i) : i \in Intended }

ResOf(i) == [h |-> SetToSeq(UNION { { i.prems[j].h[k] : k \in 1..Len(i.prems[j].h) } : j \in 1..Len(i.prems) }), c |-> OrN(i.cl)]
\* subproof discharges the local assumptions (all premises but the last)
ResOfRule(i) == IF i.rule = "verit_subproof" THEN [h |-> <<>>, c |-> OrN(i.cl)]
                ELSE IF i.rule = "verit_let" THEN [h |-> SelectSeq(ResOf(i).h, LAMBDA h : ~IsEqVar(h)), c |-> OrN(i.cl)]
                ELSE ResOf(i)
Judged(i) == i.rule \notin ContextRules
=============================================================================
