---------------------------- MODULE C09_MatchLaws ----------------------------
(* Contract of matching, shared by the S, emission and T specifications of C09 (the input universe is in *)
(* C09_MatchUniverse.tla).                                                                              *)
(* See C09_Matcher.tla for the description.                                                             *)
EXTENDS HolSem, HolGen, FiniteSets

\* ------------------------------------------------------------------ the contract
Norm(t) == EtaNorm(BetaNorm(t))
MkInst(ty, sv) == [ty |-> ty, sv |-> sv]
EmptyInst == MkInst(<<>>, <<>>)
\* Subst (lib/HolTerms.tla) = Term.subst: first extends the type instantiation by matching the types of the instantiated
\* schematic variables against the types of their instances; Err when that is impossible (no application can give the target).
Matches(p, t, inst) == LET s == Subst(p, inst) IN IF s = Err THEN FALSE ELSE WellTyped(s) /\ Norm(s) = Norm(t)
AlExt(a2, a1) == \A i \in 1..Len(a1) : a1[i][1] \in Keys(a2) /\ Lookup(a2, a1[i][1]) = a1[i][2]
Extends(i2, i1) == AlExt(i2.ty, i1.ty) /\ AlExt(i2.sv, i1.sv)
RECURSIVE FOPat(_)
FOPat(p) == CASE p[1] = "comb" -> p[2][1] # "svar" /\ FOPat(p[2]) /\ FOPat(p[3])
              [] p[1] = "abs" -> FOPat(p[3])
              [] OTHER -> TRUE
\* one name, one type
SVarsConsistent(S) == \A u \in S : \A v \in S : u[2] = v[2] => u = v
RECURSIVE SubTerms(_), SubTypes(_), AllTypes(_)
SubTerms(t) == {t} \cup (CASE t[1] = "comb" -> SubTerms(t[2]) \cup SubTerms(t[3]) [] t[1] = "abs" -> SubTerms(t[3]) [] OTHER -> {})
SubTypes(T) == {T} \cup (IF T[1] = "tc" THEN UNION { SubTypes(T[3][i]) : i \in 1..Len(T[3]) } ELSE {})
AllTypes(t) == CASE t[1] \in {"svar","var","const"} -> SubTypes(t[3])
                 [] t[1] = "comb" -> AllTypes(t[2]) \cup AllTypes(t[3])
                 [] t[1] = "abs" -> SubTypes(t[2]) \cup AllTypes(t[3])
                 [] OTHER -> {}
STVNames(p) == { v[2] : v \in { w \in TVarsOfTerm(p) : w[1] = "stv" } }
SeqRange(s) == { s[i] : i \in 1..Len(s) }
\* Brute force: bind the free schematic type variables (to types occurring in the targets), then the free schematic variables
\* (to closed subterms of the targets of the right type), then compare LITERALLY.  Two candidate universes for the values:
\*   all = TRUE   every closed subterm of the targets
\*   all = FALSE  only the subterms of the targets that sit where the variable occurs in the pattern (any literal witness must
\*                take its values there); C09_Matcher checks that both universes give the same witnesses (invariant UniverseAdequate)
RECURSIVE PosCands(_,_,_)
PosCands(p, t, v) == CASE p[1] = "svar" -> IF p = v THEN {t} ELSE {}
                       [] p[1] = "comb" -> IF t[1] = "comb" THEN PosCands(p[2], t[2], v) \cup PosCands(p[3], t[3], v) ELSE {}
                       [] p[1] = "abs" -> IF t[1] = "abs" THEN PosCands(p[3], t[3], v) ELSE {}
                       [] OTHER -> {}
CandsOf(v, ps, ts, all) ==
  { s \in (IF all THEN UNION { SubTerms(ts[i]) : i \in 1..Len(ts) } ELSE UNION { PosCands(ps[i], ts[i], v) : i \in 1..Len(ps) }) : ~IsOpen(s) }
RECURSIVE FOWitSv(_,_,_,_,_), FOWitTy(_,_,_,_,_,_,_)
FOWitSv(vs, ps, ts, inst, all) ==
  IF vs = <<>> THEN (IF \A i \in 1..Len(ps) : Subst(ps[i], inst) = ts[i] THEN {inst} ELSE {})
  ELSE LET v == Head(vs) T == TSubst(v[3], inst.ty) IN
       UNION { FOWitSv(Tail(vs), ps, ts, [inst EXCEPT !.sv = Append(@, <<v[2], s>>)], all) : s \in { c \in CandsOf(v, ps, ts, all) : TypeOf(c, <<>>) = T } }
FOWitTy(ns, vs, ps, ts, inst, all, TS) ==
  IF ns = <<>> THEN FOWitSv(vs, ps, ts, inst, all)
  ELSE UNION { FOWitTy(Tail(ns), vs, ps, ts, [inst EXCEPT !.ty = Append(@, <<Head(ns), T>>)], all, TS) : T \in TS }
FreeSVars(ps, inst0) == { v \in UNION { SVarsOf(ps[i]) : i \in 1..Len(ps) } : v[2] \notin Keys(inst0.sv) }
FreeSTVars(ps, inst0) == { n \in UNION { STVNames(ps[i]) : i \in 1..Len(ps) } : n \notin Keys(inst0.ty) }
TypeCands(ts) == UNION { AllTypes(ts[i]) : i \in 1..Len(ts) }
FOWitnessesIn(ps, ts, inst0, all) ==
  FOWitTy(SetToSeq(FreeSTVars(ps, inst0)), SetToSeq(FreeSVars(ps, inst0)), ps, ts, MkInst(inst0.ty, inst0.sv), all, TypeCands(ts))
FOWitnesses(ps, ts, inst0) == FOWitnessesIn(ps, ts, inst0, FALSE)
FOMatchable(ps, ts, inst0) == FOWitnesses(ps, ts, inst0) # {}
\* the fragment in which completeness is claimed: first-order, beta-normal, one type per schematic name
FOFragment(ps) == /\ \A i \in 1..Len(ps) : FOPat(ps[i]) /\ ~HasRedex(ps[i])
                  /\ SVarsConsistent(UNION { SVarsOf(ps[i]) : i \in 1..Len(ps) })

=============================================================================
