SPECIFICATION Spec
CONSTANTS
  NProc = 2
  NGuards = 3
  NAsgs = 4
  NInvs = 3
  TwoArr = TRUE
  Record = FALSE
  MaxSteps = 0
  WpMulti = 0
  RunSet = 0
  DoEmit = TRUE
  DoWp = TRUE
  DoRun = FALSE
INVARIANT WpExact
INVARIANT Consistent
INVARIANT Classified
CHECK_DEADLOCK FALSE
