SPECIFICATION Spec
CONSTANTS MaxObj = 4
 MaxHash = 1
 MaxInplace = 1
 NLeaves = 3
 Mode = "coded"
 Emit = FALSE
VIEW view
INVARIANT InstOnce
INVARIANT WellTypedInv
CHECK_DEADLOCK FALSE
