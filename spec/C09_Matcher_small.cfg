SPECIFICATION Spec
CONSTANTS Depth = 2
 MaxSize = 6
 Rich = FALSE
INVARIANT WellFormed
INVARIANT GenMatches
INVARIANT NoSVarLeft
INVARIANT PerturbedDiffers
INVARIANT PosFOMatch
INVARIANT SelfMatch
INVARIANT WitnessUnique
INVARIANT BadSeedUnmatchable
INVARIANT WitnessesMatch
INVARIANT UniverseAdequate
CHECK_DEADLOCK FALSE
