------------------------------ MODULE C14_Suggest ------------------------------
(* S-specification for C14: the contract between searching and applying a proof method.     *)
(* Abstract proof state: gaps (open goals, as proposition ids) and facts (proved props).      *)
(* A reference method maps the selected goal to a set of subgoals; Search advertises them,     *)
(* Apply replaces the goal by the subgoals that are not closed by an existing fact or          *)
(* trivially.  TLC explores all states and suggestions over a small proposition universe and   *)
(* checks the contract that the trace specification demands of the real code.                  *)
EXTENDS Naturals, FiniteSets, TLC
CONSTANTS Props, Trivial       \* Trivial \subseteq Props : closed trivially
VARIABLES gaps, facts, sug, last
vars == <<gaps, facts, sug, last>>
NoSug == [goal |-> 0, adv |-> {}, newfact |-> {}, on |-> FALSE]
Init == /\ gaps \in (SUBSET Props) \ {{}} /\ facts \in SUBSET (Props \ gaps)
        /\ sug = NoSug /\ last = [kind |-> "none"]
\* a method proposes, for a selected goal, any set of subgoals not containing the goal itself, and possibly a new fact
Search == /\ ~sug.on
          /\ \E g \in gaps : \E S \in SUBSET (Props \ {g}) : \E F \in SUBSET (Props \ (facts \cup gaps)) :
               /\ Cardinality(F) <= 1
               /\ sug' = [goal |-> g, adv |-> S, newfact |-> F, on |-> TRUE]
          /\ UNCHANGED <<gaps, facts>> /\ last' = [kind |-> "search"]
Closed(p) == p \in facts \/ p \in Trivial
Apply == /\ sug.on
         /\ LET left == { p \in sug.adv : ~Closed(p) } IN
            /\ gaps' = (gaps \ {sug.goal}) \cup left
            /\ facts' = facts \cup sug.newfact \cup (IF left = {} THEN {sug.goal} ELSE {})
            /\ last' = [kind |-> "apply", before |-> gaps, goal |-> sug.goal, adv |-> sug.adv, newfact |-> sug.newfact, facts0 |-> facts]
         /\ sug' = NoSug
Next == Search \/ Apply
Spec == Init /\ [][Next]_vars
\* ---- the contract (same clauses as C14_SuggestTrace)
NewGaps == gaps \ (last.before \ {last.goal})
GoalsAdvertised == last.kind = "apply" => NewGaps \subseteq last.adv
SolvesLeavesNone == last.kind = "apply" /\ last.adv = {} => NewGaps = {}
ClosedOnesAreProved == last.kind = "apply" => \A p \in last.adv : p \in NewGaps \/ p \in facts \/ p \in Trivial \/ p \in last.before
FactAppears == last.kind = "apply" => last.newfact \subseteq facts
=============================================================================
