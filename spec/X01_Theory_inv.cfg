SPECIFICATION Spec
CONSTANTS MaxOps = 3
 MaxObjs = 3
 Fams = {"all"}
 Record = FALSE
 EmitAll = FALSE
 ExtReadd = "replace"
 PutMode = "invalidate"
 TypeMode = "shadow"
 CopyMode = "deep1"
 AttrMode = "tuple"
INVARIANT CopyIsolation
INVARIANT CacheCoherent
INVARIANT InstalledInOrder
INVARIANT PrefixOnRaise
INVARIANT ReaddRefused
INVARIANT DeterminedByExtensions
CHECK_DEADLOCK FALSE
