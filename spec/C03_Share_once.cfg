SPECIFICATION Spec
CONSTANTS MaxObj = 4
 MaxHash = 1
 MaxInplace = 1
 NLeaves = 3
 Mode = "once"
 Emit = FALSE
VIEW view
INVARIANT InstOnce
INVARIANT WellTypedInv
INVARIANT HashFresh
CHECK_DEADLOCK FALSE
