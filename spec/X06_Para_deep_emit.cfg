SPECIFICATION Spec
CONSTANTS
  NProc = 2
  NGuards = 6
  NAsgs = 6
  NInvs = 5
  TwoArr = FALSE
  Record = FALSE
  MaxSteps = 0
  WpMulti = 0
  RunSet = 0
  DoEmit = TRUE
  DoWp = FALSE
  DoRun = FALSE
CHECK_DEADLOCK FALSE
