SPECIFICATION Spec
CONSTANTS Depth = 1
 MaxOps = 8
 Pats <- PatsSmall
 Targs <- TargsSmall
 Insts <- InstsSmall
 CmpSet <- CmpSmall
 Cmp3Set <- Cmp3Tiny
 Kinds <- KindsAll
 Record = TRUE
 EmitAll = FALSE
INVARIANT StepsLawful
INVARIANT LookLawful
INVARIANT InstsFunctional
INVARIANT ComposeLaw
INVARIANT MatcherIsReference
INVARIANT OrdersLawful
CHECK_DEADLOCK FALSE
