SPECIFICATION Spec
CONSTANTS Depth = 2
 MaxOps = 8
 Pats <- PatsSmall
 Targs <- TargsSmall
 Insts <- InstsAll
 CmpSet <- CmpSmall
 Kinds <- KindsAll
 Record = TRUE
 EmitAll = FALSE
INVARIANT StepsLawful
INVARIANT LookLawful
INVARIANT InstsFunctional
INVARIANT ComposeLaw
INVARIANT MatcherIsReference
INVARIANT OrdersLawful
CHECK_DEADLOCK FALSE
