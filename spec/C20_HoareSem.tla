---------------------------- MODULE C20_HoareSem ----------------------------
(* Variable-free part of the C20 specification: the assertion / expression language of        *)
(* imperative/expr.py and of the HOL conditions of imperative/imp.py (projected by the        *)
(* structural codec of harness/drivers/c20.py), while-programs, their execution, the          *)
(* reference weakest-precondition / VC generator, and the bounded-but-exact soundness check.  *)
(*   expressions : <<"v",x>> <<"n",k>> <<"+",a,b>> <<"-",a,b>> <<"*",a,b>> <<"neg",a>>        *)
(*   conditions  : <<"<",a,b>> <<"<=",a,b>> <<"==",a,b>> <<"!=",a,b>> <<"true">> <<"false">>  *)
(*                 <<"not",p>> <<"and",p,q>> <<"or",p,q>> <<"imp",p,q>> <<"ite",c,p,q>>       *)
(*   programs    : <<"skip">> <<"asg",x,e>> <<"seq",c,d>> <<"if",b,c,d>> <<"while",b,inv,c>>  *)
(* Every tuple starts with a string tag, so two trees are always comparable.                  *)
EXTENDS Integers, Sequences, FiniteSets, TLC

Vars == {"x", "y"}
CAP == 40000                      \* CAP * CAP < 2^31 : saturating bounds never overflow
VCap == 30                        \* executions whose values leave -VCap..VCap are not examined
Fuel == 10                        \* loop iterations per loop activation
Abs(n) == IF n < 0 THEN -n ELSE n
Sat(n) == IF n > CAP THEN CAP ELSE n
BoxOf(lo, hi) == [Vars -> lo..hi]
IntLo == -2   IntHi == 2          \* integer programs (imperative/com.py)
NatLo == 0    NatHi == 3          \* natural-number programs (imperative/imp.py)
ZeroStore == [v \in Vars |-> 0]

\* ---------------------------------------------------------------- well-formedness (totality guards)
ETags1 == {"neg"}
ETags2 == {"+", "-", "*"}
CmpTags == {"<", "<=", "==", "!="}
RECURSIVE WfE(_), WfB(_), WfC(_)
WfE(e) == CASE e[1] = "v" -> Len(e) = 2 /\ e[2] \in Vars
            [] e[1] = "n" -> Len(e) = 2 /\ e[2] \in -CAP..CAP
            [] e[1] \in ETags2 -> Len(e) = 3 /\ WfE(e[2]) /\ WfE(e[3])
            [] e[1] \in ETags1 -> Len(e) = 2 /\ WfE(e[2])
            [] OTHER -> FALSE
WfB(b) == CASE b[1] \in CmpTags -> Len(b) = 3 /\ WfE(b[2]) /\ WfE(b[3])
            [] b[1] \in {"true", "false"} -> Len(b) = 1
            [] b[1] = "not" -> Len(b) = 2 /\ WfB(b[2])
            [] b[1] \in {"and", "or", "imp"} -> Len(b) = 3 /\ WfB(b[2]) /\ WfB(b[3])
            [] b[1] = "ite" -> Len(b) = 4 /\ WfB(b[2]) /\ WfB(b[3]) /\ WfB(b[4])
            [] OTHER -> FALSE
WfC(c) == CASE c[1] = "skip" -> Len(c) = 1
            [] c[1] = "asg" -> Len(c) = 3 /\ c[2] \in Vars /\ WfE(c[3])
            [] c[1] = "seq" -> Len(c) = 3 /\ WfC(c[2]) /\ WfC(c[3])
            [] c[1] = "if" -> Len(c) = 4 /\ WfB(c[2]) /\ WfC(c[3]) /\ WfC(c[4])
            [] c[1] = "while" -> Len(c) = 4 /\ WfB(c[2]) /\ WfB(c[3]) /\ WfC(c[4])
            [] OTHER -> FALSE
\* fragment of the natural-number programs: no subtraction (truncated minus is not modelled)
RECURSIVE NatE(_), NatB(_), NatC(_)
NatE(e) == CASE e[1] \in {"v"} -> TRUE [] e[1] = "n" -> e[2] >= 0
             [] e[1] \in {"+", "*"} -> NatE(e[2]) /\ NatE(e[3]) [] OTHER -> FALSE
NatB(b) == CASE b[1] \in CmpTags -> NatE(b[2]) /\ NatE(b[3])
             [] b[1] \in {"true", "false"} -> TRUE
             [] b[1] = "not" -> NatB(b[2])
             [] b[1] \in {"and", "or", "imp"} -> NatB(b[2]) /\ NatB(b[3])
             [] b[1] = "ite" -> NatB(b[2]) /\ NatB(b[3]) /\ NatB(b[4])
NatC(c) == CASE c[1] = "skip" -> TRUE [] c[1] = "asg" -> NatE(c[3])
             [] c[1] = "seq" -> NatC(c[2]) /\ NatC(c[3])
             [] c[1] = "if" -> NatB(c[2]) /\ NatC(c[3]) /\ NatC(c[4])
             [] c[1] = "while" -> NatB(c[2]) /\ NatB(c[3]) /\ NatC(c[4])

\* ---------------------------------------------------------------- magnitude bounds (no TLC overflow)
\* BoundE(e, B) >= |value of e| on every store with |variables| <= B, computed with saturation at CAP
RECURSIVE BoundE(_, _), BoundB(_, _), BoundC(_, _)
BoundE(e, B) == CASE e[1] = "v" -> B
                  [] e[1] = "n" -> Sat(Abs(e[2]))
                  [] e[1] \in {"+", "-"} -> Sat(BoundE(e[2], B) + BoundE(e[3], B))
                  [] e[1] = "*" -> Sat(BoundE(e[2], B) * BoundE(e[3], B))
                  [] e[1] = "neg" -> BoundE(e[2], B)
Max2(a, b) == IF a < b THEN b ELSE a
BoundB(b, B) == CASE b[1] \in CmpTags -> Max2(BoundE(b[2], B), BoundE(b[3], B))
                  [] b[1] \in {"true", "false"} -> 0
                  [] b[1] = "not" -> BoundB(b[2], B)
                  [] b[1] \in {"and", "or", "imp"} -> Max2(BoundB(b[2], B), BoundB(b[3], B))
                  [] b[1] = "ite" -> Max2(BoundB(b[2], B), Max2(BoundB(b[3], B), BoundB(b[4], B)))
BoundC(c, B) == CASE c[1] = "skip" -> 0
                  [] c[1] = "asg" -> BoundE(c[3], B)
                  [] c[1] = "seq" -> Max2(BoundC(c[2], B), BoundC(c[3], B))
                  [] c[1] = "if" -> Max2(BoundB(c[2], B), Max2(BoundC(c[3], B), BoundC(c[4], B)))
                  [] c[1] = "while" -> Max2(BoundB(c[2], B), Max2(BoundB(c[3], B), BoundC(c[4], B)))
SafeB(b, B) == BoundB(b, B) < CAP
SafeC(c, B) == BoundC(c, B) < CAP

\* ---------------------------------------------------------------- meaning
RECURSIVE EvalE(_, _), EvalB(_, _), SubE(_, _, _), SubB(_, _, _)
EvalE(e, s) == CASE e[1] = "v" -> s[e[2]]
                 [] e[1] = "n" -> e[2]
                 [] e[1] = "+" -> EvalE(e[2], s) + EvalE(e[3], s)
                 [] e[1] = "-" -> EvalE(e[2], s) - EvalE(e[3], s)
                 [] e[1] = "*" -> EvalE(e[2], s) * EvalE(e[3], s)
                 [] e[1] = "neg" -> 0 - EvalE(e[2], s)
EvalB(b, s) == CASE b[1] = "<" -> EvalE(b[2], s) < EvalE(b[3], s)
                 [] b[1] = "<=" -> EvalE(b[2], s) <= EvalE(b[3], s)
                 [] b[1] = "==" -> EvalE(b[2], s) = EvalE(b[3], s)
                 [] b[1] = "!=" -> EvalE(b[2], s) # EvalE(b[3], s)
                 [] b[1] = "true" -> TRUE
                 [] b[1] = "false" -> FALSE
                 [] b[1] = "not" -> ~EvalB(b[2], s)
                 [] b[1] = "and" -> EvalB(b[2], s) /\ EvalB(b[3], s)
                 [] b[1] = "or" -> EvalB(b[2], s) \/ EvalB(b[3], s)
                 [] b[1] = "imp" -> EvalB(b[2], s) => EvalB(b[3], s)
                 [] b[1] = "ite" -> IF EvalB(b[2], s) THEN EvalB(b[3], s) ELSE EvalB(b[4], s)
SubE(e, x, r) == CASE e[1] = "v" -> IF e[2] = x THEN r ELSE e
                   [] e[1] = "n" -> e
                   [] e[1] = "neg" -> <<"neg", SubE(e[2], x, r)>>
                   [] OTHER -> <<e[1], SubE(e[2], x, r), SubE(e[3], x, r)>>
SubB(b, x, r) == CASE b[1] \in CmpTags -> <<b[1], SubE(b[2], x, r), SubE(b[3], x, r)>>
                   [] b[1] \in {"true", "false"} -> b
                   [] b[1] = "not" -> <<"not", SubB(b[2], x, r)>>
                   [] b[1] \in {"and", "or", "imp"} -> <<b[1], SubB(b[2], x, r), SubB(b[3], x, r)>>
                   [] b[1] = "ite" -> <<"ite", SubB(b[2], x, r), SubB(b[3], x, r), SubB(b[4], x, r)>>
TT(b, box) == { s \in box : EvalB(b, s) }          \* the meaning of a condition on the box

\* ---------------------------------------------------------------- execution (big-step, with fuel and value cap)
\* <<"ok", store>> | <<"div">> (fuel exhausted) | <<"big">> (a value left -VCap..VCap)
InCap(s) == \A v \in Vars : Abs(s[v]) <= VCap
RECURSIVE Exec(_, _, _)
Exec(c, s, fuel) ==
  IF fuel = 0 THEN <<"div">> ELSE
  CASE c[1] = "skip" -> <<"ok", s>>
    [] c[1] = "asg" -> LET s2 == [s EXCEPT ![c[2]] = EvalE(c[3], s)] IN IF InCap(s2) THEN <<"ok", s2>> ELSE <<"big">>
    [] c[1] = "seq" -> LET r1 == Exec(c[2], s, fuel) IN IF r1[1] # "ok" THEN r1 ELSE Exec(c[3], r1[2], fuel)
    [] c[1] = "if" -> IF EvalB(c[2], s) THEN Exec(c[3], s, fuel) ELSE Exec(c[4], s, fuel)
    [] c[1] = "while" -> IF ~EvalB(c[2], s) THEN <<"ok", s>> ELSE
                         LET r1 == Exec(c[4], s, fuel) IN IF r1[1] # "ok" THEN r1 ELSE Exec(c, r1[2], fuel - 1)
Run(c, s) == Exec(c, s, Fuel)

\* ---------------------------------------------------------------- reference VC generator (shape of imperative/com.py)
RECURSIVE WPV(_, _)
WPV(c, Q) ==
  CASE c[1] = "skip" -> <<Q, {}>>
    [] c[1] = "asg" -> <<SubB(Q, c[2], c[3]), {}>>
    [] c[1] = "seq" -> LET r2 == WPV(c[3], Q) r1 == WPV(c[2], r2[1]) IN <<r1[1], r1[2] \cup r2[2]>>
    [] c[1] = "if" -> LET r1 == WPV(c[3], Q) r2 == WPV(c[4], Q) IN << <<"ite", c[2], r1[1], r2[1]>>, r1[2] \cup r2[2] >>
    [] c[1] = "while" -> LET rb == WPV(c[4], c[3]) IN
          << c[3], rb[2] \cup { <<"imp", <<"and", c[3], c[2]>>, rb[1]>>, <<"imp", <<"and", c[3], <<"not", c[2]>>>>, Q>> } >>
RefVCs(P, c, Q) == LET r == WPV(c, Q) IN r[2] \cup { <<"imp", P, r[1]>> }

\* ---------------------------------------------------------------- the box conjunct and guardedness
\* A condition  A --> B  whose antecedent has conjuncts bounding every variable inside lo..hi is true on
\* every store outside the box: it holds on ALL stores iff it holds on the box (design decision (i)).
RECURSIVE Conj(_), Closed(_)
Conj(a) == IF a[1] = "and" THEN Conj(a[2]) \cup Conj(a[3]) ELSE {a}
Closed(e) == CASE e[1] = "v" -> FALSE [] e[1] = "n" -> TRUE [] e[1] = "neg" -> Closed(e[2]) [] OTHER -> Closed(e[2]) /\ Closed(e[3])
LowerOK(cs, x, lo) == \E t \in cs : t[1] = "<=" /\ t[3] = <<"v", x>> /\ Closed(t[2]) /\ EvalE(t[2], ZeroStore) >= lo
UpperOK(cs, x, hi) == \E t \in cs : t[1] = "<=" /\ t[2] = <<"v", x>> /\ Closed(t[3]) /\ EvalE(t[3], ZeroStore) <= hi
\* natural-number stores are >= 0 by typing: no lower conjunct needed there
Guarded(vc, lo, hi, needLower) ==
  vc[1] = "imp" /\ LET cs == Conj(vc[2]) IN \A x \in Vars : (needLower => LowerOK(cs, x, lo)) /\ UpperOK(cs, x, hi)
Taut(vc) == vc[1] = "imp" /\ vc[2] = vc[3]
\* the box conjunct is a right-nested chain of atoms (so that printing it without brackets is faithful), a negative
\* bound is written as unary minus applied to a literal (what the condition parser produces for "-2")
Lit(k) == IF k < 0 THEN <<"neg", <<"n", 0 - k>>>> ELSE <<"n", k>>
BoxAtoms(lo, hi, needLower) ==
  LET at(x) == IF needLower THEN << <<"<=", Lit(lo), <<"v", x>>>>, <<"<=", <<"v", x>>, Lit(hi)>> >> ELSE << <<"<=", <<"v", x>>, Lit(hi)>> >>
  IN at("x") \o at("y")
RECURSIVE AndChain(_)
AndChain(sq) == IF Len(sq) = 1 THEN sq[1] ELSE <<"and", sq[1], AndChain(Tail(sq))>>
BoxCond(lo, hi, needLower) == AndChain(BoxAtoms(lo, hi, needLower))
BoxedWith(lo, hi, needLower, a) == AndChain(BoxAtoms(lo, hi, needLower) \o <<a>>)

\* meaning-preserving structural normal form, used only to skip evaluations when two conditions are the same up to
\* it:  a != b  is  ~(a == b)  (the HOL form has no disequality);  & and | are re-associated to the right
RECURSIVE NormB(_), FlatOp(_, _), OpChain(_, _)
FlatOp(op, t) == IF t[1] = op THEN <<t[2]>> \o FlatOp(op, t[3]) ELSE <<t>>
OpChain(op, sq) == IF Len(sq) = 1 THEN sq[1] ELSE <<op, sq[1], OpChain(op, Tail(sq))>>
NormB(b) == CASE b[1] = "!=" -> <<"not", <<"==", b[2], b[3]>>>>
              [] b[1] \in CmpTags \/ b[1] \in {"true", "false"} -> b
              [] b[1] = "not" -> <<"not", NormB(b[2])>>
              [] b[1] \in {"and", "or"} -> OpChain(b[1], FlatOp(b[1], NormB(b[2])) \o FlatOp(b[1], NormB(b[3])))
              [] b[1] = "imp" -> <<b[1], NormB(b[2]), NormB(b[3])>>
              [] b[1] = "ite" -> <<"ite", NormB(b[2]), NormB(b[3]), NormB(b[4])>>
SameMeaning(a, b, box) == NormB(a) = NormB(b) \/ \A s \in box : EvalB(a, s) = EvalB(b, s)

\* ---------------------------------------------------------------- the soundness check
\* vcs : a sequence of conditions.  Decided: each one is guarded (holds everywhere iff on the box), a
\* syntactic tautology, or false at a store of the box (then "all hold" is false whatever happens outside).
HoldsOn(vc, box) == \A s \in box : EvalB(vc, s)
AllHold(vcs, box) == \A i \in 1..Len(vcs) : HoldsOn(vcs[i], box)
Decided(vcs, box, lo, hi, needLower) ==
  \A i \in 1..Len(vcs) : Guarded(vcs[i], lo, hi, needLower) \/ Taut(vcs[i]) \/ ~HoldsOn(vcs[i], box)
Terminating(P, c, box) == { s \in box : EvalB(P, s) /\ Run(c, s)[1] = "ok" }
\* a terminating execution from the precondition that ends outside the postcondition
CounterEx(P, c, Q, box) == \E s \in Terminating(P, c, box) : ~EvalB(Q, Run(c, s)[2])
=============================================================================
