SPECIFICATION Spec
CONSTANTS LeafVals = {0, 1, 2, 3, 7}
 RhsVals = {0, 1, 2, 3, 7}
 FullEq = TRUE
 Guarded = TRUE
INVARIANTS TypeOK ValTotal Sound EvAgrees Laws BigAgrees
CHECK_DEADLOCK FALSE
