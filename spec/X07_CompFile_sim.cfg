SPECIFICATION Spec
CONSTANTS MaxOps = 7
 MaxItems = 3
 MaxSteps = 3
 AsCoded = FALSE
 Record = TRUE
 EmitAll = FALSE
INVARIANT TreeShape
INVARIANT EditExact
INVARIANT FinishedExact
CHECK_DEADLOCK FALSE
